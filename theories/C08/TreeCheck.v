(* C08 -- the disk of a case is a tree: the decision procedure and its
   reflection.
   [Model.tree under d] (no listed path lies below a listed path) is the
   hypothesis of the disk theorems about a failing roll-back
   (C08_rollback_fails_only_after_two_failures and its _in_the_suite
   corollary).  [Model.treeb] decides it, [Model.distinct_keysb] decides that
   no path is listed twice, and [Model.run_case] -- what every shard of the
   correspondence suite evaluates -- answers "mismatch" on a case whose
   [before] disk fails either test.  Lemmas only; the final statement is
   C08_accepted_case_disk_is_a_tree in Property.v.
   No model run is unfolded or computed here: [run_case] is split on
   [case_before_ok] before anything else is looked at. *)
From Coq Require Import List NArith Bool.
From Verif Require Import C08.Model C08.Proofs.
Import ListNotations.

Section TreeCheck.
  Context {B : Type}.
  Variable under : path -> path -> bool.

  Lemma lookup_listed (d : disk B) p : lookup p d <> None <-> In p (map fst d).
  Proof.
    split.
    - intro H. destruct (in_dec path_eq_dec p (map fst d)) as [I|I]; [exact I|].
      exfalso; apply H. apply lookup_None_keys; exact I.
    - intros I H. apply lookup_None_keys in H. contradiction.
  Qed.

  (* reflection: the boolean is the Prop of the theorems *)
  Lemma treeb_spec (d : disk B) : treeb under d = true <-> tree under d.
  Proof.
    unfold treeb, tree. split.
    - intros H p q Hp Hq.
      apply lookup_listed, in_map_iff in Hp. destruct Hp as [[p' c] [Ep Ip]].
      apply lookup_listed, in_map_iff in Hq. destruct Hq as [[q' c'] [Eq Iq]].
      cbn in Ep, Eq; subst p' q'.
      rewrite forallb_forall in H. specialize (H _ Ip).
      rewrite forallb_forall in H. specialize (H _ Iq).
      cbn in H. apply negb_true_iff in H. exact H.
    - intro H. apply forallb_forall. intros e Ie. apply forallb_forall. intros e' Ie'.
      apply negb_true_iff. apply H; apply lookup_listed, in_map; assumption.
  Qed.

  Lemma treeb_false (d : disk B) : treeb under d = false <-> ~ tree under d.
  Proof.
    split.
    - intros H T. apply treeb_spec in T. congruence.
    - intro H. destruct (treeb under d) eqn:E; [|reflexivity].
      exfalso; apply H, treeb_spec; exact E.
  Qed.

  Lemma has_key_listed (d : disk B) p : has_key B p d = true <-> In p (map fst d).
  Proof.
    unfold has_key. rewrite <- lookup_listed. destruct (lookup p d); split; congruence.
  Qed.

  Lemma distinct_keysb_spec (d : disk B) : distinct_keysb d = true <-> NoDup (map fst d).
  Proof.
    induction d as [|e r IH]; cbn [distinct_keysb map].
    - split; [constructor|reflexivity].
    - rewrite andb_true_iff, negb_true_iff, IH. split.
      + intros [H N]. constructor; [|exact N]. intro I. apply has_key_listed in I. congruence.
      + intro N. inversion N as [|x l H N']; subst. split; [|exact N'].
        destruct (has_key B (fst e) r) eqn:E; [|reflexivity].
        apply has_key_listed in E. contradiction.
  Qed.
End TreeCheck.

(* ---- the suite ---- *)

Lemma run_case_accepts_only_ok k : run_case k = None -> case_before_ok k = true.
Proof.
  unfold run_case. destruct (case_before_ok k); [reflexivity|discriminate].
Qed.

Lemma run_case_rejects k : case_before_ok k = false -> run_case k = Some (3%N, [], [], []).
Proof. unfold run_case. intros ->. reflexivity. Qed.

(* on an accepted disk, [run_case] is the comparison itself *)
Lemma run_case_on_ok k : case_before_ok k = true -> run_case k = run_case_on_tree k.
Proof. unfold run_case. intros ->. reflexivity. Qed.

Lemma case_before_ok_spec hd before payload bads fault hints obs obs_spans pairs :
  case_before_ok (hd, before, payload, bads, fault, hints, obs, obs_spans, pairs) = true <->
  NoDup (map fst (c_disk before)) /\ tree (c_under pairs) (c_disk before).
Proof.
  unfold case_before_ok. rewrite andb_true_iff, distinct_keysb_spec, treeb_spec. tauto.
Qed.
