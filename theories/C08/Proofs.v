(* C08 -- lemmas about the update model. *)
From Coq Require Import List NArith Bool Arith Permutation Lia.
From Verif Require Import C08.Model.
Import ListNotations.

(* ---------------------------------------------------------------- paths *)

Lemma area_eqb_eq a b : area_eqb a b = true <-> a = b.
Proof. destruct a, b; cbn; split; intro H; try reflexivity; discriminate. Qed.

Lemma path_eqb_eq p q : path_eqb p q = true <-> p = q.
Proof.
  destruct p as [a n], q as [b m]; unfold path_eqb; cbn [fst snd].
  rewrite andb_true_iff, area_eqb_eq, N.eqb_eq. split.
  - intros [-> ->]; reflexivity.
  - intro H; inversion H; auto.
Qed.

Lemma path_eqb_refl p : path_eqb p p = true.
Proof. apply path_eqb_eq; reflexivity. Qed.

Lemma path_eqb_neq p q : path_eqb p q = false <-> p <> q.
Proof.
  split.
  - intros H E. apply path_eqb_eq in E. congruence.
  - intro H. destruct (path_eqb p q) eqn:E; [apply path_eqb_eq in E; contradiction|reflexivity].
Qed.

Lemma path_eqb_sym p q : path_eqb p q = path_eqb q p.
Proof.
  destruct (path_eqb p q) eqn:E.
  - apply path_eqb_eq in E; subst; symmetry; apply path_eqb_refl.
  - symmetry; apply path_eqb_neq; apply path_eqb_neq in E; congruence.
Qed.

Lemma path_eq_dec (p q : path) : {p = q} + {p <> q}.
Proof.
  destruct (path_eqb p q) eqn:E; [left; apply path_eqb_eq; exact E|right; apply path_eqb_neq; exact E].
Qed.

(* ---------------------------------------------------------------- arrange *)

Lemma filter_partition_perm {A} (f : A -> bool) (l : list A) :
  Permutation l (filter f l ++ filter (fun x => negb (f x)) l).
Proof.
  induction l as [|x l IH]; cbn; [constructor|].
  destruct (f x); cbn.
  - constructor; exact IH.
  - apply Permutation_cons_app; exact IH.
Qed.

Lemma arrange_perm {A} (key : A -> path) hint : forall items,
  Permutation items (arrange key hint items).
Proof.
  induction hint as [|p h IH]; intro items; cbn; [apply Permutation_refl|].
  eapply Permutation_trans; [apply (filter_partition_perm (fun x => path_eqb p (key x)))|].
  apply Permutation_app_head. apply IH.
Qed.

(* ---------------------------------------------------------------- disks *)

Section Disk.
  Context {B : Type}.
  Notation disk := (disk B).

  Definition deq (a b : disk) : Prop := forall p, lookup p a = lookup p b.

  Lemma deq_refl a : deq a a. Proof. intro; reflexivity. Qed.
  Lemma deq_sym a b : deq a b -> deq b a. Proof. intros H p; symmetry; apply H. Qed.
  Lemma deq_trans a b c : deq a b -> deq b c -> deq a c.
  Proof. intros H1 H2 p; rewrite H1; apply H2. Qed.

  Lemma lookup_filter_key (f : path -> bool) (d : disk) p :
    lookup p (filter (fun e => f (fst e)) d) = if f p then lookup p d else None.
  Proof.
    induction d as [|[q c] r IH]; cbn; [destruct (f p); reflexivity|].
    destruct (f q) eqn:Fq; cbn.
    - destruct (path_eqb p q) eqn:E.
      + apply path_eqb_eq in E; subst. rewrite Fq; reflexivity.
      + exact IH.
    - destruct (path_eqb p q) eqn:E.
      + apply path_eqb_eq in E; subst. rewrite Fq in IH |- *. exact IH.
      + exact IH.
  Qed.

  Lemma lookup_del (d : disk) p q :
    lookup q (del p d) = if path_eqb p q then None else lookup q d.
  Proof.
    unfold del. rewrite (lookup_filter_key (fun k => negb (path_eqb p k))).
    destruct (path_eqb p q); reflexivity.
  Qed.

  Lemma lookup_set (d : disk) p c q :
    lookup q (set p c d) = if path_eqb q p then Some c else lookup q d.
  Proof.
    unfold set; cbn. destruct (path_eqb q p) eqn:E; [reflexivity|].
    rewrite lookup_del, path_eqb_sym, E; reflexivity.
  Qed.

  Lemma set_ext (a b : disk) p c : deq a b -> deq (set p c a) (set p c b).
  Proof. intros H q. rewrite !lookup_set. destruct (path_eqb q p); [reflexivity|apply H]. Qed.

  Lemma del_ext (a b : disk) p : deq a b -> deq (del p a) (del p b).
  Proof. intros H q. rewrite !lookup_del. destruct (path_eqb p q); [reflexivity|apply H]. Qed.

  Lemma apply_list_ext (l : disk) : forall a b, deq a b -> deq (apply_list B l a) (apply_list B l b).
  Proof.
    induction l as [|[p c] l IH]; intros a b H; cbn; [exact H|].
    apply IH. apply set_ext; exact H.
  Qed.

  Lemma In_del_keys (d : disk) p q : In q (map fst (del p d)) -> In q (map fst d) /\ q <> p.
  Proof.
    unfold del. rewrite !in_map_iff. intros [e [<- He]]. apply filter_In in He as [He Hn].
    split; [exists e; auto|]. intro E. apply negb_true_iff, path_eqb_neq in Hn. congruence.
  Qed.

  Lemma NoDup_keys_filter (f : path * B -> bool) (d : disk) :
    NoDup (map fst d) -> NoDup (map fst (filter f d)).
  Proof.
    induction d as [|e r IH]; cbn; intro H; [constructor|].
    inversion H as [|? ? Hn Hr]; subst. destruct (f e); cbn; [|apply IH; exact Hr].
    constructor; [|apply IH; exact Hr].
    intro Hin. apply Hn. apply in_map_iff in Hin as [e' [E He']]. apply filter_In in He' as [He' _].
    apply in_map_iff. exists e'; auto.
  Qed.

  Lemma lookup_normalize (d : disk) p : lookup p (normalize d) = lookup p d.
  Proof.
    induction d as [|[q c] r IH]; cbn; [reflexivity|].
    destruct (path_eqb p q) eqn:E; [reflexivity|].
    rewrite lookup_del, path_eqb_sym, E. exact IH.
  Qed.

  Lemma NoDup_normalize (d : disk) : NoDup (map fst (normalize d)).
  Proof.
    induction d as [|[q c] r IH]; cbn; [constructor|].
    constructor.
    - intro H. apply In_del_keys in H as [_ H]. congruence.
    - apply NoDup_keys_filter. exact IH.
  Qed.

  Lemma lookup_snapshot (d : disk) p :
    lookup p (snapshot d) = if covered p then lookup p d else None.
  Proof.
    unfold snapshot. rewrite (lookup_filter_key covered), lookup_normalize. reflexivity.
  Qed.

  Lemma NoDup_snapshot (d : disk) : NoDup (map fst (snapshot d)).
  Proof. apply NoDup_keys_filter, NoDup_normalize. Qed.

  Lemma lookup_In (d : disk) p c : lookup p d = Some c -> In (p, c) d.
  Proof.
    induction d as [|[q c'] r IH]; cbn; [discriminate|].
    destruct (path_eqb p q) eqn:E.
    - apply path_eqb_eq in E; subst. intro H; inversion H; auto.
    - intro H; right; auto.
  Qed.

  Lemma lookup_None_keys (d : disk) p : lookup p d = None <-> ~ In p (map fst d).
  Proof.
    induction d as [|[q c'] r IH]; cbn; [tauto|].
    destruct (path_eqb p q) eqn:E.
    - apply path_eqb_eq in E; subst. split; [discriminate|]. intro H; exfalso; apply H; auto.
    - apply path_eqb_neq in E. rewrite IH. split; [intros H [H1|H1]; [congruence|auto]|tauto].
  Qed.

  Lemma In_lookup (d : disk) p c : NoDup (map fst d) -> In (p, c) d -> lookup p d = Some c.
  Proof.
    induction d as [|[q c'] r IH]; cbn; [tauto|]. intros Hn [H|H].
    - inversion H; subst. rewrite path_eqb_refl; reflexivity.
    - inversion Hn as [|? ? Hq Hr]; subst.
      destruct (path_eqb p q) eqn:E; [|apply IH; assumption].
      apply path_eqb_eq in E; subst. exfalso; apply Hq. apply in_map_iff. exists (q, c); auto.
  Qed.

  Lemma lookup_filter_nodup (f : path * B -> bool) (d : disk) p :
    NoDup (map fst d) ->
    lookup p (filter f d) =
    match lookup p d with Some c => if f (p, c) then Some c else None | None => None end.
  Proof.
    induction d as [|[q c] r IH]; cbn; intro Hn; [reflexivity|].
    inversion Hn as [|? ? Hq Hr]; subst.
    destruct (path_eqb p q) eqn:E.
    - apply path_eqb_eq in E; subst. destruct (f (q, c)); cbn.
      + rewrite path_eqb_refl; reflexivity.
      + rewrite IH by exact Hr.
        assert (lookup q r = None) as -> by (apply lookup_None_keys; exact Hq). reflexivity.
    - destruct (f (q, c)); cbn; [rewrite E|]; apply IH; exact Hr.
  Qed.

  Lemma lookup_perm (a b : disk) p :
    Permutation a b -> NoDup (map fst a) -> lookup p a = lookup p b.
  Proof.
    intros HP Hn.
    assert (Hnb : NoDup (map fst b)) by (eapply Permutation_NoDup; [apply Permutation_map; exact HP|exact Hn]).
    destruct (lookup p a) as [c|] eqn:Ea.
    - symmetry. apply In_lookup; [exact Hnb|]. eapply Permutation_in; [exact HP|]. apply lookup_In; exact Ea.
    - symmetry. apply lookup_None_keys. intro H. apply lookup_None_keys in Ea. apply Ea.
      eapply Permutation_in; [apply Permutation_sym, Permutation_map; exact HP|exact H].
  Qed.

  (* writing a list of files with distinct names: each named file gets its
     content, every other file stays *)
  Lemma lookup_apply_list (l : disk) : forall d p,
    NoDup (map fst l) ->
    lookup p (apply_list B l d) = match lookup p l with Some c => Some c | None => lookup p d end.
  Proof.
    unfold apply_list.
    induction l as [|[q c] l IH]; intros d p Hn; cbn [fold_left fst snd lookup]; [reflexivity|].
    inversion Hn as [|? ? Hq Hr]; subst. rewrite IH by exact Hr.
    destruct (path_eqb p q) eqn:E.
    - apply path_eqb_eq in E; subst.
      assert (lookup q l = None) as -> by (apply lookup_None_keys; exact Hq).
      rewrite lookup_set, path_eqb_refl; reflexivity.
    - destruct (lookup p l); [reflexivity|]. rewrite lookup_set, E; reflexivity.
  Qed.

  Lemma lookup_apply_list_other (l : disk) : forall d p,
    ~ In p (map fst l) -> lookup p (apply_list B l d) = lookup p d.
  Proof.
    unfold apply_list.
    induction l as [|[q c] l IH]; intros d p Hn; cbn [fold_left fst snd]; [reflexivity|].
    cbn in Hn. rewrite IH by tauto. rewrite lookup_set.
    destruct (path_eqb p q) eqn:E; [apply path_eqb_eq in E; subst; tauto|reflexivity].
  Qed.

End Disk.

(* ---------------------------------------------------------------- the fault oracle *)

Lemma tick_quiet hook : tick hook NoFault = (false, NoFault).
Proof. reflexivity. Qed.

Lemma tick_fired hook f f' : tick hook f = (true, f') -> f' = NoFault.
Proof.
  destruct f as [|[|n]|[|k]]; cbn; try destruct hook; intro H; inversion H; reflexivity.
Qed.

(* ---------------------------------------------------------------- steps *)

Section Steps.
  Context {B D : Type}.
  Variable digest : B -> D.
  Variable D_eqb : D -> D -> bool.
  Variable empty garbage : B.
  Variable valid metrics_ok : disk B -> bool.

  Notation st := (st B).
  Notation prim := (prim B).
  Notation p_remove := (p_remove B).
  Notation store := (store B empty garbage).
  Notation store_all := (store_all B empty garbage).
  Notation remove_all := (remove_all B).
  Notation restore := (restore B D digest D_eqb empty garbage).
  Notation clean_all := (clean_all B).
  Notation initialize_streams := (initialize_streams B).
  Notation reload := (reload B valid metrics_ok).
  Notation rollback := (rollback B D digest D_eqb empty garbage valid metrics_ok).
  Notation update := (update B D digest D_eqb empty garbage valid metrics_ok).
  Notation save_all := (save_all B empty garbage).

  (* a file-system operation: never touches the engine, every arrival during
     it meets the current engine, it can only fail by the oracle, and once the
     oracle has struck it is silent *)
  Definition fsop (s s' : st) (ok : bool) : Prop :=
    eng s' = eng s /\
    (exists extra, seen s' = extra ++ seen s /\ Forall (fun e => e = eng s) extra) /\
    (flt s = NoFault -> ok = true /\ flt s' = NoFault) /\
    (ok = false -> flt s' = NoFault).

  Lemma fsop_refl s : fsop s s true.
  Proof.
    refine (conj eq_refl (conj _ (conj _ _))).
    - exists []; split; [reflexivity|constructor].
    - intro Q; split; [reflexivity|exact Q].
    - discriminate.
  Qed.

  Lemma fsop_trans s s1 s2 ok : fsop s s1 true -> fsop s1 s2 ok -> fsop s s2 ok.
  Proof.
    intros (E1 & (x1 & S1 & F1) & Q1 & _) (E2 & (x2 & S2 & F2) & Q2 & N2).
    refine (conj _ (conj _ (conj _ N2))).
    - congruence.
    - exists (x2 ++ x1). split; [rewrite S2, S1, app_assoc; reflexivity|].
      apply Forall_app; split; [|exact F1].
      eapply Forall_impl; [|exact F2]. cbn; intros e ->; exact E1.
    - intro Q. apply Q2, Q1; exact Q.
  Qed.

  (* an operation whose error is ignored *)
  Lemma fsop_ignore s s1 s2 ok : fsop s s1 true -> fsop s1 s2 ok -> fsop s s2 true.
  Proof.
    intros F1 F2. destruct ok; [eapply fsop_trans; eassumption|].
    destruct F1 as (E1 & (x1 & S1 & A1) & Q1 & _), F2 as (E2 & (x2 & S2 & A2) & Q2 & N2).
    refine (conj _ (conj _ (conj _ _))).
    - congruence.
    - exists (x2 ++ x1). split; [rewrite S2, S1, app_assoc; reflexivity|].
      apply Forall_app; split; [|exact A1].
      eapply Forall_impl; [|exact A2]. cbn; intros e ->; exact E1.
    - intros _. split; [reflexivity|apply N2; reflexivity].
    - discriminate.
  Qed.

  Lemma fsop_with_disk s s' ok f : fsop s s' ok -> fsop s (with_disk B f s') ok.
  Proof. intros (E & X & Q & N). exact (conj E (conj X (conj Q N))). Qed.

  Lemma fsop_with_disk_l s s' ok f : fsop (with_disk B f s) s' ok -> fsop s s' ok.
  Proof. intros (E & X & Q & N). exact (conj E (conj X (conj Q N))). Qed.

  Lemma prim_spec hook s fired s1 :
    prim hook s = (fired, s1) -> dsk s1 = dsk s /\ fsop s s1 (negb fired).
  Proof.
    unfold Model.prim. destruct (tick hook (flt s)) as [fr f'] eqn:T. intro H; inversion H; subst; clear H.
    split; [reflexivity|]. refine (conj eq_refl (conj _ (conj _ _))); cbn [seen flt eng].
    - exists [eng s]; split; [reflexivity|repeat constructor].
    - intro Q; rewrite Q in T; cbn in T; inversion T; split; reflexivity.
    - intro Hf. apply negb_false_iff in Hf; subst. eapply tick_fired; exact T.
  Qed.

  Lemma p_remove_spec hook p s ok s' :
    p_remove hook p s = (ok, s') ->
    fsop s s' ok /\ (ok = true -> dsk s' = del p (dsk s)) /\ (ok = false -> dsk s' = dsk s).
  Proof.
    unfold p_remove. destruct (prim hook s) as [fired s1] eqn:P.
    apply prim_spec in P as [Hd Hf]. destruct fired; intro H; inversion H; subst; clear H.
    - split; [exact Hf|]. split; [discriminate|auto].
    - split; [apply fsop_with_disk; exact Hf|]. split; [cbn; congruence|discriminate].
  Qed.

  Lemma store_spec p c s ok s' :
    store p c s = (ok, s') ->
    fsop s s' ok /\
    (ok = true -> deq (dsk s') (set p c (dsk s))) /\
    (forall q, q <> p -> lookup q (dsk s') = lookup q (dsk s)).
  Proof.
    unfold Model.store.
    destruct (prim true s) as [f0 s0] eqn:P0. apply prim_spec in P0 as [D0 F0].
    destruct f0; [intro H; inversion H; subst; split; [exact F0|split; [discriminate|intros; congruence]]|].
    destruct (p_remove true p s0) as [okr s1] eqn:P1. apply p_remove_spec in P1 as (F1 & R1t & R1f).
    assert (F01 : fsop s s1 true /\ forall q, q <> p -> lookup q (dsk s1) = lookup q (dsk s)).
    { split; [eapply fsop_ignore; eassumption|]. destruct okr.
      - intros q Hq. rewrite R1t, lookup_del by reflexivity.
        rewrite D0. destruct (path_eqb p q) eqn:E; [apply path_eqb_eq in E; congruence|reflexivity].
      - intros q _. rewrite R1f, D0 by reflexivity. reflexivity. }
    destruct F01 as [F01 K1].
    destruct (prim false s1) as [f2 s2] eqn:P2. apply prim_spec in P2 as [D2 F2].
    destruct f2.
    { intro H; inversion H; subst. split; [eapply fsop_trans; eassumption|].
      split; [discriminate|]. intros q Hq. rewrite D2. auto. }
    destruct (prim false s2) as [f3 s3] eqn:P3. apply prim_spec in P3 as [D3 F3].
    destruct f3.
    { intro H; inversion H; subst. split; [eapply fsop_trans; [|eassumption]; eapply fsop_trans; eassumption|].
      split; [discriminate|]. intros q Hq. rewrite D3, D2. auto. }
    destruct (prim false (with_disk B (set p empty) s3)) as [f4 s4] eqn:P4.
    apply prim_spec in P4 as [D4 F4]. apply fsop_with_disk_l in F4.
    assert (F04 : fsop s s4 (negb f4)).
    { eapply fsop_trans; [|exact F4]. eapply fsop_trans; [|exact F3]. eapply fsop_trans; eassumption. }
    destruct f4; intro H; inversion H; subst; clear H.
    - split; [apply fsop_with_disk; exact F04|]. split; [discriminate|].
      intros q Hq. cbn [dsk with_disk]. rewrite lookup_set.
      destruct (path_eqb q p) eqn:E; [apply path_eqb_eq in E; congruence|].
      rewrite D4; cbn [dsk with_disk]. rewrite lookup_set, E, D3, D2. auto.
    - split; [apply fsop_with_disk; exact F04|]. split.
      + intros _ q. cbn [dsk with_disk]. rewrite !lookup_set.
        destruct (path_eqb q p) eqn:E; [reflexivity|].
        rewrite D4; cbn [dsk with_disk]. rewrite lookup_set, E, D3, D2. apply K1. apply path_eqb_neq; exact E.
      + intros q Hq. cbn [dsk with_disk]. rewrite lookup_set.
        destruct (path_eqb q p) eqn:E; [apply path_eqb_eq in E; congruence|].
        rewrite D4; cbn [dsk with_disk]. rewrite lookup_set, E, D3, D2. auto.
  Qed.

  Lemma store_all_spec l : forall s ok s',
    store_all l s = (ok, s') ->
    fsop s s' ok /\
    (ok = true -> deq (dsk s') (apply_list B l (dsk s))) /\
    (forall q, ~ In q (map fst l) -> lookup q (dsk s') = lookup q (dsk s)).
  Proof.
    induction l as [|[p c] l IH]; intros s ok s'; cbn.
    - intro H; inversion H; subst. split; [apply fsop_refl|]. split; [intros _; apply deq_refl|auto].
    - destruct (store p c s) as [ok1 s1] eqn:S1. apply store_spec in S1 as (F1 & E1 & K1).
      destruct ok1.
      + intro H. apply IH in H as (F2 & E2 & K2).
        split; [eapply fsop_trans; eassumption|]. split.
        * intro Hok. eapply deq_trans; [apply E2; exact Hok|]. apply apply_list_ext. apply E1; reflexivity.
        * intros q Hq. rewrite K2 by tauto. apply K1. intro; subst; tauto.
      + intro H; inversion H; subst. split; [exact F1|]. split; [discriminate|].
        intros q Hq. apply K1. intro; subst; tauto.
  Qed.

  Lemma remove_all_spec hook l : forall s ok s',
    remove_all hook l s = (ok, s') ->
    fsop s s' ok /\
    (ok = true -> forall q, lookup q (dsk s') = if existsb (path_eqb q) l then None else lookup q (dsk s)) /\
    (forall q, ~ In q l -> lookup q (dsk s') = lookup q (dsk s)).
  Proof.
    induction l as [|p l IH]; intros s ok s'; cbn.
    - intro H; inversion H; subst. split; [apply fsop_refl|]. split; auto.
    - destruct (p_remove hook p s) as [ok1 s1] eqn:S1. apply p_remove_spec in S1 as (F1 & E1 & K1).
      destruct ok1.
      + intro H. apply IH in H as (F2 & E2 & K2).
        split; [eapply fsop_trans; eassumption|]. split.
        * intros Hok q. rewrite E2 by exact Hok. rewrite E1 by reflexivity. rewrite lookup_del.
          rewrite (path_eqb_sym q p).
          destruct (existsb (path_eqb q) l); destruct (path_eqb p q); reflexivity.
        * intros q Hq. rewrite K2 by tauto. rewrite E1 by reflexivity. rewrite lookup_del.
          destruct (path_eqb p q) eqn:E; [apply path_eqb_eq in E; subst; tauto|reflexivity].
      + intro H; inversion H; subst. split; [exact F1|]. split; [discriminate|].
        intros q _. rewrite K1 by reflexivity. reflexivity.
  Qed.

  Lemma existsb_path_In q l : existsb (path_eqb q) l = true <-> In q l.
  Proof.
    rewrite existsb_exists. split.
    - intros [x [Hx E]]. apply path_eqb_eq in E; subst; exact Hx.
    - intro H; exists q; split; [exact H|apply path_eqb_refl].
  Qed.

  (* ---- Restore ---- *)
  Hypothesis D_eqb_spec : forall a b, D_eqb a b = true <-> a = b.
  Hypothesis digest_inj : forall a b, digest a = digest b -> a = b.

  Lemma restore_spec hint d0 s ok s' :
    restore hint (snapshot d0) s = (ok, s') ->
    fsop s s' ok /\
    (ok = true -> forall p, lookup p (dsk s') = if covered p then lookup p d0 else lookup p (dsk s)) /\
    (forall p, covered p = false -> lookup p (dsk s') = lookup p (dsk s)).
  Proof.
    unfold Model.restore.
    destruct (prim false s) as [f s1] eqn:P. apply prim_spec in P as [D1 F1].
    destruct f.
    { intro H; inversion H; subst. split; [exact F1|]. split; [discriminate|]. intros; congruence. }
    set (bk := snapshot d0). set (cur := snapshot (dsk s1)).
    set (todo := filter (fun e => negb (same_digest B D digest D_eqb (lookup (fst e) cur) (snd e))) bk).
    set (strays := filter (fun e => negb (has_key B (fst e) bk)) cur).
    destruct (store_all (arrange fst (skipn (hk s1) hint) todo) s1) as [ok1 s2] eqn:SA.
    apply store_all_spec in SA as (F2 & E2 & K2).
    assert (Hbk : NoDup (map fst bk)) by apply NoDup_snapshot.
    assert (Htodo : NoDup (map fst todo)) by (apply NoDup_keys_filter; exact Hbk).
    assert (Hcur : NoDup (map fst cur)) by apply NoDup_snapshot.
    assert (todo_cov : forall q, In q (map fst todo) -> covered q = true).
    { intros q Hq. apply in_map_iff in Hq as [[q' c] [<- He]]. apply filter_In in He as [He _].
      cbn. pose proof (In_lookup bk q' c Hbk He) as L. unfold bk in L. rewrite lookup_snapshot in L.
      destruct (covered q'); [reflexivity|discriminate]. }
    assert (arr_keys : forall q, In q (map fst (arrange fst (skipn (hk s1) hint) todo)) <-> In q (map fst todo)).
    { intro q. split; intro H.
      - eapply Permutation_in; [apply Permutation_map, Permutation_sym, arrange_perm|exact H].
      - eapply Permutation_in; [apply Permutation_map, arrange_perm|exact H]. }
    destruct ok1.
    2:{ intro H; inversion H; subst. split; [eapply fsop_trans; eassumption|]. split; [discriminate|].
        intros p Hp. rewrite K2, D1; [reflexivity|]. intro Hin. apply arr_keys, todo_cov in Hin. congruence. }
    intro RA. apply remove_all_spec in RA as (F3 & E3 & K3).
    assert (stray_cov : forall q, In q (map fst strays) -> covered q = true /\ lookup q bk = None).
    { intros q Hq. apply in_map_iff in Hq as [[q' c] [<- He]]. apply filter_In in He as [He Hk].
      cbn in *. pose proof (In_lookup cur q' c Hcur He) as L. unfold cur in L. rewrite lookup_snapshot in L.
      split; [destruct (covered q'); [reflexivity|discriminate]|].
      unfold has_key in Hk. destruct (lookup q' bk); [discriminate|reflexivity]. }
    assert (arr2 : forall q l, In q (arrange (fun p => p) l (map fst strays)) <-> In q (map fst strays)).
    { intros q l. split; intro H.
      - eapply Permutation_in; [apply Permutation_sym, arrange_perm|exact H].
      - eapply Permutation_in; [apply arrange_perm|exact H]. }
    split; [eapply fsop_trans; [|exact F3]; eapply fsop_trans; eassumption|].
    split.
    - intros Hok p. rewrite E3 by exact Hok.
      destruct (existsb (path_eqb p) _) eqn:Ex.
      + (* a stray: removed *)
        apply existsb_path_In, arr2, stray_cov in Ex as [Hc Hb]. rewrite Hc.
        unfold bk in Hb. rewrite lookup_snapshot, Hc in Hb. auto.
      + assert (Hns : ~ In p (map fst strays)).
        { intro H. apply (arr2 p (skipn (hk s2) hint)), existsb_path_In in H. congruence. }
        rewrite (E2 eq_refl p).
        rewrite (lookup_apply_list _ (dsk s1) p).
        2:{ eapply Permutation_NoDup; [apply Permutation_map, arrange_perm|exact Htodo]. }
        rewrite <- (lookup_perm todo _ p (arrange_perm fst _ todo) Htodo).
        unfold todo. rewrite (lookup_filter_nodup _ bk p Hbk). cbn [fst snd].
        unfold bk at 1. rewrite lookup_snapshot.
        assert (Lcur : lookup p cur = if covered p then lookup p (dsk s1) else None)
          by (unfold cur; apply lookup_snapshot).
        destruct (covered p) eqn:Hc; [|rewrite D1; reflexivity].
        destruct (lookup p d0) as [c|] eqn:L0.
        * destruct (same_digest B D digest D_eqb (lookup p cur) c) eqn:SD; cbn [negb]; [|reflexivity].
          unfold same_digest in SD. rewrite Lcur in SD.
          destruct (lookup p (dsk s1)) as [c'|]; [|discriminate].
          apply D_eqb_spec, digest_inj in SD. subst; reflexivity.
        * destruct (lookup p (dsk s1)) as [c'|] eqn:L1; [|reflexivity].
          exfalso. apply Hns. apply in_map_iff. exists (p, c'). split; [reflexivity|].
          unfold strays. apply filter_In. split.
          -- apply lookup_In. exact Lcur.
          -- cbn [fst]. unfold has_key, bk. rewrite lookup_snapshot, Hc, L0. reflexivity.
    - intros p Hp. rewrite K3.
      + rewrite K2, D1; [reflexivity|]. intro Hin. apply arr_keys, todo_cov in Hin. congruence.
      + intro Hin. apply arr2, stray_cov in Hin as [Hc _]. congruence.
  Qed.

  (* ---- CleanAll ---- *)

  Lemma covered_cases p :
    covered p = true -> in_directory p = true \/ p = gateway_file \/ p = metrics_file.
  Proof.
    destruct p as [a n]; unfold covered, in_directory, gateway_file, metrics_file; cbn [fst snd].
    destruct a; intro H; auto; try discriminate; apply N.eqb_eq in H; subst; auto.
  Qed.

  Lemma in_directory_covered p : in_directory p = true -> covered p = true.
  Proof. destruct p as [a n]; unfold covered, in_directory; cbn [fst]. destruct a; auto; discriminate. Qed.

  Lemma clean_all_spec hint s ok s' :
    clean_all hint s = (ok, s') ->
    fsop s s' ok /\
    (ok = true -> forall p, lookup p (dsk s') = if covered p then None else lookup p (dsk s)) /\
    (forall p, covered p = false -> lookup p (dsk s') = lookup p (dsk s)).
  Proof.
    unfold Model.clean_all.
    set (files := filter in_directory (map fst (snapshot (dsk s)))).
    assert (files_cov : forall q, In q files -> covered q = true).
    { intros q Hq. apply filter_In in Hq as [_ Hq]. apply in_directory_covered; exact Hq. }
    destruct (remove_all false files s) as [ok1 s1] eqn:R1. apply remove_all_spec in R1 as (F1 & E1 & K1).
    destruct ok1.
    2:{ intro H; inversion H; subst. split; [exact F1|]. split; [discriminate|].
        intros p Hp. apply K1. intro Hin. apply files_cov in Hin. congruence. }
    intro R2. apply remove_all_spec in R2 as (F2 & E2 & K2).
    assert (two : forall q l, In q (arrange (fun p => p) l [gateway_file; metrics_file]) <->
                              q = gateway_file \/ q = metrics_file).
    { intros q l. split; intro H.
      - eapply Permutation_in in H; [|apply Permutation_sym, arrange_perm].
        destruct H as [H|[H|[]]]; auto.
      - eapply Permutation_in; [apply arrange_perm|]. destruct H as [->| ->]; cbn; auto. }
    split; [eapply fsop_trans; eassumption|]. split.
    - intros Hok p. rewrite E2 by exact Hok. rewrite E1 by reflexivity.
      destruct (covered p) eqn:Hc.
      + destruct (existsb (path_eqb p) (arrange _ _ _)) eqn:X2; [reflexivity|].
        destruct (existsb (path_eqb p) files) eqn:X1; [reflexivity|].
        destruct (lookup p (dsk s)) as [c|] eqn:L; [|reflexivity]. exfalso.
        apply covered_cases in Hc as [Hd|Hf].
        * assert (In p files); [|apply existsb_path_In in H; congruence].
          apply filter_In. split; [|exact Hd]. apply in_map_iff. exists (p, c). split; [reflexivity|].
          apply lookup_In. rewrite lookup_snapshot, (in_directory_covered _ Hd). exact L.
        * apply (two p (skipn (hk s1) hint)), existsb_path_In in Hf. congruence.
      + assert (X2 : existsb (path_eqb p) (arrange (fun p => p) (skipn (hk s1) hint) [gateway_file; metrics_file]) = false).
        { destruct (existsb _ _) eqn:X; [|reflexivity]. apply existsb_path_In, two in X.
          destruct X as [-> | ->]; discriminate. }
        rewrite X2.
        destruct (existsb (path_eqb p) files) eqn:X1; [|reflexivity].
        apply existsb_path_In, files_cov in X1. congruence.
    - intros p Hp. rewrite K2.
      + apply K1. intro Hin. apply files_cov in Hin. congruence.
      + intro Hin. apply two in Hin. destruct Hin as [-> | ->]; discriminate.
  Qed.

  (* ---- reloadFlows ---- *)

  Lemma prim_eng hook s f s1 :
    prim hook s = (f, s1) ->
    dsk s1 = dsk s /\ eng s1 = eng s /\ seen s1 = eng s :: seen s /\
    (flt s = NoFault -> f = false /\ flt s1 = NoFault) /\ (f = true -> flt s1 = NoFault).
  Proof.
    unfold Model.prim. destruct (tick hook (flt s)) as [fr f'] eqn:T. intro H; inversion H; subst; clear H.
    cbn. repeat (split; [reflexivity|]). split.
    - intro Q; rewrite Q in T; cbn in T; inversion T; split; reflexivity.
    - intros ->. eapply tick_fired; exact T.
  Qed.

  (* an operation on the engine: the disk is not touched; every arrival during it
     meets the engine that was running or the one built from the current disk *)
  Definition engop (s s' : st) : Prop :=
    dsk s' = dsk s /\
    (eng s' = eng s \/ eng s' = EBuilt (dsk s)) /\
    (exists extra, seen s' = extra ++ seen s /\
                   Forall (fun e => e = eng s \/ e = EBuilt (dsk s)) extra) /\
    (flt s = NoFault -> flt s' = NoFault).

  Ltac prim_step P :=
    match goal with
    | |- context [Model.prim B ?h ?s] =>
        let f := fresh "f" in let s1 := fresh "s" in
        destruct (Model.prim B h s) as [f s1] eqn:P;
        apply prim_eng in P as (?D & ?E & ?S & ?Q & ?N)
    end.

  Ltac fa := repeat (apply Forall_cons; [auto|]); apply Forall_nil.

  Lemma initialize_streams_spec s ok s' :
    initialize_streams s = (ok, s') ->
    engop s s' /\ (ok = true -> eng s' = EBuilt (dsk s)) /\
    (flt s = NoFault -> ok = true).
  Proof.
    unfold Model.initialize_streams, engop.
    destruct (prim false s) as [f0 s0] eqn:P0. apply prim_eng in P0 as (D0 & E0 & S0 & Q0 & N0).
    destruct f0.
    { intro H; inversion H; subst. rewrite D0, E0, S0. split; [|split; [discriminate|intro Q; apply Q0 in Q as [Q _]; discriminate]].
      split; [reflexivity|]. split; [auto|]. split; [|intro Q; apply Q0; exact Q].
      exists [eng s]; split; [reflexivity|]. fa. }
    destruct (prim true s0) as [f1 s1] eqn:P1. apply prim_eng in P1 as (D1 & E1 & S1 & Q1 & N1).
    destruct f1.
    { intro H; inversion H; subst. rewrite D1, E1, S1, D0, E0, S0.
      split; [|split; [discriminate|intro Q; apply Q0 in Q as [_ Q]; apply Q1 in Q as [Q _]; discriminate]].
      split; [reflexivity|]. split; [auto|]. split; [|intro Q; apply Q1, Q0; exact Q].
      exists [eng s; eng s]; split; [reflexivity|]. fa. }
    set (s2 := observe B (with_eng B (EBuilt (dsk s1)) s1)).
    destruct (prim false s2) as [f3 s3] eqn:P3. apply prim_eng in P3 as (D3 & E3 & S3 & Q3 & N3).
    assert (Es2 : eng s2 = EBuilt (dsk s)) by (unfold s2; cbn; rewrite D1, D0; reflexivity).
    assert (Ds2 : dsk s2 = dsk s) by (unfold s2; cbn; rewrite D1, D0; reflexivity).
    assert (Ss2 : seen s2 = [EBuilt (dsk s); eng s; eng s] ++ seen s)
      by (unfold s2; cbn; rewrite S1, S0, E0, D1, D0; reflexivity).
    assert (Qs2 : flt s = NoFault -> flt s2 = NoFault) by (intro Q; unfold s2; cbn; apply Q1, Q0; exact Q).
    destruct f3.
    { intro H; inversion H; subst. rewrite D3, E3, S3, Es2, Ds2, Ss2.
      split; [|split; [discriminate|intro Q; apply Qs2 in Q; apply Q3 in Q as [Q _]; discriminate]].
      split; [reflexivity|]. split; [auto|]. split; [|intro Q; apply Q3, Qs2; exact Q].
      exists [EBuilt (dsk s); EBuilt (dsk s); eng s; eng s]; split; [reflexivity|]. fa. }
    destruct (prim false s3) as [f4 s4] eqn:P4. apply prim_eng in P4 as (D4 & E4 & S4 & Q4 & N4).
    assert (R : engop s s4 /\ eng s4 = EBuilt (dsk s)).
    { unfold engop. rewrite D4, E4, S4, D3, E3, S3, Es2, Ds2, Ss2.
      split; [|reflexivity]. split; [reflexivity|]. split; [auto|]. split; [|intro Q; apply Q4, Q3, Qs2; exact Q].
      exists [EBuilt (dsk s); EBuilt (dsk s); EBuilt (dsk s); eng s; eng s]; split; [reflexivity|].
      fa. }
    destruct R as [R1 R2].
    destruct f4; intro H; inversion H; subst.
    - split; [exact R1|]. split; [discriminate|].
      intro Q; apply Qs2 in Q; apply Q3 in Q as [_ Q]; apply Q4 in Q as [Q _]; discriminate.
    - split; [exact R1|]. split; [intros _; exact R2|reflexivity].
  Qed.

  Lemma engop_prim_l s s0 s' :
    dsk s0 = dsk s -> eng s0 = eng s -> seen s0 = eng s :: seen s ->
    (flt s = NoFault -> flt s0 = NoFault) ->
    engop s0 s' -> engop s s'.
  Proof.
    intros D0 E0 S0 Q0 (D1 & E1 & (x & S1 & A1) & Q1). unfold engop.
    rewrite D1, D0. split; [reflexivity|]. rewrite D0, E0 in E1. split; [exact E1|].
    split; [|intro Q; apply Q1, Q0; exact Q].
    exists (x ++ [eng s]). split; [rewrite S1, S0, <- app_assoc; reflexivity|].
    apply Forall_app. split; [|repeat constructor; auto].
    eapply Forall_impl; [|exact A1]. cbn. rewrite D0, E0. auto.
  Qed.

  Lemma engop_prim_r s s1 s' :
    engop s s1 -> dsk s' = dsk s1 -> eng s' = eng s1 -> seen s' = eng s1 :: seen s1 ->
    (flt s1 = NoFault -> flt s' = NoFault) -> engop s s'.
  Proof.
    intros (D1 & E1 & (x & S1 & A1) & Q1) D2 E2 S2 Q2. unfold engop.
    rewrite D2, D1, E2. split; [reflexivity|]. split; [exact E1|].
    split; [|intro Q; apply Q2, Q1; exact Q].
    exists (eng s1 :: x). split; [rewrite S2, S1; reflexivity|].
    constructor; [exact E1|exact A1].
  Qed.

  Lemma reload_spec s ok s' :
    reload s = (ok, s') ->
    engop s s' /\ (ok = true -> eng s' = EBuilt (dsk s)).
  Proof.
    unfold Model.reload.
    destruct (prim false s) as [f0 s0] eqn:P0. apply prim_eng in P0 as (D0 & E0 & S0 & Q0 & N0).
    assert (R0 : engop s s0).
    { unfold engop. rewrite D0, E0, S0. split; [reflexivity|]. split; [auto|].
      split; [|intro Q; apply Q0; exact Q]. exists [eng s]; split; [reflexivity|repeat constructor; auto]. }
    destruct (f0 || negb (valid (dsk s0))).
    { intro H; inversion H; subst. split; [exact R0|discriminate]. }
    destruct (initialize_streams s0) as [ok1 s1] eqn:I. apply initialize_streams_spec in I as (R1 & B1 & _).
    assert (R01 : engop s s1).
    { eapply engop_prim_l; [exact D0|exact E0|exact S0|intro Q; apply Q0; exact Q|exact R1]. }
    destruct ok1.
    2:{ intro H; inversion H; subst. split; [exact R01|discriminate]. }
    destruct (prim false s1) as [f2 s2] eqn:P2. apply prim_eng in P2 as (D2 & E2 & S2 & Q2 & N2).
    assert (R02 : engop s s2).
    { eapply engop_prim_r; [exact R01|exact D2|exact E2|exact S2|intro Q; apply Q2; exact Q]. }
    destruct (f2 || negb (metrics_ok (dsk s2))); intro H; inversion H; subst.
    - split; [exact R02|discriminate].
    - split; [exact R02|]. intros _. rewrite E2, B1, D0 by reflexivity. reflexivity.
  Qed.

  Lemma initialize_streams_fail s s' :
    initialize_streams s = (false, s') -> flt s' = NoFault.
  Proof.
    unfold Model.initialize_streams.
    destruct (prim false s) as [f0 s0] eqn:P0. apply prim_eng in P0 as (_ & _ & _ & _ & N0).
    destruct f0; [intro H; inversion H; subst; auto|].
    destruct (prim true s0) as [f1 s1] eqn:P1. apply prim_eng in P1 as (_ & _ & _ & _ & N1).
    destruct f1; [intro H; inversion H; subst; auto|].
    destruct (prim false _) as [f3 s3] eqn:P3. apply prim_eng in P3 as (_ & _ & _ & _ & N3).
    destruct f3; [intro H; inversion H; subst; auto|].
    destruct (prim false s3) as [f4 s4] eqn:P4. apply prim_eng in P4 as (_ & _ & _ & _ & N4).
    destruct f4; intro H; inversion H; subst; auto.
  Qed.

  (* a reload fails only because the oracle struck (which silences it) or because
     the configuration on disk does not validate / its metrics do not load *)
  Lemma reload_progress s ok s' :
    reload s = (ok, s') ->
    valid (dsk s) = true -> metrics_ok (dsk s) = true ->
    (flt s = NoFault -> ok = true) /\ (ok = false -> flt s' = NoFault).
  Proof.
    unfold Model.reload. intros R V M. revert R.
    destruct (prim false s) as [f0 s0] eqn:P0. apply prim_eng in P0 as (D0 & E0 & S0 & Q0 & N0).
    rewrite D0, V. cbn [negb]. rewrite orb_false_r.
    destruct f0.
    { intro H; inversion H; subst. split; [intro Q; apply Q0 in Q as [Q _]; discriminate|auto]. }
    destruct (initialize_streams s0) as [ok1 s1] eqn:I.
    pose proof (initialize_streams_spec _ _ _ I) as ((D1 & _ & _ & Q1) & _ & G1).
    destruct ok1.
    2:{ intro H; inversion H; subst. split; [|intros _; eapply initialize_streams_fail; exact I].
        intro Q. apply Q0 in Q as [_ Q]. apply G1 in Q. discriminate. }
    destruct (prim false s1) as [f2 s2] eqn:P2. apply prim_eng in P2 as (D2 & E2 & S2 & Q2 & N2).
    rewrite D2, D1, D0, M. cbn [negb]. rewrite orb_false_r.
    destruct f2; intro H; inversion H; subst.
    - split; [|auto]. intro Q. apply Q0 in Q as [_ Q]. apply Q1, Q2 in Q as [Q _]. discriminate.
    - split; [reflexivity|discriminate].
  Qed.

  (* ---- what the payload writes ---- *)

  Lemma order_field_In fixed hint items x :
    In x (order_field B fixed hint items) <-> In x items.
  Proof.
    unfold order_field. rewrite !in_app_iff. split.
    - intros [H|[H|H]].
      + eapply Permutation_in in H; [|apply Permutation_sym, arrange_perm]. apply filter_In in H; tauto.
      + apply filter_In in H; tauto.
      + apply filter_In in H; tauto.
    - intro H. destruct (refused B fixed x) eqn:Rf.
      + right; left. apply filter_In; auto.
      + destruct (hinted B hint x) eqn:Hh.
        * left. eapply Permutation_in; [apply arrange_perm|]. apply filter_In. rewrite Rf, Hh; auto.
        * right; right. apply filter_In. rewrite Rf, Hh; auto.
  Qed.

  Lemma plan_In fixed hint pl x :
    In x (plan B fixed hint pl) <-> exists e, In e pl /\ x = (target e, e_content e, escapes e).
  Proof.
    unfold plan. rewrite in_flat_map. split.
    - intros [f [_ H]]. apply order_field_In in H.
      unfold items_of in H. apply in_map_iff in H as [e [E He]]. apply filter_In in He as [He _].
      exists e; split; [exact He|symmetry; exact E].
    - intros [e [He ->]]. exists (e_field e). split; [destruct (e_field e); cbn; tauto|].
      apply order_field_In. unfold items_of. apply in_map_iff. exists e. split; [reflexivity|].
      apply filter_In. split; [exact He|destruct (e_field e); reflexivity].
  Qed.

  (* a name that stays inside its directory names a file the snapshot covers *)
  Lemma escapes_false_covered (e : entry B) : escapes e = false -> covered (target e) = true.
  Proof.
    unfold escapes, target. destruct (e_field e); cbn [dir_area]; intro H; try reflexivity;
      apply negb_false_iff, area_eqb_eq in H; unfold covered; rewrite H; reflexivity.
  Qed.

  (* the keys the save may touch lie in covered places: with the name check
     because a refused name is not written, without it when the payload
     happens to name covered places only *)
  Lemma plan_covered fixed hint pl x :
    fixed = true \/ targets_covered pl = true ->
    In x (plan B fixed hint pl) -> refused B fixed x = false -> covered (ikey B x) = true.
  Proof.
    intros T H Rf. apply plan_In in H as [e [He ->]]. cbn [ikey fst].
    destruct T as [->|T].
    - apply escapes_false_covered. exact Rf.
    - unfold targets_covered in T. rewrite forallb_forall in T. apply T; exact He.
  Qed.

  (* ---- roll-back ---- *)

  Definition within (P : engine B -> Prop) (s s' : st) : Prop :=
    exists extra, seen s' = extra ++ seen s /\ Forall P extra.

  Lemma within_refl P s : within P s s.
  Proof. exists []; split; [reflexivity|constructor]. Qed.

  Lemma within_trans P s s1 s2 : within P s s1 -> within P s1 s2 -> within P s s2.
  Proof.
    intros (x1 & S1 & A1) (x2 & S2 & A2). exists (x2 ++ x1).
    split; [rewrite S2, S1, app_assoc; reflexivity|apply Forall_app; auto].
  Qed.

  Lemma within_weaken (P Q : engine B -> Prop) s s' :
    (forall e, P e -> Q e) -> within P s s' -> within Q s s'.
  Proof. intros W (x & S & A). exists x; split; [exact S|eapply Forall_impl; eauto]. Qed.

  Lemma fsop_within s s' ok : fsop s s' ok -> within (fun e => e = eng s) s s'.
  Proof. intros (_ & X & _). exact X. Qed.

  Lemma engop_within s s' : engop s s' -> within (fun e => e = eng s \/ e = EBuilt (dsk s)) s s'.
  Proof. intros (_ & _ & X & _). exact X. Qed.

  (* ---- SavePayloadContentToDisk ---- *)

  (* the save met a name it refuses *)
  Definition rejects (fixed : bool) (l : list (item B)) : Prop :=
    fixed = true /\ exists x, In x l /\ snd x = true.

  Lemma save_all_spec fixed l : forall s ok s',
    save_all fixed l s = (ok, s') ->
    eng s' = eng s /\ within (fun e => e = eng s) s s' /\
    (flt s = NoFault -> flt s' = NoFault) /\
    (ok = false -> flt s' = NoFault \/ rejects fixed l) /\
    (ok = true -> (forall x, In x l -> refused B fixed x = false) /\
                  deq (dsk s') (apply_list B (map fst l) (dsk s))) /\
    (forall q, (forall x, In x l -> refused B fixed x = false -> ikey B x <> q) ->
               lookup q (dsk s') = lookup q (dsk s)).
  Proof.
    induction l as [|x l IH]; intros s ok s'; cbn [Model.save_all].
    - intro H; inversion H; subst. split; [reflexivity|]. split; [apply within_refl|]. split; [auto|].
      split; [discriminate|]. split; [intros _; split; [intros x []|apply deq_refl]|auto].
    - destruct (refused B fixed x) eqn:Rf.
      { intro H; inversion H; subst. split; [reflexivity|]. split; [apply within_refl|]. split; [auto|].
        split; [|split; [discriminate|auto]].
        intros _. right. unfold refused in Rf. apply andb_true_iff in Rf as [Rf1 Rf2].
        split; [exact Rf1|]. exists x; split; [left; reflexivity|exact Rf2]. }
      destruct (store (ikey B x) (snd (fst x)) s) as [ok1 s1] eqn:S1. apply store_spec in S1 as (F1 & E1 & K1).
      pose proof (fsop_within _ _ _ F1) as W1. destruct F1 as (G1 & _ & Q1 & N1).
      destruct ok1.
      + intro H. apply IH in H as (G2 & W2 & Q2 & N2 & D2 & K2).
        split; [congruence|]. split.
        { eapply within_trans; [exact W1|]. eapply within_weaken; [|exact W2]. cbn; intros e ->; exact G1. }
        split; [intro Q; apply Q2, Q1; exact Q|]. split.
        { intro Hok. destruct (N2 Hok) as [N|(Fx & y & Hy & Ey)]; [left; exact N|].
          right. split; [exact Fx|]. exists y; split; [right; exact Hy|exact Ey]. }
        split.
        { intro Hok. destruct (D2 Hok) as [R2 D2']. split.
          - intros y [<-|Hy]; [exact Rf|apply R2; exact Hy].
          - cbn [map].
            change (apply_list B (fst x :: map fst l) (dsk s))
              with (apply_list B (map fst l) (set (ikey B x) (snd (fst x)) (dsk s))).
            eapply deq_trans; [exact D2'|]. apply apply_list_ext. apply E1; reflexivity. }
        intros q Hq. rewrite K2 by (intros y Hy; apply Hq; right; exact Hy).
        apply K1. intro E. apply (Hq x); [left; reflexivity|exact Rf|symmetry; exact E].
      + intro H; inversion H; subst. split; [exact G1|]. split; [exact W1|].
        split; [intro Q; destruct (Q1 Q) as [X _]; discriminate|].
        split; [intros _; left; apply N1; reflexivity|]. split; [discriminate|].
        intros q Hq. apply K1. intro E. apply (Hq x); [left; reflexivity|exact Rf|symmetry; exact E].
  Qed.

  Lemma rollback_spec hint d0 wr s r s' :
    rollback hint (snapshot d0) wr s = (r, s') ->
    (forall p, covered p = false -> lookup p (dsk s') = lookup p (dsk s)) /\
    (r = Failed -> forall p, covered p = true -> lookup p (dsk s') = lookup p d0) /\
    within (fun e => e = eng s \/ (wr = true /\ e = EBuilt (dsk s'))) s s' /\
    (eng s' = eng s \/ (wr = true /\ eng s' = EBuilt (dsk s'))) /\
    (wr = true -> r = Failed -> eng s' = EBuilt (dsk s')) /\
    (flt s = NoFault ->
     (wr = true -> forall x, (forall p, lookup p x = if covered p then lookup p d0 else lookup p (dsk s)) ->
                             dsk s' = x -> valid x = true /\ metrics_ok x = true) ->
     r = Failed).
  Proof.
    unfold Model.rollback.
    destruct (restore hint (snapshot d0) s) as [ok1 s1] eqn:R. apply restore_spec in R as (F1 & E1 & K1).
    pose proof (fsop_within _ _ _ F1) as W1. destruct F1 as (G1 & _ & Q1 & N1).
    destruct wr.
    - destruct (reload s1) as [ok2 s2] eqn:L. pose proof (reload_spec _ _ _ L) as (O2 & B2).
      pose proof (engop_within _ _ O2) as W2. destruct O2 as (D2 & G2 & _ & Q2).
      intro H; inversion H; subst; clear H.
      split; [intros p Hp; rewrite D2; apply K1; exact Hp|].
      split.
      { intros HF p Hp. destruct ok1; [|discriminate]. rewrite D2, E1, Hp by reflexivity. reflexivity. }
      split.
      { eapply within_trans.
        - eapply within_weaken; [|exact W1]. cbn; auto.
        - eapply within_weaken; [|exact W2]. cbn. rewrite G1, D2. intros e [->| ->]; auto. }
      split; [rewrite D2; destruct G2 as [G2|G2]; [left; congruence|right; auto]|].
      split.
      { intros _ HF. destruct ok1, ok2; try discriminate. rewrite D2. apply B2; reflexivity. }
      intros Q HV. destruct (Q1 Q) as [-> Q1']. cbn [andb].
      assert (Hx : forall p, lookup p (dsk s1) = if covered p then lookup p d0 else lookup p (dsk s))
        by (apply E1; reflexivity).
      destruct (HV eq_refl (dsk s1) Hx D2) as [V M].
      destruct (reload_progress _ _ _ L V M) as [P _]. rewrite (P Q1'). reflexivity.
    - intro H; inversion H; subst; clear H.
      split; [exact K1|]. split.
      { intros HF p Hp. destruct ok1; [|discriminate]. rewrite E1, Hp by reflexivity. reflexivity. }
      split; [eapply within_weaken; [|exact W1]; cbn; auto|].
      split; [left; exact G1|]. split; [discriminate|].
      intros Q _. destruct (Q1 Q) as [-> _]. reflexivity.
  Qed.

  Lemma rollback_not_ok hint bk wr s r s' :
    rollback hint bk wr s = (r, s') -> r = Failed \/ r = RollbackFailed.
  Proof.
    unfold Model.rollback. destruct (restore hint bk s) as [ok1 s1]. destruct wr.
    - destruct (reload s1) as [ok2 s2]. intro H; inversion H. destruct (ok1 && ok2); auto.
    - intro H; inversion H. destruct ok1; auto.
  Qed.

  (* ---- the whole update ---- *)

  (* equality on the places the engine reads its configuration from *)
  Definition ceq (a b : disk B) : Prop := forall p, covered p = true -> lookup p a = lookup p b.

  (* the engine was built from (a disk that holds) configuration d *)
  Definition served (d : disk B) (e : engine B) : Prop :=
    exists cfg, e = EBuilt cfg /\ ceq cfg d.

  Lemma served_ceq d cfg : ceq cfg d -> served d (EBuilt cfg).
  Proof. intro H; exists cfg; auto. Qed.

  Lemma deq_ceq a b : deq a b -> ceq a b.
  Proof. intros H p _; apply H. Qed.

  Lemma lookup_base h (d : disk B) p :
    lookup p (base h d) = match h with
                          | HConfiguration => lookup p d
                          | HApplyFlows => if covered p then None else lookup p d
                          end.
  Proof.
    destruct h; cbn [base]; [reflexivity|].
    rewrite (lookup_filter_key (fun k => negb (covered k))). destruct (covered p); reflexivity.
  Qed.

  Notation run := (run B D digest D_eqb empty garbage valid metrics_ok).

  Lemma reload_ok_valid s s' :
    reload s = (true, s') -> valid (dsk s) = true /\ metrics_ok (dsk s) = true.
  Proof.
    unfold Model.reload.
    destruct (prim false s) as [f0 s0] eqn:P0. apply prim_eng in P0 as (D0 & _).
    destruct (f0 || negb (valid (dsk s0))) eqn:C0; [discriminate|].
    apply orb_false_iff in C0 as [_ C0]. apply negb_false_iff in C0. rewrite D0 in C0.
    destruct (initialize_streams s0) as [ok1 s1] eqn:I.
    apply initialize_streams_spec in I as ((D1 & _) & _).
    destruct ok1; [|discriminate].
    destruct (prim false s1) as [f2 s2] eqn:P2. apply prim_eng in P2 as (D2 & _).
    destruct (f2 || negb (metrics_ok (dsk s2))) eqn:C2; [discriminate|].
    apply orb_false_iff in C2 as [_ C2]. apply negb_false_iff in C2. rewrite D2, D1, D0 in C2.
    intros _. split; assumption.
  Qed.

  (* what is claimed about a finished run; k says where in the order hints the
     files of the payload start *)
  Definition outcome (fixed : bool) (hs : list path) (rq : request B) (d : disk B) (f : fault)
             (r : result) (s' : st) (k : nat) : Prop :=
    let dn := new_disk B fixed (skipn k hs) rq d in
    (r <> RollbackFailed -> Forall (fun e => served d e \/ served dn e) (arrivals s')) /\
    (r = Failed -> ceq (dsk s') d /\ served d (eng s')) /\
    (r = Failed -> fixed = true \/ targets_covered (r_payload rq) = true ->
     forall p, covered p = false -> lookup p (dsk s') = lookup p d) /\
    (r = Ok -> deq (dsk s') dn /\ eng s' = EBuilt (dsk s') /\
               valid (dsk s') = true /\ metrics_ok (dsk s') = true /\
               (fixed && names_escape (r_payload rq)) = false) /\
    (r = RollbackFailed ->
     (forall a b, ceq a b -> valid a = valid b) -> (forall a b, ceq a b -> metrics_ok a = metrics_ok b) ->
     valid d = true -> metrics_ok d = true ->
     f <> NoFault /\
     ((fixed && names_escape (r_payload rq)) = true \/ valid dn = false \/ metrics_ok dn = false)).

  (* so far every transaction met the old engine *)
  Definition old_only (d : disk B) (s : st) : Prop :=
    eng s = EBuilt d /\ Forall (fun e => e = EBuilt d) (seen s).

  Lemma fsop_old d s s' ok : fsop s s' ok -> old_only d s -> old_only d s'.
  Proof.
    intros (E & (x & S & A) & _) [Eo Ao]. split; [congruence|]. rewrite S.
    apply Forall_app; split; [|exact Ao]. eapply Forall_impl; [|exact A]. cbn; intros e ->; exact Eo.
  Qed.

  Lemma served_old d : served d (EBuilt d).
  Proof. apply served_ceq. intros p _; reflexivity. Qed.

  Lemma old_arrivals d dn s :
    old_only d s -> Forall (fun e => served d e \/ served dn e) (arrivals s).
  Proof.
    intros [E A]. unfold arrivals. constructor; [left; rewrite E; apply served_old|].
    eapply Forall_impl; [|exact A]. cbn; intros e ->; left; apply served_old.
  Qed.

  Lemma within_old d s s' :
    eng s' = eng s -> within (fun e => e = eng s) s s' -> old_only d s -> old_only d s'.
  Proof.
    intros E (x & S & A) [Eo Ao]. split; [congruence|]. rewrite S.
    apply Forall_app; split; [|exact Ao]. eapply Forall_impl; [|exact A]. cbn; intros e ->; exact Eo.
  Qed.

  Lemma outcome_early fixed hs rq d f s0 :
    old_only d s0 -> dsk s0 = d -> outcome fixed hs rq d f Failed s0 0.
  Proof.
    intros O D0. unfold outcome. cbn zeta.
    split; [intros _; apply old_arrivals; exact O|].
    split; [intros _; split; [intros p _; rewrite D0; reflexivity|destruct O as [-> _]; apply served_old]|].
    split; [intros _ _ p _; rewrite D0; reflexivity|].
    split; discriminate.
  Qed.

  (* a file-system step of the update failed (the oracle struck, or a file name
     was refused): roll back without reload *)
  Lemma outcome_fs_failure fixed hs hint rq d f s r s' k :
    old_only d s ->
    flt s = NoFault \/ (fixed && names_escape (r_payload rq)) = true ->
    (f = NoFault -> flt s = NoFault) ->
    (fixed = true \/ targets_covered (r_payload rq) = true ->
     forall p, covered p = false -> lookup p (dsk s) = lookup p d) ->
    rollback hint (snapshot d) false s = (r, s') ->
    outcome fixed hs rq d f r s' k.
  Proof.
    intros O Q Qf U R. pose proof (rollback_not_ok _ _ _ _ _ _ R) as Rk.
    apply rollback_spec in R as (A & Bc & W & G & _ & Fq).
    assert (O' : old_only d s').
    { destruct O as [Eo Ao]. destruct G as [G|[G _]]; [|discriminate]. split; [congruence|].
      destruct W as (x & S & Ax). rewrite S. apply Forall_app; split; [|exact Ao].
      eapply Forall_impl; [|exact Ax]. cbn. intros e [->|[X _]]; [exact Eo|discriminate]. }
    unfold outcome. cbn zeta.
    split; [intros _; apply old_arrivals; exact O'|].
    split; [intros ->; split; [intros p Hp; apply Bc; auto|destruct O' as [-> _]; apply served_old]|].
    split; [intros _ T p Hp; rewrite A by exact Hp; apply U; assumption|].
    split; [intros ->; destruct Rk; discriminate|].
    intros -> _ _ _ _.
    assert (NF : flt s <> NoFault).
    { intro Q0. assert (RollbackFailed = Failed) by (apply Fq; [exact Q0|discriminate]). discriminate. }
    split; [intro Hf; apply NF, Qf, Hf|].
    destruct Q as [Q|Q]; [contradiction|left; exact Q].
  Qed.

  Lemma run_master fixed hs hint rq d f r s' :
    run fixed hs hint rq d f = (r, s') -> exists k, outcome fixed hs rq d f r s' k.
  Proof.
    unfold Model.run, Model.update.
    set (si := init_state B d f).
    assert (Oi : old_only d si) by (split; [reflexivity|constructor]).
    destruct (r_method_ok rq); cbn [negb].
    2:{ intro H; injection H as <- <-. exists 0. apply outcome_early; [exact Oi|reflexivity]. }
    destruct (r_body_ok rq); cbn [negb].
    2:{ intro H; injection H as <- <-. exists 0. apply outcome_early; [exact Oi|reflexivity]. }
    destruct (Model.prim B false si) as [f0 s0] eqn:P0. apply prim_spec in P0 as [D0 F0].
    change (dsk si) with d in D0.
    pose proof (fsop_old d _ _ _ F0 Oi) as O0.
    destruct f0.
    { intro H; injection H as <- <-. exists 0. apply outcome_early; assumption. }
    cbn [negb] in F0. rewrite D0.
    destruct (forallb e_decodable (r_payload rq)); cbn [negb].
    2:{ intro H; injection H as <- <-. exists 0. apply outcome_early; assumption. }
    (* CleanAll (apply_flows only) *)
    set (cl := match r_handler rq with HApplyFlows => clean_all hs s0 | HConfiguration => (true, s0) end).
    assert (C : exists okc s1, cl = (okc, s1) /\ fsop s0 s1 okc /\
                (okc = true -> deq (dsk s1) (base (r_handler rq) d)) /\
                (forall p, covered p = false -> lookup p (dsk s1) = lookup p d)).
    { unfold cl. destruct (r_handler rq).
      - exists true, s0. split; [reflexivity|]. split; [apply fsop_refl|].
        split; [intros _ p; rewrite D0; reflexivity|intros p _; rewrite D0; reflexivity].
      - destruct (clean_all hs s0) as [okc s1] eqn:CA. exists okc, s1. split; [reflexivity|].
        apply clean_all_spec in CA as (Fc & Ec & Kc). split; [exact Fc|]. split.
        + intros Hok p. rewrite Ec by exact Hok. rewrite lookup_base, D0. reflexivity.
        + intros p Hp. rewrite Kc by exact Hp. rewrite D0. reflexivity. }
    destruct C as (okc & s1 & -> & Fc & Ec & Kc).
    assert (F01 : fsop si s1 okc) by (eapply fsop_trans; eassumption).
    pose proof (fsop_old d _ _ _ Fc O0) as O1.
    destruct okc.
    2:{ intro R. exists 0.
        assert (N1 : flt s1 = NoFault) by (destruct Fc as (_ & _ & _ & N); apply N; reflexivity).
        eapply outcome_fs_failure; [exact O1|left; exact N1|intros _; exact N1|intros _; exact Kc|exact R]. }
    (* SavePayloadContentToDisk *)
    set (pln := plan B fixed (skipn (hk s1) hs) (r_payload rq)).
    destruct (save_all fixed pln s1) as [oks s2] eqn:SA.
    apply save_all_spec in SA as (Gs & Ws & Qs & Ns & Ds & Ks).
    assert (Q02 : flt si = NoFault -> flt s2 = NoFault).
    { intro Q. apply Qs. destruct F01 as (_ & _ & Q1 & _). apply Q1; exact Q. }
    pose proof (within_old d _ _ Gs Ws O1) as O2.
    assert (U2 : fixed = true \/ targets_covered (r_payload rq) = true ->
                 forall p, covered p = false -> lookup p (dsk s2) = lookup p d).
    { intros T p Hp. rewrite Ks; [apply Kc; exact Hp|].
      intros x Hx Rf E. pose proof (plan_covered _ _ _ _ T Hx Rf) as C. congruence. }
    intro R0; exists (hk s1); revert R0.
    destruct oks.
    2:{ intro R. eapply outcome_fs_failure; [exact O2| |exact Q02|exact U2|exact R].
        destruct (Ns eq_refl) as [N|(Fx & x & Hx & Ex)]; [left; exact N|right].
        apply plan_In in Hx as (e & He & ->). cbn [snd] in Ex. rewrite Fx. cbn [andb].
        unfold names_escape. apply existsb_exists. exists e; auto. }
    destruct (Ds eq_refl) as [Rs Es].
    assert (NE : (fixed && names_escape (r_payload rq)) = false).
    { destruct fixed; [cbn [andb]|reflexivity].
      destruct (names_escape (r_payload rq)) eqn:X; [|reflexivity]. exfalso.
      unfold names_escape in X. apply existsb_exists in X as (e & He & Ee).
      assert (Hin : In (target e, e_content e, escapes e) pln) by (apply plan_In; exists e; auto).
      apply Rs in Hin. unfold refused in Hin. cbn [snd andb] in Hin. congruence. }
    assert (Dn : deq (dsk s2) (new_disk B fixed (skipn (hk s1) hs) rq d)).
    { unfold new_disk. fold pln. eapply deq_trans; [exact Es|].
      apply apply_list_ext. apply Ec; reflexivity. }
    (* reloadFlows *)
    destruct (reload s2) as [okr s3] eqn:RL.
    pose proof (reload_spec _ _ _ RL) as (O3 & B3).
    pose proof (engop_within _ _ O3) as W3. destruct O3 as (D3 & G3 & _ & Q3).
    destruct O2 as [E2 A2].
    set (dn := new_disk B fixed (skipn (hk s1) hs) rq d) in *.
    assert (P2 : forall e, e = eng s2 \/ e = EBuilt (dsk s2) -> served d e \/ served dn e).
    { intros e [->| ->]; [left; rewrite E2; apply served_old|right; apply served_ceq, deq_ceq; exact Dn]. }
    assert (S3 : Forall (fun e => served d e \/ served dn e) (seen s3)).
    { destruct W3 as (x & S & A). rewrite S. apply Forall_app. split.
      - eapply Forall_impl; [|exact A]. exact P2.
      - eapply Forall_impl; [|exact A2]. cbn; intros e ->; left; apply served_old. }
    destruct okr.
    { intro H; injection H as <- <-. unfold outcome. cbn zeta. fold dn.
      split.
      { intros _. unfold arrivals. constructor; [|exact S3]. apply P2. right. apply B3; reflexivity. }
      split; [discriminate|]. split; [discriminate|].
      split; [|discriminate]. intros _.
      destruct (reload_ok_valid _ _ RL) as [V M].
      split; [intro p; rewrite D3; apply Dn|]. split; [rewrite D3; apply B3; reflexivity|].
      rewrite D3. split; [assumption|]. split; assumption. }
    (* the reload failed: Restore, then reload again *)
    intro R. pose proof (rollback_not_ok _ _ _ _ _ _ R) as Rk.
    apply rollback_spec in R as (A & Bc & W & G & Eb & Fq).
    unfold outcome. cbn zeta. fold dn.
    assert (P3 : served d (eng s3) \/ served dn (eng s3)) by (apply P2; exact G3).
    split.
    { intros Hr. assert (r = Failed) as -> by (destruct Rk; [assumption|contradiction]).
      assert (Pn : served d (EBuilt (dsk s'))) by (apply served_ceq; intros p Hp; apply Bc; auto).
      unfold arrivals. constructor.
      - destruct G as [->|[_ ->]]; [exact P3|left; exact Pn].
      - destruct W as (x & S & Ax). rewrite S. apply Forall_app. split; [|exact S3].
        eapply Forall_impl; [|exact Ax]. cbn. intros e [->|[_ ->]]; [exact P3|left; exact Pn]. }
    split.
    { intros ->. split; [intros p Hp; apply Bc; auto|].
      rewrite Eb by reflexivity. apply served_ceq. intros p Hp; apply Bc; auto. }
    split.
    { intros _ T p Hp. rewrite A by exact Hp. rewrite D3. apply U2; assumption. }
    split; [intros ->; destruct Rk; discriminate|].
    intros -> Vx Mx Vd Md.
    assert (restored_ok : forall x, (forall p, lookup p x = if covered p then lookup p d else lookup p (dsk s3)) ->
                                    valid x = true /\ metrics_ok x = true).
    { intros x Hx. assert (ceq x d) by (intros p Hp; rewrite Hx, Hp; reflexivity).
      rewrite (Vx x d), (Mx x d) by assumption. split; assumption. }
    split.
    - (* without any fault the roll-back cannot fail *)
      intros ->. assert (Q2 : flt s2 = NoFault) by (apply Q02; reflexivity).
      assert (RollbackFailed = Failed); [|discriminate].
      apply Fq; [apply Q3; exact Q2|]. intros _ x Hx _. apply restored_ok; exact Hx.
    - (* with a payload that validates and loads, the reload failed by the fault, which is then spent *)
      right.
      destruct (valid dn) eqn:Vn; [|left; reflexivity].
      destruct (metrics_ok dn) eqn:Mn; [|right; reflexivity].
      exfalso.
      assert (V2 : valid (dsk s2) = true) by (rewrite (Vx _ dn); [exact Vn|apply deq_ceq; exact Dn]).
      assert (M2 : metrics_ok (dsk s2) = true) by (rewrite (Mx _ dn); [exact Mn|apply deq_ceq; exact Dn]).
      destruct (reload_progress _ _ _ RL V2 M2) as [_ Nf].
      assert (RollbackFailed = Failed); [|discriminate].
      apply Fq; [apply Nf; reflexivity|]. intros _ x Hx _. apply restored_ok; exact Hx.
  Qed.

End Steps.
