(* C08 -- lemmas about the update model. *)
From Coq Require Import List NArith Bool Arith Permutation Lia.
From Verif Require Import C08.Model.
Import ListNotations.

(* ---------------------------------------------------------------- paths *)

Lemma area_eqb_eq a b : area_eqb a b = true <-> a = b.
Proof. destruct a, b; cbn; split; intro H; try reflexivity; discriminate. Qed.

Lemma path_eqb_eq p q : path_eqb p q = true <-> p = q.
Proof.
  destruct p as [a n], q as [b m]; unfold path_eqb; cbn [fst snd].
  rewrite andb_true_iff, area_eqb_eq, N.eqb_eq. split.
  - intros [-> ->]; reflexivity.
  - intro H; inversion H; auto.
Qed.

Lemma path_eqb_refl p : path_eqb p p = true.
Proof. apply path_eqb_eq; reflexivity. Qed.

Lemma path_eqb_neq p q : path_eqb p q = false <-> p <> q.
Proof.
  split.
  - intros H E. apply path_eqb_eq in E. congruence.
  - intro H. destruct (path_eqb p q) eqn:E; [apply path_eqb_eq in E; contradiction|reflexivity].
Qed.

Lemma path_eqb_sym p q : path_eqb p q = path_eqb q p.
Proof.
  destruct (path_eqb p q) eqn:E.
  - apply path_eqb_eq in E; subst; symmetry; apply path_eqb_refl.
  - symmetry; apply path_eqb_neq; apply path_eqb_neq in E; congruence.
Qed.

Lemma path_eq_dec (p q : path) : {p = q} + {p <> q}.
Proof.
  destruct (path_eqb p q) eqn:E; [left; apply path_eqb_eq; exact E|right; apply path_eqb_neq; exact E].
Qed.

(* ---------------------------------------------------------------- arrange *)

Lemma filter_partition_perm {A} (f : A -> bool) (l : list A) :
  Permutation l (filter f l ++ filter (fun x => negb (f x)) l).
Proof.
  induction l as [|x l IH]; cbn; [constructor|].
  destruct (f x); cbn.
  - constructor; exact IH.
  - apply Permutation_cons_app; exact IH.
Qed.

Lemma arrange_perm {A} (key : A -> path) hint : forall items,
  Permutation items (arrange key hint items).
Proof.
  induction hint as [|p h IH]; intro items; cbn; [apply Permutation_refl|].
  eapply Permutation_trans; [apply (filter_partition_perm (fun x => path_eqb p (key x)))|].
  apply Permutation_app_head. apply IH.
Qed.

(* ---------------------------------------------------------------- disks *)

Section Disk.
  Context {B : Type}.
  Notation disk := (disk B).

  Definition deq (a b : disk) : Prop := forall p, lookup p a = lookup p b.

  Lemma deq_refl a : deq a a. Proof. intro; reflexivity. Qed.
  Lemma deq_sym a b : deq a b -> deq b a. Proof. intros H p; symmetry; apply H. Qed.
  Lemma deq_trans a b c : deq a b -> deq b c -> deq a c.
  Proof. intros H1 H2 p; rewrite H1; apply H2. Qed.

  Lemma lookup_filter_key (f : path -> bool) (d : disk) p :
    lookup p (filter (fun e => f (fst e)) d) = if f p then lookup p d else None.
  Proof.
    induction d as [|[q c] r IH]; cbn; [destruct (f p); reflexivity|].
    destruct (f q) eqn:Fq; cbn.
    - destruct (path_eqb p q) eqn:E.
      + apply path_eqb_eq in E; subst. rewrite Fq; reflexivity.
      + exact IH.
    - destruct (path_eqb p q) eqn:E.
      + apply path_eqb_eq in E; subst. rewrite Fq in IH |- *. exact IH.
      + exact IH.
  Qed.

  Lemma lookup_del (d : disk) p q :
    lookup q (del p d) = if path_eqb p q then None else lookup q d.
  Proof.
    unfold del. rewrite (lookup_filter_key (fun k => negb (path_eqb p k))).
    destruct (path_eqb p q); reflexivity.
  Qed.

  Lemma lookup_set (d : disk) p c q :
    lookup q (set p c d) = if path_eqb q p then Some c else lookup q d.
  Proof.
    unfold set; cbn. destruct (path_eqb q p) eqn:E; [reflexivity|].
    rewrite lookup_del, path_eqb_sym, E; reflexivity.
  Qed.

  Lemma set_ext (a b : disk) p c : deq a b -> deq (set p c a) (set p c b).
  Proof. intros H q. rewrite !lookup_set. destruct (path_eqb q p); [reflexivity|apply H]. Qed.

  Lemma del_ext (a b : disk) p : deq a b -> deq (del p a) (del p b).
  Proof. intros H q. rewrite !lookup_del. destruct (path_eqb p q); [reflexivity|apply H]. Qed.

  Lemma apply_list_ext (l : disk) : forall a b, deq a b -> deq (apply_list B l a) (apply_list B l b).
  Proof.
    induction l as [|[p c] l IH]; intros a b H; cbn; [exact H|].
    apply IH. apply set_ext; exact H.
  Qed.

  Lemma In_del_keys (d : disk) p q : In q (map fst (del p d)) -> In q (map fst d) /\ q <> p.
  Proof.
    unfold del. rewrite !in_map_iff. intros [e [<- He]]. apply filter_In in He as [He Hn].
    split; [exists e; auto|]. intro E. apply negb_true_iff, path_eqb_neq in Hn. congruence.
  Qed.

  Lemma NoDup_keys_filter (f : path * B -> bool) (d : disk) :
    NoDup (map fst d) -> NoDup (map fst (filter f d)).
  Proof.
    induction d as [|e r IH]; cbn; intro H; [constructor|].
    inversion H as [|? ? Hn Hr]; subst. destruct (f e); cbn; [|apply IH; exact Hr].
    constructor; [|apply IH; exact Hr].
    intro Hin. apply Hn. apply in_map_iff in Hin as [e' [E He']]. apply filter_In in He' as [He' _].
    apply in_map_iff. exists e'; auto.
  Qed.

  Lemma lookup_normalize (d : disk) p : lookup p (normalize d) = lookup p d.
  Proof.
    induction d as [|[q c] r IH]; cbn; [reflexivity|].
    destruct (path_eqb p q) eqn:E; [reflexivity|].
    rewrite lookup_del, path_eqb_sym, E. exact IH.
  Qed.

  Lemma NoDup_normalize (d : disk) : NoDup (map fst (normalize d)).
  Proof.
    induction d as [|[q c] r IH]; cbn; [constructor|].
    constructor.
    - intro H. apply In_del_keys in H as [_ H]. congruence.
    - apply NoDup_keys_filter. exact IH.
  Qed.

  Lemma lookup_snapshot (d : disk) p :
    lookup p (snapshot d) = if covered p then lookup p d else None.
  Proof.
    unfold snapshot. rewrite (lookup_filter_key covered), lookup_normalize. reflexivity.
  Qed.

  Lemma NoDup_snapshot (d : disk) : NoDup (map fst (snapshot d)).
  Proof. apply NoDup_keys_filter, NoDup_normalize. Qed.

  Lemma lookup_In (d : disk) p c : lookup p d = Some c -> In (p, c) d.
  Proof.
    induction d as [|[q c'] r IH]; cbn; [discriminate|].
    destruct (path_eqb p q) eqn:E.
    - apply path_eqb_eq in E; subst. intro H; inversion H; auto.
    - intro H; right; auto.
  Qed.

  Lemma lookup_None_keys (d : disk) p : lookup p d = None <-> ~ In p (map fst d).
  Proof.
    induction d as [|[q c'] r IH]; cbn; [tauto|].
    destruct (path_eqb p q) eqn:E.
    - apply path_eqb_eq in E; subst. split; [discriminate|]. intro H; exfalso; apply H; auto.
    - apply path_eqb_neq in E. rewrite IH. split; [intros H [H1|H1]; [congruence|auto]|tauto].
  Qed.

  Lemma In_lookup (d : disk) p c : NoDup (map fst d) -> In (p, c) d -> lookup p d = Some c.
  Proof.
    induction d as [|[q c'] r IH]; cbn; [tauto|]. intros Hn [H|H].
    - inversion H; subst. rewrite path_eqb_refl; reflexivity.
    - inversion Hn as [|? ? Hq Hr]; subst.
      destruct (path_eqb p q) eqn:E; [|apply IH; assumption].
      apply path_eqb_eq in E; subst. exfalso; apply Hq. apply in_map_iff. exists (q, c); auto.
  Qed.

  Lemma lookup_filter_nodup (f : path * B -> bool) (d : disk) p :
    NoDup (map fst d) ->
    lookup p (filter f d) =
    match lookup p d with Some c => if f (p, c) then Some c else None | None => None end.
  Proof.
    induction d as [|[q c] r IH]; cbn; intro Hn; [reflexivity|].
    inversion Hn as [|? ? Hq Hr]; subst.
    destruct (path_eqb p q) eqn:E.
    - apply path_eqb_eq in E; subst. destruct (f (q, c)); cbn.
      + rewrite path_eqb_refl; reflexivity.
      + rewrite IH by exact Hr.
        assert (lookup q r = None) as -> by (apply lookup_None_keys; exact Hq). reflexivity.
    - destruct (f (q, c)); cbn; [rewrite E|]; apply IH; exact Hr.
  Qed.

  Lemma lookup_perm (a b : disk) p :
    Permutation a b -> NoDup (map fst a) -> lookup p a = lookup p b.
  Proof.
    intros HP Hn.
    assert (Hnb : NoDup (map fst b)) by (eapply Permutation_NoDup; [apply Permutation_map; exact HP|exact Hn]).
    destruct (lookup p a) as [c|] eqn:Ea.
    - symmetry. apply In_lookup; [exact Hnb|]. eapply Permutation_in; [exact HP|]. apply lookup_In; exact Ea.
    - symmetry. apply lookup_None_keys. intro H. apply lookup_None_keys in Ea. apply Ea.
      eapply Permutation_in; [apply Permutation_sym, Permutation_map; exact HP|exact H].
  Qed.

  (* writing a list of files with distinct names: each named file gets its
     content, every other file stays *)
  Lemma lookup_apply_list (l : disk) : forall d p,
    NoDup (map fst l) ->
    lookup p (apply_list B l d) = match lookup p l with Some c => Some c | None => lookup p d end.
  Proof.
    unfold apply_list.
    induction l as [|[q c] l IH]; intros d p Hn; cbn [fold_left fst snd lookup]; [reflexivity|].
    inversion Hn as [|? ? Hq Hr]; subst. rewrite IH by exact Hr.
    destruct (path_eqb p q) eqn:E.
    - apply path_eqb_eq in E; subst.
      assert (lookup q l = None) as -> by (apply lookup_None_keys; exact Hq).
      rewrite lookup_set, path_eqb_refl; reflexivity.
    - destruct (lookup p l); [reflexivity|]. rewrite lookup_set, E; reflexivity.
  Qed.

  Lemma lookup_apply_list_other (l : disk) : forall d p,
    ~ In p (map fst l) -> lookup p (apply_list B l d) = lookup p d.
  Proof.
    unfold apply_list.
    induction l as [|[q c] l IH]; intros d p Hn; cbn [fold_left fst snd]; [reflexivity|].
    cbn in Hn. rewrite IH by tauto. rewrite lookup_set.
    destruct (path_eqb p q) eqn:E; [apply path_eqb_eq in E; subst; tauto|reflexivity].
  Qed.

End Disk.

(* ---------------------------------------------------------------- the fault oracle *)

Lemma tick_quiet hook : tick hook NoFault = (false, NoFault).
Proof. reflexivity. Qed.

Lemma tick_fired hook f f' : tick hook f = (true, f') -> f' = NoFault.
Proof.
  destruct f as [|[|n]|[|k]]; cbn; try destruct hook; intro H; inversion H; reflexivity.
Qed.

(* ---------------------------------------------------------------- steps *)

Section Steps.
  Context {B D : Type}.
  Variable digest : B -> D.
  Variable D_eqb : D -> D -> bool.
  Variable empty garbage : B.
  Variable under : path -> path -> bool.
  Variable valid metrics_ok : disk B -> bool.

  Notation st := (st B).
  Notation prim := (prim B).
  Notation p_remove := (p_remove B).
  Notation store := (store B empty garbage under).
  Notation store_all := (store_all B empty garbage under).
  Notation remove_all := (remove_all B).
  Notation restore := (restore B D digest D_eqb empty garbage under).
  Notation clean_all := (clean_all B).
  Notation initialize_streams := (initialize_streams B).
  Notation reload := (reload B valid metrics_ok).
  Notation rollback := (rollback B D digest D_eqb empty garbage under valid metrics_ok).
  Notation update := (update B D digest D_eqb empty garbage under valid metrics_ok).
  Notation save_all := (save_all B empty garbage under).
  Notation is_dir := (is_dir under).
  Notation file_above := (file_above under).

  (* a file-system operation: never touches the engine, every arrival during
     it meets the current engine, it can only fail by the oracle, and once the
     oracle has struck it is silent *)
  Definition fsop (s s' : st) (ok : bool) : Prop :=
    eng s' = eng s /\
    (exists extra, seen s' = extra ++ seen s /\ Forall (fun e => e = eng s) extra) /\
    (flt s = NoFault -> ok = true /\ flt s' = NoFault) /\
    (ok = false -> flt s' = NoFault).

  Lemma fsop_refl s : fsop s s true.
  Proof.
    refine (conj eq_refl (conj _ (conj _ _))).
    - exists []; split; [reflexivity|constructor].
    - intro Q; split; [reflexivity|exact Q].
    - discriminate.
  Qed.

  Lemma fsop_trans s s1 s2 ok : fsop s s1 true -> fsop s1 s2 ok -> fsop s s2 ok.
  Proof.
    intros (E1 & (x1 & S1 & F1) & Q1 & _) (E2 & (x2 & S2 & F2) & Q2 & N2).
    refine (conj _ (conj _ (conj _ N2))).
    - congruence.
    - exists (x2 ++ x1). split; [rewrite S2, S1, app_assoc; reflexivity|].
      apply Forall_app; split; [|exact F1].
      eapply Forall_impl; [|exact F2]. cbn; intros e ->; exact E1.
    - intro Q. apply Q2, Q1; exact Q.
  Qed.

  (* an operation whose error is ignored *)
  Lemma fsop_ignore s s1 s2 ok : fsop s s1 true -> fsop s1 s2 ok -> fsop s s2 true.
  Proof.
    intros F1 F2. destruct ok; [eapply fsop_trans; eassumption|].
    destruct F1 as (E1 & (x1 & S1 & A1) & Q1 & _), F2 as (E2 & (x2 & S2 & A2) & Q2 & N2).
    refine (conj _ (conj _ (conj _ _))).
    - congruence.
    - exists (x2 ++ x1). split; [rewrite S2, S1, app_assoc; reflexivity|].
      apply Forall_app; split; [|exact A1].
      eapply Forall_impl; [|exact A2]. cbn; intros e ->; exact E1.
    - intros _. split; [reflexivity|apply N2; reflexivity].
    - discriminate.
  Qed.

  Lemma fsop_with_disk s s' ok f : fsop s s' ok -> fsop s (with_disk B f s') ok.
  Proof. intros (E & X & Q & N). exact (conj E (conj X (conj Q N))). Qed.

  Lemma fsop_with_disk_l s s' ok f : fsop (with_disk B f s) s' ok -> fsop s s' ok.
  Proof. intros (E & X & Q & N). exact (conj E (conj X (conj Q N))). Qed.

  Lemma prim_spec hook s fired s1 :
    prim hook s = (fired, s1) -> dsk s1 = dsk s /\ fsop s s1 (negb fired).
  Proof.
    unfold Model.prim. destruct (tick hook (flt s)) as [fr f'] eqn:T. intro H; inversion H; subst; clear H.
    split; [reflexivity|]. refine (conj eq_refl (conj _ (conj _ _))); cbn [seen flt eng].
    - exists [eng s]; split; [reflexivity|repeat constructor].
    - intro Q; rewrite Q in T; cbn in T; inversion T; split; reflexivity.
    - intro Hf. apply negb_false_iff in Hf; subst. eapply tick_fired; exact T.
  Qed.

  Lemma p_remove_spec hook p s ok s' :
    p_remove hook p s = (ok, s') ->
    fsop s s' ok /\ (ok = true -> dsk s' = del p (dsk s)) /\ (ok = false -> dsk s' = dsk s).
  Proof.
    unfold p_remove. destruct (prim hook s) as [fired s1] eqn:P.
    apply prim_spec in P as [Hd Hf]. destruct fired; intro H; inversion H; subst; clear H.
    - split; [exact Hf|]. split; [discriminate|auto].
    - split; [apply fsop_with_disk; exact Hf|]. split; [cbn; congruence|discriminate].
  Qed.

  (* ---- the tree structure: what can block a store ---- *)

  (* the store of [p] is blocked: a file stands where it needs a directory, or
     it is itself a directory that holds files *)
  Definition blocked (p : path) (d : disk B) : bool := file_above p d || is_dir p d.

  (* the keys of a disk *)
  Definition has (q : path) (d : disk B) : Prop := lookup q d <> None.

  Lemma has_In q (d : disk B) : has q d <-> In q (map fst d).
  Proof.
    unfold has. split.
    - intro H. destruct (in_dec path_eq_dec q (map fst d)) as [I|I]; [exact I|].
      apply lookup_None_keys in I. contradiction.
    - intros I H. apply lookup_None_keys in H. contradiction.
  Qed.

  Lemma existsb_keys (f : path -> bool) (d : disk B) :
    existsb (fun e => f (fst e)) d = true <-> exists q, has q d /\ f q = true.
  Proof.
    rewrite existsb_exists. split.
    - intros [[q c] [Hin Hf]]. exists q. split; [apply has_In, in_map_iff; exists (q, c); auto|exact Hf].
    - intros [q [Hq Hf]]. apply has_In, in_map_iff in Hq as [[q' c] [E Hin]]. cbn in E; subst.
      exists (q, c). auto.
  Qed.

  Lemma is_dir_spec p d : is_dir p d = true <-> exists q, has q d /\ q <> p /\ under p q = true.
  Proof.
    unfold Model.is_dir. rewrite (existsb_keys (fun k => negb (path_eqb p k) && under p k)). split.
    - intros [q [Hq Hf]]. apply andb_true_iff in Hf as [N U]. exists q. split; [exact Hq|]. split; [|exact U].
      apply negb_true_iff, path_eqb_neq in N. congruence.
    - intros [q [Hq [N U]]]. exists q. split; [exact Hq|]. apply andb_true_iff. split; [|exact U].
      apply negb_true_iff, path_eqb_neq. congruence.
  Qed.

  Lemma file_above_spec p d : file_above p d = true <-> exists q, has q d /\ q <> p /\ under q p = true.
  Proof.
    unfold Model.file_above. rewrite (existsb_keys (fun k => negb (path_eqb p k) && under k p)). split.
    - intros [q [Hq Hf]]. apply andb_true_iff in Hf as [N U]. exists q. split; [exact Hq|]. split; [|exact U].
      apply negb_true_iff, path_eqb_neq in N. congruence.
    - intros [q [Hq [N U]]]. exists q. split; [exact Hq|]. apply andb_true_iff. split; [|exact U].
      apply negb_true_iff, path_eqb_neq. congruence.
  Qed.

  Lemma blocked_spec p d :
    blocked p d = true <-> exists q, has q d /\ q <> p /\ (under p q = true \/ under q p = true).
  Proof.
    unfold blocked. rewrite orb_true_iff, is_dir_spec, file_above_spec. split.
    - intros [(q & H & N & U)|(q & H & N & U)]; exists q; auto.
    - intros (q & H & N & [U|U]); [right|left]; exists q; auto.
  Qed.

  (* [blocked p] looks at the other files only *)
  Lemma blocked_ext p a b :
    (forall q, q <> p -> has q a <-> has q b) -> blocked p a = blocked p b.
  Proof.
    intro E.
    assert (W : forall x y, (forall q, q <> p -> has q x <-> has q y) -> blocked p x = true -> blocked p y = true).
    { intros x y Exy H. apply blocked_spec in H as (q & Hq & N & U). apply blocked_spec. exists q.
      split; [apply (Exy q N); exact Hq|auto]. }
    destruct (blocked p a) eqn:Ba; [symmetry; apply (W a b E Ba)|].
    destruct (blocked p b) eqn:Bb; [|reflexivity].
    rewrite (W b a) in Ba; [discriminate| |exact Bb]. intros q N. symmetry. apply E; exact N.
  Qed.

  Lemma blocked_split p d : blocked p d = false -> file_above p d = false /\ is_dir p d = false.
  Proof. unfold blocked. intro H. apply orb_false_iff in H. exact H. Qed.

  (* a file-system operation that may also be blocked: the engine is not
     touched, arrivals meet the current engine, a silent oracle stays silent *)
  Definition fsopw (s s' : st) : Prop :=
    eng s' = eng s /\
    (exists extra, seen s' = extra ++ seen s /\ Forall (fun e => e = eng s) extra) /\
    (flt s = NoFault -> flt s' = NoFault).

  Lemma fsop_fsopw s s' ok : fsop s s' ok -> fsopw s s'.
  Proof. intros (E & X & Q & _). split; [exact E|]. split; [exact X|]. intro F; apply Q; exact F. Qed.

  Lemma fsopw_refl s : fsopw s s.
  Proof. apply (fsop_fsopw _ _ true), fsop_refl. Qed.

  Lemma fsopw_trans s s1 s2 : fsopw s s1 -> fsopw s1 s2 -> fsopw s s2.
  Proof.
    intros (E1 & (x1 & S1 & F1) & Q1) (E2 & (x2 & S2 & F2) & Q2).
    split; [congruence|]. split; [|intro Q; apply Q2, Q1; exact Q].
    exists (x2 ++ x1). split; [rewrite S2, S1, app_assoc; reflexivity|].
    apply Forall_app; split; [|exact F1].
    eapply Forall_impl; [|exact F2]. cbn; intros e ->; exact E1.
  Qed.

  Lemma store_spec p c s ok s' :
    store p c s = (ok, s') ->
    fsopw s s' /\
    (flt s = NoFault -> ok = negb (blocked p (dsk s))) /\
    (ok = false -> flt s' = NoFault \/ blocked p (dsk s) = true) /\
    (ok = true -> deq (dsk s') (set p c (dsk s))) /\
    (forall q, q <> p -> lookup q (dsk s') = lookup q (dsk s)).
  Proof.
    unfold Model.store.
    destruct (prim true s) as [f0 s0] eqn:P0. apply prim_spec in P0 as [D0 F0].
    destruct f0.
    { intro H; inversion H; subst. cbn [negb] in F0. split; [eapply fsop_fsopw; exact F0|].
      split; [intro Q; destruct F0 as (_ & _ & Q0 & _); destruct (Q0 Q); discriminate|].
      split; [intros _; left; destruct F0 as (_ & _ & _ & N0); apply N0; reflexivity|].
      split; [discriminate|intros; congruence]. }
    cbn [negb] in F0.
    destruct (p_remove true p s0) as [okr s1] eqn:P1. apply p_remove_spec in P1 as (F1 & R1t & R1f).
    assert (F01 : fsop s s1 true /\ (forall q, q <> p -> lookup q (dsk s1) = lookup q (dsk s))).
    { split; [eapply fsop_ignore; eassumption|]. destruct okr.
      - intros q Hq. rewrite R1t, lookup_del by reflexivity.
        rewrite D0. destruct (path_eqb p q) eqn:E; [apply path_eqb_eq in E; congruence|reflexivity].
      - intros q _. rewrite R1f, D0 by reflexivity. reflexivity. }
    destruct F01 as [F01 K1].
    assert (B1 : blocked p (dsk s1) = blocked p (dsk s)).
    { apply blocked_ext. intros q N. unfold has. rewrite (K1 q N). tauto. }
    destruct (prim false s1) as [f2 s2] eqn:P2. apply prim_spec in P2 as [D2 F2].
    assert (F02 : fsop s s2 (negb f2)) by (eapply fsop_trans; eassumption).
    rewrite D2.
    destruct (f2 || file_above p (dsk s1)) eqn:C2.
    { intro H; inversion H; subst. split; [eapply fsop_fsopw; exact F02|].
      split.
      { intro Q. destruct F02 as (_ & _ & Q2 & _). destruct (Q2 Q) as [Hf _].
        apply negb_true_iff in Hf. subst f2. cbn [orb] in C2.
        rewrite <- B1. unfold blocked. rewrite C2. reflexivity. }
      split.
      { intros _. destruct f2.
        - left. destruct F02 as (_ & _ & _ & N2). apply N2; reflexivity.
        - right. cbn [orb] in C2. rewrite <- B1. unfold blocked. rewrite C2. reflexivity. }
      split; [discriminate|]. intros q Hq. rewrite D2. auto. }
    apply orb_false_iff in C2 as [-> A2]. cbn [negb] in F02.
    destruct (prim false s2) as [f3 s3] eqn:P3. apply prim_spec in P3 as [D3 F3].
    assert (F03 : fsop s s3 (negb f3)) by (eapply fsop_trans; eassumption).
    rewrite D3, D2.
    destruct (f3 || is_dir p (dsk s1)) eqn:C3.
    { intro H; inversion H; subst. split; [eapply fsop_fsopw; exact F03|].
      split.
      { intro Q. destruct F03 as (_ & _ & Q3 & _). destruct (Q3 Q) as [Hf _].
        apply negb_true_iff in Hf. subst f3. cbn [orb] in C3.
        rewrite <- B1. unfold blocked. rewrite C3, orb_true_r. reflexivity. }
      split.
      { intros _. destruct f3.
        - left. destruct F03 as (_ & _ & _ & N3). apply N3; reflexivity.
        - right. cbn [orb] in C3. rewrite <- B1. unfold blocked. rewrite C3, orb_true_r. reflexivity. }
      split; [discriminate|]. intros q Hq. rewrite D3, D2. auto. }
    apply orb_false_iff in C3 as [-> A3]. cbn [negb] in F03.
    assert (NB : blocked p (dsk s) = false) by (rewrite <- B1; unfold blocked; rewrite A2, A3; reflexivity).
    destruct (prim false (with_disk B (set p empty) s3)) as [f4 s4] eqn:P4.
    apply prim_spec in P4 as [D4 F4]. apply fsop_with_disk_l in F4.
    assert (F04 : fsop s s4 (negb f4)) by (eapply fsop_trans; eassumption).
    destruct f4; intro H; inversion H; subst; clear H.
    - split; [apply (fsop_fsopw _ _ false), fsop_with_disk; exact F04|].
      split; [intro Q; destruct F04 as (_ & _ & Q4 & _); destruct (Q4 Q); discriminate|].
      split; [intros _; left; destruct F04 as (_ & _ & _ & N4); cbn [flt with_disk]; apply N4; reflexivity|].
      split; [discriminate|].
      intros q Hq. cbn [dsk with_disk]. rewrite lookup_set.
      destruct (path_eqb q p) eqn:E; [apply path_eqb_eq in E; congruence|].
      rewrite D4; cbn [dsk with_disk]. rewrite lookup_set, E, D3, D2. auto.
    - split; [apply (fsop_fsopw _ _ true), fsop_with_disk; exact F04|].
      split; [intros _; rewrite NB; reflexivity|]. split; [discriminate|]. split.
      + intros _ q. cbn [dsk with_disk]. rewrite !lookup_set.
        destruct (path_eqb q p) eqn:E; [reflexivity|].
        rewrite D4; cbn [dsk with_disk]. rewrite lookup_set, E, D3, D2. apply K1. apply path_eqb_neq; exact E.
      + intros q Hq. cbn [dsk with_disk]. rewrite lookup_set.
        destruct (path_eqb q p) eqn:E; [apply path_eqb_eq in E; congruence|].
        rewrite D4; cbn [dsk with_disk]. rewrite lookup_set, E, D3, D2. auto.
  Qed.

  (* a store can only add its own key *)
  Lemma store_has p c s ok s' q : store p c s = (ok, s') -> has q (dsk s') -> q = p \/ has q (dsk s).
  Proof.
    intros R H. apply store_spec in R as (_ & _ & _ & _ & K).
    destruct (path_eq_dec q p) as [E|N]; [left; exact E|right]. unfold has in *. rewrite <- (K q N). exact H.
  Qed.

  Lemma store_all_spec l : forall s ok s',
    store_all l s = (ok, s') ->
    fsopw s s' /\
    (ok = true -> deq (dsk s') (apply_list B l (dsk s))) /\
    (forall q, ~ In q (map fst l) -> lookup q (dsk s') = lookup q (dsk s)).
  Proof.
    induction l as [|[p c] l IH]; intros s ok s'; cbn.
    - intro H; inversion H; subst. split; [apply fsopw_refl|]. split; [intros _; apply deq_refl|auto].
    - destruct (store p c s) as [ok1 s1] eqn:S1. apply store_spec in S1 as (F1 & _ & _ & E1 & K1).
      destruct ok1.
      + intro H. apply IH in H as (F2 & E2 & K2).
        split; [eapply fsopw_trans; eassumption|]. split.
        * intro Hok. eapply deq_trans; [apply E2; exact Hok|]. apply apply_list_ext. apply E1; reflexivity.
        * intros q Hq. rewrite K2 by tauto. apply K1. intro; subst; tauto.
      + intro H; inversion H; subst. split; [exact F1|]. split; [discriminate|].
        intros q Hq. apply K1. intro; subst; tauto.
  Qed.

  (* a sequence of stores none of which can be blocked: every key it writes is
     compatible with every key of [K], and the disk holds keys of [K] only.
     Without fault it succeeds; when it fails the oracle has struck. *)
  Lemma store_all_unblocked (K : path -> Prop) l : forall s ok s',
    store_all l s = (ok, s') ->
    (forall q, has q (dsk s) -> K q) ->
    (forall p, In p (map fst l) -> K p /\ forall q, K q -> q <> p -> under p q = false /\ under q p = false) ->
    (flt s = NoFault -> ok = true) /\ (ok = false -> flt s' = NoFault).
  Proof.
    induction l as [|[p c] l IH]; intros s ok s'; cbn [Model.store_all].
    - intros H _ _; inversion H; subst. split; [reflexivity|discriminate].
    - destruct (store p c s) as [ok1 s1] eqn:S1. intros R HK HC.
      pose proof (fun q => store_has _ _ _ _ _ q S1) as Hhas.
      apply store_spec in S1 as ((_ & _ & Q1) & D1 & N1 & _ & _).
      assert (NB : blocked p (dsk s) = false).
      { destruct (blocked p (dsk s)) eqn:Bp; [|reflexivity]. exfalso.
        apply blocked_spec in Bp as (q & Hq & N & U).
        destruct (HC p (or_introl eq_refl)) as [_ C]. destruct (C q (HK q Hq) N) as [U1 U2].
        destruct U as [U|U]; congruence. }
      destruct ok1.
      + assert (HK1 : forall q, has q (dsk s1) -> K q).
        { intros q Hq. destruct (Hhas q Hq) as [->|H]; [apply (HC p); left; reflexivity|apply HK; exact H]. }
        destruct (IH _ _ _ R HK1 (fun p' Hp' => HC p' (or_intror Hp'))) as [A1 A2].
        split; [intro Q; apply A1, Q1, Q|exact A2].
      + inversion R; subst. split.
        * intro Q. rewrite (D1 Q), NB. reflexivity.
        * intros _. destruct (N1 eq_refl) as [N|N]; [exact N|congruence].
  Qed.

  Lemma remove_all_spec hook l : forall s ok s',
    remove_all hook l s = (ok, s') ->
    fsop s s' ok /\
    (ok = true -> forall q, lookup q (dsk s') = if existsb (path_eqb q) l then None else lookup q (dsk s)) /\
    (forall q, ~ In q l -> lookup q (dsk s') = lookup q (dsk s)).
  Proof.
    induction l as [|p l IH]; intros s ok s'; cbn.
    - intro H; inversion H; subst. split; [apply fsop_refl|]. split; auto.
    - destruct (p_remove hook p s) as [ok1 s1] eqn:S1. apply p_remove_spec in S1 as (F1 & E1 & K1).
      destruct ok1.
      + intro H. apply IH in H as (F2 & E2 & K2).
        split; [eapply fsop_trans; eassumption|]. split.
        * intros Hok q. rewrite E2 by exact Hok. rewrite E1 by reflexivity. rewrite lookup_del.
          rewrite (path_eqb_sym q p).
          destruct (existsb (path_eqb q) l); destruct (path_eqb p q); reflexivity.
        * intros q Hq. rewrite K2 by tauto. rewrite E1 by reflexivity. rewrite lookup_del.
          destruct (path_eqb p q) eqn:E; [apply path_eqb_eq in E; subst; tauto|reflexivity].
      + intro H; inversion H; subst. split; [exact F1|]. split; [discriminate|].
        intros q _. rewrite K1 by reflexivity. reflexivity.
  Qed.

  Lemma existsb_path_In q l : existsb (path_eqb q) l = true <-> In q l.
  Proof.
    rewrite existsb_exists. split.
    - intros [x [Hx E]]. apply path_eqb_eq in E; subst; exact Hx.
    - intro H; exists q; split; [exact H|apply path_eqb_refl].
  Qed.

  (* ---- the contents met by a run ----
     Restore compares digests.  The digest is only assumed injective on the
     contents a run can meet ([met]): those of the disk before the update, of
     the payload, of a freshly created file and what a failing write leaves
     behind.  [dmet d]: every content stored on [d] is one of them. *)
  Variable met : B -> Prop.

  Definition dmet (d : disk B) : Prop := Forall (fun e => met (snd e)) d.

  Lemma dmet_del p d : dmet d -> dmet (del p d).
  Proof.
    unfold dmet, del. intro H. apply Forall_forall. intros e He. apply filter_In in He as [He _].
    rewrite Forall_forall in H. apply H; exact He.
  Qed.

  Lemma dmet_set p c d : met c -> dmet d -> dmet (set p c d).
  Proof. intros Hc H. unfold set. constructor; [exact Hc|apply dmet_del; exact H]. Qed.

  Lemma dmet_lookup d p c : dmet d -> lookup p d = Some c -> met c.
  Proof.
    intros H L. apply lookup_In in L. unfold dmet in H. rewrite Forall_forall in H.
    apply (H _ L).
  Qed.

  Lemma dmet_filter f d : dmet d -> dmet (filter f d).
  Proof.
    unfold dmet. intro H. apply Forall_forall. intros e He. apply filter_In in He as [He _].
    rewrite Forall_forall in H. apply H; exact He.
  Qed.

  Lemma dmet_normalize d : dmet d -> dmet (normalize d).
  Proof.
    induction d as [|[q c] r IH]; cbn [normalize]; intro H; [constructor|].
    inversion H; subst. constructor; [assumption|]. apply dmet_del. apply IH. assumption.
  Qed.

  Lemma dmet_snapshot d : dmet d -> dmet (snapshot d).
  Proof. intro H. unfold snapshot. apply dmet_filter, dmet_normalize, H. Qed.

  Lemma dmet_perm a b : Permutation a b -> dmet a -> dmet b.
  Proof. unfold dmet. intros P H. eapply Permutation_Forall; eassumption. Qed.

  Lemma prim_dsk hook s f s1 : prim hook s = (f, s1) -> dsk s1 = dsk s.
  Proof. intro P. apply prim_spec in P as [Hd _]. exact Hd. Qed.

  Lemma p_remove_dmet hook p s ok s' : p_remove hook p s = (ok, s') -> dmet (dsk s) -> dmet (dsk s').
  Proof.
    intros R H. apply p_remove_spec in R as (_ & Ht & Hf).
    destruct ok; [rewrite Ht by reflexivity; apply dmet_del; exact H|rewrite Hf by reflexivity; exact H].
  Qed.

  Hypothesis met_empty : met empty.
  Hypothesis met_garbage : met garbage.

  Lemma store_dmet p c s ok s' :
    store p c s = (ok, s') -> met c -> dmet (dsk s) -> dmet (dsk s').
  Proof.
    unfold Model.store. intros R Hc H.
    destruct (prim true s) as [f0 s0] eqn:P0. apply prim_dsk in P0.
    destruct f0; [inversion R; subst; rewrite P0; exact H|].
    destruct (p_remove true p s0) as [okr s1] eqn:P1. apply p_remove_dmet in P1; [|rewrite P0; exact H].
    destruct (prim false s1) as [f2 s2] eqn:P2. apply prim_dsk in P2.
    destruct (f2 || file_above p (dsk s2)); [inversion R; subst; rewrite P2; exact P1|].
    destruct (prim false s2) as [f3 s3] eqn:P3. apply prim_dsk in P3.
    destruct (f3 || is_dir p (dsk s3)); [inversion R; subst; rewrite P3, P2; exact P1|].
    destruct (prim false (with_disk B (set p empty) s3)) as [f4 s4] eqn:P4. apply prim_dsk in P4.
    cbn [dsk with_disk] in P4.
    assert (H3 : dmet (dsk s3)) by (rewrite P3, P2; exact P1).
    destruct f4; inversion R; subst; cbn [dsk with_disk]; rewrite P4;
      apply dmet_set; try assumption; apply dmet_set; assumption.
  Qed.

  Lemma store_all_dmet l : forall s ok s',
    store_all l s = (ok, s') -> dmet l -> dmet (dsk s) -> dmet (dsk s').
  Proof.
    induction l as [|[p c] l IH]; intros s ok s'; cbn [Model.store_all].
    - intros R _ H; inversion R; subst; exact H.
    - destruct (store p c s) as [ok1 s1] eqn:S1. intros R Hl H. inversion Hl; subst.
      apply store_dmet in S1; [|assumption|exact H].
      destruct ok1; [eapply IH; eassumption|inversion R; subst; exact S1].
  Qed.

  Lemma remove_all_dmet hook l : forall s ok s',
    remove_all hook l s = (ok, s') -> dmet (dsk s) -> dmet (dsk s').
  Proof.
    induction l as [|p l IH]; intros s ok s'; cbn [Model.remove_all].
    - intros R H; inversion R; subst; exact H.
    - destruct (p_remove hook p s) as [ok1 s1] eqn:S1. intros R H.
      apply p_remove_dmet in S1; [|exact H].
      destruct ok1; [eapply IH; eassumption|inversion R; subst; exact S1].
  Qed.

  Lemma clean_all_dmet hint s ok s' : clean_all hint s = (ok, s') -> dmet (dsk s) -> dmet (dsk s').
  Proof.
    unfold Model.clean_all. intros R H.
    destruct (remove_all false _ s) as [ok1 s1] eqn:R1. apply remove_all_dmet in R1; [|exact H].
    destruct ok1; [eapply remove_all_dmet; eassumption|inversion R; subst; exact R1].
  Qed.

  Lemma save_all_dmet fixed l : forall s ok s',
    save_all fixed l s = (ok, s') -> Forall (fun x => met (snd (fst x))) l -> dmet (dsk s) -> dmet (dsk s').
  Proof.
    induction l as [|x l IH]; intros s ok s'; cbn [Model.save_all].
    - intros R _ H; inversion R; subst; exact H.
    - intros R Hl H. inversion Hl; subst.
      destruct (refused B fixed x); [inversion R; subst; exact H|].
      destruct (store (ikey B x) (snd (fst x)) s) as [ok1 s1] eqn:S1.
      apply store_dmet in S1; [|assumption|exact H].
      destruct ok1; [eapply IH; eassumption|inversion R; subst; exact S1].
  Qed.

  (* ---- Restore ---- *)
  Hypothesis D_eqb_spec : forall a b, D_eqb a b = true <-> a = b.
  Hypothesis digest_inj : forall a b, met a -> met b -> digest a = digest b -> a = b.

  (* removing never adds a file *)
  Lemma p_remove_has hook p s ok s' q : p_remove hook p s = (ok, s') -> has q (dsk s') -> has q (dsk s).
  Proof.
    intros R H. apply p_remove_spec in R as (_ & Ht & Hf). unfold has in *.
    destruct ok; [|rewrite Hf in H by reflexivity; exact H].
    rewrite Ht, lookup_del in H by reflexivity. destruct (path_eqb p q); [congruence|exact H].
  Qed.

  Lemma remove_all_has hook l : forall s ok s' q,
    remove_all hook l s = (ok, s') -> has q (dsk s') -> has q (dsk s).
  Proof.
    induction l as [|p l IH]; intros s ok s' q; cbn [Model.remove_all].
    - intros R H; inversion R; subst; exact H.
    - destruct (p_remove hook p s) as [ok1 s1] eqn:S1. intros R H.
      destruct ok1.
      + apply (p_remove_has _ _ _ _ _ _ S1). apply (IH _ _ _ _ R H).
      + inversion R; subst. apply (p_remove_has _ _ _ _ _ _ S1 H).
  Qed.

  (* Restore, strays first (the gateway after fix-F-C08j) *)
  Lemma restore_spec hint d0 s ok s' :
    dmet d0 -> dmet (dsk s) ->
    restore true hint (snapshot d0) s = (ok, s') ->
    fsopw s s' /\
    (ok = true -> forall p, lookup p (dsk s') = if covered p then lookup p d0 else lookup p (dsk s)) /\
    (forall p, covered p = false -> lookup p (dsk s') = lookup p (dsk s)) /\
    (* when the disk that was backed up is a tree and nothing was added outside
       the snapshot, no write of the roll-back can be blocked: it fails only
       by the oracle *)
    (tree under d0 -> (forall q, covered q = false -> has q (dsk s) -> has q d0) ->
     (flt s = NoFault -> ok = true) /\ (ok = false -> flt s' = NoFault)).
  Proof.
    intros M0 Ms. unfold Model.restore.
    destruct (prim false s) as [f s1] eqn:P. apply prim_spec in P as [D1 F1].
    destruct f.
    { intro H; inversion H; subst. split; [eapply fsop_fsopw; exact F1|]. split; [discriminate|].
      split; [intros; congruence|]. intros _ _. destruct F1 as (_ & _ & Q1 & N1). split.
      - intro Q. destruct (Q1 Q); discriminate.
      - intros _. apply N1. reflexivity. }
    cbn [negb] in F1.
    set (bk := snapshot d0). set (cur := snapshot (dsk s1)).
    set (todo := filter (fun e => negb (same_digest B D digest D_eqb (lookup (fst e) cur) (snd e))) bk).
    set (strays := filter (fun e => negb (has_key B (fst e) bk)) cur).
    assert (Hbk : NoDup (map fst bk)) by apply NoDup_snapshot.
    assert (Htodo : NoDup (map fst todo)) by (apply NoDup_keys_filter; exact Hbk).
    assert (Hcur : NoDup (map fst cur)) by apply NoDup_snapshot.
    assert (todo_bk : forall q, In q (map fst todo) -> covered q = true /\ has q d0).
    { intros q Hq. apply in_map_iff in Hq as [[q' c] [<- He]]. apply filter_In in He as [He _].
      cbn. pose proof (In_lookup bk q' c Hbk He) as L. unfold bk in L. rewrite lookup_snapshot in L.
      unfold has. destruct (covered q'); [split; [reflexivity|congruence]|discriminate]. }
    assert (stray_cov : forall q, In q (map fst strays) -> covered q = true /\ lookup q bk = None).
    { intros q Hq. apply in_map_iff in Hq as [[q' c] [<- He]]. apply filter_In in He as [He Hk].
      cbn in *. pose proof (In_lookup cur q' c Hcur He) as L. unfold cur in L. rewrite lookup_snapshot in L.
      split; [destruct (covered q'); [reflexivity|discriminate]|].
      unfold has_key in Hk. destruct (lookup q' bk); [discriminate|reflexivity]. }
    assert (arr1 : forall q l, In q (arrange (fun p => p) l (map fst strays)) <-> In q (map fst strays)).
    { intros q l. split; intro H.
      - eapply Permutation_in; [apply Permutation_sym, arrange_perm|exact H].
      - eapply Permutation_in; [apply arrange_perm|exact H]. }
    assert (arr2 : forall q l, In q (map fst (arrange fst l todo)) <-> In q (map fst todo)).
    { intros q l. split; intro H.
      - eapply Permutation_in; [apply Permutation_map, Permutation_sym, arrange_perm|exact H].
      - eapply Permutation_in; [apply Permutation_map, arrange_perm|exact H]. }
    destruct (remove_all true (arrange (fun p => p) (skipn (hk s1) hint) (map fst strays)) s1) as [ok1 s2] eqn:RA.
    pose proof (fun q => remove_all_has _ _ _ _ _ q RA) as H2.
    apply remove_all_spec in RA as (F2 & E2 & K2).
    assert (F02 : fsop s s2 ok1) by (eapply fsop_trans; eassumption).
    destruct ok1.
    2:{ intro H; inversion H; subst. split; [eapply fsop_fsopw; exact F02|]. split; [discriminate|].
        split.
        - intros p Hp. rewrite K2, D1; [reflexivity|]. intro Hin. apply arr1, stray_cov in Hin as [Hc _]. congruence.
        - intros _ _. destruct F02 as (_ & _ & Q2 & N2). split.
          + intro Q. destruct (Q2 Q); discriminate.
          + intros _. apply N2; reflexivity. }
    specialize (E2 eq_refl).
    assert (Lcur : forall p, lookup p cur = if covered p then lookup p (dsk s1) else None)
      by (intro p; unfold cur; apply lookup_snapshot).
    (* what is left after the strays are gone *)
    assert (L2 : forall p, lookup p (dsk s2) =
                           if covered p then match lookup p d0 with Some _ => lookup p (dsk s1) | None => None end
                           else lookup p (dsk s1)).
    { intro p. rewrite E2. destruct (existsb (path_eqb p) _) eqn:Ex.
      - apply existsb_path_In, arr1, stray_cov in Ex as [Hc Hb]. rewrite Hc.
        unfold bk in Hb. rewrite lookup_snapshot, Hc in Hb. rewrite Hb. reflexivity.
      - assert (Hns : ~ In p (map fst strays)).
        { intro H. apply (arr1 p (skipn (hk s1) hint)), existsb_path_In in H. congruence. }
        destruct (covered p) eqn:Hc; [|reflexivity].
        destruct (lookup p d0) eqn:L0; [reflexivity|].
        destruct (lookup p (dsk s1)) as [c'|] eqn:L1; [|reflexivity].
        exfalso. apply Hns. apply in_map_iff. exists (p, c'). split; [reflexivity|].
        unfold strays. apply filter_In. split.
        + apply lookup_In. rewrite Lcur, Hc. exact L1.
        + cbn [fst]. unfold has_key, bk. rewrite lookup_snapshot, Hc, L0. reflexivity. }
    intro SA. pose proof SA as SA'. apply store_all_spec in SA as (F3 & E3 & K3).
    split; [eapply fsopw_trans; [eapply fsop_fsopw; exact F02|exact F3]|]. split; [|split].
    - intros Hok p. rewrite (E3 Hok p).
      rewrite (lookup_apply_list _ (dsk s2) p).
      2:{ eapply Permutation_NoDup; [apply Permutation_map, arrange_perm|exact Htodo]. }
      rewrite <- (lookup_perm todo _ p (arrange_perm fst _ todo) Htodo).
      unfold todo. rewrite (lookup_filter_nodup _ bk p Hbk). cbn [fst snd].
      unfold bk at 1. rewrite lookup_snapshot, L2.
      destruct (covered p) eqn:Hc; [|rewrite D1; reflexivity].
      destruct (lookup p d0) as [c|] eqn:L0; [|reflexivity].
      destruct (same_digest B D digest D_eqb (lookup p cur) c) eqn:SD; cbn [negb]; [|reflexivity].
      unfold same_digest in SD. rewrite Lcur, Hc in SD.
      destruct (lookup p (dsk s1)) as [c'|] eqn:L1; [|discriminate].
      apply D_eqb_spec, digest_inj in SD; [subst; reflexivity| |].
      + eapply dmet_lookup; [|exact L1]. rewrite D1; exact Ms.
      + eapply dmet_lookup; [exact M0|exact L0].
    - intros p Hp. rewrite K3.
      + rewrite L2, Hp, D1. reflexivity.
      + intro Hin. apply arr2, todo_bk in Hin as [Hc _]. congruence.
    - intros T U.
      destruct (store_all_unblocked (fun q => has q d0) _ _ _ _ SA') as [A1 A2].
      + intros q Hq. unfold has in Hq. rewrite L2 in Hq. destruct (covered q) eqn:Hc.
        * unfold has. destruct (lookup q d0); [discriminate|contradiction].
        * apply U; [exact Hc|]. unfold has. rewrite <- D1. exact Hq.
      + intros p Hp. apply arr2, todo_bk in Hp as [_ Hp]. split; [exact Hp|].
        intros q Hq N. split; apply T; assumption.
      + destruct F02 as (_ & _ & Q2 & _). split; [intro Q; apply A1; apply (Q2 Q)|exact A2].
  Qed.

  (* ---- CleanAll ---- *)

  Lemma covered_cases p :
    covered p = true -> in_directory p = true \/ p = gateway_file \/ p = metrics_file.
  Proof.
    destruct p as [a n]; unfold covered, in_directory, gateway_file, metrics_file; cbn [fst snd].
    destruct a; intro H; auto; try discriminate; apply N.eqb_eq in H; subst; auto.
  Qed.

  Lemma in_directory_covered p : in_directory p = true -> covered p = true.
  Proof. destruct p as [a n]; unfold covered, in_directory; cbn [fst]. destruct a; auto; discriminate. Qed.

  Lemma clean_all_spec hint s ok s' :
    clean_all hint s = (ok, s') ->
    fsop s s' ok /\
    (ok = true -> forall p, lookup p (dsk s') = if covered p then None else lookup p (dsk s)) /\
    (forall p, covered p = false -> lookup p (dsk s') = lookup p (dsk s)).
  Proof.
    unfold Model.clean_all.
    set (files := filter in_directory (map fst (snapshot (dsk s)))).
    assert (files_cov : forall q, In q files -> covered q = true).
    { intros q Hq. apply filter_In in Hq as [_ Hq]. apply in_directory_covered; exact Hq. }
    destruct (remove_all false files s) as [ok1 s1] eqn:R1. apply remove_all_spec in R1 as (F1 & E1 & K1).
    destruct ok1.
    2:{ intro H; inversion H; subst. split; [exact F1|]. split; [discriminate|].
        intros p Hp. apply K1. intro Hin. apply files_cov in Hin. congruence. }
    intro R2. apply remove_all_spec in R2 as (F2 & E2 & K2).
    assert (two : forall q l, In q (arrange (fun p => p) l [gateway_file; metrics_file]) <->
                              q = gateway_file \/ q = metrics_file).
    { intros q l. split; intro H.
      - eapply Permutation_in in H; [|apply Permutation_sym, arrange_perm].
        destruct H as [H|[H|[]]]; auto.
      - eapply Permutation_in; [apply arrange_perm|]. destruct H as [->| ->]; cbn; auto. }
    split; [eapply fsop_trans; eassumption|]. split.
    - intros Hok p. rewrite E2 by exact Hok. rewrite E1 by reflexivity.
      destruct (covered p) eqn:Hc.
      + destruct (existsb (path_eqb p) (arrange _ _ _)) eqn:X2; [reflexivity|].
        destruct (existsb (path_eqb p) files) eqn:X1; [reflexivity|].
        destruct (lookup p (dsk s)) as [c|] eqn:L; [|reflexivity]. exfalso.
        apply covered_cases in Hc as [Hd|Hf].
        * assert (In p files); [|apply existsb_path_In in H; congruence].
          apply filter_In. split; [|exact Hd]. apply in_map_iff. exists (p, c). split; [reflexivity|].
          apply lookup_In. rewrite lookup_snapshot, (in_directory_covered _ Hd). exact L.
        * apply (two p (skipn (hk s1) hint)), existsb_path_In in Hf. congruence.
      + assert (X2 : existsb (path_eqb p) (arrange (fun p => p) (skipn (hk s1) hint) [gateway_file; metrics_file]) = false).
        { destruct (existsb _ _) eqn:X; [|reflexivity]. apply existsb_path_In, two in X.
          destruct X as [-> | ->]; discriminate. }
        rewrite X2.
        destruct (existsb (path_eqb p) files) eqn:X1; [|reflexivity].
        apply existsb_path_In, files_cov in X1. congruence.
    - intros p Hp. rewrite K2.
      + apply K1. intro Hin. apply files_cov in Hin. congruence.
      + intro Hin. apply two in Hin. destruct Hin as [-> | ->]; discriminate.
  Qed.

  (* ---- reloadFlows ---- *)

  Lemma prim_eng hook s f s1 :
    prim hook s = (f, s1) ->
    dsk s1 = dsk s /\ eng s1 = eng s /\ seen s1 = eng s :: seen s /\
    (flt s = NoFault -> f = false /\ flt s1 = NoFault) /\ (f = true -> flt s1 = NoFault).
  Proof.
    unfold Model.prim. destruct (tick hook (flt s)) as [fr f'] eqn:T. intro H; inversion H; subst; clear H.
    cbn. repeat (split; [reflexivity|]). split.
    - intro Q; rewrite Q in T; cbn in T; inversion T; split; reflexivity.
    - intros ->. eapply tick_fired; exact T.
  Qed.

  (* an operation on the engine: the disk is not touched; every arrival during it
     meets the engine that was running or the one built from the current disk *)
  Definition engop (s s' : st) : Prop :=
    dsk s' = dsk s /\
    (eng s' = eng s \/ eng s' = EBuilt (dsk s)) /\
    (exists extra, seen s' = extra ++ seen s /\
                   Forall (fun e => e = eng s \/ e = EBuilt (dsk s)) extra) /\
    (flt s = NoFault -> flt s' = NoFault).

  Ltac prim_step P :=
    match goal with
    | |- context [Model.prim B ?h ?s] =>
        let f := fresh "f" in let s1 := fresh "s" in
        destruct (Model.prim B h s) as [f s1] eqn:P;
        apply prim_eng in P as (?D & ?E & ?S & ?Q & ?N)
    end.

  Ltac fa := repeat (apply Forall_cons; [auto|]); apply Forall_nil.

  Lemma initialize_streams_spec s ok s' :
    initialize_streams s = (ok, s') ->
    engop s s' /\ (ok = true -> eng s' = EBuilt (dsk s)) /\
    (flt s = NoFault -> ok = true).
  Proof.
    unfold Model.initialize_streams, engop.
    destruct (prim false s) as [f0 s0] eqn:P0. apply prim_eng in P0 as (D0 & E0 & S0 & Q0 & N0).
    destruct f0.
    { intro H; inversion H; subst. rewrite D0, E0, S0. split; [|split; [discriminate|intro Q; apply Q0 in Q as [Q _]; discriminate]].
      split; [reflexivity|]. split; [auto|]. split; [|intro Q; apply Q0; exact Q].
      exists [eng s]; split; [reflexivity|]. fa. }
    destruct (prim true s0) as [f1 s1] eqn:P1. apply prim_eng in P1 as (D1 & E1 & S1 & Q1 & N1).
    destruct f1.
    { intro H; inversion H; subst. rewrite D1, E1, S1, D0, E0, S0.
      split; [|split; [discriminate|intro Q; apply Q0 in Q as [_ Q]; apply Q1 in Q as [Q _]; discriminate]].
      split; [reflexivity|]. split; [auto|]. split; [|intro Q; apply Q1, Q0; exact Q].
      exists [eng s; eng s]; split; [reflexivity|]. fa. }
    set (s2 := observe B (with_eng B (EBuilt (dsk s1)) s1)).
    destruct (prim false s2) as [f3 s3] eqn:P3. apply prim_eng in P3 as (D3 & E3 & S3 & Q3 & N3).
    assert (Es2 : eng s2 = EBuilt (dsk s)) by (unfold s2; cbn; rewrite D1, D0; reflexivity).
    assert (Ds2 : dsk s2 = dsk s) by (unfold s2; cbn; rewrite D1, D0; reflexivity).
    assert (Ss2 : seen s2 = [EBuilt (dsk s); eng s; eng s] ++ seen s)
      by (unfold s2; cbn; rewrite S1, S0, E0, D1, D0; reflexivity).
    assert (Qs2 : flt s = NoFault -> flt s2 = NoFault) by (intro Q; unfold s2; cbn; apply Q1, Q0; exact Q).
    destruct f3.
    { intro H; inversion H; subst. rewrite D3, E3, S3, Es2, Ds2, Ss2.
      split; [|split; [discriminate|intro Q; apply Qs2 in Q; apply Q3 in Q as [Q _]; discriminate]].
      split; [reflexivity|]. split; [auto|]. split; [|intro Q; apply Q3, Qs2; exact Q].
      exists [EBuilt (dsk s); EBuilt (dsk s); eng s; eng s]; split; [reflexivity|]. fa. }
    destruct (prim false s3) as [f4 s4] eqn:P4. apply prim_eng in P4 as (D4 & E4 & S4 & Q4 & N4).
    assert (R : engop s s4 /\ eng s4 = EBuilt (dsk s)).
    { unfold engop. rewrite D4, E4, S4, D3, E3, S3, Es2, Ds2, Ss2.
      split; [|reflexivity]. split; [reflexivity|]. split; [auto|]. split; [|intro Q; apply Q4, Q3, Qs2; exact Q].
      exists [EBuilt (dsk s); EBuilt (dsk s); EBuilt (dsk s); eng s; eng s]; split; [reflexivity|].
      fa. }
    destruct R as [R1 R2].
    destruct f4; intro H; inversion H; subst.
    - split; [exact R1|]. split; [discriminate|].
      intro Q; apply Qs2 in Q; apply Q3 in Q as [_ Q]; apply Q4 in Q as [Q _]; discriminate.
    - split; [exact R1|]. split; [intros _; exact R2|reflexivity].
  Qed.

  Lemma engop_prim_l s s0 s' :
    dsk s0 = dsk s -> eng s0 = eng s -> seen s0 = eng s :: seen s ->
    (flt s = NoFault -> flt s0 = NoFault) ->
    engop s0 s' -> engop s s'.
  Proof.
    intros D0 E0 S0 Q0 (D1 & E1 & (x & S1 & A1) & Q1). unfold engop.
    rewrite D1, D0. split; [reflexivity|]. rewrite D0, E0 in E1. split; [exact E1|].
    split; [|intro Q; apply Q1, Q0; exact Q].
    exists (x ++ [eng s]). split; [rewrite S1, S0, <- app_assoc; reflexivity|].
    apply Forall_app. split; [|repeat constructor; auto].
    eapply Forall_impl; [|exact A1]. cbn. rewrite D0, E0. auto.
  Qed.

  Lemma engop_prim_r s s1 s' :
    engop s s1 -> dsk s' = dsk s1 -> eng s' = eng s1 -> seen s' = eng s1 :: seen s1 ->
    (flt s1 = NoFault -> flt s' = NoFault) -> engop s s'.
  Proof.
    intros (D1 & E1 & (x & S1 & A1) & Q1) D2 E2 S2 Q2. unfold engop.
    rewrite D2, D1, E2. split; [reflexivity|]. split; [exact E1|].
    split; [|intro Q; apply Q2, Q1; exact Q].
    exists (eng s1 :: x). split; [rewrite S2, S1; reflexivity|].
    constructor; [exact E1|exact A1].
  Qed.

  Lemma reload_spec s ok s' :
    reload s = (ok, s') ->
    engop s s' /\ (ok = true -> eng s' = EBuilt (dsk s)).
  Proof.
    unfold Model.reload.
    destruct (prim false s) as [f0 s0] eqn:P0. apply prim_eng in P0 as (D0 & E0 & S0 & Q0 & N0).
    assert (R0 : engop s s0).
    { unfold engop. rewrite D0, E0, S0. split; [reflexivity|]. split; [auto|].
      split; [|intro Q; apply Q0; exact Q]. exists [eng s]; split; [reflexivity|repeat constructor; auto]. }
    destruct (f0 || negb (valid (dsk s0))).
    { intro H; inversion H; subst. split; [exact R0|discriminate]. }
    destruct (initialize_streams s0) as [ok1 s1] eqn:I. apply initialize_streams_spec in I as (R1 & B1 & _).
    assert (R01 : engop s s1).
    { eapply engop_prim_l; [exact D0|exact E0|exact S0|intro Q; apply Q0; exact Q|exact R1]. }
    destruct ok1.
    2:{ intro H; inversion H; subst. split; [exact R01|discriminate]. }
    destruct (prim false s1) as [f2 s2] eqn:P2. apply prim_eng in P2 as (D2 & E2 & S2 & Q2 & N2).
    assert (R02 : engop s s2).
    { eapply engop_prim_r; [exact R01|exact D2|exact E2|exact S2|intro Q; apply Q2; exact Q]. }
    destruct (f2 || negb (metrics_ok (dsk s2))); intro H; inversion H; subst.
    - split; [exact R02|discriminate].
    - split; [exact R02|]. intros _. rewrite E2, B1, D0 by reflexivity. reflexivity.
  Qed.

  Lemma initialize_streams_fail s s' :
    initialize_streams s = (false, s') -> flt s' = NoFault.
  Proof.
    unfold Model.initialize_streams.
    destruct (prim false s) as [f0 s0] eqn:P0. apply prim_eng in P0 as (_ & _ & _ & _ & N0).
    destruct f0; [intro H; inversion H; subst; auto|].
    destruct (prim true s0) as [f1 s1] eqn:P1. apply prim_eng in P1 as (_ & _ & _ & _ & N1).
    destruct f1; [intro H; inversion H; subst; auto|].
    destruct (prim false _) as [f3 s3] eqn:P3. apply prim_eng in P3 as (_ & _ & _ & _ & N3).
    destruct f3; [intro H; inversion H; subst; auto|].
    destruct (prim false s3) as [f4 s4] eqn:P4. apply prim_eng in P4 as (_ & _ & _ & _ & N4).
    destruct f4; intro H; inversion H; subst; auto.
  Qed.

  (* a reload fails only because the oracle struck (which silences it) or because
     the configuration on disk does not validate / its metrics do not load *)
  Lemma reload_progress s ok s' :
    reload s = (ok, s') ->
    valid (dsk s) = true -> metrics_ok (dsk s) = true ->
    (flt s = NoFault -> ok = true) /\ (ok = false -> flt s' = NoFault).
  Proof.
    unfold Model.reload. intros R V M. revert R.
    destruct (prim false s) as [f0 s0] eqn:P0. apply prim_eng in P0 as (D0 & E0 & S0 & Q0 & N0).
    rewrite D0, V. cbn [negb]. rewrite orb_false_r.
    destruct f0.
    { intro H; inversion H; subst. split; [intro Q; apply Q0 in Q as [Q _]; discriminate|auto]. }
    destruct (initialize_streams s0) as [ok1 s1] eqn:I.
    pose proof (initialize_streams_spec _ _ _ I) as ((D1 & _ & _ & Q1) & _ & G1).
    destruct ok1.
    2:{ intro H; inversion H; subst. split; [|intros _; eapply initialize_streams_fail; exact I].
        intro Q. apply Q0 in Q as [_ Q]. apply G1 in Q. discriminate. }
    destruct (prim false s1) as [f2 s2] eqn:P2. apply prim_eng in P2 as (D2 & E2 & S2 & Q2 & N2).
    rewrite D2, D1, D0, M. cbn [negb]. rewrite orb_false_r.
    destruct f2; intro H; inversion H; subst.
    - split; [|auto]. intro Q. apply Q0 in Q as [_ Q]. apply Q1, Q2 in Q as [Q _]. discriminate.
    - split; [reflexivity|discriminate].
  Qed.

  (* ---- what the payload writes ---- *)

  Lemma order_field_In fixed hint items x :
    In x (order_field B fixed hint items) <-> In x items.
  Proof.
    unfold order_field. rewrite !in_app_iff. split.
    - intros [H|[H|H]].
      + eapply Permutation_in in H; [|apply Permutation_sym, arrange_perm]. apply filter_In in H; tauto.
      + apply filter_In in H; tauto.
      + apply filter_In in H; tauto.
    - intro H. destruct (refused B fixed x) eqn:Rf.
      + right; left. apply filter_In; auto.
      + destruct (hinted B hint x) eqn:Hh.
        * left. eapply Permutation_in; [apply arrange_perm|]. apply filter_In. rewrite Rf, Hh; auto.
        * right; right. apply filter_In. rewrite Rf, Hh; auto.
  Qed.

  Lemma plan_In fixed hint pl x :
    In x (plan B fixed hint pl) <-> exists e, In e pl /\ x = (target e, e_content e, escapes e).
  Proof.
    unfold plan. rewrite in_flat_map. split.
    - intros [f [_ H]]. apply order_field_In in H.
      unfold items_of in H. apply in_map_iff in H as [e [E He]]. apply filter_In in He as [He _].
      exists e; split; [exact He|symmetry; exact E].
    - intros [e [He ->]]. exists (e_field e). split; [destruct (e_field e); cbn; tauto|].
      apply order_field_In. unfold items_of. apply in_map_iff. exists e. split; [reflexivity|].
      apply filter_In. split; [exact He|destruct (e_field e); reflexivity].
  Qed.

  (* a name that stays inside its directory names a file the snapshot covers *)
  Lemma escapes_false_covered (e : entry B) : escapes e = false -> covered (target e) = true.
  Proof.
    unfold escapes, target. destruct (e_field e); cbn [dir_area]; intro H; try reflexivity;
      apply negb_false_iff, area_eqb_eq in H; unfold covered; rewrite H; reflexivity.
  Qed.

  (* the keys the save may touch lie in covered places: with the name check
     because a refused name is not written, without it when the payload
     happens to name covered places only *)
  Lemma plan_covered fixed hint pl x :
    fixed = true \/ targets_covered pl = true ->
    In x (plan B fixed hint pl) -> refused B fixed x = false -> covered (ikey B x) = true.
  Proof.
    intros T H Rf. apply plan_In in H as [e [He ->]]. cbn [ikey fst].
    destruct T as [->|T].
    - apply escapes_false_covered. exact Rf.
    - unfold targets_covered in T. rewrite forallb_forall in T. apply T; exact He.
  Qed.

  (* ---- roll-back ---- *)

  Definition within (P : engine B -> Prop) (s s' : st) : Prop :=
    exists extra, seen s' = extra ++ seen s /\ Forall P extra.

  Lemma within_refl P s : within P s s.
  Proof. exists []; split; [reflexivity|constructor]. Qed.

  Lemma within_trans P s s1 s2 : within P s s1 -> within P s1 s2 -> within P s s2.
  Proof.
    intros (x1 & S1 & A1) (x2 & S2 & A2). exists (x2 ++ x1).
    split; [rewrite S2, S1, app_assoc; reflexivity|apply Forall_app; auto].
  Qed.

  Lemma within_weaken (P Q : engine B -> Prop) s s' :
    (forall e, P e -> Q e) -> within P s s' -> within Q s s'.
  Proof. intros W (x & S & A). exists x; split; [exact S|eapply Forall_impl; eauto]. Qed.

  Lemma fsop_within s s' ok : fsop s s' ok -> within (fun e => e = eng s) s s'.
  Proof. intros (_ & X & _). exact X. Qed.

  Lemma engop_within s s' : engop s s' -> within (fun e => e = eng s \/ e = EBuilt (dsk s)) s s'.
  Proof. intros (_ & _ & X & _). exact X. Qed.

  (* ---- SavePayloadContentToDisk ---- *)

  (* the save met a name it refuses *)
  Definition rejects (fixed : bool) (l : list (item B)) : Prop :=
    fixed = true /\ exists x, In x l /\ snd x = true.

  (* the save met a name that makes a file of a directory or a directory of a
     file: its target lies below or above another file among [K] *)
  Definition blocks (K : path -> Prop) (l : list (item B)) : Prop :=
    exists x q, In x l /\ K q /\ q <> ikey B x /\
                (under (ikey B x) q = true \/ under q (ikey B x) = true).

  Lemma fsopw_within s s' : fsopw s s' -> within (fun e => e = eng s) s s'.
  Proof. intros (_ & X & _). exact X. Qed.

  Lemma save_all_spec fixed (K : path -> Prop) l : forall s ok s',
    save_all fixed l s = (ok, s') ->
    (forall q, has q (dsk s) -> K q) ->
    (forall x, In x l -> refused B fixed x = false -> K (ikey B x)) ->
    eng s' = eng s /\ within (fun e => e = eng s) s s' /\
    (flt s = NoFault -> flt s' = NoFault) /\
    (ok = false -> flt s' = NoFault \/ rejects fixed l \/ blocks K l) /\
    (ok = true -> (forall x, In x l -> refused B fixed x = false) /\
                  deq (dsk s') (apply_list B (map fst l) (dsk s))) /\
    (forall q, (forall x, In x l -> refused B fixed x = false -> ikey B x <> q) ->
               lookup q (dsk s') = lookup q (dsk s)).
  Proof.
    induction l as [|x l IH]; intros s ok s'; cbn [Model.save_all].
    - intros H _ _; inversion H; subst. split; [reflexivity|]. split; [apply within_refl|]. split; [auto|].
      split; [discriminate|]. split; [intros _; split; [intros x []|apply deq_refl]|auto].
    - destruct (refused B fixed x) eqn:Rf.
      { intros H _ _; inversion H; subst. split; [reflexivity|]. split; [apply within_refl|]. split; [auto|].
        split; [|split; [discriminate|auto]].
        intros _. right. left. unfold refused in Rf. apply andb_true_iff in Rf as [Rf1 Rf2].
        split; [exact Rf1|]. exists x; split; [left; reflexivity|exact Rf2]. }
      destruct (store (ikey B x) (snd (fst x)) s) as [ok1 s1] eqn:S1. intros H HK HI.
      pose proof (fun q => store_has _ _ _ _ _ q S1) as Hhas.
      apply store_spec in S1 as (F1 & _ & N1 & E1 & K1).
      pose proof (fsopw_within _ _ F1) as W1. destruct F1 as (G1 & _ & Q1).
      destruct ok1.
      + assert (HK1 : forall q, has q (dsk s1) -> K q).
        { intros q Hq. destruct (Hhas q Hq) as [->|Hq']; [apply HI; [left; reflexivity|exact Rf]|apply HK; exact Hq']. }
        destruct (IH _ _ _ H HK1 (fun y Hy => HI y (or_intror Hy))) as (G2 & W2 & Q2 & N2 & D2 & K2).
        split; [congruence|]. split.
        { eapply within_trans; [exact W1|]. eapply within_weaken; [|exact W2]. cbn; intros e ->; exact G1. }
        split; [intro Q; apply Q2, Q1; exact Q|]. split.
        { intro Hok. destruct (N2 Hok) as [N|[(Fx & y & Hy & Ey)|(y & q & Hy & Hq)]]; [left; exact N| |].
          - right. left. split; [exact Fx|]. exists y; split; [right; exact Hy|exact Ey].
          - right. right. exists y, q. split; [right; exact Hy|exact Hq]. }
        split.
        { intro Hok. destruct (D2 Hok) as [R2 D2']. split.
          - intros y [<-|Hy]; [exact Rf|apply R2; exact Hy].
          - cbn [map].
            change (apply_list B (fst x :: map fst l) (dsk s))
              with (apply_list B (map fst l) (set (ikey B x) (snd (fst x)) (dsk s))).
            eapply deq_trans; [exact D2'|]. apply apply_list_ext. apply E1; reflexivity. }
        intros q Hq. rewrite K2 by (intros y Hy; apply Hq; right; exact Hy).
        apply K1. intro E. apply (Hq x); [left; reflexivity|exact Rf|symmetry; exact E].
      + inversion H; subst. split; [exact G1|]. split; [exact W1|].
        split; [exact Q1|].
        split.
        { intros _. destruct (N1 eq_refl) as [N|Bl]; [left; exact N|right; right].
          apply blocked_spec in Bl as (q & Hq & Nq & U). exists x, q.
          split; [left; reflexivity|]. split; [apply HK; exact Hq|]. split; [exact Nq|exact U]. }
        split; [discriminate|].
        intros q Hq. apply K1. intro E. apply (Hq x); [left; reflexivity|exact Rf|symmetry; exact E].
  Qed.

  Lemma rollback_spec hint d0 wr s r s' :
    dmet d0 -> dmet (dsk s) ->
    rollback true hint (snapshot d0) wr s = (r, s') ->
    (forall p, covered p = false -> lookup p (dsk s') = lookup p (dsk s)) /\
    (r = Failed -> forall p, covered p = true -> lookup p (dsk s') = lookup p d0) /\
    within (fun e => e = eng s \/ (wr = true /\ e = EBuilt (dsk s'))) s s' /\
    (eng s' = eng s \/ (wr = true /\ eng s' = EBuilt (dsk s'))) /\
    (wr = true -> r = Failed -> eng s' = EBuilt (dsk s')) /\
    (flt s = NoFault ->
     tree under d0 -> (forall q, covered q = false -> has q (dsk s) -> has q d0) ->
     (wr = true -> forall x, (forall p, lookup p x = if covered p then lookup p d0 else lookup p (dsk s)) ->
                             dsk s' = x -> valid x = true /\ metrics_ok x = true) ->
     r = Failed).
  Proof.
    intros M0 Ms. unfold Model.rollback.
    destruct (restore true hint (snapshot d0) s) as [ok1 s1] eqn:R.
    apply restore_spec in R as (F1 & E1 & K1 & P1); [|exact M0|exact Ms].
    pose proof (fsopw_within _ _ F1) as W1. destruct F1 as (G1 & _ & Q1).
    destruct wr.
    - destruct (reload s1) as [ok2 s2] eqn:L. pose proof (reload_spec _ _ _ L) as (O2 & B2).
      pose proof (engop_within _ _ O2) as W2. destruct O2 as (D2 & G2 & _ & Q2).
      intro H; inversion H; subst; clear H.
      split; [intros p Hp; rewrite D2; apply K1; exact Hp|].
      split.
      { intros HF p Hp. destruct ok1; [|discriminate]. rewrite D2, E1, Hp by reflexivity. reflexivity. }
      split.
      { eapply within_trans.
        - eapply within_weaken; [|exact W1]. cbn; auto.
        - eapply within_weaken; [|exact W2]. cbn. rewrite G1, D2. intros e [->| ->]; auto. }
      split; [rewrite D2; destruct G2 as [G2|G2]; [left; congruence|right; auto]|].
      split.
      { intros _ HF. destruct ok1, ok2; try discriminate. rewrite D2. apply B2; reflexivity. }
      intros Q T U HV. destruct (P1 T U) as [A1 _]. rewrite (A1 Q) in *. cbn [andb].
      assert (Hx : forall p, lookup p (dsk s1) = if covered p then lookup p d0 else lookup p (dsk s))
        by (apply E1; reflexivity).
      destruct (HV eq_refl (dsk s1) Hx D2) as [V M].
      destruct (reload_progress _ _ _ L V M) as [P _]. rewrite (P (Q1 Q)). reflexivity.
    - intro H; inversion H; subst; clear H.
      split; [exact K1|]. split.
      { intros HF p Hp. destruct ok1; [|discriminate]. rewrite E1, Hp by reflexivity. reflexivity. }
      split; [eapply within_weaken; [|exact W1]; cbn; auto|].
      split; [left; exact G1|]. split; [discriminate|].
      intros Q T U _. destruct (P1 T U) as [A1 _]. rewrite (A1 Q). reflexivity.
  Qed.

  Lemma rollback_not_ok sf hint bk wr s r s' :
    rollback sf hint bk wr s = (r, s') -> r = Failed \/ r = RollbackFailed.
  Proof.
    unfold Model.rollback. destruct (restore sf hint bk s) as [ok1 s1]. destruct wr.
    - destruct (reload s1) as [ok2 s2]. intro H; inversion H. destruct (ok1 && ok2); auto.
    - intro H; inversion H. destruct ok1; auto.
  Qed.

  (* ---- the whole update ---- *)

  (* equality on the places the engine reads its configuration from *)
  Definition ceq (a b : disk B) : Prop := forall p, covered p = true -> lookup p a = lookup p b.

  (* the engine was built from (a disk that holds) configuration d *)
  Definition served (d : disk B) (e : engine B) : Prop :=
    exists cfg, e = EBuilt cfg /\ ceq cfg d.

  Lemma served_ceq d cfg : ceq cfg d -> served d (EBuilt cfg).
  Proof. intro H; exists cfg; auto. Qed.

  Lemma deq_ceq a b : deq a b -> ceq a b.
  Proof. intros H p _; apply H. Qed.

  Lemma lookup_base h (d : disk B) p :
    lookup p (base h d) = match h with
                          | HConfiguration => lookup p d
                          | HApplyFlows => if covered p then None else lookup p d
                          end.
  Proof.
    destruct h; cbn [base]; [reflexivity|].
    rewrite (lookup_filter_key (fun k => negb (covered k))). destruct (covered p); reflexivity.
  Qed.

  Notation run := (run B D digest D_eqb empty garbage under valid metrics_ok).

  Lemma reload_ok_valid s s' :
    reload s = (true, s') -> valid (dsk s) = true /\ metrics_ok (dsk s) = true.
  Proof.
    unfold Model.reload.
    destruct (prim false s) as [f0 s0] eqn:P0. apply prim_eng in P0 as (D0 & _).
    destruct (f0 || negb (valid (dsk s0))) eqn:C0; [discriminate|].
    apply orb_false_iff in C0 as [_ C0]. apply negb_false_iff in C0. rewrite D0 in C0.
    destruct (initialize_streams s0) as [ok1 s1] eqn:I.
    apply initialize_streams_spec in I as ((D1 & _) & _).
    destruct ok1; [|discriminate].
    destruct (prim false s1) as [f2 s2] eqn:P2. apply prim_eng in P2 as (D2 & _).
    destruct (f2 || negb (metrics_ok (dsk s2))) eqn:C2; [discriminate|].
    apply orb_false_iff in C2 as [_ C2]. apply negb_false_iff in C2. rewrite D2, D1, D0 in C2.
    intros _. split; assumption.
  Qed.

  (* what is claimed about a finished run; k says where in the order hints the
     files of the payload start *)
  Definition outcome (fixed : bool) (hs : list path) (rq : request B) (d : disk B) (f : fault)
             (r : result) (s' : st) (k : nat) : Prop :=
    let dn := new_disk B fixed (skipn k hs) rq d in
    (r <> RollbackFailed -> Forall (fun e => served d e \/ served dn e) (arrivals s')) /\
    (r = Failed -> ceq (dsk s') d /\ served d (eng s')) /\
    (r = Failed -> fixed = true \/ targets_covered (r_payload rq) = true ->
     forall p, covered p = false -> lookup p (dsk s') = lookup p d) /\
    (r = Ok -> deq (dsk s') dn /\ eng s' = EBuilt (dsk s') /\
               valid (dsk s') = true /\ metrics_ok (dsk s') = true /\
               (fixed && names_escape (r_payload rq)) = false) /\
    (r = RollbackFailed ->
     (forall a b, ceq a b -> valid a = valid b) -> (forall a b, ceq a b -> metrics_ok a = metrics_ok b) ->
     valid d = true -> metrics_ok d = true ->
     tree under d -> fixed = true \/ targets_covered (r_payload rq) = true ->
     f <> NoFault /\
     ((fixed && names_escape (r_payload rq)) = true \/ type_conflict under (r_payload rq) d = true \/
      valid dn = false \/ metrics_ok dn = false)).

  (* so far every transaction met the old engine *)
  Definition old_only (d : disk B) (s : st) : Prop :=
    eng s = EBuilt d /\ Forall (fun e => e = EBuilt d) (seen s).

  Lemma fsop_old d s s' ok : fsop s s' ok -> old_only d s -> old_only d s'.
  Proof.
    intros (E & (x & S & A) & _) [Eo Ao]. split; [congruence|]. rewrite S.
    apply Forall_app; split; [|exact Ao]. eapply Forall_impl; [|exact A]. cbn; intros e ->; exact Eo.
  Qed.

  Lemma served_old d : served d (EBuilt d).
  Proof. apply served_ceq. intros p _; reflexivity. Qed.

  Lemma old_arrivals d dn s :
    old_only d s -> Forall (fun e => served d e \/ served dn e) (arrivals s).
  Proof.
    intros [E A]. unfold arrivals. constructor; [left; rewrite E; apply served_old|].
    eapply Forall_impl; [|exact A]. cbn; intros e ->; left; apply served_old.
  Qed.

  Lemma within_old d s s' :
    eng s' = eng s -> within (fun e => e = eng s) s s' -> old_only d s -> old_only d s'.
  Proof.
    intros E (x & S & A) [Eo Ao]. split; [congruence|]. rewrite S.
    apply Forall_app; split; [|exact Ao]. eapply Forall_impl; [|exact A]. cbn; intros e ->; exact Eo.
  Qed.

  Lemma outcome_early fixed hs rq d f s0 :
    old_only d s0 -> dsk s0 = d -> outcome fixed hs rq d f Failed s0 0.
  Proof.
    intros O D0. unfold outcome. cbn zeta.
    split; [intros _; apply old_arrivals; exact O|].
    split; [intros _; split; [intros p _; rewrite D0; reflexivity|destruct O as [-> _]; apply served_old]|].
    split; [intros _ _ p _; rewrite D0; reflexivity|].
    split; discriminate.
  Qed.

  (* a file-system step of the update failed (the oracle struck, or a file name
     was refused): roll back without reload *)
  Lemma outcome_fs_failure fixed hs hint rq d f s r s' k :
    dmet d -> dmet (dsk s) ->
    old_only d s ->
    flt s = NoFault \/ (fixed && names_escape (r_payload rq)) = true \/
    type_conflict under (r_payload rq) d = true ->
    (f = NoFault -> flt s = NoFault) ->
    (fixed = true \/ targets_covered (r_payload rq) = true ->
     forall p, covered p = false -> lookup p (dsk s) = lookup p d) ->
    rollback true hint (snapshot d) false s = (r, s') ->
    outcome fixed hs rq d f r s' k.
  Proof.
    intros Md Ms O Q Qf U R. pose proof (rollback_not_ok _ _ _ _ _ _ _ R) as Rk.
    apply rollback_spec in R as (A & Bc & W & G & _ & Fq); [|exact Md|exact Ms].
    assert (O' : old_only d s').
    { destruct O as [Eo Ao]. destruct G as [G|[G _]]; [|discriminate]. split; [congruence|].
      destruct W as (x & S & Ax). rewrite S. apply Forall_app; split; [|exact Ao].
      eapply Forall_impl; [|exact Ax]. cbn. intros e [->|[X _]]; [exact Eo|discriminate]. }
    unfold outcome. cbn zeta.
    split; [intros _; apply old_arrivals; exact O'|].
    split; [intros ->; split; [intros p Hp; apply Bc; auto|destruct O' as [-> _]; apply served_old]|].
    split; [intros _ T p Hp; rewrite A by exact Hp; apply U; assumption|].
    split; [intros ->; destruct Rk; discriminate|].
    intros -> _ _ _ _ T FC.
    assert (NF : flt s <> NoFault).
    { intro Q0. assert (RollbackFailed = Failed); [|discriminate].
      apply Fq; [exact Q0|exact T| |discriminate].
      intros q Hc Hq. unfold has in *. rewrite <- (U FC q Hc). exact Hq. }
    split; [intro Hf; apply NF, Qf, Hf|].
    destruct Q as [Q|[Q|Q]]; [contradiction|left; exact Q|right; left; exact Q].
  Qed.

  (* a save that was blocked names a file that conflicts with the disk or with
     another file of the payload *)
  Lemma blocks_type_conflict fixed hint (rq : request B) d :
    blocks (fun q => In q (map fst d ++ map target (r_payload rq))) (plan B fixed hint (r_payload rq)) ->
    type_conflict under (r_payload rq) d = true.
  Proof.
    intros (x & q & Hx & Hq & N & U). apply plan_In in Hx as (e & He & ->). cbn [ikey fst] in *.
    unfold Model.type_conflict. apply existsb_exists. exists e. split; [exact He|].
    apply existsb_exists. exists q. split; [exact Hq|]. apply andb_true_iff. split.
    - apply negb_true_iff, path_eqb_neq. congruence.
    - apply orb_true_iff. exact U.
  Qed.

  (* the contents written by the payload are among the contents met *)
  Lemma plan_met fixed hint pl :
    Forall (fun e => met (e_content e)) pl ->
    Forall (fun x : item B => met (snd (fst x))) (plan B fixed hint pl).
  Proof.
    intro H. apply Forall_forall. intros x Hx. apply plan_In in Hx as (e & He & ->). cbn [fst snd].
    rewrite Forall_forall in H. apply H; exact He.
  Qed.

  Lemma run_master fixed hs hint rq d f r s' :
    dmet d -> Forall (fun e => met (e_content e)) (r_payload rq) ->
    run fixed true hs hint rq d f = (r, s') -> exists k, outcome fixed hs rq d f r s' k.
  Proof.
    intros MetD MetP. unfold Model.run, Model.update.
    set (si := init_state B d f).
    assert (Oi : old_only d si) by (split; [reflexivity|constructor]).
    destruct (r_method_ok rq); cbn [negb].
    2:{ intro H; injection H as <- <-. exists 0. apply outcome_early; [exact Oi|reflexivity]. }
    destruct (r_body_ok rq); cbn [negb].
    2:{ intro H; injection H as <- <-. exists 0. apply outcome_early; [exact Oi|reflexivity]. }
    destruct (Model.prim B false si) as [f0 s0] eqn:P0. apply prim_spec in P0 as [D0 F0].
    change (dsk si) with d in D0.
    pose proof (fsop_old d _ _ _ F0 Oi) as O0.
    destruct f0.
    { intro H; injection H as <- <-. exists 0. apply outcome_early; assumption. }
    cbn [negb] in F0. rewrite D0.
    destruct (forallb e_decodable (r_payload rq)); cbn [negb].
    2:{ intro H; injection H as <- <-. exists 0. apply outcome_early; assumption. }
    (* CleanAll (apply_flows only) *)
    set (cl := match r_handler rq with HApplyFlows => clean_all hs s0 | HConfiguration => (true, s0) end).
    assert (C : exists okc s1, cl = (okc, s1) /\ fsop s0 s1 okc /\
                (okc = true -> deq (dsk s1) (base (r_handler rq) d)) /\
                (forall p, covered p = false -> lookup p (dsk s1) = lookup p d) /\
                dmet (dsk s1)).
    { unfold cl. destruct (r_handler rq).
      - exists true, s0. split; [reflexivity|]. split; [apply fsop_refl|].
        split; [intros _ p; rewrite D0; reflexivity|].
        split; [intros p _; rewrite D0; reflexivity|rewrite D0; exact MetD].
      - destruct (clean_all hs s0) as [okc s1] eqn:CA. exists okc, s1. split; [reflexivity|].
        pose proof (clean_all_dmet _ _ _ _ CA) as Mc.
        apply clean_all_spec in CA as (Fc & Ec & Kc). split; [exact Fc|]. split; [|split].
        + intros Hok p. rewrite Ec by exact Hok. rewrite lookup_base, D0. reflexivity.
        + intros p Hp. rewrite Kc by exact Hp. rewrite D0. reflexivity.
        + apply Mc. rewrite D0; exact MetD. }
    destruct C as (okc & s1 & -> & Fc & Ec & Kc & MetS1).
    assert (F01 : fsop si s1 okc) by (eapply fsop_trans; eassumption).
    pose proof (fsop_old d _ _ _ Fc O0) as O1.
    destruct okc.
    2:{ intro R. exists 0.
        assert (N1 : flt s1 = NoFault) by (destruct Fc as (_ & _ & _ & N); apply N; reflexivity).
        eapply outcome_fs_failure; [exact MetD|exact MetS1|exact O1|left; exact N1|intros _; exact N1|intros _; exact Kc|exact R]. }
    (* SavePayloadContentToDisk *)
    set (pln := plan B fixed (skipn (hk s1) hs) (r_payload rq)).
    destruct (save_all fixed pln s1) as [oks s2] eqn:SA.
    assert (MetS2 : dmet (dsk s2)) by (eapply save_all_dmet; [exact SA|apply plan_met; exact MetP|exact MetS1]).
    apply (save_all_spec fixed (fun q => In q (map fst d ++ map target (r_payload rq)))) in SA
      as (Gs & Ws & Qs & Ns & Ds & Ks).
    2:{ intros q Hq. apply in_or_app. left. apply has_In. unfold has in *.
        destruct (covered q) eqn:Hc.
        - rewrite (Ec eq_refl q), lookup_base in Hq. destruct (r_handler rq); [exact Hq|].
          rewrite Hc in Hq. contradiction.
        - rewrite (Kc q Hc) in Hq. exact Hq. }
    2:{ intros x Hx _. apply plan_In in Hx as (e & He & ->). cbn [ikey fst].
        apply in_or_app. right. apply in_map. exact He. }
    assert (Q02 : flt si = NoFault -> flt s2 = NoFault).
    { intro Q. apply Qs. destruct F01 as (_ & _ & Q1 & _). apply Q1; exact Q. }
    pose proof (within_old d _ _ Gs Ws O1) as O2.
    assert (U2 : fixed = true \/ targets_covered (r_payload rq) = true ->
                 forall p, covered p = false -> lookup p (dsk s2) = lookup p d).
    { intros T p Hp. rewrite Ks; [apply Kc; exact Hp|].
      intros x Hx Rf E. pose proof (plan_covered _ _ _ _ T Hx Rf) as C. congruence. }
    intro R0; exists (hk s1); revert R0.
    destruct oks.
    2:{ intro R. eapply outcome_fs_failure; [exact MetD|exact MetS2|exact O2| |exact Q02|exact U2|exact R].
        destruct (Ns eq_refl) as [N|[(Fx & x & Hx & Ex)|Bl]]; [left; exact N|right; left|right; right].
        - apply plan_In in Hx as (e & He & ->). cbn [snd] in Ex. rewrite Fx. cbn [andb].
          unfold names_escape. apply existsb_exists. exists e; auto.
        - eapply blocks_type_conflict. exact Bl. }
    destruct (Ds eq_refl) as [Rs Es].
    assert (NE : (fixed && names_escape (r_payload rq)) = false).
    { destruct fixed; [cbn [andb]|reflexivity].
      destruct (names_escape (r_payload rq)) eqn:X; [|reflexivity]. exfalso.
      unfold names_escape in X. apply existsb_exists in X as (e & He & Ee).
      assert (Hin : In (target e, e_content e, escapes e) pln) by (apply plan_In; exists e; auto).
      apply Rs in Hin. unfold refused in Hin. cbn [snd andb] in Hin. congruence. }
    assert (Dn : deq (dsk s2) (new_disk B fixed (skipn (hk s1) hs) rq d)).
    { unfold new_disk. fold pln. eapply deq_trans; [exact Es|].
      apply apply_list_ext. apply Ec; reflexivity. }
    (* reloadFlows *)
    destruct (reload s2) as [okr s3] eqn:RL.
    pose proof (reload_spec _ _ _ RL) as (O3 & B3).
    pose proof (engop_within _ _ O3) as W3. destruct O3 as (D3 & G3 & _ & Q3).
    destruct O2 as [E2 A2].
    set (dn := new_disk B fixed (skipn (hk s1) hs) rq d) in *.
    assert (P2 : forall e, e = eng s2 \/ e = EBuilt (dsk s2) -> served d e \/ served dn e).
    { intros e [->| ->]; [left; rewrite E2; apply served_old|right; apply served_ceq, deq_ceq; exact Dn]. }
    assert (S3 : Forall (fun e => served d e \/ served dn e) (seen s3)).
    { destruct W3 as (x & S & A). rewrite S. apply Forall_app. split.
      - eapply Forall_impl; [|exact A]. exact P2.
      - eapply Forall_impl; [|exact A2]. cbn; intros e ->; left; apply served_old. }
    destruct okr.
    { intro H; injection H as <- <-. unfold outcome. cbn zeta. fold dn.
      split.
      { intros _. unfold arrivals. constructor; [|exact S3]. apply P2. right. apply B3; reflexivity. }
      split; [discriminate|]. split; [discriminate|].
      split; [|discriminate]. intros _.
      destruct (reload_ok_valid _ _ RL) as [V M].
      split; [intro p; rewrite D3; apply Dn|]. split; [rewrite D3; apply B3; reflexivity|].
      rewrite D3. split; [assumption|]. split; assumption. }
    (* the reload failed: Restore, then reload again *)
    intro R. pose proof (rollback_not_ok _ _ _ _ _ _ _ R) as Rk.
    apply rollback_spec in R as (A & Bc & W & G & Eb & Fq); [|exact MetD|rewrite D3; exact MetS2].
    unfold outcome. cbn zeta. fold dn.
    assert (P3 : served d (eng s3) \/ served dn (eng s3)) by (apply P2; exact G3).
    split.
    { intros Hr. assert (r = Failed) as -> by (destruct Rk; [assumption|contradiction]).
      assert (Pn : served d (EBuilt (dsk s'))) by (apply served_ceq; intros p Hp; apply Bc; auto).
      unfold arrivals. constructor.
      - destruct G as [->|[_ ->]]; [exact P3|left; exact Pn].
      - destruct W as (x & S & Ax). rewrite S. apply Forall_app. split; [|exact S3].
        eapply Forall_impl; [|exact Ax]. cbn. intros e [->|[_ ->]]; [exact P3|left; exact Pn]. }
    split.
    { intros ->. split; [intros p Hp; apply Bc; auto|].
      rewrite Eb by reflexivity. apply served_ceq. intros p Hp; apply Bc; auto. }
    split.
    { intros _ T p Hp. rewrite A by exact Hp. rewrite D3. apply U2; assumption. }
    split; [intros ->; destruct Rk; discriminate|].
    intros -> Vx Mx Vd Md T FC.
    assert (UK : forall q, covered q = false -> has q (dsk s3) -> has q d).
    { intros q Hc Hq. unfold has in *. rewrite D3, (U2 FC q Hc) in Hq. exact Hq. }
    assert (restored_ok : forall x, (forall p, lookup p x = if covered p then lookup p d else lookup p (dsk s3)) ->
                                    valid x = true /\ metrics_ok x = true).
    { intros x Hx. assert (ceq x d) by (intros p Hp; rewrite Hx, Hp; reflexivity).
      rewrite (Vx x d), (Mx x d) by assumption. split; assumption. }
    split.
    - (* without any fault the roll-back cannot fail *)
      intros ->. assert (Q2 : flt s2 = NoFault) by (apply Q02; reflexivity).
      assert (RollbackFailed = Failed); [|discriminate].
      apply Fq; [apply Q3; exact Q2|exact T|exact UK|]. intros _ x Hx _. apply restored_ok; exact Hx.
    - (* with a payload that validates and loads, the reload failed by the fault, which is then spent *)
      right. right.
      destruct (valid dn) eqn:Vn; [|left; reflexivity].
      destruct (metrics_ok dn) eqn:Mn; [|right; reflexivity].
      exfalso.
      assert (V2 : valid (dsk s2) = true) by (rewrite (Vx _ dn); [exact Vn|apply deq_ceq; exact Dn]).
      assert (M2 : metrics_ok (dsk s2) = true) by (rewrite (Mx _ dn); [exact Mn|apply deq_ceq; exact Dn]).
      destruct (reload_progress _ _ _ RL V2 M2) as [_ Nf].
      assert (RollbackFailed = Failed); [|discriminate].
      apply Fq; [apply Nf; reflexivity|exact T|exact UK|]. intros _ x Hx _. apply restored_ok; exact Hx.
  Qed.

End Steps.

(* ---------------------------------------------------------------- the order of the payload files *)

Section Order.
  Context {B : Type}.

  Lemma three_way_perm {A} (f g : A -> bool) (l : list A) :
    Permutation l (filter (fun x => negb (f x) && g x) l ++ filter f l
                   ++ filter (fun x => negb (f x) && negb (g x)) l).
  Proof.
    induction l as [|x l IH]; cbn [filter]; [constructor|].
    destruct (f x); cbn [negb andb].
    - apply Permutation_cons_app. exact IH.
    - destruct (g x); cbn [negb].
      + cbn [app]. constructor. exact IH.
      + rewrite app_assoc. apply Permutation_cons_app. rewrite <- app_assoc. exact IH.
  Qed.

  Lemma order_field_perm fixed hint (items : list (item B)) :
    Permutation items (order_field B fixed hint items).
  Proof.
    unfold order_field.
    eapply Permutation_trans; [apply (three_way_perm (refused B fixed) (hinted B hint))|].
    apply Permutation_app_tail. apply arrange_perm.
  Qed.

  Definition as_item (e : entry B) : item B := (target e, e_content e, escapes e).

  Lemma items_of_cons f e pl :
    items_of B f (e :: pl) =
    if field_eqb (e_field e) f then as_item e :: items_of B f pl else items_of B f pl.
  Proof. unfold items_of. cbn [filter]. destruct (field_eqb (e_field e) f); reflexivity. Qed.

  (* the files of a payload, field by field, are the files of the payload *)
  Lemma items_partition (pl : list (entry B)) :
    Permutation (map as_item pl) (flat_map (fun f => items_of B f pl) fields).
  Proof.
    induction pl as [|e pl IH]; [cbn; constructor|].
    unfold fields in *. cbn [flat_map] in *. rewrite !items_of_cons. cbn [map].
    destruct (e_field e); cbn [field_eqb].
    - cbn [app]. constructor. exact IH.
    - apply Permutation_cons_app. exact IH.
    - rewrite (app_assoc (items_of B FFlows pl)). apply Permutation_cons_app.
      rewrite <- app_assoc. exact IH.
    - rewrite (app_assoc (items_of B FFlows pl)), (app_assoc (_ ++ _)). apply Permutation_cons_app.
      rewrite <- !app_assoc. exact IH.
    - rewrite (app_assoc (items_of B FFlows pl)), (app_assoc (_ ++ _)), (app_assoc (_ ++ _)).
      apply Permutation_cons_app. rewrite <- !app_assoc. exact IH.
  Qed.

  Lemma plan_perm fixed hint (pl : list (entry B)) :
    Permutation (map as_item pl) (plan B fixed hint pl).
  Proof.
    eapply Permutation_trans; [apply items_partition|].
    unfold plan, fields. cbn [flat_map].
    repeat (apply Permutation_app; [apply order_field_perm|]). constructor.
  Qed.

  (* when no two payload files go to the same place, the configuration the
     payload describes does not depend on the order Go met them in *)
  Lemma new_disk_order_irrelevant fixed h1 h2 (rq : request B) d :
    NoDup (map target (r_payload rq)) ->
    deq (new_disk B fixed h1 rq d) (new_disk B fixed h2 rq d).
  Proof.
    intros ND p. unfold new_disk.
    assert (K : forall h, NoDup (map fst (map fst (plan B fixed h (r_payload rq))))).
    { intro h. eapply Permutation_NoDup.
      - apply Permutation_map, Permutation_map. apply (plan_perm fixed h).
      - rewrite !map_map. cbn [as_item fst]. exact ND. }
    rewrite !lookup_apply_list by apply K.
    rewrite (lookup_perm (map fst (plan B fixed h1 (r_payload rq))) (map fst (plan B fixed h2 (r_payload rq))) p).
    - reflexivity.
    - apply Permutation_map. eapply Permutation_trans; [apply Permutation_sym, plan_perm|apply plan_perm].
    - apply K.
  Qed.

End Order.

(* ---------------------------------------------------------------- the oracles of the correspondence *)

(* the verdict functions the correspondence suite instantiates the model with
   depend only on the places the loader reads *)
Lemma c_valid_spec bad (d : disk N) :
  c_valid bad d = true <->
  forall p c, lookup p d = Some c -> covered p = true ->
              match fst p with
              | AFlows | AQuotas | APathParams | AGateway => memN c bad = false
              | _ => True
              end.
Proof.
  unfold c_valid. rewrite forallb_forall. split.
  - intros H p c L C. rewrite <- lookup_normalize in L. apply lookup_In in L.
    specialize (H _ L). cbn [fst snd] in H. rewrite C in H.
    destruct (fst p); try exact I; apply negb_true_iff in H; exact H.
  - intros H [p c] Hin. cbn [fst snd].
    apply In_lookup in Hin; [|apply NoDup_normalize]. rewrite lookup_normalize in Hin.
    destruct (covered p) eqn:C; [|reflexivity].
    specialize (H p c Hin C). destruct (fst p); try reflexivity; apply negb_true_iff; exact H.
Qed.

Lemma c_valid_covered bad (a b : disk N) :
  (forall p, covered p = true -> lookup p a = lookup p b) -> c_valid bad a = c_valid bad b.
Proof.
  intro E.
  assert (W : forall x y : disk N, (forall p, covered p = true -> lookup p x = lookup p y) ->
                                   c_valid bad x = true -> c_valid bad y = true).
  { intros x y Exy H. apply c_valid_spec. intros p c L C. rewrite <- (Exy p C) in L.
    exact (proj1 (c_valid_spec bad x) H p c L C). }
  destruct (c_valid bad a) eqn:Va.
  - symmetry. apply (W a b E Va).
  - destruct (c_valid bad b) eqn:Vb; [|reflexivity].
    rewrite (W b a) in Va; [discriminate| |exact Vb]. intros p C. symmetry. apply E; exact C.
Qed.

Lemma c_metrics_ok_covered bad (a b : disk N) :
  (forall p, covered p = true -> lookup p a = lookup p b) -> c_metrics_ok bad a = c_metrics_ok bad b.
Proof. intro E. unfold c_metrics_ok. rewrite (E metrics_file) by reflexivity. reflexivity. Qed.

(* ---------------------------------------------------------------- the contents met, as a list *)

Section Contents.
  Context {B D : Type}.
  Variable digest : B -> D.
  Variable D_eqb : D -> D -> bool.
  Variable empty garbage : B.
  Variable under : path -> path -> bool.
  Variable valid metrics_ok : disk B -> bool.

  (* every content a run on disk [d] with request [rq] can read or write *)
  Definition contents_met (rq : request B) (d : disk B) : list B :=
    empty :: garbage :: map snd d ++ map e_content (r_payload rq).

  Definition injective_on (l : list B) : Prop :=
    forall a b, In a l -> In b l -> digest a = digest b -> a = b.

  Lemma run_master_contents fixed hs hint rq d f r s' :
    (forall a b, D_eqb a b = true <-> a = b) ->
    injective_on (contents_met rq d) ->
    run B D digest D_eqb empty garbage under valid metrics_ok fixed true hs hint rq d f = (r, s') ->
    exists k, outcome under valid metrics_ok fixed hs rq d f r s' k.
  Proof.
    intros Es Inj R.
    apply (run_master digest D_eqb empty garbage under valid metrics_ok (fun c => In c (contents_met rq d)))
      with (hint := hint).
    - left; reflexivity.
    - right; left; reflexivity.
    - exact Es.
    - exact Inj.
    - unfold dmet. apply Forall_forall. intros e He. right; right. apply in_or_app. left.
      apply in_map; exact He.
    - apply Forall_forall. intros e He. right; right. apply in_or_app. right.
      apply in_map; exact He.
    - exact R.
  Qed.

End Contents.
