(* C08 -- lemmas about the update model. *)
From Coq Require Import List NArith Bool Arith Permutation Lia.
From Verif Require Import C08.Model.
Import ListNotations.

(* ---------------------------------------------------------------- paths *)

Lemma area_eqb_eq a b : area_eqb a b = true <-> a = b.
Proof. destruct a, b; cbn; split; intro H; try reflexivity; discriminate. Qed.

Lemma path_eqb_eq p q : path_eqb p q = true <-> p = q.
Proof.
  destruct p as [a n], q as [b m]; unfold path_eqb; cbn [fst snd].
  rewrite andb_true_iff, area_eqb_eq, N.eqb_eq. split.
  - intros [-> ->]; reflexivity.
  - intro H; inversion H; auto.
Qed.

Lemma path_eqb_refl p : path_eqb p p = true.
Proof. apply path_eqb_eq; reflexivity. Qed.

Lemma path_eqb_neq p q : path_eqb p q = false <-> p <> q.
Proof.
  split.
  - intros H E. apply path_eqb_eq in E. congruence.
  - intro H. destruct (path_eqb p q) eqn:E; [apply path_eqb_eq in E; contradiction|reflexivity].
Qed.

Lemma path_eqb_sym p q : path_eqb p q = path_eqb q p.
Proof.
  destruct (path_eqb p q) eqn:E.
  - apply path_eqb_eq in E; subst; symmetry; apply path_eqb_refl.
  - symmetry; apply path_eqb_neq; apply path_eqb_neq in E; congruence.
Qed.

Lemma path_eq_dec (p q : path) : {p = q} + {p <> q}.
Proof.
  destruct (path_eqb p q) eqn:E; [left; apply path_eqb_eq; exact E|right; apply path_eqb_neq; exact E].
Qed.

(* ---------------------------------------------------------------- arrange *)

Lemma filter_partition_perm {A} (f : A -> bool) (l : list A) :
  Permutation l (filter f l ++ filter (fun x => negb (f x)) l).
Proof.
  induction l as [|x l IH]; cbn; [constructor|].
  destruct (f x); cbn.
  - constructor; exact IH.
  - apply Permutation_cons_app; exact IH.
Qed.

Lemma arrange_perm {A} (key : A -> path) hint : forall items,
  Permutation items (arrange key hint items).
Proof.
  induction hint as [|p h IH]; intro items; cbn; [apply Permutation_refl|].
  eapply Permutation_trans; [apply (filter_partition_perm (fun x => path_eqb p (key x)))|].
  apply Permutation_app_head. apply IH.
Qed.

(* ---------------------------------------------------------------- disks *)

Section Disk.
  Context {B : Type}.
  Notation disk := (disk B).

  Definition deq (a b : disk) : Prop := forall p, lookup p a = lookup p b.

  Lemma deq_refl a : deq a a. Proof. intro; reflexivity. Qed.
  Lemma deq_sym a b : deq a b -> deq b a. Proof. intros H p; symmetry; apply H. Qed.
  Lemma deq_trans a b c : deq a b -> deq b c -> deq a c.
  Proof. intros H1 H2 p; rewrite H1; apply H2. Qed.

  Lemma lookup_filter_key (f : path -> bool) (d : disk) p :
    lookup p (filter (fun e => f (fst e)) d) = if f p then lookup p d else None.
  Proof.
    induction d as [|[q c] r IH]; cbn; [destruct (f p); reflexivity|].
    destruct (f q) eqn:Fq; cbn.
    - destruct (path_eqb p q) eqn:E.
      + apply path_eqb_eq in E; subst. rewrite Fq; reflexivity.
      + exact IH.
    - destruct (path_eqb p q) eqn:E.
      + apply path_eqb_eq in E; subst. rewrite Fq in IH |- *. exact IH.
      + exact IH.
  Qed.

  Lemma lookup_del (d : disk) p q :
    lookup q (del p d) = if path_eqb p q then None else lookup q d.
  Proof.
    unfold del. rewrite (lookup_filter_key (fun k => negb (path_eqb p k))).
    destruct (path_eqb p q); reflexivity.
  Qed.

  Lemma lookup_set (d : disk) p c q :
    lookup q (set p c d) = if path_eqb q p then Some c else lookup q d.
  Proof.
    unfold set; cbn. destruct (path_eqb q p) eqn:E; [reflexivity|].
    rewrite lookup_del, path_eqb_sym, E; reflexivity.
  Qed.

  Lemma set_ext (a b : disk) p c : deq a b -> deq (set p c a) (set p c b).
  Proof. intros H q. rewrite !lookup_set. destruct (path_eqb q p); [reflexivity|apply H]. Qed.

  Lemma del_ext (a b : disk) p : deq a b -> deq (del p a) (del p b).
  Proof. intros H q. rewrite !lookup_del. destruct (path_eqb p q); [reflexivity|apply H]. Qed.

  Lemma apply_list_ext (l : disk) : forall a b, deq a b -> deq (apply_list B l a) (apply_list B l b).
  Proof.
    induction l as [|[p c] l IH]; intros a b H; cbn; [exact H|].
    apply IH. apply set_ext; exact H.
  Qed.

  Lemma In_del_keys (d : disk) p q : In q (map fst (del p d)) -> In q (map fst d) /\ q <> p.
  Proof.
    unfold del. rewrite !in_map_iff. intros [e [<- He]]. apply filter_In in He as [He Hn].
    split; [exists e; auto|]. intro E. apply negb_true_iff, path_eqb_neq in Hn. congruence.
  Qed.

  Lemma NoDup_keys_filter (f : path * B -> bool) (d : disk) :
    NoDup (map fst d) -> NoDup (map fst (filter f d)).
  Proof.
    induction d as [|e r IH]; cbn; intro H; [constructor|].
    inversion H as [|? ? Hn Hr]; subst. destruct (f e); cbn; [|apply IH; exact Hr].
    constructor; [|apply IH; exact Hr].
    intro Hin. apply Hn. apply in_map_iff in Hin as [e' [E He']]. apply filter_In in He' as [He' _].
    apply in_map_iff. exists e'; auto.
  Qed.

  Lemma lookup_normalize (d : disk) p : lookup p (normalize d) = lookup p d.
  Proof.
    induction d as [|[q c] r IH]; cbn; [reflexivity|].
    destruct (path_eqb p q) eqn:E; [reflexivity|].
    rewrite lookup_del, path_eqb_sym, E. exact IH.
  Qed.

  Lemma NoDup_normalize (d : disk) : NoDup (map fst (normalize d)).
  Proof.
    induction d as [|[q c] r IH]; cbn; [constructor|].
    constructor.
    - intro H. apply In_del_keys in H as [_ H]. congruence.
    - apply NoDup_keys_filter. exact IH.
  Qed.

  Lemma lookup_snapshot (d : disk) p :
    lookup p (snapshot d) = if covered p then lookup p d else None.
  Proof.
    unfold snapshot. rewrite (lookup_filter_key covered), lookup_normalize. reflexivity.
  Qed.

  Lemma NoDup_snapshot (d : disk) : NoDup (map fst (snapshot d)).
  Proof. apply NoDup_keys_filter, NoDup_normalize. Qed.

  Lemma lookup_In (d : disk) p c : lookup p d = Some c -> In (p, c) d.
  Proof.
    induction d as [|[q c'] r IH]; cbn; [discriminate|].
    destruct (path_eqb p q) eqn:E.
    - apply path_eqb_eq in E; subst. intro H; inversion H; auto.
    - intro H; right; auto.
  Qed.

  Lemma lookup_None_keys (d : disk) p : lookup p d = None <-> ~ In p (map fst d).
  Proof.
    induction d as [|[q c'] r IH]; cbn; [tauto|].
    destruct (path_eqb p q) eqn:E.
    - apply path_eqb_eq in E; subst. split; [discriminate|]. intro H; exfalso; apply H; auto.
    - apply path_eqb_neq in E. rewrite IH. split; [intros H [H1|H1]; [congruence|auto]|tauto].
  Qed.

  Lemma In_lookup (d : disk) p c : NoDup (map fst d) -> In (p, c) d -> lookup p d = Some c.
  Proof.
    induction d as [|[q c'] r IH]; cbn; [tauto|]. intros Hn [H|H].
    - inversion H; subst. rewrite path_eqb_refl; reflexivity.
    - inversion Hn as [|? ? Hq Hr]; subst.
      destruct (path_eqb p q) eqn:E; [|apply IH; assumption].
      apply path_eqb_eq in E; subst. exfalso; apply Hq. apply in_map_iff. exists (q, c); auto.
  Qed.

  Lemma lookup_filter_nodup (f : path * B -> bool) (d : disk) p :
    NoDup (map fst d) ->
    lookup p (filter f d) =
    match lookup p d with Some c => if f (p, c) then Some c else None | None => None end.
  Proof.
    induction d as [|[q c] r IH]; cbn; intro Hn; [reflexivity|].
    inversion Hn as [|? ? Hq Hr]; subst.
    destruct (path_eqb p q) eqn:E.
    - apply path_eqb_eq in E; subst. destruct (f (q, c)); cbn.
      + rewrite path_eqb_refl; reflexivity.
      + rewrite IH by exact Hr.
        assert (lookup q r = None) as -> by (apply lookup_None_keys; exact Hq). reflexivity.
    - destruct (f (q, c)); cbn; [rewrite E|]; apply IH; exact Hr.
  Qed.

  Lemma lookup_perm (a b : disk) p :
    Permutation a b -> NoDup (map fst a) -> lookup p a = lookup p b.
  Proof.
    intros HP Hn.
    assert (Hnb : NoDup (map fst b)) by (eapply Permutation_NoDup; [apply Permutation_map; exact HP|exact Hn]).
    destruct (lookup p a) as [c|] eqn:Ea.
    - symmetry. apply In_lookup; [exact Hnb|]. eapply Permutation_in; [exact HP|]. apply lookup_In; exact Ea.
    - symmetry. apply lookup_None_keys. intro H. apply lookup_None_keys in Ea. apply Ea.
      eapply Permutation_in; [apply Permutation_sym, Permutation_map; exact HP|exact H].
  Qed.

  (* writing a list of files with distinct names: each named file gets its
     content, every other file stays *)
  Lemma lookup_apply_list (l : disk) : forall d p,
    NoDup (map fst l) ->
    lookup p (apply_list B l d) = match lookup p l with Some c => Some c | None => lookup p d end.
  Proof.
    unfold apply_list.
    induction l as [|[q c] l IH]; intros d p Hn; cbn [fold_left fst snd lookup]; [reflexivity|].
    inversion Hn as [|? ? Hq Hr]; subst. rewrite IH by exact Hr.
    destruct (path_eqb p q) eqn:E.
    - apply path_eqb_eq in E; subst.
      assert (lookup q l = None) as -> by (apply lookup_None_keys; exact Hq).
      rewrite lookup_set, path_eqb_refl; reflexivity.
    - destruct (lookup p l); [reflexivity|]. rewrite lookup_set, E; reflexivity.
  Qed.

  Lemma lookup_apply_list_other (l : disk) : forall d p,
    ~ In p (map fst l) -> lookup p (apply_list B l d) = lookup p d.
  Proof.
    unfold apply_list.
    induction l as [|[q c] l IH]; intros d p Hn; cbn [fold_left fst snd]; [reflexivity|].
    cbn in Hn. rewrite IH by tauto. rewrite lookup_set.
    destruct (path_eqb p q) eqn:E; [apply path_eqb_eq in E; subst; tauto|reflexivity].
  Qed.

End Disk.

(* ---------------------------------------------------------------- the fault oracle *)

Lemma tick_quiet hook : tick hook NoFault = (false, NoFault).
Proof. reflexivity. Qed.

Lemma tick_fired hook f f' : tick hook f = (true, f') -> f' = NoFault.
Proof.
  destruct f as [|[|n]|[|k]]; cbn; try destruct hook; intro H; inversion H; reflexivity.
Qed.

(* ---------------------------------------------------------------- steps *)

Section Steps.
  Context {B D : Type}.
  Variable digest : B -> D.
  Variable D_eqb : D -> D -> bool.
  Variable empty garbage : B.
  Variable valid metrics_ok : disk B -> bool.

  Notation st := (st B).
  Notation prim := (prim B).
  Notation p_remove := (p_remove B).
  Notation store := (store B empty garbage).
  Notation store_all := (store_all B empty garbage).
  Notation remove_all := (remove_all B).
  Notation restore := (restore B D digest D_eqb empty garbage).
  Notation clean_all := (clean_all B).
  Notation initialize_streams := (initialize_streams B).
  Notation reload := (reload B valid metrics_ok).
  Notation rollback := (rollback B D digest D_eqb empty garbage valid metrics_ok).
  Notation update := (update B D digest D_eqb empty garbage valid metrics_ok).

  (* a file-system operation: never touches the engine, every arrival during
     it meets the current engine, it can only fail by the oracle, and once the
     oracle has struck it is silent *)
  Definition fsop (s s' : st) (ok : bool) : Prop :=
    eng s' = eng s /\
    (exists extra, seen s' = extra ++ seen s /\ Forall (fun e => e = eng s) extra) /\
    (flt s = NoFault -> ok = true /\ flt s' = NoFault) /\
    (ok = false -> flt s' = NoFault).

  Lemma fsop_refl s : fsop s s true.
  Proof.
    refine (conj eq_refl (conj _ (conj _ _))).
    - exists []; split; [reflexivity|constructor].
    - intro Q; split; [reflexivity|exact Q].
    - discriminate.
  Qed.

  Lemma fsop_trans s s1 s2 ok : fsop s s1 true -> fsop s1 s2 ok -> fsop s s2 ok.
  Proof.
    intros (E1 & (x1 & S1 & F1) & Q1 & _) (E2 & (x2 & S2 & F2) & Q2 & N2).
    refine (conj _ (conj _ (conj _ N2))).
    - congruence.
    - exists (x2 ++ x1). split; [rewrite S2, S1, app_assoc; reflexivity|].
      apply Forall_app; split; [|exact F1].
      eapply Forall_impl; [|exact F2]. cbn; intros e ->; exact E1.
    - intro Q. apply Q2, Q1; exact Q.
  Qed.

  (* an operation whose error is ignored *)
  Lemma fsop_ignore s s1 s2 ok : fsop s s1 true -> fsop s1 s2 ok -> fsop s s2 true.
  Proof.
    intros F1 F2. destruct ok; [eapply fsop_trans; eassumption|].
    destruct F1 as (E1 & (x1 & S1 & A1) & Q1 & _), F2 as (E2 & (x2 & S2 & A2) & Q2 & N2).
    refine (conj _ (conj _ (conj _ _))).
    - congruence.
    - exists (x2 ++ x1). split; [rewrite S2, S1, app_assoc; reflexivity|].
      apply Forall_app; split; [|exact A1].
      eapply Forall_impl; [|exact A2]. cbn; intros e ->; exact E1.
    - intros _. split; [reflexivity|apply N2; reflexivity].
    - discriminate.
  Qed.

  Lemma fsop_with_disk s s' ok f : fsop s s' ok -> fsop s (with_disk B f s') ok.
  Proof. intros (E & X & Q & N). exact (conj E (conj X (conj Q N))). Qed.

  Lemma fsop_with_disk_l s s' ok f : fsop (with_disk B f s) s' ok -> fsop s s' ok.
  Proof. intros (E & X & Q & N). exact (conj E (conj X (conj Q N))). Qed.

  Lemma prim_spec hook s fired s1 :
    prim hook s = (fired, s1) -> dsk s1 = dsk s /\ fsop s s1 (negb fired).
  Proof.
    unfold Model.prim. destruct (tick hook (flt s)) as [fr f'] eqn:T. intro H; inversion H; subst; clear H.
    split; [reflexivity|]. refine (conj eq_refl (conj _ (conj _ _))); cbn [seen flt eng].
    - exists [eng s]; split; [reflexivity|repeat constructor].
    - intro Q; rewrite Q in T; cbn in T; inversion T; split; reflexivity.
    - intro Hf. apply negb_false_iff in Hf; subst. eapply tick_fired; exact T.
  Qed.

  Lemma p_remove_spec hook p s ok s' :
    p_remove hook p s = (ok, s') ->
    fsop s s' ok /\ (ok = true -> dsk s' = del p (dsk s)) /\ (ok = false -> dsk s' = dsk s).
  Proof.
    unfold p_remove. destruct (prim hook s) as [fired s1] eqn:P.
    apply prim_spec in P as [Hd Hf]. destruct fired; intro H; inversion H; subst; clear H.
    - split; [exact Hf|]. split; [discriminate|auto].
    - split; [apply fsop_with_disk; exact Hf|]. split; [cbn; congruence|discriminate].
  Qed.

  Lemma store_spec p c s ok s' :
    store p c s = (ok, s') ->
    fsop s s' ok /\
    (ok = true -> deq (dsk s') (set p c (dsk s))) /\
    (forall q, q <> p -> lookup q (dsk s') = lookup q (dsk s)).
  Proof.
    unfold Model.store.
    destruct (prim true s) as [f0 s0] eqn:P0. apply prim_spec in P0 as [D0 F0].
    destruct f0; [intro H; inversion H; subst; split; [exact F0|split; [discriminate|intros; congruence]]|].
    destruct (p_remove true p s0) as [okr s1] eqn:P1. apply p_remove_spec in P1 as (F1 & R1t & R1f).
    assert (F01 : fsop s s1 true /\ forall q, q <> p -> lookup q (dsk s1) = lookup q (dsk s)).
    { split; [eapply fsop_ignore; eassumption|]. destruct okr.
      - intros q Hq. rewrite R1t, lookup_del by reflexivity.
        rewrite D0. destruct (path_eqb p q) eqn:E; [apply path_eqb_eq in E; congruence|reflexivity].
      - intros q _. rewrite R1f, D0 by reflexivity. reflexivity. }
    destruct F01 as [F01 K1].
    destruct (prim false s1) as [f2 s2] eqn:P2. apply prim_spec in P2 as [D2 F2].
    destruct f2.
    { intro H; inversion H; subst. split; [eapply fsop_trans; eassumption|].
      split; [discriminate|]. intros q Hq. rewrite D2. auto. }
    destruct (prim false s2) as [f3 s3] eqn:P3. apply prim_spec in P3 as [D3 F3].
    destruct f3.
    { intro H; inversion H; subst. split; [eapply fsop_trans; [|eassumption]; eapply fsop_trans; eassumption|].
      split; [discriminate|]. intros q Hq. rewrite D3, D2. auto. }
    destruct (prim false (with_disk B (set p empty) s3)) as [f4 s4] eqn:P4.
    apply prim_spec in P4 as [D4 F4]. apply fsop_with_disk_l in F4.
    assert (F04 : fsop s s4 (negb f4)).
    { eapply fsop_trans; [|exact F4]. eapply fsop_trans; [|exact F3]. eapply fsop_trans; eassumption. }
    destruct f4; intro H; inversion H; subst; clear H.
    - split; [apply fsop_with_disk; exact F04|]. split; [discriminate|].
      intros q Hq. cbn [dsk with_disk]. rewrite lookup_set.
      destruct (path_eqb q p) eqn:E; [apply path_eqb_eq in E; congruence|].
      rewrite D4; cbn [dsk with_disk]. rewrite lookup_set, E, D3, D2. auto.
    - split; [apply fsop_with_disk; exact F04|]. split.
      + intros _ q. cbn [dsk with_disk]. rewrite !lookup_set.
        destruct (path_eqb q p) eqn:E; [reflexivity|].
        rewrite D4; cbn [dsk with_disk]. rewrite lookup_set, E, D3, D2. apply K1. apply path_eqb_neq; exact E.
      + intros q Hq. cbn [dsk with_disk]. rewrite lookup_set.
        destruct (path_eqb q p) eqn:E; [apply path_eqb_eq in E; congruence|].
        rewrite D4; cbn [dsk with_disk]. rewrite lookup_set, E, D3, D2. auto.
  Qed.

  Lemma store_all_spec l : forall s ok s',
    store_all l s = (ok, s') ->
    fsop s s' ok /\
    (ok = true -> deq (dsk s') (apply_list B l (dsk s))) /\
    (forall q, ~ In q (map fst l) -> lookup q (dsk s') = lookup q (dsk s)).
  Proof.
    induction l as [|[p c] l IH]; intros s ok s'; cbn.
    - intro H; inversion H; subst. split; [apply fsop_refl|]. split; [intros _; apply deq_refl|auto].
    - destruct (store p c s) as [ok1 s1] eqn:S1. apply store_spec in S1 as (F1 & E1 & K1).
      destruct ok1.
      + intro H. apply IH in H as (F2 & E2 & K2).
        split; [eapply fsop_trans; eassumption|]. split.
        * intro Hok. eapply deq_trans; [apply E2; exact Hok|]. apply apply_list_ext. apply E1; reflexivity.
        * intros q Hq. rewrite K2 by tauto. apply K1. intro; subst; tauto.
      + intro H; inversion H; subst. split; [exact F1|]. split; [discriminate|].
        intros q Hq. apply K1. intro; subst; tauto.
  Qed.

  Lemma remove_all_spec hook l : forall s ok s',
    remove_all hook l s = (ok, s') ->
    fsop s s' ok /\
    (ok = true -> forall q, lookup q (dsk s') = if existsb (path_eqb q) l then None else lookup q (dsk s)) /\
    (forall q, ~ In q l -> lookup q (dsk s') = lookup q (dsk s)).
  Proof.
    induction l as [|p l IH]; intros s ok s'; cbn.
    - intro H; inversion H; subst. split; [apply fsop_refl|]. split; auto.
    - destruct (p_remove hook p s) as [ok1 s1] eqn:S1. apply p_remove_spec in S1 as (F1 & E1 & K1).
      destruct ok1.
      + intro H. apply IH in H as (F2 & E2 & K2).
        split; [eapply fsop_trans; eassumption|]. split.
        * intros Hok q. rewrite E2 by exact Hok. rewrite E1 by reflexivity. rewrite lookup_del.
          rewrite (path_eqb_sym q p).
          destruct (existsb (path_eqb q) l); destruct (path_eqb p q); reflexivity.
        * intros q Hq. rewrite K2 by tauto. rewrite E1 by reflexivity. rewrite lookup_del.
          destruct (path_eqb p q) eqn:E; [apply path_eqb_eq in E; subst; tauto|reflexivity].
      + intro H; inversion H; subst. split; [exact F1|]. split; [discriminate|].
        intros q _. rewrite K1 by reflexivity. reflexivity.
  Qed.

  Lemma existsb_path_In q l : existsb (path_eqb q) l = true <-> In q l.
  Proof.
    rewrite existsb_exists. split.
    - intros [x [Hx E]]. apply path_eqb_eq in E; subst; exact Hx.
    - intro H; exists q; split; [exact H|apply path_eqb_refl].
  Qed.

  (* ---- Restore ---- *)
  Hypothesis D_eqb_spec : forall a b, D_eqb a b = true <-> a = b.
  Hypothesis digest_inj : forall a b, digest a = digest b -> a = b.

  Lemma restore_spec hint d0 s ok s' :
    restore hint (snapshot d0) s = (ok, s') ->
    fsop s s' ok /\
    (ok = true -> forall p, lookup p (dsk s') = if covered p then lookup p d0 else lookup p (dsk s)) /\
    (forall p, covered p = false -> lookup p (dsk s') = lookup p (dsk s)).
  Proof.
    unfold Model.restore.
    destruct (prim false s) as [f s1] eqn:P. apply prim_spec in P as [D1 F1].
    destruct f.
    { intro H; inversion H; subst. split; [exact F1|]. split; [discriminate|]. intros; congruence. }
    set (bk := snapshot d0). set (cur := snapshot (dsk s1)).
    set (todo := filter (fun e => negb (same_digest B D digest D_eqb (lookup (fst e) cur) (snd e))) bk).
    set (strays := filter (fun e => negb (has_key B (fst e) bk)) cur).
    destruct (store_all (arrange fst (skipn (hk s1) hint) todo) s1) as [ok1 s2] eqn:SA.
    apply store_all_spec in SA as (F2 & E2 & K2).
    assert (Hbk : NoDup (map fst bk)) by apply NoDup_snapshot.
    assert (Htodo : NoDup (map fst todo)) by (apply NoDup_keys_filter; exact Hbk).
    assert (Hcur : NoDup (map fst cur)) by apply NoDup_snapshot.
    assert (todo_cov : forall q, In q (map fst todo) -> covered q = true).
    { intros q Hq. apply in_map_iff in Hq as [[q' c] [<- He]]. apply filter_In in He as [He _].
      cbn. pose proof (In_lookup bk q' c Hbk He) as L. unfold bk in L. rewrite lookup_snapshot in L.
      destruct (covered q'); [reflexivity|discriminate]. }
    assert (arr_keys : forall q, In q (map fst (arrange fst (skipn (hk s1) hint) todo)) <-> In q (map fst todo)).
    { intro q. split; intro H.
      - eapply Permutation_in; [apply Permutation_map, Permutation_sym, arrange_perm|exact H].
      - eapply Permutation_in; [apply Permutation_map, arrange_perm|exact H]. }
    destruct ok1.
    2:{ intro H; inversion H; subst. split; [eapply fsop_trans; eassumption|]. split; [discriminate|].
        intros p Hp. rewrite K2, D1; [reflexivity|]. intro Hin. apply arr_keys, todo_cov in Hin. congruence. }
    intro RA. apply remove_all_spec in RA as (F3 & E3 & K3).
    assert (stray_cov : forall q, In q (map fst strays) -> covered q = true /\ lookup q bk = None).
    { intros q Hq. apply in_map_iff in Hq as [[q' c] [<- He]]. apply filter_In in He as [He Hk].
      cbn in *. pose proof (In_lookup cur q' c Hcur He) as L. unfold cur in L. rewrite lookup_snapshot in L.
      split; [destruct (covered q'); [reflexivity|discriminate]|].
      unfold has_key in Hk. destruct (lookup q' bk); [discriminate|reflexivity]. }
    assert (arr2 : forall q l, In q (arrange (fun p => p) l (map fst strays)) <-> In q (map fst strays)).
    { intros q l. split; intro H.
      - eapply Permutation_in; [apply Permutation_sym, arrange_perm|exact H].
      - eapply Permutation_in; [apply arrange_perm|exact H]. }
    split; [eapply fsop_trans; [|exact F3]; eapply fsop_trans; eassumption|].
    split.
    - intros Hok p. rewrite E3 by exact Hok.
      destruct (existsb (path_eqb p) _) eqn:Ex.
      + (* a stray: removed *)
        apply existsb_path_In, arr2, stray_cov in Ex as [Hc Hb]. rewrite Hc.
        unfold bk in Hb. rewrite lookup_snapshot, Hc in Hb. auto.
      + assert (Hns : ~ In p (map fst strays)).
        { intro H. apply (arr2 p (skipn (hk s2) hint)), existsb_path_In in H. congruence. }
        rewrite E2 by reflexivity.
        rewrite (lookup_apply_list _ (dsk s1) p).
        2:{ eapply Permutation_NoDup; [apply Permutation_map, arrange_perm|exact Htodo]. }
        rewrite <- (lookup_perm todo _ p (arrange_perm fst _ todo) Htodo).
        unfold todo. rewrite (lookup_filter_key_val _ _).
        all: fail.
  Abort.

End Steps.
