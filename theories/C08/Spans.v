(* C08 -- lemmas about publications ("epochs") and two-phase transactions.

   The state counts the publications of an engine ([ep], incremented by
   rd.setStream) and records the count at every arrival ([eps], parallel to
   [seen]).  Invariant [coh d s] of a run that started from disk [d]:
     - the record is well formed (one epoch per arrival);
     - epochs never decrease along the run;
     - two arrivals of the same epoch met the same engine (the engine pointer
       changes only by a publication);
     - an arrival of epoch 0 met the engine the run started with.
   It is preserved by every step of the model, for every fault, payload,
   handler and order hint. *)
From Coq Require Import List NArith Bool Arith Lia Sorted.
From Verif Require Import C08.Model.
Import ListNotations.

(* ---------------------------------------------------------------- spans *)

Lemma In_spans_In {A} (l : list A) x y : In (x, y) (spans l) -> In x l /\ In y l.
Proof.
  induction l as [|a l IH]; cbn [spans]; [intros []|].
  intros [H|H].
  - inversion H; subst. split; left; reflexivity.
  - apply in_app_or in H as [H|H].
    + apply in_map_iff in H as (z & E & Hz). inversion E; subst. split; [left; reflexivity|right; exact Hz].
    + apply IH in H as [H1 H2]. split; right; assumption.
Qed.

Lemma In_spans_snoc {A} (l : list A) a x y :
  In (x, y) (spans (l ++ [a])) <->
  In (x, y) (spans l) \/ (In x l /\ y = a) \/ (x = a /\ y = a).
Proof.
  induction l as [|b l IH].
  - cbn. split.
    + intros [H|[]]. inversion H; subst. right; right; split; reflexivity.
    + intros [[]|[[[] _]|[-> ->]]]. left; reflexivity.
  - change (spans ((b :: l) ++ [a])) with ((b, b) :: map (pair b) (l ++ [a]) ++ spans (l ++ [a])).
    change (spans (b :: l)) with ((b, b) :: map (pair b) l ++ spans l).
    cbn [In]. rewrite !in_app_iff, IH, !in_map_iff. split.
    + intros [H|[(z & E & Hz)|[H|[[H1 H2]|[H1 H2]]]]].
      * left. left. exact H.
      * inversion E; subst. apply in_app_or in Hz as [Hz|[<-|[]]].
        -- left. right. left. exists y; split; [reflexivity|exact Hz].
        -- right. left. split; [left; reflexivity|reflexivity].
      * left. right. right. exact H.
      * right. left. split; [right; exact H1|exact H2].
      * right. right. split; assumption.
    + intros [[H|[(z & E & Hz)|H]]|[[[H1|H1] H2]|[H1 H2]]].
      * left. exact H.
      * right. left. exists z. split; [exact E|apply in_or_app; left; exact Hz].
      * right. right. left. exact H.
      * subst. right. left. exists a. split; [reflexivity|apply in_or_app; right; left; reflexivity].
      * right. right. right. left. split; assumption.
      * right. right. right. right. split; assumption.
Qed.

(* the transaction whose request phase is the first arrival and whose response
   phase is the last one *)
Lemma In_spans_hd_last {A} (l : list A) (x : A) : In (x, last l x) (spans (x :: l)).
Proof.
  cbn [spans]. apply in_or_app. left. apply in_map.
  destruct l as [|b l]; [left; reflexivity|].
  right. generalize b. induction l as [|c l IH]; intro b0; [left; reflexivity|].
  right. apply IH.
Qed.

(* [l] lists events latest first and [R later earlier] holds between every two
   of them: then it holds for every pair (request, response) of the
   chronological list *)
Lemma spans_rev_sorted {A} (R : A -> A -> Prop) (l : list A) :
  (forall a, R a a) -> StronglySorted R l ->
  forall x y, In (x, y) (spans (rev l)) -> R y x.
Proof.
  intros Rr. induction l as [|a l IH]; intros S x y; cbn [rev]; [intros []|].
  apply StronglySorted_inv in S as [S Fa].
  rewrite In_spans_snoc. intros [H|[[H ->]|[-> ->]]].
  - apply IH; assumption.
  - apply in_rev in H. rewrite Forall_forall in Fa. apply Fa; exact H.
  - apply Rr.
Qed.

(* ---------------------------------------------------------------- the invariant *)

Section Epochs.
  Context {B D : Type}.
  Variable digest : B -> D.
  Variable D_eqb : D -> D -> bool.
  Variable empty garbage : B.
  Variable under : path -> path -> bool.
  Variable valid metrics_ok : disk B -> bool.

  Notation st := (st B).
  Notation engine := (engine B).

  (* later [a], earlier [b] *)
  Definition ordered (a b : nat * engine) : Prop :=
    fst b <= fst a /\ (fst a = fst b -> snd a = snd b).

  Lemma ordered_refl a : ordered a a.
  Proof. split; [apply Nat.le_refl|reflexivity]. Qed.

  Definition tagged (s : st) : list (nat * engine) := combine (epochs s) (arrivals s).

  Definition coh (d : disk B) (s : st) : Prop :=
    length (eps s) = length (seen s) /\
    StronglySorted ordered (tagged s) /\
    Forall (fun x => fst x = 0 -> snd x = EBuilt d) (tagged s).

  Lemma coh_init d f : coh d (init_state B d f).
  Proof.
    split; [reflexivity|]. unfold tagged, epochs, arrivals; cbn.
    split; [repeat constructor|repeat constructor].
  Qed.

  Lemma coh_fields d s s' :
    eng s' = eng s -> seen s' = seen s -> ep s' = ep s -> eps s' = eps s -> coh d s -> coh d s'.
  Proof.
    unfold coh, tagged, epochs, arrivals. intros -> -> -> ->. auto.
  Qed.

  Lemma coh_with_disk d f s : coh d s -> coh d (with_disk B f s).
  Proof. apply coh_fields; reflexivity. Qed.

  Lemma coh_with_disk_inv d f s : coh d (with_disk B f s) -> coh d s.
  Proof. apply coh_fields; reflexivity. Qed.

  (* one more arrival *)
  Lemma coh_arrival d s s' :
    eng s' = eng s -> seen s' = eng s :: seen s -> ep s' = ep s -> eps s' = ep s :: eps s ->
    coh d s -> coh d s'.
  Proof.
    unfold coh, tagged, epochs, arrivals. intros -> -> -> -> (L & S & Z). cbn [length combine].
    split; [congruence|]. split.
    - constructor; [exact S|]. constructor; [apply ordered_refl|].
      apply StronglySorted_inv in S as [_ F]. exact F.
    - constructor; [|exact Z]. apply Forall_inv in Z. exact Z.
  Qed.

  Lemma coh_observe d s : coh d s -> coh d (observe B s).
  Proof. apply coh_arrival; reflexivity. Qed.

  Lemma coh_prim d hook s fired s' : prim B hook s = (fired, s') -> coh d s -> coh d s'.
  Proof.
    unfold prim. destruct (tick hook (flt s)) as [fr f']. intro H; inversion H; subst; clear H.
    apply coh_arrival; reflexivity.
  Qed.

  (* a publication *)
  Lemma coh_with_eng d e s : coh d s -> coh d (with_eng B e s).
  Proof.
    unfold coh, tagged, epochs, arrivals. cbn [with_eng eng seen ep eps combine].
    intros (L & S & Z). split; [exact L|].
    apply StronglySorted_inv in S as [S F]. split.
    - constructor; [exact S|]. eapply Forall_impl; [|exact F].
      intros x [Hle _]. unfold ordered. cbn [fst snd] in *. split; [lia|intro E; lia].
    - constructor; [cbn; discriminate|]. apply Forall_inv_tail in Z. exact Z.
  Qed.

  Lemma coh_p_remove d hook p s ok s' : p_remove B hook p s = (ok, s') -> coh d s -> coh d s'.
  Proof.
    unfold p_remove. destruct (prim B hook s) as [f s1] eqn:P. intros H C.
    apply (coh_prim _ _ _ _ _ P) in C.
    destruct f; inversion H; subst; [exact C|apply coh_with_disk; exact C].
  Qed.

  Lemma coh_store d p c s ok s' : store B empty garbage under p c s = (ok, s') -> coh d s -> coh d s'.
  Proof.
    unfold store. intros H C.
    destruct (prim B true s) as [f0 s0] eqn:P0. apply (coh_prim _ _ _ _ _ P0) in C.
    destruct f0; [inversion H; subst; exact C|].
    destruct (p_remove B true p s0) as [okr s1] eqn:P1. apply (coh_p_remove _ _ _ _ _ _ P1) in C.
    destruct (prim B false s1) as [f2 s2] eqn:P2. apply (coh_prim _ _ _ _ _ P2) in C.
    destruct (f2 || file_above under p (dsk s2)); [inversion H; subst; exact C|].
    destruct (prim B false s2) as [f3 s3] eqn:P3. apply (coh_prim _ _ _ _ _ P3) in C.
    destruct (f3 || is_dir under p (dsk s3)); [inversion H; subst; exact C|].
    destruct (prim B false (with_disk B (set p empty) s3)) as [f4 s4] eqn:P4.
    apply (coh_with_disk d (set p empty)) in C. apply (coh_prim _ _ _ _ _ P4) in C.
    destruct f4; inversion H; subst; apply coh_with_disk; exact C.
  Qed.

  Lemma coh_store_all d l : forall s ok s',
    store_all B empty garbage under l s = (ok, s') -> coh d s -> coh d s'.
  Proof.
    induction l as [|[p c] l IH]; intros s ok s'; cbn [store_all].
    - intros H C; inversion H; subst; exact C.
    - destruct (store B empty garbage under p c s) as [ok1 s1] eqn:S1. intros H C.
      apply (coh_store _ _ _ _ _ _ S1) in C. destruct ok1; [eapply IH; eassumption|inversion H; subst; exact C].
  Qed.

  Lemma coh_remove_all d hook l : forall s ok s',
    remove_all B hook l s = (ok, s') -> coh d s -> coh d s'.
  Proof.
    induction l as [|p l IH]; intros s ok s'; cbn [remove_all].
    - intros H C; inversion H; subst; exact C.
    - destruct (p_remove B hook p s) as [ok1 s1] eqn:S1. intros H C.
      apply (coh_p_remove _ _ _ _ _ _ S1) in C. destruct ok1; [eapply IH; eassumption|inversion H; subst; exact C].
  Qed.

  Lemma coh_restore d sf hint bk s ok s' :
    restore B D digest D_eqb empty garbage under sf hint bk s = (ok, s') -> coh d s -> coh d s'.
  Proof.
    unfold restore. intros H C.
    destruct (prim B false s) as [f s1] eqn:P. apply (coh_prim _ _ _ _ _ P) in C.
    destruct f; [inversion H; subst; exact C|].
    destruct sf.
    - destruct (remove_all B true _ s1) as [ok1 s2] eqn:RA. apply (coh_remove_all _ _ _ _ _ _ RA) in C.
      destruct ok1; [eapply coh_store_all; eassumption|inversion H; subst; exact C].
    - destruct (store_all B empty garbage under _ s1) as [ok1 s2] eqn:SA. apply (coh_store_all _ _ _ _ _ SA) in C.
      destruct ok1; [eapply coh_remove_all; eassumption|inversion H; subst; exact C].
  Qed.

  Lemma coh_clean_all d hint s ok s' : clean_all B hint s = (ok, s') -> coh d s -> coh d s'.
  Proof.
    unfold clean_all. intros H C.
    destruct (remove_all B false _ s) as [ok1 s1] eqn:R1. apply (coh_remove_all _ _ _ _ _ _ R1) in C.
    destruct ok1; [eapply coh_remove_all; eassumption|inversion H; subst; exact C].
  Qed.

  Lemma coh_initialize_streams d s ok s' : initialize_streams B s = (ok, s') -> coh d s -> coh d s'.
  Proof.
    unfold initialize_streams. intros H C.
    destruct (prim B false s) as [f0 s0] eqn:P0. apply (coh_prim _ _ _ _ _ P0) in C.
    destruct f0; [inversion H; subst; exact C|].
    destruct (prim B true s0) as [f1 s1] eqn:P1. apply (coh_prim _ _ _ _ _ P1) in C.
    destruct f1; [inversion H; subst; exact C|].
    apply (coh_with_eng d (EBuilt (dsk s1))) in C. apply coh_observe in C.
    destruct (prim B false (observe B (with_eng B (EBuilt (dsk s1)) s1))) as [f3 s3] eqn:P3. apply (coh_prim _ _ _ _ _ P3) in C.
    destruct f3; [inversion H; subst; exact C|].
    destruct (prim B false s3) as [f4 s4] eqn:P4. apply (coh_prim _ _ _ _ _ P4) in C.
    destruct f4; inversion H; subst; exact C.
  Qed.

  Lemma coh_reload d s ok s' : reload B valid metrics_ok s = (ok, s') -> coh d s -> coh d s'.
  Proof.
    unfold reload. intros H C.
    destruct (prim B false s) as [f0 s0] eqn:P0. apply (coh_prim _ _ _ _ _ P0) in C.
    destruct (f0 || negb (valid (dsk s0))); [inversion H; subst; exact C|].
    destruct (initialize_streams B s0) as [ok1 s1] eqn:I. apply (coh_initialize_streams _ _ _ _ I) in C.
    destruct ok1; [|inversion H; subst; exact C].
    destruct (prim B false s1) as [f2 s2] eqn:P2. apply (coh_prim _ _ _ _ _ P2) in C.
    destruct (f2 || negb (metrics_ok (dsk s2))); inversion H; subst; exact C.
  Qed.

  Lemma coh_save_all d fixed l : forall s ok s',
    save_all B empty garbage under fixed l s = (ok, s') -> coh d s -> coh d s'.
  Proof.
    induction l as [|x l IH]; intros s ok s'; cbn [save_all].
    - intros H C; inversion H; subst; exact C.
    - destruct (refused B fixed x); [intros H C; inversion H; subst; exact C|].
      destruct (store B empty garbage under _ _ s) as [ok1 s1] eqn:S1. intros H C.
      apply (coh_store _ _ _ _ _ _ S1) in C. destruct ok1; [eapply IH; eassumption|inversion H; subst; exact C].
  Qed.

  Lemma coh_rollback d sf hint bk wr s r s' :
    rollback B D digest D_eqb empty garbage under valid metrics_ok sf hint bk wr s = (r, s') -> coh d s -> coh d s'.
  Proof.
    unfold rollback. intros H C.
    destruct (restore B D digest D_eqb empty garbage under sf hint bk s) as [ok1 s1] eqn:R.
    apply (coh_restore _ _ _ _ _ _ _ R) in C. destruct wr.
    - destruct (reload B valid metrics_ok s1) as [ok2 s2] eqn:L. apply (coh_reload _ _ _ _ L) in C.
      inversion H; subst; exact C.
    - inversion H; subst; exact C.
  Qed.

  Lemma coh_update d fixed sf hs hint rq s r s' :
    update B D digest D_eqb empty garbage under valid metrics_ok fixed sf hs hint rq s = (r, s') -> coh d s -> coh d s'.
  Proof.
    unfold update. intros H C.
    destruct (negb (r_method_ok rq)); [inversion H; subst; exact C|].
    destruct (negb (r_body_ok rq)); [inversion H; subst; exact C|].
    destruct (prim B false s) as [f0 s0] eqn:P0. apply (coh_prim _ _ _ _ _ P0) in C.
    destruct f0; [inversion H; subst; exact C|].
    destruct (negb (forallb e_decodable (r_payload rq))); [inversion H; subst; exact C|].
    assert (X : exists okc s1, match r_handler rq with
                               | HApplyFlows => clean_all B hs s0
                               | HConfiguration => (true, s0)
                               end = (okc, s1) /\ coh d s1).
    { destruct (r_handler rq).
      - exists true, s0; split; [reflexivity|exact C].
      - destruct (clean_all B hs s0) as [okc s1] eqn:CA. exists okc, s1. split; [reflexivity|].
        eapply coh_clean_all; eassumption. }
    destruct X as (okc & s1 & E & C1). rewrite E in H. clear C.
    destruct okc; [|eapply coh_rollback; eassumption].
    destruct (save_all B empty garbage under fixed _ s1) as [oks s2] eqn:SA. apply (coh_save_all _ _ _ _ _ _ SA) in C1.
    destruct oks; [|eapply coh_rollback; eassumption].
    destruct (reload B valid metrics_ok s2) as [okr s3] eqn:RL. apply (coh_reload _ _ _ _ RL) in C1.
    destruct okr; [inversion H; subst; exact C1|eapply coh_rollback; eassumption].
  Qed.

  Lemma coh_run fixed sf hs hint rq d f r s' :
    run B D digest D_eqb empty garbage under valid metrics_ok fixed sf hs hint rq d f = (r, s') -> coh d s'.
  Proof. unfold run. intro H. eapply coh_update; [exact H|apply coh_init]. Qed.

  (* ---- what the invariant says about arrivals and transactions ---- *)

  Lemma In_timeline s n e : In (n, e) (timeline s) -> In e (arrivals s) /\ In (n, e) (tagged s).
  Proof.
    unfold timeline. intro H. apply in_rev in H. split; [eapply in_combine_r; exact H|exact H].
  Qed.

  Lemma coh_epoch_bound d s n e : coh d s -> In (n, e) (timeline s) -> n <= ep s /\ (n = ep s -> e = eng s).
  Proof.
    intros (_ & S & _) H. apply In_timeline in H as [_ H].
    unfold tagged, epochs, arrivals in *. cbn [combine] in *.
    apply StronglySorted_inv in S as [_ F]. destruct H as [H|H].
    - inversion H; subst. split; [apply Nat.le_refl|reflexivity].
    - rewrite Forall_forall in F. destruct (F _ H) as [Hle He]. cbn [fst snd] in *.
      split; [exact Hle|intro E; symmetry; apply He; symmetry; exact E].
  Qed.

  Lemma coh_epoch_zero d s n e : coh d s -> In (n, e) (timeline s) -> n = 0 -> e = EBuilt d.
  Proof.
    intros (_ & _ & Z) H E. apply In_timeline in H as [_ H]. rewrite Forall_forall in Z.
    apply (Z _ H). exact E.
  Qed.

  Lemma In_combine_r_ex {X Y} (l1 : list X) (l2 : list Y) y :
    length l1 = length l2 -> In y l2 -> exists x, In (x, y) (combine l1 l2).
  Proof.
    revert l2. induction l1 as [|a l1 IH]; intros [|b l2] L H; try discriminate; [destruct H|].
    cbn in L. injection L as L. destruct H as [<-|H].
    - exists a. left; reflexivity.
    - destruct (IH l2 L H) as [x Hx]. exists x. right; exact Hx.
  Qed.

  Lemma coh_arrival_epoch d s e : coh d s -> In e (arrivals s) -> exists n, In (n, e) (timeline s).
  Proof.
    intros (L & _) H. unfold timeline.
    destruct (In_combine_r_ex (epochs s) (arrivals s) e) as [n Hn].
    - unfold epochs, arrivals. cbn [length]. congruence.
    - exact H.
    - exists n. apply -> in_rev. exact Hn.
  Qed.

  (* request phase at epoch n, response phase at epoch m: epochs do not
     decrease, and without a publication between the two phases both meet the
     same engine *)
  Lemma coh_transactions d s n a m b :
    coh d s -> In ((n, a), (m, b)) (transactions s) -> n <= m /\ (n = m -> a = b).
  Proof.
    intros (_ & S & _) H. unfold transactions, timeline in H.
    pose proof (spans_rev_sorted ordered (tagged s) ordered_refl S _ _ H) as [Hle He].
    cbn [fst snd] in *. split; [exact Hle|intro E; symmetry; apply He; symmetry; exact E].
  Qed.

End Epochs.
