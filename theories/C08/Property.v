(* C08 -- a configuration update is all-or-nothing.  Final statements only;
   the model is in Model.v (the code after patches/C08/fix-F-C08{a,b,c,e,f}),
   the proofs in Proofs.v.

   Every theorem quantifies over: the type of file contents and the digest
   function (assumed injective: MD5 does not collide on the contents met), the
   two external verdicts (dry-run validation, metrics reload) as arbitrary
   functions of the disk, the content of a new file and what a failing write
   leaves behind, the handler, the whole request (method, body, payload:
   any files, decodable or not, whatever their names resolve to), the disk,
   the fault oracle (no fault, any primitive step, any hook-bearing step) and
   the order hints (any order in which Go iterates over its maps).
   Transactions arrive at every primitive step: [arrivals] lists the engine
   met at each of them and the final one.

   [run] below is the gateway as it is (with the file-name check of
   fix-F-C08e); [run_unchecked] is the same code without that check. *)
From Coq Require Import List NArith Bool Arith.
From Verif Require Import C08.Model C08.Proofs.
Import ListNotations.

(* an engine built from a disk that holds configuration [d] in all the places
   the engine reads (an [EEmpty] engine is built from nothing) *)
Definition built_from {B} (d : disk B) (e : engine B) : Prop :=
  exists cfg, e = EBuilt cfg /\ forall p, covered p = true -> lookup p cfg = lookup p d.

Section Statements.
  Variables B D : Type.
  Variable digest : B -> D.
  Variable D_eqb : D -> D -> bool.
  Variables empty garbage : B.
  Variables valid metrics_ok : disk B -> bool.
  Hypothesis D_eqb_spec : forall a b, D_eqb a b = true <-> a = b.
  Hypothesis digest_injective : forall a b, digest a = digest b -> a = b.

  Notation run := (run B D digest D_eqb empty garbage valid metrics_ok true).
  Notation run_unchecked := (Model.run B D digest D_eqb empty garbage valid metrics_ok false).
  Notation master := (run_master digest D_eqb empty garbage valid metrics_ok D_eqb_spec digest_injective).

  (* Disk atomicity.  A rejected or failed update leaves every file as it was,
     byte for byte (extensional equality of the path -> content map over ALL
     paths, the places outside the configuration directories included),
     whatever the payload names its files. *)
  Theorem C08_disk_atomic : forall hs hint rq d f s',
    run hs hint rq d f = (Failed, s') ->
    forall p, lookup p (dsk s') = lookup p d.
  Proof.
    intros hs hint rq d f s' R p.
    destruct (master _ _ _ _ _ _ _ _ R) as (k & _ & HF & HU & _).
    destruct (covered p) eqn:C; [apply (proj1 (HF eq_refl)); exact C|apply HU; auto].
  Qed.

  (* A payload with a file name that does not stay inside its directory is
     never applied: the update ends in [Failed] (to which C08_disk_atomic
     applies) or, after a second independent failure, in [RollbackFailed]. *)
  Theorem C08_escaping_name_is_never_applied : forall hs hint rq d f r s',
    names_escape (r_payload rq) = true ->
    run hs hint rq d f = (r, s') -> r <> Ok.
  Proof.
    intros hs hint rq d f r s' E R ->.
    destruct (master _ _ _ _ _ _ _ _ R) as (k & _ & _ & _ & HO & _).
    destruct (HO eq_refl) as (_ & _ & _ & _ & NE). rewrite E in NE. discriminate.
  Qed.

  (* What the code without the name check guarantees (kept to document what
     the check adds): the places the snapshot covers are restored whatever
     the payload names, every path only when every named file lies in a
     covered place.  C08_disk_atomic_without_name_check_refuted below shows
     that the side condition cannot be dropped there. *)
  Theorem C08_disk_atomic_without_name_check_on_covered_places : forall hs hint rq d f s',
    run_unchecked hs hint rq d f = (Failed, s') ->
    forall p, covered p = true \/ targets_covered (r_payload rq) = true ->
              lookup p (dsk s') = lookup p d.
  Proof.
    intros hs hint rq d f s' R p H.
    destruct (master _ _ _ _ _ _ _ _ R) as (k & _ & HF & HU & _).
    destruct (covered p) eqn:C; [apply (proj1 (HF eq_refl)); exact C|].
    destruct H as [H|H]; [discriminate|]. apply HU; auto.
  Qed.

  (* Engine atomicity.  Unless the roll-back itself failed (see
     [C08_rollback_fails_only_after_two_failures]), every transaction, whenever
     it arrives, is served by an engine built from the old configuration or
     from the new one (the payload applied to what the handler starts from) --
     never by an empty or half-built one; after a failed update the pointer is
     an engine of the old configuration, after a successful one the new
     configuration is on disk and serving. *)
  Theorem C08_engine_atomic : forall hs hint rq d f r s',
    run hs hint rq d f = (r, s') ->
    exists k, let new := new_disk B true (skipn k hs) rq d in
      (r <> RollbackFailed ->
       Forall (fun e => built_from d e \/ built_from new e) (arrivals s')) /\
      (r = Failed -> built_from d (eng s')) /\
      (r = Ok -> built_from new (eng s') /\ (forall p, lookup p (dsk s') = lookup p new) /\
                 valid (dsk s') = true /\ metrics_ok (dsk s') = true).
  Proof.
    intros hs hint rq d f r s' R.
    destruct (master _ _ _ _ _ _ _ _ R) as (k & HA & HF & _ & HO & _).
    exists k. cbn zeta. split; [exact HA|]. split; [intro E; exact (proj2 (HF E))|].
    intro E. destruct (HO E) as (Dq & Ee & V & M & _). split; [|split; [exact Dq|split; assumption]].
    rewrite Ee. exists (dsk s'). split; [reflexivity|]. intros p _. apply Dq.
  Qed.

  Corollary C08_no_empty_engine : forall hs hint rq d f r s',
    run hs hint rq d f = (r, s') -> r <> RollbackFailed -> ~ In EEmpty (arrivals s').
  Proof.
    intros hs hint rq d f r s' R Hr Hin.
    destruct (C08_engine_atomic _ _ _ _ _ _ _ R) as (k & HA & _).
    pose proof (proj1 (Forall_forall _ _) (HA Hr) _ Hin) as [(c & E & _)|(c & E & _)]; discriminate.
  Qed.

  (* The roll-back can only fail when there were two independent failures: an
     injected fault AND a payload that is bad by itself -- one of its file
     names leaves its directory, or it does not validate, or its metrics do
     not load (so that the update had already failed for that reason when the
     fault hit the roll-back).  With a sound old configuration, one fault --
     at any step -- or one bad payload alone always ends in [Failed] or [Ok],
     to which the theorems above apply. *)
  Theorem C08_rollback_fails_only_after_two_failures : forall hs hint rq d f s',
    (forall a b, (forall p, covered p = true -> lookup p a = lookup p b) -> valid a = valid b) ->
    (forall a b, (forall p, covered p = true -> lookup p a = lookup p b) -> metrics_ok a = metrics_ok b) ->
    valid d = true -> metrics_ok d = true ->
    run hs hint rq d f = (RollbackFailed, s') ->
    f <> NoFault /\
    exists k, let new := new_disk B true (skipn k hs) rq d in
              names_escape (r_payload rq) = true \/ valid new = false \/ metrics_ok new = false.
  Proof.
    intros hs hint rq d f s' Vx Mx Vd Md R.
    destruct (master _ _ _ _ _ _ _ _ R) as (k & _ & _ & _ & _ & H2).
    destruct (H2 eq_refl Vx Mx Vd Md) as [Hf Hn]. split; [exact Hf|exists k; exact Hn].
  Qed.

End Statements.

Print Assumptions C08_disk_atomic.
Print Assumptions C08_escaping_name_is_never_applied.
Print Assumptions C08_disk_atomic_without_name_check_on_covered_places.
Print Assumptions C08_engine_atomic.
Print Assumptions C08_no_empty_engine.
Print Assumptions C08_rollback_fails_only_after_two_failures.

(* ---------------------------------------------------------------- why the name check is needed
   (defect F-C08e, repaired by patches/C08/fix-F-C08e.patch).  For the code
   WITHOUT the check ([run ... false]) full-strength disk atomicity does not
   hold: a name that leaves the configuration places is written outside the
   snapshot and never rolled back. *)
Definition C08_disk_atomic_without_name_check : Prop :=
  forall (valid metrics_ok : disk N -> bool) hs hint rq d f s',
    run N N (fun c => c) N.eqb 0%N 0%N valid metrics_ok false hs hint rq d f = (Failed, s') ->
    forall p, lookup p (dsk s') = lookup p d.

Definition refuting_request : request N :=
  {| r_handler := HConfiguration; r_method_ok := true; r_body_ok := true;
     r_payload := [ {| e_field := FFlows; e_target := (AOutside, 1%N);
                       e_content := 7%N; e_decodable := true |};
                    {| e_field := FFlows; e_target := (AFlows, 1%N);
                       e_content := 8%N; e_decodable := true |} ] |}.

Theorem C08_disk_atomic_without_name_check_refuted : ~ C08_disk_atomic_without_name_check.
Proof.
  intro H.
  (* content 8 does not validate; nothing else goes wrong *)
  specialize (H (c_valid [8%N]) (fun _ => true) [] [] refuting_request [] NoFault).
  remember (run N N (fun c => c) N.eqb 0%N 0%N (c_valid [8%N]) (fun _ => true) false [] [] refuting_request [] NoFault)
    as x eqn:E.
  vm_compute in E. destruct x as [r s]. injection E as -> ->.
  specialize (H _ eq_refl (AOutside, 1%N)). vm_compute in H. discriminate.
Qed.
Print Assumptions C08_disk_atomic_without_name_check_refuted.

(* the same request on the code with the check: refused, nothing written anywhere *)
Example C08_refuting_request_is_refused_by_the_check :
  let '(r, s) := run N N (fun c => c) N.eqb 0%N 0%N (c_valid [8%N]) (fun _ => true) true [] [] refuting_request [] NoFault in
  (result_code r, normalize (dsk s)) = (1%N, []).
Proof. vm_compute. reflexivity. Qed.

(* ---------------------------------------------------------------- non-vacuity *)

Local Open Scope N_scope.

Definition ex_f1 : path := (AFlows, 1).
Definition ex_f3 : path := (AFlows, 3).
Definition ex_q1 : path := (AQuotas, 1).
Definition ex_disk : disk N := [(ex_f1, 10); (ex_q1, 50); ((AMetricsDefault, 0), 77)].
Definition ex_entry (f : field) (t : path) (c : N) : entry N :=
  {| e_field := f; e_target := t; e_content := c; e_decodable := true |}.
Definition ex_request (h : handler) : request N :=
  {| r_handler := h; r_method_ok := true; r_body_ok := true;
     r_payload := [ex_entry FFlows ex_f1 11; ex_entry FFlows ex_f3 30] |}.
Definition ex_run (valid : disk N -> bool) (h : handler) (f : fault) : result * st N :=
  run N N (fun c => c) N.eqb 0 999 valid (c_metrics_ok []) true [] [] (ex_request h) ex_disk f.

(* the hypotheses of the theorems are met by plain instances *)
Example C08_hypotheses_satisfiable :
  (forall a b : N, N.eqb a b = true <-> a = b) /\
  (forall a b : N, (fun c : N => c) a = (fun c => c) b -> a = b).
Proof. split; [exact N.eqb_eq|auto]. Qed.

(* /apply_flows that changes one file, adds one and removes one: a fault at
   each of its first 22 primitive steps ends in [Failed] with the disk
   restored (the premise of C08_disk_atomic is reachable at every step, also
   after files were removed and written), except the two ignored clean-ups
   inside storeFileOnDisk; without fault it ends in [Ok] with the new disk *)
Example C08_every_step_fault_is_rolled_back :
  map (fun n => let '(r, s) := ex_run (fun _ => true) HApplyFlows (AtStep n) in
                (result_code r, disk_eqb (dsk s) ex_disk))
      (seq 0 22)
  = [(1, true); (1, true); (1, true); (1, true); (1, true); (1, true); (0, false);
     (1, true); (1, true); (1, true); (1, true); (0, false); (1, true); (1, true);
     (1, true); (1, true); (1, true); (1, true); (1, true); (1, true); (1, true);
     (0, false)].
Proof. vm_compute. reflexivity. Qed.

Example C08_success_switches_old_to_new :
  let '(r, s) := ex_run (fun _ => true) HConfiguration NoFault in
  (result_code r, normalize (dsk s), compress (map view_of (rev (arrivals s))))
  = (0, [(ex_f3, 30); (ex_f1, 11); (ex_q1, 50); ((AMetricsDefault, 0), 77)],
     [[(1, 10)]; [(3, 30); (1, 11)]]).
Proof. vm_compute. reflexivity. Qed.

(* a payload whose metrics do not load fails AFTER the switch: transactions
   meet old, then new, then old again; the disk is restored *)
Example C08_failure_after_the_switch :
  let '(r, s) := run N N (fun c => c) N.eqb 0 999 (fun _ => true) (c_metrics_ok [66]) true [] []
                     {| r_handler := HConfiguration; r_method_ok := true; r_body_ok := true;
                        r_payload := [ex_entry FFlows ex_f1 11; ex_entry FMetrics metrics_file 66] |}
                     ex_disk NoFault in
  (result_code r, disk_eqb (dsk s) ex_disk, compress (map view_of (rev (arrivals s))))
  = (1, true, [[(1, 10)]; [(1, 11)]; [(1, 10)]]).
Proof. vm_compute. reflexivity. Qed.

(* two failures: content 30 does not validate AND the fault hits the roll-back *)
Example C08_rollback_failure_is_reachable :
  result_code (fst (ex_run (c_valid [30]) HApplyFlows (AtStep 20))) = 2.
Proof. vm_compute. reflexivity. Qed.

(* file names that leave their directory.  The disk holds a file outside the
   configuration places (the one the name points at) and a quota file (the one
   the sibling name points at); the payload is otherwise fine.  [hs] says the
   flow f1 was saved before the bad name was met (Go map order). *)
Definition ex_out : path := (AOutside, 9).
Definition ex_disk_out : disk N := (ex_out, 70) :: ex_disk.
Definition ex_escaping (t : path) : request N :=
  {| r_handler := HConfiguration; r_method_ok := true; r_body_ok := true;
     r_payload := [ex_entry FFlows t 71; ex_entry FFlows ex_f1 11; ex_entry FQuotas ex_q1 51] |}.
Definition ex_run_escaping (fixed : bool) (t : path) (f : fault) : result * st N :=
  run N N (fun c => c) N.eqb 0 999 (fun _ => true) (c_metrics_ok []) fixed [ex_f1; ex_f1] [] (ex_escaping t) ex_disk_out f.

(* with the check: [Failed] wherever the name points (outside, a sibling
   directory, the gateway file, a new outside file); f1 had been rewritten and
   is restored, the quota field is never reached, every file keeps its bytes *)
Example C08_escaping_name_fails_cleanly :
  map (fun t => let '(r, s) := ex_run_escaping true t NoFault in
                (result_code r, disk_eqb (dsk s) ex_disk_out, N.of_nat (length (seen s))))
      [ex_out; ex_q1; (AGateway, 0); (AOutside, 5)]
  = [(1, true, 12); (1, true, 12); (1, true, 12); (1, true, 12)].
Proof. vm_compute. reflexivity. Qed.

(* a fault at steps 0-5 (Backup, the save of f1) is the only failure: the bad
   name is never met, [Failed], restored.  From step 6 on the name has been
   refused and the fault hits the roll-back: a second, independent failure
   ([RollbackFailed], 2) -- except step 8, the clean-up inside storeFileOnDisk
   whose error the code ignores, and steps past the end of the run *)
Example C08_escaping_name_with_a_fault :
  map (fun n => let '(r, s) := ex_run_escaping true ex_out (AtStep n) in
                (result_code r, disk_eqb (dsk s) ex_disk_out))
      (seq 0 15)
  = [(1, true); (1, true); (1, true); (1, true); (1, true); (1, true); (2, false); (2, false);
     (1, true); (2, false); (2, false); (2, false); (1, true); (1, true); (1, true)].
Proof. vm_compute. reflexivity. Qed.

(* without the check the same update succeeds and overwrites the outside file *)
Example C08_escaping_name_without_the_check :
  let '(r, s) := ex_run_escaping false ex_out NoFault in
  (result_code r, lookup ex_out (dsk s), lookup ex_q1 (dsk s)) = (0, Some 71, Some 51).
Proof. vm_compute. reflexivity. Qed.

Example C08_escaping_is_decided_by_the_field :
  map (fun e => escapes e)
      [ex_entry FFlows ex_f1 1; ex_entry FFlows ex_q1 1; ex_entry FQuotas ex_q1 1;
       ex_entry FFlows ex_out 1; ex_entry FPathParams (AGateway, 0) 1;
       ex_entry FGateway ex_out 1; ex_entry FMetrics ex_out 1]
  = [false; true; false; true; true; false; false].
Proof. vm_compute. reflexivity. Qed.
