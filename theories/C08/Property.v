(* C08 -- a configuration update is all-or-nothing.  Final statements only;
   the model is in Model.v (the code after patches/C08/fix-F-C08{a,b,c,e,f,j},
   all of them applied in /repo),
   the proofs in Proofs.v.

   Every theorem quantifies over: the type of file contents and the digest
   function (assumed injective on the finitely many contents the run meets --
   [contents_met]: those of the disk before the update, of the payload, of a
   freshly created file and what a failing write leaves behind), the
   two external verdicts (dry-run validation, metrics reload) as arbitrary
   functions of the disk, the content of a new file and what a failing write
   leaves behind, the handler, the whole request (method, body, payload:
   any files, decodable or not, whatever their names resolve to), the disk,
   the fault oracle (no fault, any primitive step, any hook-bearing step) and
   the order hints (any order in which Go iterates over its maps).
   Transactions arrive at every primitive step: [arrivals] lists the engine
   met at each of them and the final one; [timeline] lists them in
   chronological order together with the number of engine publications
   (rd.setStream) so far; [transactions] lists every (request-phase arrival,
   response-phase arrival) of a transaction that is proxied to the upstream.

   Three clauses of the property do not hold in full for the gateway as it
   is; each has its full statement as a Definition, a [_refuted] theorem with
   a concrete witness, and a [_holds_outside_...] theorem whose side condition
   is decidable and is what the monitor's classifier computes (open findings
   F-C08g, F-C08h, F-C08i in known_findings.d/C08.json).

   [run] below is the gateway as it is (with the file-name check of
   fix-F-C08e and Restore removing strays first, fix-F-C08j); [run_unchecked]
   is the same code without the name check.  The tree structure of the paths
   ([under p q]: q lies below p taken as a directory) is one more universally
   quantified input: a payload name may make a file of a directory or a
   directory of a file, os.MkdirAll / os.Create then fail in the model as
   they do on a disk. *)
From Coq Require Import List NArith Bool Arith.
From Coq Require Import Lia.
From Verif Require Import C08.Model C08.Proofs C08.Spans C08.NameCheck C08.Beyond C08.TreeCheck.
Import ListNotations.

(* an engine built from a disk that holds configuration [d] in all the places
   the engine reads (an [EEmpty] engine is built from nothing) *)
Definition built_from {B} (d : disk B) (e : engine B) : Prop :=
  exists cfg, e = EBuilt cfg /\ forall p, covered p = true -> lookup p cfg = lookup p d.

(* both phases of a transaction are handled by the old configuration, or both
   by the new one *)
Definition handled_entirely_by_one {B} (d new : disk B) (a b : engine B) : Prop :=
  (built_from d a /\ built_from d b) \/ (built_from new a /\ built_from new b).

Section Statements.
  Variables B D : Type.
  Variable digest : B -> D.
  Variable D_eqb : D -> D -> bool.
  Variables empty garbage : B.
  Variable under : path -> path -> bool.
  Variables valid metrics_ok : disk B -> bool.
  Hypothesis D_eqb_spec : forall a b, D_eqb a b = true <-> a = b.

  (* MD5 does not collide among the contents this run meets *)
  Definition digest_injective_on_contents_met (rq : request B) (d : disk B) : Prop :=
    injective_on digest (contents_met empty garbage rq d).

  Notation run := (run B D digest D_eqb empty garbage under valid metrics_ok true true).
  Notation run_unchecked := (Model.run B D digest D_eqb empty garbage under valid metrics_ok false true).
  Notation master := (run_master_contents digest D_eqb empty garbage under valid metrics_ok).

  (* Disk atomicity.  A rejected or failed update leaves every file as it was,
     byte for byte (extensional equality of the path -> content map over ALL
     paths, the places outside the configuration directories included),
     whatever the payload names its files. *)
  Theorem C08_disk_atomic : forall hs hint rq d f s',
    digest_injective_on_contents_met rq d ->
    run hs hint rq d f = (Failed, s') ->
    forall p, lookup p (dsk s') = lookup p d.
  Proof.
    intros hs hint rq d f s' Inj R p.
    destruct (master _ _ _ _ _ _ _ _ D_eqb_spec Inj R) as (k & _ & HF & HU & _).
    destruct (covered p) eqn:C; [apply (proj1 (HF eq_refl)); exact C|apply HU; auto].
  Qed.

  (* A payload with a file name that does not stay inside its directory is
     never applied: the update ends in [Failed] (to which C08_disk_atomic
     applies) or, after a second independent failure, in [RollbackFailed]. *)
  Theorem C08_escaping_name_is_never_applied : forall hs hint rq d f r s',
    digest_injective_on_contents_met rq d ->
    names_escape (r_payload rq) = true ->
    run hs hint rq d f = (r, s') -> r <> Ok.
  Proof.
    intros hs hint rq d f r s' Inj E R ->.
    destruct (master _ _ _ _ _ _ _ _ D_eqb_spec Inj R) as (k & _ & _ & _ & HO & _).
    destruct (HO eq_refl) as (_ & _ & _ & _ & NE). rewrite E in NE. discriminate.
  Qed.

  (* What the code without the name check guarantees (kept to document what
     the check adds): the places the snapshot covers are restored whatever
     the payload names, every path only when every named file lies in a
     covered place.  C08_disk_atomic_without_name_check_refuted below shows
     that the side condition cannot be dropped there. *)
  Theorem C08_disk_atomic_without_name_check_on_covered_places : forall hs hint rq d f s',
    digest_injective_on_contents_met rq d ->
    run_unchecked hs hint rq d f = (Failed, s') ->
    forall p, covered p = true \/ targets_covered (r_payload rq) = true ->
              lookup p (dsk s') = lookup p d.
  Proof.
    intros hs hint rq d f s' Inj R p H.
    destruct (master _ _ _ _ _ _ _ _ D_eqb_spec Inj R) as (k & _ & HF & HU & _).
    destruct (covered p) eqn:C; [apply (proj1 (HF eq_refl)); exact C|].
    destruct H as [H|H]; [discriminate|]. apply HU; auto.
  Qed.

  (* Engine atomicity.  Unless the roll-back itself failed (see
     [C08_rollback_fails_only_after_two_failures]), every transaction, whenever
     it arrives, is served by an engine built from the old configuration or
     from the new one (the payload applied to what the handler starts from) --
     never by an empty or half-built one; after a failed update the pointer is
     an engine of the old configuration, after a successful one the new
     configuration is on disk and serving. *)
  Theorem C08_engine_atomic : forall hs hint rq d f r s',
    digest_injective_on_contents_met rq d ->
    run hs hint rq d f = (r, s') ->
    exists k, let new := new_disk B true (skipn k hs) rq d in
      (r <> RollbackFailed ->
       Forall (fun e => built_from d e \/ built_from new e) (arrivals s')) /\
      (r = Failed -> built_from d (eng s')) /\
      (r = Ok -> built_from new (eng s') /\ (forall p, lookup p (dsk s') = lookup p new) /\
                 valid (dsk s') = true /\ metrics_ok (dsk s') = true).
  Proof.
    intros hs hint rq d f r s' Inj R.
    destruct (master _ _ _ _ _ _ _ _ D_eqb_spec Inj R) as (k & HA & HF & _ & HO & _).
    exists k. cbn zeta. split; [exact HA|]. split; [intro E; exact (proj2 (HF E))|].
    intro E. destruct (HO E) as (Dq & Ee & V & M & _). split; [|split; [exact Dq|split; assumption]].
    rewrite Ee. exists (dsk s'). split; [reflexivity|]. intros p _. apply Dq.
  Qed.

  Corollary C08_no_empty_engine : forall hs hint rq d f r s',
    digest_injective_on_contents_met rq d ->
    run hs hint rq d f = (r, s') -> r <> RollbackFailed -> ~ In EEmpty (arrivals s').
  Proof.
    intros hs hint rq d f r s' Inj R Hr Hin.
    destruct (C08_engine_atomic _ _ _ _ _ _ _ Inj R) as (k & HA & _).
    pose proof (proj1 (Forall_forall _ _) (HA Hr) _ Hin) as [(c & E & _)|(c & E & _)]; discriminate.
  Qed.

  (* The roll-back can only fail when there were two independent failures: an
     injected fault AND a payload that is bad by itself -- one of its file
     names leaves its directory, or makes a file of a directory / a directory
     of a file ([type_conflict]: its target lies below or above a file of the
     disk or another target of the payload), or it does not validate, or its
     metrics do not load (so that the update had already failed for that
     reason when the fault hit the roll-back).  With a sound old configuration
     on a disk that is a tree, one fault -- at any step -- or one bad payload
     alone always ends in [Failed] or [Ok], to which the theorems above
     apply.
     How far the two conjuncts go (audit 2):
     - [type_conflict] is a decidable OVER-approximation of "a save of the
       payload is blocked without any fault" (what the proof uses: [blocks] in
       Proofs.v, [blocks_type_conflict]).  A payload with [type_conflict = true]
       can be perfectly good: /apply_flows empties the directories first, so
       a quota named like the directory of an old quota file is saved without
       trouble (Example [C08_type_conflict_payload_can_be_valid] below: [Ok]
       without fault).  For such a payload the theorem only says
       [f <> NoFault]: it does NOT show that a single fault is rolled back.  On
       that instance no single fault (any primitive step, any hook) ends in
       [RollbackFailed] (same Example, by computation), so the disjunct is
       slack of the proof as far as we know, not a known hole -- but the
       unbounded claim for these payloads is not made.
     - [f <> NoFault] is about the oracle handed to the run, not about what
       happened: [AtStep n] with n past the last step of the run never fires
       and still satisfies it.  It is read as "a fault fired" through
       [fault_beyond_end] (Beyond.v; restated below as
       [C08_fault_that_never_fires_changes_nothing]): a run that ends with its
       oracle unconsumed ([flt s' <> NoFault]) is, result and state, the run
       without fault -- which by this very theorem does not end in
       [RollbackFailed]; hence [C08_rollback_failure_consumed_the_fault]:
       after [RollbackFailed] the oracle HAS fired ([flt s' = NoFault]). *)
  Theorem C08_rollback_fails_only_after_two_failures : forall hs hint rq d f s',
    digest_injective_on_contents_met rq d ->
    (forall a b, (forall p, covered p = true -> lookup p a = lookup p b) -> valid a = valid b) ->
    (forall a b, (forall p, covered p = true -> lookup p a = lookup p b) -> metrics_ok a = metrics_ok b) ->
    valid d = true -> metrics_ok d = true ->
    tree under d ->
    run hs hint rq d f = (RollbackFailed, s') ->
    f <> NoFault /\
    exists k, let new := new_disk B true (skipn k hs) rq d in
              names_escape (r_payload rq) = true \/ type_conflict under (r_payload rq) d = true \/
              valid new = false \/ metrics_ok new = false.
  Proof.
    intros hs hint rq d f s' Inj Vx Mx Vd Md T R.
    destruct (master _ _ _ _ _ _ _ _ D_eqb_spec Inj R) as (k & _ & _ & _ & _ & H2).
    destruct (H2 eq_refl Vx Mx Vd Md T (or_introl eq_refl)) as [Hf Hn]. split; [exact Hf|exists k; exact Hn].
  Qed.

  (* A fault that never fires changes nothing: a run that ends with its oracle
     unconsumed (the step / hook index lies beyond the end of the run) has the
     result and the final state -- disk, engine, every arrival, every epoch --
     of the run without fault.  So [f <> NoFault] together with
     [flt s' = NoFault] says "a fault fired", and a hypothesis or conclusion
     [f <> NoFault] alone is never met by a fault that did not happen without
     the run being the fault-free one. *)
  Theorem C08_fault_that_never_fires_changes_nothing : forall hs hint rq d f r s',
    run hs hint rq d f = (r, s') -> flt s' <> NoFault ->
    f <> NoFault /\ run hs hint rq d NoFault = (r, unflt s').
  Proof. intros hs hint rq d f r s' R N. eapply fault_beyond_end; eassumption. Qed.

  (* [C08_rollback_fails_only_after_two_failures] with the fault read
     semantically: after [RollbackFailed] the single-shot oracle HAS fired. *)
  Theorem C08_rollback_failure_consumed_the_fault : forall hs hint rq d f s',
    digest_injective_on_contents_met rq d ->
    (forall a b, (forall p, covered p = true -> lookup p a = lookup p b) -> valid a = valid b) ->
    (forall a b, (forall p, covered p = true -> lookup p a = lookup p b) -> metrics_ok a = metrics_ok b) ->
    valid d = true -> metrics_ok d = true ->
    tree under d ->
    run hs hint rq d f = (RollbackFailed, s') ->
    f <> NoFault /\ flt s' = NoFault.
  Proof.
    intros hs hint rq d f s' Inj Vx Mx Vd Md T R.
    split; [exact (proj1 (C08_rollback_fails_only_after_two_failures _ _ _ _ _ _ Inj Vx Mx Vd Md T R))|].
    destruct (flt s') eqn:E; [reflexivity| |]; exfalso;
      (assert (N : flt s' <> NoFault) by (rewrite E; discriminate));
      destruct (C08_fault_that_never_fires_changes_nothing _ _ _ _ _ _ _ R N) as [_ R0];
      destruct (C08_rollback_fails_only_after_two_failures _ _ _ _ _ _ Inj Vx Mx Vd Md T R0) as [X _];
      apply X; reflexivity.
  Qed.

  (* ---- the order of the payload files does not matter when they are distinct ----
     [C08_engine_atomic] says "the new configuration" up to the order in which
     Go met the files of the payload ([exists k]: where in the hints they
     start).  When no two payload files resolve to the same place (decidable;
     true of every payload whose names are distinct after cleaning) the new
     configuration is one function of the payload and the disk. *)
  Lemma built_from_ext (a b : disk B) e :
    (forall p, lookup p a = lookup p b) -> built_from a e -> built_from b e.
  Proof. intros E (cfg & -> & H). exists cfg. split; [reflexivity|]. intros p C. rewrite H by exact C. apply E. Qed.

  Theorem C08_engine_atomic_distinct_targets : forall hs hint rq d f r s',
    digest_injective_on_contents_met rq d ->
    NoDup (map target (r_payload rq)) ->
    run hs hint rq d f = (r, s') ->
    let new := new_disk B true [] rq d in
      (r <> RollbackFailed ->
       Forall (fun e => built_from d e \/ built_from new e) (arrivals s')) /\
      (r = Failed -> built_from d (eng s')) /\
      (r = Ok -> built_from new (eng s') /\ (forall p, lookup p (dsk s') = lookup p new) /\
                 valid (dsk s') = true /\ metrics_ok (dsk s') = true).
  Proof.
    intros hs hint rq d f r s' Inj ND R. cbn zeta.
    destruct (C08_engine_atomic _ _ _ _ _ _ _ Inj R) as (k & HA & HF & HO). cbn zeta in *.
    pose proof (new_disk_order_irrelevant true (skipn k hs) [] rq d ND) as E.
    split; [|split; [exact HF|]].
    - intro Hr. eapply Forall_impl; [|exact (HA Hr)]. cbn. intros e [H|H]; [left; exact H|right].
      eapply built_from_ext; [exact E|exact H].
    - intro Hr. destruct (HO Hr) as (H1 & H2 & H3 & H4). split; [eapply built_from_ext; [exact E|exact H1]|].
      split; [intro p; rewrite H2; apply E|split; assumption].
  Qed.

  (* ---- clause 1, first gap: a second failure inside the roll-back (F-C08h) ----
     [C08_disk_atomic] restated with the side condition in the open: an update
     that does not succeed leaves the disk untouched unless its roll-back
     itself failed.  The full statement (no side condition) is refuted below
     ([C08_disk_atomic_full_refuted]). *)
  Theorem C08_disk_atomic_holds_outside_failed_rollback : forall hs hint rq d f r s',
    digest_injective_on_contents_met rq d ->
    run hs hint rq d f = (r, s') ->
    r <> Ok -> r <> RollbackFailed ->
    forall p, lookup p (dsk s') = lookup p d.
  Proof.
    intros hs hint rq d f r s' Inj R H1 H2. destruct r; try contradiction.
    eapply C08_disk_atomic; eassumption.
  Qed.

  (* ---- clause 1, second gap: a failure after the switch (F-C08i) ----
     "the running flows keep behaving as before": after a failed update every
     transaction that arrived before the first publication of an engine
     (epoch 0) or after the last one (epoch [ep s']) was served by the old
     configuration.  A failed update publishes at most the new engine and then
     the one rebuilt by the roll-back; when it published at most once (the
     failure came before the switch: undecodable, refused name, failed save,
     failed validation, failed NewStream / Initialize) EVERY transaction was
     served by the old configuration.  The full statement is refuted below
     ([C08_flows_as_before_full_refuted]): when the failure comes after the
     switch the rejected configuration serves traffic until the roll-back. *)
  Theorem C08_flows_as_before_holds_outside_failure_after_switch : forall hs hint rq d f s',
    digest_injective_on_contents_met rq d ->
    run hs hint rq d f = (Failed, s') ->
    Forall (fun x => fst x = 0 \/ fst x = ep s' -> built_from d (snd x)) (timeline s') /\
    (ep s' <= 1 -> Forall (built_from d) (arrivals s')).
  Proof.
    intros hs hint rq d f s' Inj R.
    pose proof (coh_run _ _ _ _ _ _ _ _ _ _ _ _ _ _ _ _ R) as C.
    destruct (C08_engine_atomic _ _ _ _ _ _ _ Inj R) as (k & _ & HF & _).
    specialize (HF eq_refl).
    assert (A : forall n e, In (n, e) (timeline s') -> n = 0 \/ n = ep s' -> built_from d e).
    { intros n e Hin [E|E].
      - rewrite (coh_epoch_zero d s' n e C Hin E). exists d. split; [reflexivity|auto].
      - destruct (coh_epoch_bound d s' n e C Hin) as [_ He]. rewrite (He E). exact HF. }
    split.
    - apply Forall_forall. intros [n e] Hin. cbn [fst snd]. apply A; exact Hin.
    - intro Hep. apply Forall_forall. intros e Hin.
      destruct (coh_arrival_epoch d s' e C Hin) as [n Hn].
      destruct (coh_epoch_bound d s' n e C Hn) as [Hle _].
      apply (A n e Hn). lia.
  Qed.

  (* ---- clause 2b: transactions in flight during the switch (F-C08g) ----
     A transaction proxied to the upstream has a request phase and a response
     phase; [transactions s'] lists every pair (request-phase arrival,
     response-phase arrival), each tagged with the number of engine
     publications so far.  Always: the response phase is not earlier than the
     request phase, and each phase on its own is handled by a complete
     configuration, the old or the new one.  When no engine was published
     between the two phases (equal tags -- decidable, and what the monitor
     reads off the engine.published events) both phases meet the same engine,
     so the transaction is handled entirely by the old or entirely by the new
     configuration.  The full statement (every transaction, also those that
     straddle a publication) is refuted below ([C08_in_flight_full_refuted]). *)
  Theorem C08_in_flight_holds_outside_switch_between_phases : forall hs hint rq d f r s',
    digest_injective_on_contents_met rq d ->
    run hs hint rq d f = (r, s') ->
    exists k, let new := new_disk B true (skipn k hs) rq d in
      r <> RollbackFailed ->
      Forall (fun t =>
                fst (fst t) <= fst (snd t) /\
                (built_from d (snd (fst t)) \/ built_from new (snd (fst t))) /\
                (built_from d (snd (snd t)) \/ built_from new (snd (snd t))) /\
                (fst (fst t) = fst (snd t) ->
                 snd (fst t) = snd (snd t) /\
                 handled_entirely_by_one d new (snd (fst t)) (snd (snd t))))
             (transactions s').
  Proof.
    intros hs hint rq d f r s' Inj R.
    pose proof (coh_run _ _ _ _ _ _ _ _ _ _ _ _ _ _ _ _ R) as C.
    destruct (C08_engine_atomic _ _ _ _ _ _ _ Inj R) as (k & HA & _).
    exists k. cbn zeta in *. intro Hr. specialize (HA Hr). rewrite Forall_forall in HA.
    apply Forall_forall. intros [[n a] [m b]] Hin. cbn [fst snd].
    destruct (coh_transactions d s' n a m b C Hin) as [Hle He].
    apply In_spans_In in Hin as [Ha Hb].
    apply In_timeline in Ha as [Ha _]. apply In_timeline in Hb as [Hb _].
    split; [exact Hle|]. split; [apply HA; exact Ha|]. split; [apply HA; exact Hb|].
    intro E. specialize (He E). subst b. split; [reflexivity|].
    destruct (HA _ Ha) as [H|H]; [left|right]; split; exact H.
  Qed.

  (* ---- nothing is written outside the directory its kind belongs to ----
     Whatever the payload names its files (a name that climbs into a sibling
     directory sharing the string prefix of its own included: its target
     classifies as an outside path), an update that is accepted or cleanly
     refused leaves every path outside the five configuration places as it
     was, and the files of an accepted update all lie in the directory of
     their own kind. *)
  Theorem C08_nothing_is_written_outside_its_directory : forall hs hint rq d f r s',
    digest_injective_on_contents_met rq d ->
    run hs hint rq d f = (r, s') ->
    r <> RollbackFailed ->
    (forall p, covered p = false -> lookup p (dsk s') = lookup p d) /\
    (r = Ok -> forall e a, In e (r_payload rq) -> dir_area (e_field e) = Some a -> fst (e_target e) = a).
  Proof.
    intros hs hint rq d f r s' Inj R Hr.
    destruct r; [|split; [intros p C; exact (C08_disk_atomic _ _ _ _ _ _ Inj R p)|discriminate]|congruence].
    assert (NE : names_escape (r_payload rq) = false).
    { destruct (names_escape (r_payload rq)) eqn:E; [|reflexivity].
      exfalso. exact (C08_escaping_name_is_never_applied _ _ _ _ _ _ _ Inj E R eq_refl). }
    assert (EF : forall e, In e (r_payload rq) -> escapes e = false).
    { intros e He. destruct (escapes e) eqn:E; [|reflexivity].
      assert (X : names_escape (r_payload rq) = true) by (apply existsb_exists; exists e; auto).
      congruence. }
    split.
    - intros p C. destruct (C08_engine_atomic _ _ _ _ _ _ _ Inj R) as (k & _ & _ & HO).
      destruct (HO eq_refl) as (_ & Dq & _). rewrite Dq. unfold new_disk.
      rewrite lookup_apply_list_other.
      + rewrite lookup_base. destruct (r_handler rq); [reflexivity|rewrite C; reflexivity].
      + intro Hin. apply in_map_iff in Hin as [y [Ey Hy]]. apply in_map_iff in Hy as [x [Ex Hx]].
        apply plan_In in Hx as [e [He ->]]. cbn [fst] in Ex. subst y. cbn [fst] in Ey. rename Ey into Ex. pose proof (escapes_false_covered e (EF e He)) as Cv. rewrite Ex in Cv. congruence.
    - intros _ e a He Da. specialize (EF e He). unfold escapes in EF. rewrite Da in EF.
      apply negb_false_iff in EF. apply area_eqb_eq in EF. exact EF.
  Qed.

  (* A name check that overlooks some of the escaping names ([lax]: the check
     in force does not see that these outside paths have left the directory;
     for the test on strings, strings.HasPrefix(joined, root), these are the
     siblings whose name starts with the directory's name) is the gateway on
     every payload that names none of them: every theorem above carries over
     to such payloads, and only to them
     (C08_disk_atomic_with_name_check_on_strings_refuted below). *)
  Theorem C08_lax_name_check_differs_only_on_overlooked_names : forall lax hs hint rq d f,
    (forall e, In e (r_payload rq) -> escapes e = true -> lax (e_target e) = false) ->
    Model.run_by B D digest D_eqb empty garbage under valid metrics_ok (seen_by lax) true true hs hint rq d f
    = run hs hint rq d f.
  Proof. intros lax hs hint rq d f H. apply run_by_agrees. exact H. Qed.

End Statements.

Print Assumptions C08_disk_atomic.
Print Assumptions C08_escaping_name_is_never_applied.
Print Assumptions C08_disk_atomic_without_name_check_on_covered_places.
Print Assumptions C08_engine_atomic.
Print Assumptions C08_no_empty_engine.
Print Assumptions C08_rollback_fails_only_after_two_failures.
Print Assumptions C08_fault_that_never_fires_changes_nothing.
Print Assumptions C08_rollback_failure_consumed_the_fault.
Print Assumptions C08_engine_atomic_distinct_targets.
Print Assumptions C08_disk_atomic_holds_outside_failed_rollback.
Print Assumptions C08_flows_as_before_holds_outside_failure_after_switch.
Print Assumptions C08_in_flight_holds_outside_switch_between_phases.
Print Assumptions C08_nothing_is_written_outside_its_directory.
Print Assumptions C08_lax_name_check_differs_only_on_overlooked_names.

(* ---------------------------------------------------------------- why the name check is needed
   (defect F-C08e, repaired by patches/C08/fix-F-C08e.patch).  For the code
   WITHOUT the check ([run ... false]) full-strength disk atomicity does not
   hold: a name that leaves the configuration places is written outside the
   snapshot and never rolled back. *)
(* paths without any tree structure: no name lies below another *)
Definition flat : path -> path -> bool := fun _ _ => false.

Lemma flat_tree {B} (d : disk B) : tree flat d.
Proof. intros p q _ _. reflexivity. Qed.

Definition C08_disk_atomic_without_name_check : Prop :=
  forall (valid metrics_ok : disk N -> bool) hs hint rq d f s',
    run N N (fun c => c) N.eqb 0%N 0%N flat valid metrics_ok false true hs hint rq d f = (Failed, s') ->
    forall p, lookup p (dsk s') = lookup p d.

Definition refuting_request : request N :=
  {| r_handler := HConfiguration; r_method_ok := true; r_body_ok := true;
     r_payload := [ {| e_field := FFlows; e_target := (AOutside, 1%N);
                       e_content := 7%N; e_decodable := true |};
                    {| e_field := FFlows; e_target := (AFlows, 1%N);
                       e_content := 8%N; e_decodable := true |} ] |}.

Theorem C08_disk_atomic_without_name_check_refuted : ~ C08_disk_atomic_without_name_check.
Proof.
  intro H.
  (* content 8 does not validate; nothing else goes wrong *)
  specialize (H (c_valid [8%N]) (fun _ => true) [] [] refuting_request [] NoFault).
  remember (run N N (fun c => c) N.eqb 0%N 0%N flat (c_valid [8%N]) (fun _ => true) false true [] [] refuting_request [] NoFault)
    as x eqn:E.
  vm_compute in E. destruct x as [r s]. injection E as -> ->.
  specialize (H _ eq_refl (AOutside, 1%N)). vm_compute in H. discriminate.
Qed.
Print Assumptions C08_disk_atomic_without_name_check_refuted.

(* the same request on the code with the check: refused, nothing written anywhere *)
Example C08_refuting_request_is_refused_by_the_check :
  let '(r, s) := run N N (fun c => c) N.eqb 0%N 0%N flat (c_valid [8%N]) (fun _ => true) true true [] [] refuting_request [] NoFault in
  (result_code r, normalize (dsk s)) = (1%N, []).
Proof. vm_compute. reflexivity. Qed.

(* ---------------------------------------------------------------- the name check taken on strings
   (seeded regression C08-11).  filePathInDirectory decides by filepath.Rel:
   a name is accepted iff its cleaned join lies strictly below the directory,
   element by element.  The same decision taken on the rendered strings
   (joined <> root and HasPrefix(joined, root)) accepts a sibling of the
   directory whose name starts with the directory's name. *)
Theorem C08_name_check_accepts_iff_strictly_inside : forall dir name,
  ~ In dotdot dir ->
  (rel_check dir name = true <-> strictly_inside dir (join dir name)).
Proof. exact rel_check_iff_strictly_inside. Qed.
Print Assumptions C08_name_check_accepts_iff_strictly_inside.

Theorem C08_name_check_on_strings_never_stricter : forall dir name,
  ~ In dotdot dir -> rel_check dir name = true -> prefix_check dir name = true.
Proof. exact prefix_check_never_stricter. Qed.
Print Assumptions C08_name_check_on_strings_never_stricter.

Theorem C08_name_check_on_strings_refuted : ~ prefix_check_full.
Proof. exact prefix_check_full_refuted. Qed.
Print Assumptions C08_name_check_on_strings_refuted.

(* In the model: (AOutside, 1) is cfg/flows-disabled/x.yaml, the one path the
   string test does not see leaving cfg/flows.  The gateway with that check:
   full-strength disk atomicity does not hold (the update is refused at a later
   step -- content 8 does not validate -- and the sibling file stays), and an
   accepted update writes a flow file outside the flows directory. *)
Definition sibling_only : path -> bool := fun p => path_eqb p (AOutside, 1%N).

Definition C08_disk_atomic_with_name_check_on_strings : Prop :=
  forall (valid metrics_ok : disk N -> bool) hs hint rq d f s',
    run_by N N (fun c => c) N.eqb 0%N 0%N flat valid metrics_ok (seen_by sibling_only) true true hs hint rq d f = (Failed, s') ->
    forall p, lookup p (dsk s') = lookup p d.

Theorem C08_disk_atomic_with_name_check_on_strings_refuted : ~ C08_disk_atomic_with_name_check_on_strings.
Proof.
  intro H.
  specialize (H (c_valid [8%N]) (fun _ => true) [] [] refuting_request [((AOutside, 1%N), 5%N)] NoFault).
  remember (run_by N N (fun c => c) N.eqb 0%N 0%N flat (c_valid [8%N]) (fun _ => true) (seen_by sibling_only) true true
                   [] [] refuting_request [((AOutside, 1%N), 5%N)] NoFault) as x eqn:E.
  vm_compute in E. destruct x as [r s]. injection E as -> ->.
  specialize (H _ eq_refl (AOutside, 1%N)). vm_compute in H. discriminate.
Qed.
Print Assumptions C08_disk_atomic_with_name_check_on_strings_refuted.

(* the same request: refused by the gateway's check with the sibling file
   untouched; with the string test and a payload that is otherwise fine the
   update is accepted and the file lands outside the flows directory; a name
   the string test does see (another outside path) is refused by both *)
Example C08_sibling_name_under_both_checks :
  let rq (ok : bool) (t : path) : request N := {| r_handler := HConfiguration; r_method_ok := true; r_body_ok := true;
                    r_payload := [ {| e_field := FFlows; e_target := t; e_content := 7%N; e_decodable := true |};
                                   {| e_field := FFlows; e_target := (AFlows, 1%N);
                                      e_content := if ok then 9%N else 8%N; e_decodable := true |} ] |} in
  let go (esc : entry N -> bool) (ok : bool) (t : path) :=
    let '(r, s) := run_by N N (fun c => c) N.eqb 0%N 0%N flat (c_valid [8%N]) (fun _ => true) esc true true
                          [] [] (rq ok t) [((AOutside, 1%N), 5%N)] NoFault in
    (result_code r, lookup (AOutside, 1%N) (dsk s), lookup (AOutside, 2%N) (dsk s)) in
  (go escapes false (AOutside, 1%N), go (seen_by sibling_only) false (AOutside, 1%N),
   go escapes true (AOutside, 1%N), go (seen_by sibling_only) true (AOutside, 1%N),
   go (seen_by sibling_only) true (AOutside, 2%N))
  = ((1%N, Some 5%N, None), (1%N, Some 7%N, None),
     (1%N, Some 5%N, None), (0%N, Some 7%N, None),
     (1%N, Some 5%N, None)).
Proof. vm_compute. reflexivity. Qed.

(* ---------------------------------------------------------------- non-vacuity *)

Local Open Scope N_scope.

Definition ex_f1 : path := (AFlows, 1).
Definition ex_f3 : path := (AFlows, 3).
Definition ex_q1 : path := (AQuotas, 1).
Definition ex_disk : disk N := [(ex_f1, 10); (ex_q1, 50); ((AMetricsDefault, 0), 77)].
Definition ex_entry (f : field) (t : path) (c : N) : entry N :=
  {| e_field := f; e_target := t; e_content := c; e_decodable := true |}.
Definition ex_request (h : handler) : request N :=
  {| r_handler := h; r_method_ok := true; r_body_ok := true;
     r_payload := [ex_entry FFlows ex_f1 11; ex_entry FFlows ex_f3 30] |}.
Definition ex_run (valid : disk N -> bool) (h : handler) (f : fault) : result * st N :=
  run N N (fun c => c) N.eqb 0 999 flat valid (c_metrics_ok []) true true [] [] (ex_request h) ex_disk f.

(* the hypotheses of the theorems are met by plain instances: an equality test
   that decides equality, a digest without collisions among the contents met *)
Example C08_hypotheses_satisfiable :
  (forall a b : N, N.eqb a b = true <-> a = b) /\
  (forall rq d, digest_injective_on_contents_met N N (fun c : N => c) 0 999 rq d).
Proof. split; [exact N.eqb_eq|]. intros rq d a b _ _ E. exact E. Qed.

(* /apply_flows that changes one file, adds one and removes one: a fault at
   each of its first 22 primitive steps ends in [Failed] with the disk
   restored (the premise of C08_disk_atomic is reachable at every step, also
   after files were removed and written), except the two ignored clean-ups
   inside storeFileOnDisk; without fault it ends in [Ok] with the new disk *)
Example C08_every_step_fault_is_rolled_back :
  map (fun n => let '(r, s) := ex_run (fun _ => true) HApplyFlows (AtStep n) in
                (result_code r, disk_eqb (dsk s) ex_disk))
      (seq 0 22)
  = [(1, true); (1, true); (1, true); (1, true); (1, true); (1, true); (0, false);
     (1, true); (1, true); (1, true); (1, true); (0, false); (1, true); (1, true);
     (1, true); (1, true); (1, true); (1, true); (1, true); (1, true); (1, true);
     (0, false)].
Proof. vm_compute. reflexivity. Qed.

Example C08_success_switches_old_to_new :
  let '(r, s) := ex_run (fun _ => true) HConfiguration NoFault in
  (result_code r, normalize (dsk s), compress (map view_of (rev (arrivals s))))
  = (0, [(ex_f3, 30); (ex_f1, 11); (ex_q1, 50); ((AMetricsDefault, 0), 77)],
     [[(1, 10)]; [(3, 30); (1, 11)]]).
Proof. vm_compute. reflexivity. Qed.

(* a payload whose metrics do not load fails AFTER the switch: transactions
   meet old, then new, then old again; the disk is restored *)
Example C08_failure_after_the_switch :
  let '(r, s) := run N N (fun c => c) N.eqb 0 999 flat (fun _ => true) (c_metrics_ok [66]) true true [] []
                     {| r_handler := HConfiguration; r_method_ok := true; r_body_ok := true;
                        r_payload := [ex_entry FFlows ex_f1 11; ex_entry FMetrics metrics_file 66] |}
                     ex_disk NoFault in
  (result_code r, disk_eqb (dsk s) ex_disk, compress (map view_of (rev (arrivals s))))
  = (1, true, [[(1, 10)]; [(1, 11)]; [(1, 10)]]).
Proof. vm_compute. reflexivity. Qed.

(* two failures: content 30 does not validate AND the fault hits the roll-back *)
Example C08_rollback_failure_is_reachable :
  result_code (fst (ex_run (c_valid [30]) HApplyFlows (AtStep 20))) = 2.
Proof. vm_compute. reflexivity. Qed.

(* the same second failure by a fault the harness CAN inject (a verifhook.Fault
   call): the hook-bearing steps 6, 7, 9 and 11 of this run lie inside Restore
   (F-C08h); at hook 6 the invalid f3 and the rewritten f1 stay, q1 is lost,
   and the oracle has been consumed *)
Example C08_rollback_failure_by_a_hook_fault :
  result_code (fst (ex_run (c_valid [30]) HApplyFlows (AtHook 6))) = 2 /\
  map (fun k => result_code (fst (ex_run (c_valid [30]) HApplyFlows (AtHook k)))) (seq 0 16)
  = [1; 1; 1; 1; 1; 1; 2; 2; 1; 2; 1; 2; 1; 1; 1; 1] /\
  (let '(r, s) := ex_run (c_valid [30]) HApplyFlows (AtHook 6) in (normalize (dsk s), flt s))
  = ([(ex_f3, 30); (ex_f1, 11); ((AMetricsDefault, 0), 77)], NoFault).
Proof. split; [|split]; vm_compute; reflexivity. Qed.

(* a fault index beyond the end of the run (it has 35 arrival points) never
   fires: [AtStep 1000 <> NoFault], yet result, disk and arrivals are those of
   the run without fault and the oracle is left unconsumed -- the instance of
   C08_fault_that_never_fires_changes_nothing *)
Example C08_fault_beyond_the_end :
  let go f := let '(r, s) := ex_run (c_valid [30]) HApplyFlows f in
              (result_code r, normalize (dsk s), length (seen s), map view_of (arrivals s)) in
  go (AtStep 1000) = go NoFault /\
  (let '(r, s) := ex_run (c_valid [30]) HApplyFlows (AtStep 1000) in (result_code r, length (seen s), flt s))
  = (1, 35%nat, AtStep 966) /\
  flt (snd (ex_run (c_valid [30]) HApplyFlows NoFault)) = NoFault.
Proof. split; [|split]; vm_compute; reflexivity. Qed.

(* the premise [NoDup (map target ...)] of C08_engine_atomic_distinct_targets is
   met by the example payload (two distinct flow files); the theorem applied to
   it names THE new configuration, whatever the fault, for every run of it
   that succeeds (C08_success_switches_old_to_new is one) *)
Example C08_engine_atomic_distinct_targets_applies :
  NoDup (map target (r_payload (ex_request HConfiguration))) /\
  normalize (new_disk N true [] (ex_request HConfiguration) ex_disk)
  = [(ex_f3, 30); (ex_f1, 11); (ex_q1, 50); ((AMetricsDefault, 0), 77)] /\
  forall f r s', ex_run (fun _ => true) HConfiguration f = (r, s') -> r = Ok ->
    built_from (new_disk N true [] (ex_request HConfiguration) ex_disk) (eng s').
Proof.
  assert (ND : NoDup (map target (r_payload (ex_request HConfiguration)))).
  { vm_compute. repeat constructor; cbn; intuition discriminate. }
  split; [exact ND|]. split; [vm_compute; reflexivity|]. intros f r s' R Er.
  destruct (C08_engine_atomic_distinct_targets N N (fun c => c) N.eqb 0 999 flat (fun _ => true) (c_metrics_ok [])
              N.eqb_eq [] [] (ex_request HConfiguration) ex_disk f r s'
              (proj2 C08_hypotheses_satisfiable _ _) ND R) as (_ & _ & HO).
  exact (proj1 (HO Er)).
Qed.

(* file names that leave their directory.  The disk holds a file outside the
   configuration places (the one the name points at) and a quota file (the one
   the sibling name points at); the payload is otherwise fine.  [hs] says the
   flow f1 was saved before the bad name was met (Go map order). *)
Definition ex_out : path := (AOutside, 9).
Definition ex_disk_out : disk N := (ex_out, 70) :: ex_disk.
Definition ex_escaping (t : path) : request N :=
  {| r_handler := HConfiguration; r_method_ok := true; r_body_ok := true;
     r_payload := [ex_entry FFlows t 71; ex_entry FFlows ex_f1 11; ex_entry FQuotas ex_q1 51] |}.
Definition ex_run_escaping (fixed : bool) (t : path) (f : fault) : result * st N :=
  run N N (fun c => c) N.eqb 0 999 flat (fun _ => true) (c_metrics_ok []) fixed true [ex_f1; ex_f1] [] (ex_escaping t) ex_disk_out f.

(* with the check: [Failed] wherever the name points (outside, a sibling
   directory, the gateway file, a new outside file); f1 had been rewritten and
   is restored, the quota field is never reached, every file keeps its bytes *)
Example C08_escaping_name_fails_cleanly :
  map (fun t => let '(r, s) := ex_run_escaping true t NoFault in
                (result_code r, disk_eqb (dsk s) ex_disk_out, N.of_nat (length (seen s))))
      [ex_out; ex_q1; (AGateway, 0); (AOutside, 5)]
  = [(1, true, 12); (1, true, 12); (1, true, 12); (1, true, 12)].
Proof. vm_compute. reflexivity. Qed.

(* a fault at steps 0-5 (Backup, the save of f1) is the only failure: the bad
   name is never met, [Failed], restored.  From step 6 on the name has been
   refused and the fault hits the roll-back: a second, independent failure
   ([RollbackFailed], 2) -- except step 8, the clean-up inside storeFileOnDisk
   whose error the code ignores, and steps past the end of the run *)
Example C08_escaping_name_with_a_fault :
  map (fun n => let '(r, s) := ex_run_escaping true ex_out (AtStep n) in
                (result_code r, disk_eqb (dsk s) ex_disk_out))
      (seq 0 15)
  = [(1, true); (1, true); (1, true); (1, true); (1, true); (1, true); (2, false); (2, false);
     (1, true); (2, false); (2, false); (2, false); (1, true); (1, true); (1, true)].
Proof. vm_compute. reflexivity. Qed.

(* without the check the same update succeeds and overwrites the outside file *)
Example C08_escaping_name_without_the_check :
  let '(r, s) := ex_run_escaping false ex_out NoFault in
  (result_code r, lookup ex_out (dsk s), lookup ex_q1 (dsk s)) = (0, Some 71, Some 51).
Proof. vm_compute. reflexivity. Qed.

Example C08_escaping_is_decided_by_the_field :
  map (fun e => escapes e)
      [ex_entry FFlows ex_f1 1; ex_entry FFlows ex_q1 1; ex_entry FQuotas ex_q1 1;
       ex_entry FFlows ex_out 1; ex_entry FPathParams (AGateway, 0) 1;
       ex_entry FGateway ex_out 1; ex_entry FMetrics ex_out 1]
  = [false; true; false; true; true; false; false].
Proof. vm_compute. reflexivity. Qed.

(* ---------------------------------------------------------------- the three open gaps
   Full statements, refutations with concrete witnesses (vm_compute on the
   model the correspondence suite evaluates), and what holds outside each gap
   (theorems [..._holds_outside_...] above).  The verdict functions of the
   witnesses are sound: they depend only on the places the loader reads and
   accept the old configuration -- the gaps are not an artefact of a bad
   oracle. *)

Definition sound_oracles (valid metrics_ok : disk N -> bool) (d : disk N) : Prop :=
  (forall a b, (forall p, covered p = true -> lookup p a = lookup p b) -> valid a = valid b) /\
  (forall a b, (forall p, covered p = true -> lookup p a = lookup p b) -> metrics_ok a = metrics_ok b) /\
  valid d = true /\ metrics_ok d = true.

Notation runN := (run N N (fun c => c) N.eqb 0 999 flat).

(* F-C08h.  Clause 1a without the single-failure restriction: whatever goes
   wrong, the disk is what it was. *)
Definition C08_disk_atomic_full : Prop :=
  forall (valid metrics_ok : disk N -> bool) hs hint rq d f r s',
    sound_oracles valid metrics_ok d ->
    runN valid metrics_ok true true hs hint rq d f = (r, s') ->
    r <> Ok -> forall p, lookup p (dsk s') = lookup p d.

(* /apply_flows whose new flow f3 does not validate, and a fault at primitive
   step 20, inside Restore (the invalid f3 has been removed, the first file is
   being written back): f1 and q1 are lost, the flows and quotas directories
   stay empty *)
Theorem C08_disk_atomic_full_refuted : ~ C08_disk_atomic_full.
Proof.
  intro H.
  specialize (H (c_valid [30]) (c_metrics_ok []) [] [] (ex_request HApplyFlows) ex_disk (AtStep 20)).
  remember (runN (c_valid [30]) (c_metrics_ok []) true true [] [] (ex_request HApplyFlows) ex_disk (AtStep 20)) as x eqn:E.
  vm_compute in E. destruct x as [r s]. injection E as -> ->.
  assert (S : sound_oracles (c_valid [30]) (c_metrics_ok []) ex_disk).
  { split; [apply c_valid_covered|]. split; [apply c_metrics_ok_covered|]. split; vm_compute; reflexivity. }
  specialize (H _ _ S eq_refl).
  assert (X : RollbackFailed <> Ok) by discriminate.
  specialize (H X ex_f1). vm_compute in H. discriminate.
Qed.
Print Assumptions C08_disk_atomic_full_refuted.

Example C08_disk_after_the_failed_rollback :
  let '(r, s) := ex_run (c_valid [30]) HApplyFlows (AtStep 20) in
  (result_code r, normalize (dsk s)) = (2, [((AMetricsDefault, 0), 77)]).
Proof. vm_compute. reflexivity. Qed.

(* F-C08i.  Clause 1b in full: after a rejected update every transaction,
   whenever it arrived, was served by the old configuration. *)
Definition C08_flows_as_before_full : Prop :=
  forall (valid metrics_ok : disk N -> bool) hs hint rq d f s',
    sound_oracles valid metrics_ok d ->
    runN valid metrics_ok true true hs hint rq d f = (Failed, s') ->
    Forall (built_from d) (arrivals s').

Definition ex_bad_metrics_request : request N :=
  {| r_handler := HConfiguration; r_method_ok := true; r_body_ok := true;
     r_payload := [ex_entry FFlows ex_f1 11; ex_entry FMetrics metrics_file 66] |}.

Definition serves_f1 (c : N) (e : engine N) : bool :=
  match e with
  | EBuilt cfg => match lookup ex_f1 cfg with Some c' => N.eqb c c' | None => false end
  | EEmpty => false
  end.

(* a payload whose metrics configuration does not load: the new engine is
   published, the metrics reload fails, the roll-back publishes the old
   configuration again -- in between a transaction is served flow f1 = 11 of
   the rejected payload *)
Theorem C08_flows_as_before_full_refuted : ~ C08_flows_as_before_full.
Proof.
  intro H.
  specialize (H (fun _ => true) (c_metrics_ok [66]) [] [] ex_bad_metrics_request ex_disk NoFault).
  remember (runN (fun _ => true) (c_metrics_ok [66]) true true [] [] ex_bad_metrics_request ex_disk NoFault) as x eqn:E.
  vm_compute in E. destruct x as [r s]. injection E as -> ->.
  assert (S : sound_oracles (fun _ => true) (c_metrics_ok [66]) ex_disk).
  { split; [reflexivity|]. split; [apply c_metrics_ok_covered|]. split; vm_compute; reflexivity. }
  specialize (H _ S eq_refl).
  match type of H with
  | Forall _ ?l => destruct (find (serves_f1 11) l) as [e|] eqn:F; [|vm_compute in F; discriminate]
  end.
  apply find_some in F as [Hin He].
  rewrite Forall_forall in H. destruct (H _ Hin) as (cfg & -> & L).
  specialize (L ex_f1 eq_refl). cbn [serves_f1] in He. rewrite L in He. vm_compute in He. discriminate.
Qed.
Print Assumptions C08_flows_as_before_full_refuted.

(* the boundary of C08_flows_as_before_holds_outside_failure_after_switch: a
   payload that does not validate fails BEFORE the switch -- one publication
   (the roll-back's reload), every arrival old; the bad-metrics payload fails
   AFTER it -- two publications, and the arrivals of epoch 1 are the new engine *)
Example C08_failure_before_and_after_the_switch :
  (let '(r, s) := ex_run (c_valid [30]) HConfiguration NoFault in
   (result_code r, ep s, compress (map view_of (rev (arrivals s))))) = (1, 1%nat, [[(1, 10)]]) /\
  (let '(r, s) := runN (fun _ => true) (c_metrics_ok [66]) true true [] [] ex_bad_metrics_request ex_disk NoFault in
   (result_code r, ep s,
    tcompress (map (fun x => (fst x, view_of (snd x))) (timeline s))))
  = (1, 2%nat, [(0%nat, [(1, 10)]); (1%nat, [(1, 11)]); (2%nat, [(1, 10)])]).
Proof. split; vm_compute; reflexivity. Qed.

(* F-C08g.  Clause 2b in full: every transaction, also one whose request and
   response phases lie on different sides of the switch, is handled entirely
   by the old or entirely by the new configuration. *)
Definition C08_in_flight_full : Prop :=
  forall (valid metrics_ok : disk N -> bool) hs hint rq d f r s',
    sound_oracles valid metrics_ok d ->
    runN valid metrics_ok true true hs hint rq d f = (r, s') ->
    r <> RollbackFailed ->
    exists k, let new := new_disk N true (skipn k hs) rq d in
      Forall (fun t => handled_entirely_by_one d new (snd (fst t)) (snd (snd t))) (transactions s').

(* a plain successful /configuration update, no fault: the transaction whose
   request arrived before the update and whose response arrived after it had
   its request phase handled by f1 = 10 and its response phase by f1 = 11 *)
Theorem C08_in_flight_full_refuted : ~ C08_in_flight_full.
Proof.
  intro H.
  specialize (H (fun _ => true) (c_metrics_ok []) [] [] (ex_request HConfiguration) ex_disk NoFault).
  remember (runN (fun _ => true) (c_metrics_ok []) true true [] [] (ex_request HConfiguration) ex_disk NoFault) as x eqn:E.
  vm_compute in E. destruct x as [r s]. injection E as -> ->.
  assert (S : sound_oracles (fun _ => true) (c_metrics_ok []) ex_disk).
  { split; [reflexivity|]. split; [apply c_metrics_ok_covered|]. split; vm_compute; reflexivity. }
  assert (X : Ok <> RollbackFailed) by discriminate.
  destruct (H _ _ S eq_refl X) as [k Hk]. clear H. cbn zeta in Hk. rewrite skipn_nil in Hk.
  unfold transactions in Hk.
  match type of Hk with Forall _ (spans ?tl) => remember tl as l eqn:El end.
  vm_compute in El. subst l.
  match type of Hk with Forall _ (spans (?x :: ?l)) => pose proof (In_spans_hd_last l x) as Hin end.
  rewrite Forall_forall in Hk. apply Hk in Hin. clear Hk.
  cbn [last fst snd] in Hin.
  destruct Hin as [[_ (cfg & E & L)]|[(cfg & E & L) _]]; injection E as <-;
    specialize (L ex_f1 eq_refl); vm_compute in L; discriminate.
Qed.
Print Assumptions C08_in_flight_full_refuted.

(* the same update, counted: 19 arrival points, 190 (request, response) pairs,
   of which 70 have the publication between their two phases; the other 120
   fall under C08_in_flight_holds_outside_switch_between_phases *)
Example C08_transactions_of_a_successful_update :
  let '(r, s) := ex_run (fun _ => true) HConfiguration NoFault in
  (result_code r, length (timeline s), length (transactions s),
   length (filter (fun t => negb (Nat.eqb (fst (fst t)) (fst (snd t)))) (transactions s)),
   model_spans s)
  = (0, 19%nat, 190%nat, 70%nat,
     [(false, [(1, 10)], [(1, 10)]); (true, [(1, 10)], [(3, 30); (1, 11)]);
      (false, [(3, 30); (1, 11)], [(3, 30); (1, 11)])]).
Proof. vm_compute. reflexivity. Qed.

(* ---------------------------------------------------------------- why Restore removes strays first
   (defect F-C08j, repaired by patches/C08/fix-F-C08j.patch).  For the code that
   writes the backed-up files back BEFORE removing the files of the rejected
   payload ([run ... true false]) a single failure is enough to make the
   roll-back fail: /apply_flows on a disk with quotas/sub/q3.yaml, payload
   quota named "sub" (CleanAll has emptied the directory, os.Remove drops it,
   a regular file "sub" takes its place) and a flow that does not validate;
   Restore cannot write sub/q3.yaml back while the file "sub" is in the way. *)

(* quotas/sub (token 7) is the directory of quotas/sub/q3.yaml (token 8) *)
Definition ex_sub : path := (AQuotas, 7).
Definition ex_sub_q3 : path := (AQuotas, 8).
Definition ex_under (p q : path) : bool := path_eqb p ex_sub && path_eqb q ex_sub_q3.
Definition ex_disk_sub : disk N := [(ex_f1, 10); (ex_sub_q3, 50)].
Definition ex_request_sub : request N :=
  {| r_handler := HApplyFlows; r_method_ok := true; r_body_ok := true;
     r_payload := [ex_entry FQuotas ex_sub 51; ex_entry FFlows ex_f3 30] |}.

(* the hypothesis [tree] of C08_rollback_fails_only_after_two_failures is met
   by a disk with a sub-directory *)
Example ex_disk_sub_tree : tree ex_under ex_disk_sub.
Proof.
  intros p q Hp Hq. unfold ex_under. destruct (path_eqb p ex_sub) eqn:E; [|reflexivity].
  apply path_eqb_eq in E. subst p. exfalso. apply Hp. vm_compute. reflexivity.
Qed.

Definition C08_single_failure_is_rolled_back_writing_first : Prop :=
  forall (under : path -> path -> bool) (valid metrics_ok : disk N -> bool) hs hint rq d f s',
    sound_oracles valid metrics_ok d -> tree under d ->
    run N N (fun c => c) N.eqb 0 999 under valid metrics_ok true false hs hint rq d f = (RollbackFailed, s') ->
    f <> NoFault.

Theorem C08_restore_writing_first_refuted : ~ C08_single_failure_is_rolled_back_writing_first.
Proof.
  intro H.
  specialize (H ex_under (c_valid [30]) (c_metrics_ok []) [] [] ex_request_sub ex_disk_sub NoFault).
  remember (run N N (fun c => c) N.eqb 0 999 ex_under (c_valid [30]) (c_metrics_ok []) true false [] []
                ex_request_sub ex_disk_sub NoFault) as x eqn:E.
  vm_compute in E. destruct x as [r s]. injection E as -> ->.
  assert (S : sound_oracles (c_valid [30]) (c_metrics_ok []) ex_disk_sub).
  { split; [apply c_valid_covered|]. split; [apply c_metrics_ok_covered|]. split; vm_compute; reflexivity. }
  exact (H _ S ex_disk_sub_tree eq_refl eq_refl).
Qed.
Print Assumptions C08_restore_writing_first_refuted.

(* the same request: strays first -> [Failed], every file back; writing first
   -> [RollbackFailed] without any fault, q3 lost, "sub" and the invalid f3 left *)
Example C08_type_conflict_is_rolled_back :
  map (fun sf => let '(r, s) := run N N (fun c => c) N.eqb 0 999 ex_under (c_valid [30]) (c_metrics_ok []) true sf [] []
                                    ex_request_sub ex_disk_sub NoFault in
                 (result_code r, normalize (dsk s)))
      [true; false]
  = [(1, [(ex_sub_q3, 50); (ex_f1, 10)]); (2, [(ex_f1, 10); (ex_sub, 51); (ex_f3, 30)])].
Proof. vm_compute. reflexivity. Qed.

(* a name that is a directory holding files cannot be saved (/configuration:
   nothing was cleaned): os.Create fails, the update fails and is rolled back;
   [type_conflict] is what C08_rollback_fails_only_after_two_failures calls a
   payload that is bad by itself *)
Example C08_type_conflict_blocks_the_save :
  let rq := {| r_handler := HConfiguration; r_method_ok := true; r_body_ok := true;
               r_payload := [ex_entry FQuotas ex_sub 51] |} in
  let '(r, s) := run N N (fun c => c) N.eqb 0 999 ex_under (fun _ => true) (c_metrics_ok []) true true [] []
                     rq ex_disk_sub NoFault in
  (result_code r, disk_eqb (dsk s) ex_disk_sub, type_conflict ex_under (r_payload rq) ex_disk_sub)
  = (1, true, true).
Proof. vm_compute. reflexivity. Qed.

(* ... but [type_conflict] over-approximates "bad by itself": /apply_flows with
   the quota named "sub" and a VALID flow.  CleanAll has emptied quotas/sub,
   the file "sub" takes the place of the directory: [Ok] without fault, the new
   configuration on disk, although [type_conflict = true] (and no name escapes,
   the verdicts accept everything).  For this payload
   C08_rollback_fails_only_after_two_failures says no more than [f <> NoFault].
   On this instance that is slack of the statement, not a hole of the code as
   modelled: no single fault -- any of the primitive steps 0..59, any of the
   hooks 0..39; the run has fewer of both, see the last two components -- ends
   in [RollbackFailed]. *)
Definition ex_request_sub_valid : request N :=
  {| r_handler := HApplyFlows; r_method_ok := true; r_body_ok := true;
     r_payload := [ex_entry FQuotas ex_sub 51; ex_entry FFlows ex_f3 31] |}.
Definition ex_run_sub_valid (f : fault) : result * st N :=
  run N N (fun c => c) N.eqb 0 999 ex_under (fun _ => true) (c_metrics_ok []) true true [] []
      ex_request_sub_valid ex_disk_sub f.

Example C08_type_conflict_payload_can_be_valid :
  (let '(r, s) := ex_run_sub_valid NoFault in
   (result_code r, normalize (dsk s),
    type_conflict ex_under (r_payload ex_request_sub_valid) ex_disk_sub,
    names_escape (r_payload ex_request_sub_valid)))
  = (0, [(ex_sub, 51); (ex_f3, 31)], true, false) /\
  existsb (fun f => N.eqb (result_code (fst (ex_run_sub_valid f))) 2)
          (map AtStep (seq 0 60) ++ map AtHook (seq 0 40)) = false /\
  (flt (snd (ex_run_sub_valid (AtStep 59))), flt (snd (ex_run_sub_valid (AtHook 39))))
  = (AtStep 38, AtHook 32).
Proof. split; [|split]; vm_compute; reflexivity. Qed.

(* ---------------------------------------------------------------- the suite's oracles
   C08_rollback_fails_only_after_two_failures instantiated with the verdict
   functions the correspondence suite runs the model with: its hypotheses
   about the verdicts (they depend only on the places the loader reads) are
   met by them. *)
Corollary C08_rollback_fails_only_after_two_failures_in_the_suite :
  forall pairs bad badm hs hint rq d f s',
    tree (c_under pairs) d ->
    c_valid bad d = true -> c_metrics_ok badm d = true ->
    run N N (fun c => c) N.eqb 0 0 (c_under pairs) (c_valid bad) (c_metrics_ok badm) true true hs hint rq d f
    = (RollbackFailed, s') ->
    f <> NoFault /\
    exists k, let new := new_disk N true (skipn k hs) rq d in
              names_escape (r_payload rq) = true \/ type_conflict (c_under pairs) (r_payload rq) d = true \/
              c_valid bad new = false \/ c_metrics_ok badm new = false.
Proof.
  intros pairs bad badm hs hint rq d f s' T Vd Md R.
  apply (C08_rollback_fails_only_after_two_failures N N (fun c => c) N.eqb 0 0 (c_under pairs)
           (c_valid bad) (c_metrics_ok badm) N.eqb_eq hs hint rq d f s').
  - intros a b _ _ E. exact E.
  - apply c_valid_covered.
  - apply c_metrics_ok_covered.
  - exact Vd.
  - exact Md.
  - exact T.
  - exact R.
Qed.
Print Assumptions C08_rollback_fails_only_after_two_failures_in_the_suite.

(* ---------------------------------------------------------------- the disk of a case is a tree
   The hypothesis [tree (c_under pairs) d] of the corollary above is not left
   to the harness: [run_case], the function every shard of the correspondence
   suite evaluates, first decides it ([treeb], reflection TreeCheck.treeb_spec)
   together with "no path is listed twice" ([distinct_keysb]) on the [before]
   disk of the case, and answers with a mismatch (result code 3) when either
   fails.  So every case counted as agreeing was run from a disk that is a
   file system under the tree structure of the same case. *)
Theorem C08_accepted_case_disk_is_a_tree :
  forall hd before payload bads fault hints obs obs_spans pairs,
    run_case (hd, before, payload, bads, fault, hints, obs, obs_spans, pairs) = None ->
    tree (c_under pairs) (c_disk before) /\ NoDup (map fst (c_disk before)).
Proof.
  intros hd before payload bads fault hints obs obs_spans pairs R.
  apply run_case_accepts_only_ok, case_before_ok_spec in R. tauto.
Qed.
Print Assumptions C08_accepted_case_disk_is_a_tree.

(* hence, for the disk of a case the suite accepted, the corollary above holds
   without its [tree] premise *)
Corollary C08_rollback_fails_only_after_two_failures_on_an_accepted_case :
  forall hd before payload bads fault hints obs obs_spans pairs,
    run_case (hd, before, payload, bads, fault, hints, obs, obs_spans, pairs) = None ->
    forall bad badm hs hint rq f s',
      c_valid bad (c_disk before) = true -> c_metrics_ok badm (c_disk before) = true ->
      run N N (fun c => c) N.eqb 0 0 (c_under pairs) (c_valid bad) (c_metrics_ok badm) true true hs hint rq
          (c_disk before) f
      = (RollbackFailed, s') ->
      f <> NoFault /\
      exists k, let new := new_disk N true (skipn k hs) rq (c_disk before) in
                names_escape (r_payload rq) = true \/
                type_conflict (c_under pairs) (r_payload rq) (c_disk before) = true \/
                c_valid bad new = false \/ c_metrics_ok badm new = false.
Proof.
  intros hd before payload bads fault hints obs obs_spans pairs A bad badm hs hint rq f s' Vd Md R.
  apply C08_accepted_case_disk_is_a_tree in A. destruct A as [T _].
  exact (C08_rollback_fails_only_after_two_failures_in_the_suite pairs bad badm hs hint rq _ f s' T Vd Md R).
Qed.
Print Assumptions C08_rollback_fails_only_after_two_failures_on_an_accepted_case.

(* the decision procedure is exact, for every tree structure and content type *)
Theorem C08_tree_is_decided : forall (B : Type) under (d : disk B),
  treeb under d = true <-> tree under d.
Proof. intros B under d. apply treeb_spec. Qed.
Print Assumptions C08_tree_is_decided.

(* the test is not vacuous and not always false: [ex_disk_sub] (a disk with a
   sub-directory) passes; a file standing where the directory of another file
   is, and a path listed twice, are refused -- whatever the rest of the case
   says (the gateway's answers in these three cases are never looked at) *)
Definition ex_case_before (before : list (cpath * N)) (pairs : list (cpath * cpath)) : case :=
  ((1%N, true, true), before, [], ([], []), None, ([], []), (true, [], []), [], pairs).

Definition ex_case_tree : case :=
  ex_case_before [((1, 7), 5); ((1, 8), 6); ((0, 1), 11)]%N [((1, 9), (1, 7))]%N.
Definition ex_case_file_below_file : case :=
  ex_case_before [((1, 9), 5); ((1, 7), 6)]%N [((1, 9), (1, 7))]%N.
Definition ex_case_listed_twice : case :=
  ex_case_before [((1, 7), 5); ((0, 1), 11); ((1, 7), 5)]%N [].

Example C08_case_disk_test_is_not_vacuous :
  (case_before_ok ex_case_tree,
   run_case ex_case_file_below_file,
   run_case ex_case_listed_twice,
   treeb ex_under ex_disk_sub,
   treeb ex_under ((ex_sub, 50%N) :: ex_disk_sub))
  = (true, Some (3%N, [], [], []), Some (3%N, [], [], []), true, false).
Proof. vm_compute; reflexivity. Qed.
