(* C08 -- a configuration update is all-or-nothing.  Final statements only;
   the model is in Model.v (the code after patches/C08/fix-F-C08{a,b,c,f}),
   the proofs in Proofs.v.

   Every theorem quantifies over: the type of file contents and the digest
   function (assumed injective: MD5 does not collide on the contents met), the
   two external verdicts (dry-run validation, metrics reload) as arbitrary
   functions of the disk, the content of a new file and what a failing write
   leaves behind, the handler, the whole request (method, body, payload:
   any files, decodable or not), the disk, the fault oracle (no fault, any
   primitive step, any hook-bearing step) and the order hints (any order in
   which Go iterates over its maps).  Transactions arrive at every primitive
   step: [arrivals] lists the engine met at each of them and the final one. *)
From Coq Require Import List NArith Bool Arith.
From Verif Require Import C08.Model C08.Proofs.
Import ListNotations.

(* an engine built from a disk that holds configuration [d] in all the places
   the engine reads (an [EEmpty] engine is built from nothing) *)
Definition built_from {B} (d : disk B) (e : engine B) : Prop :=
  exists cfg, e = EBuilt cfg /\ forall p, covered p = true -> lookup p cfg = lookup p d.

Section Statements.
  Variables B D : Type.
  Variable digest : B -> D.
  Variable D_eqb : D -> D -> bool.
  Variables empty garbage : B.
  Variables valid metrics_ok : disk B -> bool.
  Hypothesis D_eqb_spec : forall a b, D_eqb a b = true <-> a = b.
  Hypothesis digest_injective : forall a b, digest a = digest b -> a = b.

  Notation run := (run B D digest D_eqb empty garbage valid metrics_ok).

  (* Disk atomicity.  A rejected or failed update leaves every file as it was,
     byte for byte (extensional equality of the path -> content map), provided
     every file the payload names lies in a place the snapshot covers. *)
  Theorem C08_disk_atomic : forall hint rq d f s',
    targets_covered (r_payload rq) = true ->
    run hint rq d f = (Failed, s') ->
    forall p, lookup p (dsk s') = lookup p d.
  Proof.
    intros hint rq d f s' T R p.
    destruct (run_master digest D_eqb empty garbage valid metrics_ok D_eqb_spec digest_injective
                         _ _ _ _ _ _ R) as (k & _ & HF & HU & _).
    destruct (covered p) eqn:C; [apply (proj1 (HF eq_refl)); exact C|apply HU; auto].
  Qed.

  (* The same with the name the guide asks for when a finding stays open:
     the side condition is decidable and is what the monitor's classifier
     computes (a payload file name that leaves the configuration places). *)
  Theorem C08_disk_atomic_holds_outside_uncovered_target : forall hint rq d f s',
    targets_covered (r_payload rq) = true ->
    run hint rq d f = (Failed, s') ->
    forall p, lookup p (dsk s') = lookup p d.
  Proof. exact C08_disk_atomic. Qed.

  (* Whatever the payload names, the places the snapshot covers are restored. *)
  Theorem C08_disk_atomic_on_covered_places : forall hint rq d f s',
    run hint rq d f = (Failed, s') ->
    forall p, covered p = true -> lookup p (dsk s') = lookup p d.
  Proof.
    intros hint rq d f s' R.
    destruct (run_master digest D_eqb empty garbage valid metrics_ok D_eqb_spec digest_injective
                         _ _ _ _ _ _ R) as (k & _ & HF & _).
    exact (proj1 (HF eq_refl)).
  Qed.

  (* Engine atomicity.  Unless the roll-back itself failed (see
     [C08_rollback_fails_only_after_two_failures]), every transaction, whenever
     it arrives, is served by an engine built from the old configuration or
     from the new one (the payload applied to what the handler starts from) --
     never by an empty or half-built one; after a failed update the pointer is
     an engine of the old configuration, after a successful one the new
     configuration is on disk and serving. *)
  Theorem C08_engine_atomic : forall hint rq d f r s',
    run hint rq d f = (r, s') ->
    exists k, let new := new_disk B (skipn k hint) rq d in
      (r <> RollbackFailed ->
       Forall (fun e => built_from d e \/ built_from new e) (arrivals s')) /\
      (r = Failed -> built_from d (eng s')) /\
      (r = Ok -> built_from new (eng s') /\ (forall p, lookup p (dsk s') = lookup p new) /\
                 valid (dsk s') = true /\ metrics_ok (dsk s') = true).
  Proof.
    intros hint rq d f r s' R.
    destruct (run_master digest D_eqb empty garbage valid metrics_ok D_eqb_spec digest_injective
                         _ _ _ _ _ _ R) as (k & HA & HF & _ & HO & _).
    exists k. cbn zeta. split; [exact HA|]. split; [intro E; exact (proj2 (HF E))|].
    intro E. destruct (HO E) as (Dq & Ee & V & M). split; [|split; [exact Dq|split; assumption]].
    rewrite Ee. exists (dsk s'). split; [reflexivity|]. intros p _. apply Dq.
  Qed.

  Corollary C08_no_empty_engine : forall hint rq d f r s',
    run hint rq d f = (r, s') -> r <> RollbackFailed -> ~ In EEmpty (arrivals s').
  Proof.
    intros hint rq d f r s' R Hr Hin.
    destruct (C08_engine_atomic _ _ _ _ _ _ R) as (k & HA & _).
    pose proof (proj1 (Forall_forall _ _) (HA Hr) _ Hin) as [(c & E & _)|(c & E & _)]; discriminate.
  Qed.

  (* The roll-back can only fail when there were two independent failures: an
     injected fault AND a payload that does not validate or whose metrics do
     not load (so that the update had already failed for that reason when the
     fault hit the roll-back).  With a sound old configuration, one fault --
     at any step -- or one bad payload alone always ends in [Failed] or [Ok],
     to which the two theorems above apply. *)
  Theorem C08_rollback_fails_only_after_two_failures : forall hint rq d f s',
    (forall a b, (forall p, covered p = true -> lookup p a = lookup p b) -> valid a = valid b) ->
    (forall a b, (forall p, covered p = true -> lookup p a = lookup p b) -> metrics_ok a = metrics_ok b) ->
    valid d = true -> metrics_ok d = true ->
    run hint rq d f = (RollbackFailed, s') ->
    f <> NoFault /\
    exists k, let new := new_disk B (skipn k hint) rq d in
              valid new = false \/ metrics_ok new = false.
  Proof.
    intros hint rq d f s' Vx Mx Vd Md R.
    destruct (run_master digest D_eqb empty garbage valid metrics_ok D_eqb_spec digest_injective
                         _ _ _ _ _ _ R) as (k & _ & _ & _ & _ & H2).
    destruct (H2 eq_refl Vx Mx Vd Md) as [Hf Hn]. split; [exact Hf|exists k; exact Hn].
  Qed.

End Statements.

Print Assumptions C08_disk_atomic.
Print Assumptions C08_disk_atomic_holds_outside_uncovered_target.
Print Assumptions C08_disk_atomic_on_covered_places.
Print Assumptions C08_engine_atomic.
Print Assumptions C08_no_empty_engine.
Print Assumptions C08_rollback_fails_only_after_two_failures.

(* ---------------------------------------------------------------- finding F-C08e
   Full-strength disk atomicity (no condition on the file names of the
   payload) does not hold: a name that leaves the configuration places is
   written outside the snapshot and never rolled back. *)
Definition C08_disk_atomic_full : Prop :=
  forall (valid metrics_ok : disk N -> bool) hint rq d f s',
    run N N (fun c => c) N.eqb 0%N 0%N valid metrics_ok hint rq d f = (Failed, s') ->
    forall p, lookup p (dsk s') = lookup p d.

Theorem C08_disk_atomic_full_refuted : ~ C08_disk_atomic_full.
Proof.
  intro H.
  pose (rq := {| r_handler := HConfiguration; r_method_ok := true; r_body_ok := true;
                 r_payload := [ {| e_field := FFlows; e_target := (AOutside, 1%N);
                                   e_content := 7%N; e_decodable := true |};
                                {| e_field := FFlows; e_target := (AFlows, 1%N);
                                   e_content := 8%N; e_decodable := true |} ] |}).
  (* content 8 does not validate; nothing else goes wrong *)
  specialize (H (c_valid [8%N]) (fun _ => true) [] rq [] NoFault).
  remember (run N N (fun c => c) N.eqb 0%N 0%N (c_valid [8%N]) (fun _ => true) [] rq [] NoFault) as x eqn:E.
  vm_compute in E. destruct x as [r s]. injection E as -> ->.
  specialize (H _ eq_refl (AOutside, 1%N)). vm_compute in H. discriminate.
Qed.
Print Assumptions C08_disk_atomic_full_refuted.

(* ---------------------------------------------------------------- non-vacuity *)

Local Open Scope N_scope.

Definition ex_f1 : path := (AFlows, 1).
Definition ex_f3 : path := (AFlows, 3).
Definition ex_q1 : path := (AQuotas, 1).
Definition ex_disk : disk N := [(ex_f1, 10); (ex_q1, 50); ((AMetricsDefault, 0), 77)].
Definition ex_entry (f : field) (t : path) (c : N) : entry N :=
  {| e_field := f; e_target := t; e_content := c; e_decodable := true |}.
Definition ex_request (h : handler) : request N :=
  {| r_handler := h; r_method_ok := true; r_body_ok := true;
     r_payload := [ex_entry FFlows ex_f1 11; ex_entry FFlows ex_f3 30] |}.
Definition ex_run (valid : disk N -> bool) (h : handler) (f : fault) : result * st N :=
  run N N (fun c => c) N.eqb 0 999 valid (c_metrics_ok []) [] (ex_request h) ex_disk f.

(* the hypotheses of the theorems are met by plain instances *)
Example C08_hypotheses_satisfiable :
  (forall a b : N, N.eqb a b = true <-> a = b) /\
  (forall a b : N, (fun c : N => c) a = (fun c => c) b -> a = b) /\
  targets_covered (r_payload (ex_request HApplyFlows)) = true.
Proof. split; [exact N.eqb_eq|split; [auto|reflexivity]]. Qed.

(* /apply_flows that changes one file, adds one and removes one: a fault at
   each of its first 22 primitive steps ends in [Failed] with the disk
   restored (the premise of C08_disk_atomic is reachable at every step, also
   after files were removed and written), except the two ignored clean-ups
   inside storeFileOnDisk; without fault it ends in [Ok] with the new disk *)
Example C08_every_step_fault_is_rolled_back :
  map (fun n => let '(r, s) := ex_run (fun _ => true) HApplyFlows (AtStep n) in
                (result_code r, disk_eqb (dsk s) ex_disk))
      (seq 0 22)
  = [(1, true); (1, true); (1, true); (1, true); (1, true); (1, true); (0, false);
     (1, true); (1, true); (1, true); (1, true); (0, false); (1, true); (1, true);
     (1, true); (1, true); (1, true); (1, true); (1, true); (1, true); (1, true);
     (0, false)].
Proof. vm_compute. reflexivity. Qed.

Example C08_success_switches_old_to_new :
  let '(r, s) := ex_run (fun _ => true) HConfiguration NoFault in
  (result_code r, normalize (dsk s), compress (map view_of (rev (arrivals s))))
  = (0, [(ex_f3, 30); (ex_f1, 11); (ex_q1, 50); ((AMetricsDefault, 0), 77)],
     [[(1, 10)]; [(3, 30); (1, 11)]]).
Proof. vm_compute. reflexivity. Qed.

(* a payload whose metrics do not load fails AFTER the switch: transactions
   meet old, then new, then old again; the disk is restored *)
Example C08_failure_after_the_switch :
  let '(r, s) := run N N (fun c => c) N.eqb 0 999 (fun _ => true) (c_metrics_ok [66]) []
                     {| r_handler := HConfiguration; r_method_ok := true; r_body_ok := true;
                        r_payload := [ex_entry FFlows ex_f1 11; ex_entry FMetrics metrics_file 66] |}
                     ex_disk NoFault in
  (result_code r, disk_eqb (dsk s) ex_disk, compress (map view_of (rev (arrivals s))))
  = (1, true, [[(1, 10)]; [(1, 11)]; [(1, 10)]]).
Proof. vm_compute. reflexivity. Qed.

(* two failures: content 30 does not validate AND the fault hits the roll-back *)
Example C08_rollback_failure_is_reachable :
  result_code (fst (ex_run (c_valid [30]) HApplyFlows (AtStep 20))) = 2.
Proof. vm_compute. reflexivity. Qed.
