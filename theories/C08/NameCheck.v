(* C08 -- the payload file-name check (config/gateway_file_system.go,
   filePathInDirectory), at the level of path strings, and the model variant
   in which the check overlooks some of the names that leave their directory.

   Part 1 (strings).  A path is a list of elements, an element a list of byte
   codes.  [join dir name] = filepath.Join(dir, name) for a clean absolute
   [dir]: the elements of the name are applied to the stack of the
   directory's elements (".." pops, at the root it stays at the root; "." and
   the empty element are dropped).  [rel dir p] = filepath.Rel(dir, p) for
   two clean absolute paths.  The check of the gateway, [rel_check], refuses
   the name when the relative path is ".", ".." or begins with "../".
   [prefix_check] is the same decision taken on the rendered strings:
   joined <> root and strings.HasPrefix(joined, root).

     rel_check_iff_strictly_inside   the gateway's check accepts a name iff its
                                     cleaned join is the directory followed by
                                     at least one more element
     prefix_check_never_stricter     whatever the gateway's check accepts the
                                     string test accepts too (ordinary names
                                     behave the same)
     prefix_check_full_refuted       the string test accepts a name whose join
                                     is NOT below the directory: a sibling whose
                                     name starts with the directory's name

   Part 2 (model).  [run_by (seen_by lax)] is the gateway whose name check
   does not see that the outside paths [lax] have left the directory.  It is
   the gateway itself on every payload without such a name ([run_by_agrees]);
   [update_by escapes] is [update] by computation. *)
From Coq Require Import List NArith Bool Arith Lia.
From Verif Require Import C08.Model.
Import ListNotations.

(* ---------------------------------------------------------------- strings *)

Definition seg := list N.

Fixpoint seg_eqb (a b : list N) : bool :=
  match a, b with
  | [], [] => true
  | x :: a', y :: b' => N.eqb x y && seg_eqb a' b'
  | _, _ => false
  end.

Lemma seg_eqb_eq a b : seg_eqb a b = true <-> a = b.
Proof.
  revert b; induction a as [|x a IH]; intros [|y b]; cbn [seg_eqb]; split; intro H;
    try reflexivity; try discriminate.
  - apply andb_true_iff in H as [H1 H2]. apply N.eqb_eq in H1. apply IH in H2. congruence.
  - injection H as -> ->. rewrite N.eqb_refl. apply IH. reflexivity.
Qed.

Lemma seg_eqb_refl a : seg_eqb a a = true.
Proof. apply seg_eqb_eq; reflexivity. Qed.

Definition dotdot : seg := [46; 46]%N.
Definition dot : seg := [46]%N.

Fixpoint clean_onto (stack : list seg) (name : list seg) : list seg :=
  match name with
  | [] => rev stack
  | x :: r =>
      if seg_eqb x dotdot then clean_onto (tl stack) r
      else if seg_eqb x dot || seg_eqb x [] then clean_onto stack r
      else clean_onto (x :: stack) r
  end.

Definition join (dir name : list seg) : list seg := clean_onto (rev dir) name.

Fixpoint rel (dir p : list seg) : list seg :=
  match dir, p with
  | d :: dr, x :: pr => if seg_eqb d x then rel dr pr else map (fun _ => dotdot) dir ++ p
  | [], _ => p
  | _ :: _, [] => map (fun _ => dotdot) dir
  end.

(* rel is neither "." nor ".." nor "../..." *)
Definition rel_accepts (dir p : list seg) : bool :=
  match rel dir p with
  | [] => false
  | x :: _ => negb (seg_eqb x dotdot)
  end.

Definition rel_check (dir name : list seg) : bool := rel_accepts dir (join dir name).

(* "/a/b/c" *)
Definition render (p : list seg) : list N := flat_map (fun s => 47%N :: s) p.

Fixpoint is_prefix (a b : list N) : bool :=
  match a, b with
  | [], _ => true
  | x :: a', y :: b' => N.eqb x y && is_prefix a' b'
  | _ :: _, [] => false
  end.

Definition prefix_accepts (dir p : list seg) : bool :=
  negb (seg_eqb (render p) (render dir)) && is_prefix (render dir) (render p).

Definition prefix_check (dir name : list seg) : bool := prefix_accepts dir (join dir name).

(* p lies strictly below dir, element by element *)
Definition strictly_inside (dir p : list seg) : Prop := exists x rest, p = dir ++ x :: rest.

Lemma rel_accepts_iff dir : forall p,
  ~ In dotdot p -> (rel_accepts dir p = true <-> strictly_inside dir p).
Proof.
  unfold rel_accepts, strictly_inside.
  induction dir as [|d dr IH]; intros p Hp.
  - destruct p as [|x pr]; cbn [rel app].
    + split; [discriminate|intros (x & rest & E); discriminate].
    + split; [intros _; exists x, pr; reflexivity|intros _].
      destruct (seg_eqb x dotdot) eqn:E; [|reflexivity].
      apply seg_eqb_eq in E. subst. exfalso. apply Hp. left; reflexivity.
  - destruct p as [|x pr]; cbn [rel map app].
    + rewrite seg_eqb_refl. split; [discriminate|intros (x & rest & E); discriminate].
    + destruct (seg_eqb d x) eqn:E.
      * apply seg_eqb_eq in E. subst x.
        assert (Hpr : ~ In dotdot pr) by (intro H; apply Hp; right; exact H).
        rewrite (IH pr Hpr). split; intros (x & rest & Eq).
        -- exists x, rest. rewrite Eq. reflexivity.
        -- exists x, rest. injection Eq as Eq. exact Eq.
      * cbn [app]. rewrite seg_eqb_refl. split; [discriminate|].
        intros (y & rest & Eq). injection Eq as Ex _. subst x. rewrite seg_eqb_refl in E. discriminate.
Qed.

Lemma clean_onto_no_dotdot name : forall stack,
  ~ In dotdot stack -> ~ In dotdot (clean_onto stack name).
Proof.
  induction name as [|x r IH]; intros stack Hs; cbn [clean_onto].
  - rewrite <- in_rev. exact Hs.
  - destruct (seg_eqb x dotdot) eqn:E.
    + apply IH. destruct stack as [|y st]; [exact Hs|]. intro H. apply Hs. right; exact H.
    + destruct (seg_eqb x dot || seg_eqb x []); [apply IH; exact Hs|].
      apply IH. intros [H|H]; [|apply Hs; exact H].
      subst x. rewrite seg_eqb_refl in E. discriminate.
Qed.

Lemma join_no_dotdot dir name : ~ In dotdot dir -> ~ In dotdot (join dir name).
Proof. intro H. apply clean_onto_no_dotdot. rewrite <- in_rev. exact H. Qed.

(* The check of the gateway: a name is accepted iff its cleaned join stays
   strictly inside the directory -- for every directory (without a ".."
   element: it is a clean absolute path) and every name, whatever its
   elements ("..", ".", empty, anything). *)
Theorem rel_check_iff_strictly_inside : forall dir name,
  ~ In dotdot dir ->
  (rel_check dir name = true <-> strictly_inside dir (join dir name)).
Proof. intros dir name H. apply rel_accepts_iff. apply join_no_dotdot. exact H. Qed.

Lemma is_prefix_app a b : is_prefix a (a ++ b) = true.
Proof. induction a as [|x a IH]; cbn; [reflexivity|]. rewrite N.eqb_refl. exact IH. Qed.

Lemma render_app a b : render (a ++ b) = render a ++ render b.
Proof. unfold render. apply flat_map_app. Qed.

(* The string test never refuses what the gateway's check accepts. *)
Theorem prefix_check_never_stricter : forall dir name,
  ~ In dotdot dir -> rel_check dir name = true -> prefix_check dir name = true.
Proof.
  intros dir name H R. apply (rel_check_iff_strictly_inside dir name H) in R as (x & rest & E).
  unfold prefix_check, prefix_accepts. rewrite E, render_app, is_prefix_app, andb_true_r.
  apply negb_true_iff. destruct (seg_eqb (render dir ++ render (x :: rest)) (render dir)) eqn:Q; [|reflexivity].
  apply seg_eqb_eq in Q. rewrite <- (app_nil_r (render dir)) in Q at 2.
  apply app_inv_head in Q. discriminate.
Qed.

(* The string test as a name check, in full: whatever it accepts lies
   strictly inside the directory. *)
Definition prefix_check_full : Prop :=
  forall dir name, ~ In dotdot dir -> prefix_check dir name = true -> strictly_inside dir (join dir name).

(* cfg/flows, and the name ../flows-d/x *)
Definition w_cfg : seg := [99; 102; 103]%N.
Definition w_flows : seg := [102; 108; 111; 119; 115]%N.
Definition w_flows_d : seg := [102; 108; 111; 119; 115; 45; 100]%N.
Definition w_quotas : seg := [113; 117; 111; 116; 97; 115]%N.
Definition w_x : seg := [120]%N.
Definition w_dir : list seg := [w_cfg; w_flows].
Definition w_name : list seg := [dotdot; w_flows_d; w_x].

Example prefix_check_accepts_a_sibling :
  (join w_dir w_name, prefix_check w_dir w_name, rel_check w_dir w_name)
  = ([w_cfg; w_flows_d; w_x], true, false).
Proof. vm_compute. reflexivity. Qed.

(* the classic traversals, the directory itself and ordinary names: both
   checks agree *)
Example checks_agree_elsewhere :
  map (fun n => (prefix_check w_dir n, rel_check w_dir n))
      [[dotdot; w_x]; [dotdot; w_quotas; w_x]; [dotdot; dotdot; dotdot; dotdot; w_x]; [dot]; [];
       [w_x; dotdot]; [w_x]; [w_flows_d; w_x]; [dot; w_x]; [w_x; dotdot; w_x]; [dotdot; w_flows; w_x]; [[]; w_x]]
  = [(false, false); (false, false); (false, false); (false, false); (false, false);
     (false, false); (true, true); (true, true); (true, true); (true, true); (true, true); (true, true)].
Proof. vm_compute. reflexivity. Qed.

Theorem prefix_check_full_refuted : ~ prefix_check_full.
Proof.
  intro H. destruct (H w_dir w_name) as (x & rest & E).
  - vm_compute. intros [Q|[Q|[]]]; discriminate.
  - vm_compute. reflexivity.
  - vm_compute in E. discriminate.
Qed.

(* ---------------------------------------------------------------- the model variant *)

Section Variant.
  Context {B D : Type}.
  Variable digest : B -> D.
  Variable D_eqb : D -> D -> bool.
  Variable empty garbage : B.
  Variable under : path -> path -> bool.
  Variable valid metrics_ok : disk B -> bool.

  Notation update := (update B D digest D_eqb empty garbage under valid metrics_ok).
  Notation update_by := (update_by B D digest D_eqb empty garbage under valid metrics_ok).
  Notation run := (run B D digest D_eqb empty garbage under valid metrics_ok).
  Notation run_by := (run_by B D digest D_eqb empty garbage under valid metrics_ok).

  Lemma update_by_escapes fixed sf hs hint rq s :
    update_by escapes fixed sf hs hint rq s = update fixed sf hs hint rq s.
  Proof. reflexivity. Qed.

  Lemma run_by_escapes fixed sf hs hint rq d f :
    run_by escapes fixed sf hs hint rq d f = run fixed sf hs hint rq d f.
  Proof. reflexivity. Qed.

  Lemma plan_by_ext esc1 esc2 fixed hint (pl : list (entry B)) :
    (forall e, In e pl -> esc1 e = esc2 e) ->
    plan_by B esc1 fixed hint pl = plan_by B esc2 fixed hint pl.
  Proof.
    intro H. unfold plan_by. apply flat_map_ext. intro f. f_equal.
    unfold items_of_by. apply map_ext_in. intros e He. apply filter_In in He as [He _].
    rewrite (H e He). reflexivity.
  Qed.

  Lemma update_by_ext esc1 esc2 fixed sf hs hint rq s :
    (forall e, In e (r_payload rq) -> esc1 e = esc2 e) ->
    update_by esc1 fixed sf hs hint rq s = update_by esc2 fixed sf hs hint rq s.
  Proof.
    intro H. unfold Model.update_by.
    destruct (negb (r_method_ok rq)); [reflexivity|].
    destruct (negb (r_body_ok rq)); [reflexivity|].
    destruct (prim B false s) as [f0 s0]. destruct f0; [reflexivity|].
    destruct (negb (forallb e_decodable (r_payload rq))); [reflexivity|].
    destruct (match r_handler rq with
              | HConfiguration => (true, s0)
              | HApplyFlows => clean_all B hs s0
              end) as [okc s1].
    destruct okc; [|reflexivity].
    rewrite (plan_by_ext esc1 esc2 fixed _ _ H). reflexivity.
  Qed.

  (* a check that overlooks the outside paths [lax] is the gateway's check on
     every payload that names none of them *)
  Lemma run_by_agrees lax fixed sf hs hint rq d f :
    (forall e, In e (r_payload rq) -> escapes e = true -> lax (e_target e) = false) ->
    run_by (seen_by lax) fixed sf hs hint rq d f = run fixed sf hs hint rq d f.
  Proof.
    intro H. rewrite <- run_by_escapes. unfold Model.run_by. apply update_by_ext.
    intros e He. unfold seen_by. destruct (escapes e) eqn:E; [|reflexivity].
    rewrite (H e He E). reflexivity.
  Qed.
End Variant.
