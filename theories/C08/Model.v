(* C08 -- model of a configuration update of the Lunar gateway
   (routing/handling_data_manager.go: handleConfiguration, handleApplyFlows,
   reloadFlows, initializeStreams; config/gateway_file_system.go: Backup,
   Restore, CleanAll, storeFileOnDisk, cleanUpFile;
   streams/config/flows_payload.utils.go: ParsePayload, SavePayloadContentToDisk).

   The model describes the code AFTER patches/C08/fix-F-C08{a,b,c,e,f}.patch:
     a  Restore diffs from the backup side, writes the backed-up contents and
        removes the files that did not exist at backup time; the metrics
        payload is saved to the user metrics file (the path the snapshot covers);
     b  /apply_flows takes a backup and rolls back like /configuration;
     c  the new stream is published only after Initialize() succeeded;
     e  SaveFlow / SaveQuota / SavePathParams refuse a payload file name that
        does not resolve to a file below their own directory
        (filePathInDirectory): the save returns an error before anything of
        that file is written and the update fails like after any other failed
        save (Restore).  The switch [fixed : bool] of [save_all] / [update] /
        [run] selects the code with (true) or without (false) that check; the
        correspondence and the theorems about the gateway use [true], the
        variant [false] is kept to keep the need for the check machine-checked
        (Property.v: C08_disk_atomic_without_name_check_refuted);
     f  a request with the wrong HTTP method is answered 405 and NOT processed;
     j  Restore first removes the files that did not exist at backup time and
        then writes the backed-up contents back (fix-F-C08j; it used to write
        first).  A file of the rejected payload can stand where a backed-up
        file needs a directory (payload name "sub" over the emptied directory
        of "sub/q3.yaml"), or lie inside a directory that stands where a
        backed-up file was ("q1.yaml/x.yaml"): writing first fails there.  The
        switch [sf : bool] ("strays first") of [restore] / [rollback] /
        [update] / [run] selects the order; the gateway is [true], [false] is
        kept for Property.v: C08_restore_writing_first_refuted.

   Paths are flat tokens; the tree structure of the file system is an input:
   [under p q] = q lies below p taken as a directory (p is a proper prefix of
   q).  os.MkdirAll fails when a regular file stands where a directory is
   needed ([file_above]), os.Create fails on a directory that holds files
   ([is_dir]); os.Remove of an empty directory succeeds and is not visible
   (directories are not part of the modelled disk).

   Disk     = association list path -> content, read with [lookup]
              (first match), compared extensionally.
   Content  = any type [B]; the code compares MD5 digests, here [digest].
   An update is a sequence of primitive steps ([prim]); every one of them is
   an arrival point for a transaction (the engine it would be served by is
   recorded in [seen]) and every one of them may be told to fail by the fault
   oracle [fault]: [AtStep n] = the n-th primitive step of the run fails,
   [AtHook k] = the k-th step that carries a verifhook.Fault call site fails
   (fs.store, fs.remove, engine.init -- what the harness can inject).
   The order in which Go iterates over its maps (payload files, restore diff,
   the two single files in CleanAll) is an input: [hint] lists paths in the
   order the implementation touched them (one per hook-bearing step), [hs] is
   the part of it that precedes the roll-back (the clean-up and the saves: a
   refused name makes no hook call, so where it was met among the files of
   its field is read off the files saved before the roll-back started); any
   two lists are allowed.

   Case format (harness -> cases):
     ((handler 0=/configuration 1=/apply_flows, method is PUT, body is JSON),
      disk before : list (path * content),
      payload     : list (field, target path, content, base64 decodable),
      (contents failing validation, contents failing the metrics reload),
      fault       : option nat   (hook index),
      (hs, hint)  : list path * list path  (paths of the observed hook calls, in
                    order: those made before Restore was first called, all),
      (status is 200, disk after, distinct engine views in order of appearance),
      spans       : list (engine published between the two phases, view of the
                    request phase, view of the response phase) -- the distinct
                    observations of the two-phase probe transactions,
      tree        : list (p, q) -- q lies below p, for the paths of this case)
     path = (area code, interned relative name), content = interned bytes.
   [run_case] refuses (mismatch, result code 3) a case whose disk before lists
   a path twice or lists a path below another listed path under its own
   [tree] list ([case_before_ok]); otherwise it is [run_case_on_tree]. *)
From Coq Require Import List NArith Bool Arith.
Import ListNotations.

Inductive area :=
  AFlows | AQuotas | APathParams | AGateway | AMetricsUser | AMetricsDefault | AOutside.

Definition path := (area * N)%type.

Definition area_eqb (a b : area) : bool :=
  match a, b with
  | AFlows, AFlows | AQuotas, AQuotas | APathParams, APathParams
  | AGateway, AGateway | AMetricsUser, AMetricsUser
  | AMetricsDefault, AMetricsDefault | AOutside, AOutside => true
  | _, _ => false
  end.

Definition path_eqb (p q : path) : bool :=
  area_eqb (fst p) (fst q) && N.eqb (snd p) (snd q).

Definition gateway_file : path := (AGateway, 0%N).
Definition metrics_file : path := (AMetricsUser, 0%N).

(* what createFileSystemBackUp reads: every file below the three directories
   and the two single files *)
Definition covered (p : path) : bool :=
  match fst p with
  | AFlows | AQuotas | APathParams => true
  | AGateway | AMetricsUser => N.eqb (snd p) 0
  | AMetricsDefault | AOutside => false
  end.

Definition in_directory (p : path) : bool :=
  match fst p with AFlows | AQuotas | APathParams => true | _ => false end.

(* the fields of a configuration payload, in the order they are saved *)
Inductive field := FFlows | FQuotas | FPathParams | FGateway | FMetrics.

Definition field_eqb (a b : field) : bool :=
  match a, b with
  | FFlows, FFlows | FQuotas, FQuotas | FPathParams, FPathParams
  | FGateway, FGateway | FMetrics, FMetrics => true
  | _, _ => false
  end.

Definition fields : list field := [FFlows; FQuotas; FPathParams; FGateway; FMetrics].

Inductive fault := NoFault | AtStep (n : nat) | AtHook (k : nat).

(* one step passes: did the fault fire, and what is left of it *)
Definition tick (hook : bool) (f : fault) : bool * fault :=
  match f with
  | NoFault => (false, NoFault)
  | AtStep O => (true, NoFault)
  | AtStep (S n) => (false, AtStep n)
  | AtHook O => if hook then (true, NoFault) else (false, AtHook O)
  | AtHook (S k) => (false, if hook then AtHook k else AtHook (S k))
  end.

Inductive handler := HConfiguration | HApplyFlows.
Inductive result := Ok | Failed | RollbackFailed.

(* order hints: [arrange key hint items] lists first the items whose key is
   the first hint, then those of the second hint, ..., then the rest *)
Fixpoint arrange {A : Type} (key : A -> path) (hint : list path) (items : list A) : list A :=
  match hint with
  | [] => items
  | p :: h =>
      filter (fun x => path_eqb p (key x)) items
      ++ arrange key h (filter (fun x => negb (path_eqb p (key x))) items)
  end.

(* all pairs (x, y) of a list with y at or after x *)
Fixpoint spans {A : Type} (l : list A) : list (A * A) :=
  match l with
  | [] => []
  | a :: r => map (pair a) (a :: r) ++ spans r
  end.

Section Model.
  Variable B : Type.                 (* file contents *)
  Variable D : Type.                 (* digests *)
  Variable digest : B -> D.          (* md5 in the code *)
  Variable D_eqb : D -> D -> bool.
  Variable empty : B.                (* content of a file just created *)
  Variable garbage : B.              (* what a failing write leaves behind *)
  (* the tree structure of the paths: q lies below p taken as a directory *)
  Variable under : path -> path -> bool.

  Definition disk := list (path * B).

  Fixpoint lookup (p : path) (d : disk) : option B :=
    match d with
    | [] => None
    | (q, c) :: r => if path_eqb p q then Some c else lookup p r
    end.

  Definition del (p : path) (d : disk) : disk :=
    filter (fun e => negb (path_eqb p (fst e))) d.

  Definition set (p : path) (c : B) (d : disk) : disk := (p, c) :: del p d.

  (* the same map without shadowed entries *)
  Fixpoint normalize (d : disk) : disk :=
    match d with
    | [] => []
    | (p, c) :: r => (p, c) :: del p (normalize r)
    end.

  Definition snapshot (d : disk) : disk :=
    filter (fun e => covered (fst e)) (normalize d).

  Definition has_key (p : path) (d : disk) : bool :=
    match lookup p d with Some _ => true | None => false end.

  Definition same_digest (o : option B) (c : B) : bool :=
    match o with Some c' => D_eqb (digest c') (digest c) | None => false end.

  Definition apply_list (l : disk) (d : disk) : disk :=
    fold_left (fun acc e => set (fst e) (snd e) acc) l d.

  (* external verdicts: the dry-run validation of the configuration on disk and
     the metrics configuration reload *)
  Variable valid : disk -> bool.
  Variable metrics_ok : disk -> bool.

  (* the active stream: which configuration it was built from *)
  Inductive engine := EEmpty | EBuilt (cfg : disk).

  Record st := {
    dsk : disk;
    eng : engine;            (* rd.stream *)
    flt : fault;             (* what is left of the fault oracle *)
    seen : list engine;      (* engine met by a transaction arriving at each step so far, latest first *)
    hk : nat;                (* hook-bearing steps so far (index into the order hints) *)
    ep : nat;                (* how many times rd.setStream has published an engine so far *)
    eps : list nat           (* [ep] at each arrival recorded in [seen] (same length, same order) *)
  }.

  Definition with_disk (f : disk -> disk) (s : st) : st :=
    {| dsk := f (dsk s); eng := eng s; flt := flt s; seen := seen s; hk := hk s;
       ep := ep s; eps := eps s |}.
  (* rd.setStream(e): one more publication *)
  Definition with_eng (e : engine) (s : st) : st :=
    {| dsk := dsk s; eng := e; flt := flt s; seen := seen s; hk := hk s;
       ep := S (ep s); eps := eps s |}.
  Definition observe (s : st) : st :=
    {| dsk := dsk s; eng := eng s; flt := flt s; seen := eng s :: seen s; hk := hk s;
       ep := ep s; eps := ep s :: eps s |}.

  (* a primitive step: an arrival point, and a point where the oracle may strike *)
  Definition prim (hook : bool) (s : st) : bool * st :=
    let '(fired, f') := tick hook (flt s) in
    (fired, {| dsk := dsk s; eng := eng s; flt := f'; seen := eng s :: seen s;
               hk := if hook then S (hk s) else hk s;
               ep := ep s; eps := ep s :: eps s |}).

  (* cleanUpFile (hook = true) / a bare os.Remove (hook = false) *)
  Definition p_remove (hook : bool) (p : path) (s : st) : bool * st :=
    let '(fired, s1) := prim hook s in
    if fired then (false, s1) else (true, with_disk (del p) s1).

  (* p is a directory that holds files *)
  Definition is_dir (p : path) (d : disk) : bool :=
    existsb (fun e => negb (path_eqb p (fst e)) && under p (fst e)) d.
  (* a regular file stands where p needs a directory *)
  Definition file_above (p : path) (d : disk) : bool :=
    existsb (fun e => negb (path_eqb p (fst e)) && under (fst e) p) d.

  (* storeFileOnDisk *)
  Definition store (p : path) (c : B) (s : st) : bool * st :=
    let '(f0, s0) := prim true s in              (* the call itself (verifhook fs.store) *)
    if f0 then (false, s0) else
    let '(_, s1) := p_remove true p s0 in        (* _ = cleanUpFile(p): its error is ignored
                                                    (os.Remove fails on a directory that holds files) *)
    let '(f2, s2) := prim false s1 in            (* os.MkdirAll: ENOTDIR when a file is in the way *)
    if f2 || file_above p (dsk s2) then (false, s2) else
    let '(f3, s3) := prim false s2 in            (* os.Create: truncates; EISDIR on a directory *)
    if f3 || is_dir p (dsk s3) then (false, s3) else
    let '(f4, s4) := prim false (with_disk (set p empty) s3) in   (* file.Write *)
    if f4 then (false, with_disk (set p garbage) s4)
    else (true, with_disk (set p c) s4).

  Fixpoint store_all (l : disk) (s : st) : bool * st :=
    match l with
    | [] => (true, s)
    | (p, c) :: r =>
        let '(ok, s1) := store p c s in
        if ok then store_all r s1 else (false, s1)
    end.

  Fixpoint remove_all (hook : bool) (l : list path) (s : st) : bool * st :=
    match l with
    | [] => (true, s)
    | p :: r =>
        let '(ok, s1) := p_remove hook p s in
        if ok then remove_all hook r s1 else (false, s1)
    end.

  (* Restore (fixed): the files that did not exist at backup time are removed,
     then the files whose backed-up digest differs from the current one (or
     that are gone) are written back ([sf = true]: fix-F-C08j; [sf = false]:
     the other way round, as it was); both lists are computed from one scan of
     the disk taken first; the first error aborts *)
  Definition restore (sf : bool) (hint : list path) (bk : disk) (s : st) : bool * st :=
    let '(f, s1) := prim false s in              (* createFileSystemBackUp: reads *)
    if f then (false, s1) else
    let cur := snapshot (dsk s1) in
    let todo := filter (fun e => negb (same_digest (lookup (fst e) cur) (snd e))) bk in
    let strays := filter (fun e => negb (has_key (fst e) bk)) cur in
    if sf then
      let '(ok, s2) := remove_all true (arrange (fun p => p) (skipn (hk s1) hint) (map fst strays)) s1 in
      if ok then store_all (arrange fst (skipn (hk s2) hint) todo) s2
      else (false, s2)
    else
      let '(ok, s2) := store_all (arrange fst (skipn (hk s1) hint) todo) s1 in
      if ok then remove_all true (arrange (fun p => p) (skipn (hk s2) hint) (map fst strays)) s2
      else (false, s2).

  (* CleanAll: os.Remove on every file below the three directories (no hook
     there), then cleanUpFile on the two single files *)
  Definition clean_all (hint : list path) (s : st) : bool * st :=
    let files := filter in_directory (map fst (snapshot (dsk s))) in
    let '(ok, s1) := remove_all false files s in
    if ok then remove_all true (arrange (fun p => p) (skipn (hk s1) hint) [gateway_file; metrics_file]) s1
    else (false, s1).

  (* initializeStreams (fixed): the pointer is switched after Initialize() *)
  Definition initialize_streams (s : st) : bool * st :=
    let '(f0, s0) := prim false s in             (* streams.NewStream *)
    if f0 then (false, s0) else
    let '(f1, s1) := prim true s0 in             (* stream.Initialize (verifhook engine.init) *)
    if f1 then (false, s1) else
    let s2 := observe (with_eng (EBuilt (dsk s1)) s1) in   (* rd.stream = stream; yield point *)
    let '(f3, s3) := prim false s2 in            (* WaitForProxyHealthcheck *)
    if f3 then (false, s3) else
    let '(f4, s4) := prim false s3 in            (* ManageHAProxyEndpoints *)
    if f4 then (false, s4) else (true, s4).

  (* reloadFlows *)
  Definition reload (s : st) : bool * st :=
    let '(f0, s0) := prim false s in             (* dry-run validation *)
    if f0 || negb (valid (dsk s0)) then (false, s0) else
    let '(ok, s1) := initialize_streams s0 in
    if ok then
      let '(f2, s2) := prim false s1 in          (* metricManager.ReloadMetricsConfig *)
      if f2 || negb (metrics_ok (dsk s2)) then (false, s2) else (true, s2)
    else (false, s1).

  Record entry := {
    e_field : field;        (* which field of the payload it came from *)
    e_target : path;        (* filepath.Join(directory, name), cleaned (directories only) *)
    e_content : B;
    e_decodable : bool      (* the base64 text decodes *)
  }.

  Definition target (e : entry) : path :=
    match e_field e with
    | FGateway => gateway_file
    | FMetrics => metrics_file     (* fix F-C08d: the path the snapshot covers *)
    | _ => e_target e
    end.

  (* filePathInDirectory (fix F-C08e): the joined, cleaned path is not a file
     below the directory of its field.  [e_target] is that path, classified by
     the place it lies in, so the name stays inside iff the area is the
     field's own directory (the directory itself and everything else
     classify as another area) *)
  Definition dir_area (f : field) : option area :=
    match f with
    | FFlows => Some AFlows | FQuotas => Some AQuotas | FPathParams => Some APathParams
    | FGateway | FMetrics => None
    end.

  Definition escapes (e : entry) : bool :=
    match dir_area (e_field e) with
    | Some a => negb (area_eqb (fst (e_target e)) a)
    | None => false
    end.

  Definition names_escape (pl : list entry) : bool := existsb escapes pl.

  (* a file to save: where, what, and whether its name leaves its directory *)
  Definition item := (path * B * bool)%type.
  Definition ikey (x : item) : path := fst (fst x).

  (* the save of [x] is refused *)
  Definition refused (fixed : bool) (x : item) : bool := fixed && snd x.

  Definition items_of (f : field) (pl : list entry) : list item :=
    map (fun e => (target e, e_content e, escapes e)) (filter (fun e => field_eqb (e_field e) f) pl).

  Definition hinted (hint : list path) (x : item) : bool := existsb (path_eqb (ikey x)) hint.

  (* the order in which the files of one field are met: those that made hook
     calls in the order of these calls, then the refused ones (the first of
     them ends the save), then the files that were never reached.  Without
     refusals this is [arrange ikey hint items]. *)
  Definition order_field (fixed : bool) (hint : list path) (items : list item) : list item :=
    arrange ikey hint (filter (fun x => negb (refused fixed x) && hinted hint x) items)
    ++ filter (refused fixed) items
    ++ filter (fun x => negb (refused fixed x) && negb (hinted hint x)) items.

  (* SavePayloadContentToDisk: field by field, files of a field in map order *)
  Definition plan (fixed : bool) (hint : list path) (pl : list entry) : list item :=
    flat_map (fun f => order_field fixed hint (items_of f pl)) fields.

  (* a refused name: SaveFlow/SaveQuota/SavePathParams return the error of
     filePathInDirectory; storeFileOnDisk is not called (no hook call, no
     primitive step, nothing written); the loops return at the first error *)
  Fixpoint save_all (fixed : bool) (l : list item) (s : st) : bool * st :=
    match l with
    | [] => (true, s)
    | x :: r =>
        if refused fixed x then (false, s) else
        let '(ok, s1) := store (ikey x) (snd (fst x)) s in
        if ok then save_all fixed r s1 else (false, s1)
    end.

  Record request := {
    r_handler : handler;
    r_method_ok : bool;      (* PUT *)
    r_body_ok : bool;        (* the body is a JSON object *)
    r_payload : list entry
  }.

  Definition rollback (sf : bool) (hint : list path) (bk : disk) (with_reload : bool) (s : st) : result * st :=
    let '(ok1, s1) := restore sf hint bk s in
    if with_reload then
      let '(ok2, s2) := reload s1 in             (* runs whatever Restore returned *)
      (if ok1 && ok2 then Failed else RollbackFailed, s2)
    else (if ok1 then Failed else RollbackFailed, s1).

  Definition update (fixed sf : bool) (hs hint : list path) (rq : request) (s : st) : result * st :=
    if negb (r_method_ok rq) then (Failed, s) else          (* 405 (fix F-C08f: and return) *)
    if negb (r_body_ok rq) then (Failed, s) else            (* 400 *)
    let '(f0, s0) := prim false s in                        (* Backup: reads *)
    if f0 then (Failed, s0) else
    let bk := snapshot (dsk s0) in
    if negb (forallb e_decodable (r_payload rq)) then (Failed, s0) else   (* ParsePayload *)
    let '(okc, s1) := match r_handler rq with
                      | HApplyFlows => clean_all hs s0
                      | HConfiguration => (true, s0)
                      end in
    if okc then
      let '(oks, s2) := save_all fixed (plan fixed (skipn (hk s1) hs) (r_payload rq)) s1 in
      if oks then
        let '(okr, s3) := reload s2 in
        if okr then (Ok, s3) else rollback sf hint bk true s3
      else rollback sf hint bk false s2
    else rollback sf hint bk false s1.

  (* the gateway runs the engine built from the configuration on disk *)
  Definition init_state (d : disk) (f : fault) : st :=
    {| dsk := d; eng := EBuilt d; flt := f; seen := []; hk := 0; ep := 0; eps := [] |}.

  Definition run (fixed sf : bool) (hs hint : list path) (rq : request) (d : disk) (f : fault) : result * st :=
    update fixed sf hs hint rq (init_state d f).

  (* ---- the name check as a parameter ------------------------------------
     [escapes] is the check of the gateway: filepath.Rel semantics, a name is
     accepted iff its cleaned join lies strictly below the directory, element
     by element (NameCheck.v: [rel_check_iff_strictly_inside]).  A weaker
     check overlooks some of the names that leave the directory; the one that
     compares the joined path with the directory as STRINGS (strings.HasPrefix)
     overlooks exactly the siblings whose name starts with the directory's
     name (cfg/flows-disabled next to cfg/flows; NameCheck.v:
     [prefix_check_accepts_a_sibling]).  [lax p] = the check in force does not
     see that the outside path [p] has left the directory.  [update_by esc] /
     [run_by esc] are [update] / [run] with the verdict [esc] of the name check
     in place of [escapes] ([update_by escapes = update] by computation). *)
  Definition seen_by (lax : path -> bool) (e : entry) : bool :=
    escapes e && negb (lax (e_target e)).

  Definition items_of_by (esc : entry -> bool) (f : field) (pl : list entry) : list item :=
    map (fun e => (target e, e_content e, esc e)) (filter (fun e => field_eqb (e_field e) f) pl).

  Definition plan_by (esc : entry -> bool) (fixed : bool) (hint : list path) (pl : list entry) : list item :=
    flat_map (fun f => order_field fixed hint (items_of_by esc f pl)) fields.

  Definition update_by (esc : entry -> bool) (fixed sf : bool) (hs hint : list path) (rq : request) (s : st) : result * st :=
    if negb (r_method_ok rq) then (Failed, s) else
    if negb (r_body_ok rq) then (Failed, s) else
    let '(f0, s0) := prim false s in
    if f0 then (Failed, s0) else
    let bk := snapshot (dsk s0) in
    if negb (forallb e_decodable (r_payload rq)) then (Failed, s0) else
    let '(okc, s1) := match r_handler rq with
                      | HApplyFlows => clean_all hs s0
                      | HConfiguration => (true, s0)
                      end in
    if okc then
      let '(oks, s2) := save_all fixed (plan_by esc fixed (skipn (hk s1) hs) (r_payload rq)) s1 in
      if oks then
        let '(okr, s3) := reload s2 in
        if okr then (Ok, s3) else rollback sf hint bk true s3
      else rollback sf hint bk false s2
    else rollback sf hint bk false s1.

  Definition run_by (esc : entry -> bool) (fixed sf : bool) (hs hint : list path) (rq : request) (d : disk) (f : fault) : result * st :=
    update_by esc fixed sf hs hint rq (init_state d f).

  (* every engine a transaction can have met, the final one included *)
  Definition arrivals (s : st) : list engine := eng s :: seen s.

  (* A transaction that is proxied to the upstream has two phases: the gateway
     handles its request when it arrives (lunar-on-request) and its response
     when the upstream has answered (lunar-on-response).  Each phase reads
     rd.getStream() on its own (routing/messages_handler.go processRequest /
     processResponse): nothing ties the response phase to the engine that ran
     the request phase.
     [timeline]: what a phase arriving at each point of the run meets, in
     chronological order: (number of publications so far, engine).
     [transactions]: every (request-phase arrival, response-phase arrival)
     with the response not before the request. *)
  Definition epochs (s : st) : list nat := ep s :: eps s.
  Definition timeline (s : st) : list (nat * engine) := rev (combine (epochs s) (arrivals s)).

  Definition transactions (s : st) : list ((nat * engine) * (nat * engine)) := spans (timeline s).

  (* the configuration the payload describes: the files it names, applied in
     the order the fields are saved, to what the handler starts from *)
  Definition base (h : handler) (d : disk) : disk :=
    match h with
    | HConfiguration => d
    | HApplyFlows => filter (fun e => negb (covered (fst e))) d
    end.

  Definition new_disk (fixed : bool) (hint : list path) (rq : request) (d : disk) : disk :=
    apply_list (map fst (plan fixed hint (r_payload rq))) (base (r_handler rq) d).

  Definition targets_covered (pl : list entry) : bool :=
    forallb (fun e => covered (target e)) pl.

  (* the disk is a tree: no file lies below another file *)
  Definition tree (d : disk) : Prop :=
    forall p q, lookup p d <> None -> lookup q d <> None -> under p q = false.

  (* [tree], decided: every ordered pair of listed paths (a path with itself
     included, as in [tree]) -- reflection lemma TreeCheck.treeb_spec *)
  Definition treeb (d : disk) : bool :=
    forallb (fun e => forallb (fun e' => negb (under (fst e) (fst e'))) d) d.

  (* no path is listed twice (TreeCheck.distinct_keysb_spec: NoDup of the keys) *)
  Fixpoint distinct_keysb (d : disk) : bool :=
    match d with
    | [] => true
    | e :: r => negb (has_key (fst e) r) && distinct_keysb r
    end.

  (* a payload file whose name makes a file of a directory or a directory of a
     file: its target lies below, or above, a file of the disk or another
     target of the payload *)
  Definition type_conflict (pl : list entry) (d : disk) : bool :=
    existsb (fun e => existsb (fun q => negb (path_eqb (target e) q) &&
                                        (under (target e) q || under q (target e)))
                              (map fst d ++ map target pl)) pl.

End Model.

Arguments lookup {B}.
Arguments del {B}.
Arguments set {B}.
Arguments normalize {B}.
Arguments snapshot {B}.
Arguments EEmpty {B}.
Arguments EBuilt {B}.
Arguments dsk {B}.
Arguments eng {B}.
Arguments flt {B}.
Arguments seen {B}.
Arguments hk {B}.
Arguments ep {B}.
Arguments eps {B}.
Arguments epochs {B}.
Arguments timeline {B}.
Arguments transactions {B}.
Arguments e_field {B}.
Arguments e_target {B}.
Arguments e_content {B}.
Arguments e_decodable {B}.
Arguments target {B}.
Arguments r_handler {B}.
Arguments r_method_ok {B}.
Arguments r_body_ok {B}.
Arguments r_payload {B}.
Arguments arrivals {B}.
Arguments targets_covered {B}.
Arguments escapes {B}.
Arguments names_escape {B}.
Arguments seen_by {B}.
Arguments base {B}.
Arguments is_dir {B}.
Arguments file_above {B}.
Arguments tree {B}.
Arguments treeb {B}.
Arguments distinct_keysb {B}.
Arguments type_conflict {B}.

(* ---------------------------------------------------------------- correspondence *)

Definition area_of_N (n : N) : area :=
  match n with
  | 0 => AFlows | 1 => AQuotas | 2 => APathParams | 3 => AGateway
  | 4 => AMetricsUser | 5 => AMetricsDefault | _ => AOutside
  end%N.

Definition field_of_N (n : N) : field :=
  match n with
  | 0 => FFlows | 1 => FQuotas | 2 => FPathParams | 3 => FGateway | _ => FMetrics
  end%N.

Definition cpath := (N * N)%type.
Definition path_of (p : cpath) : path := (area_of_N (fst p), snd p).

Definition case := (
  (N * bool * bool) *
  list (cpath * N) *
  list (N * cpath * N * bool) *
  (list N * list N) *
  option nat *
  (list cpath * list cpath) *
  (bool * list (cpath * N) * list (list (N * N))) *
  list (bool * list (N * N) * list (N * N)) *
  list (cpath * cpath))%type.

Definition memN (x : N) (l : list N) : bool := existsb (N.eqb x) l.

(* validation fails iff a file of the flows, quotas, path-params directories
   or the gateway file (the places the loader reads: [covered]) has one of the
   listed contents *)
Definition c_valid (bad : list N) (d : disk N) : bool :=
  forallb (fun e => if covered (fst e) then
                      match fst (fst e) with
                      | AFlows | AQuotas | APathParams | AGateway => negb (memN (snd e) bad)
                      | _ => true
                      end
                    else true) (normalize d).

(* the metrics reload reads the user metrics file when it exists *)
Definition c_metrics_ok (bad : list N) (d : disk N) : bool :=
  match lookup metrics_file d with
  | Some c => negb (memN c bad)
  | None => true
  end.

(* what probe transactions see of an engine: which flow file contents it runs *)
Definition view_of (e : engine N) : list (N * N) :=
  match e with
  | EEmpty => []
  | EBuilt cfg =>
      flat_map (fun x => match fst (fst x) with
                         | AFlows => [(snd (fst x), snd x)]
                         | _ => []
                         end) (normalize cfg)
  end.

Definition pairN_eqb (a b : N * N) : bool := N.eqb (fst a) (fst b) && N.eqb (snd a) (snd b).
Definition incl_b (a b : list (N * N)) : bool := forallb (fun x => existsb (pairN_eqb x) b) a.
Definition view_eqb (a b : list (N * N)) : bool := incl_b a b && incl_b b a.

Fixpoint compress (l : list (list (N * N))) : list (list (N * N)) :=
  match l with
  | [] => []
  | v :: r =>
      match compress r with
      | [] => [v]
      | w :: r' => if view_eqb v w then w :: r' else v :: w :: r'
      end
  end.

Fixpoint views_eqb (a b : list (list (N * N))) : bool :=
  match a, b with
  | [], [] => true
  | v :: a', w :: b' => view_eqb v w && views_eqb a' b'
  | _, _ => false
  end.

Definition disk_incl_b (a b : disk N) : bool :=
  forallb (fun e => match lookup (fst e) b with
                    | Some c => N.eqb c (snd e)
                    | None => false
                    end) a.
Definition disk_eqb (a b : disk N) : bool :=
  disk_incl_b (normalize a) b && disk_incl_b (normalize b) a.

Definition c_disk (l : list (cpath * N)) : disk N :=
  map (fun e => (path_of (fst e), snd e)) l.

Definition result_code (r : result) : N :=
  match r with Ok => 0 | Failed => 1 | RollbackFailed => 2 end%N.

(* two-phase transactions, as probes see them: was an engine published
   between the request phase and the response phase, what served each phase *)
Definition span_obs := (bool * list (N * N) * list (N * N))%type.

Definition tview_eqb (a b : nat * list (N * N)) : bool :=
  Nat.eqb (fst a) (fst b) && view_eqb (snd a) (snd b).

Fixpoint tcompress (l : list (nat * list (N * N))) : list (nat * list (N * N)) :=
  match l with
  | [] => []
  | v :: r =>
      match tcompress r with
      | [] => [v]
      | w :: r' => if tview_eqb v w then w :: r' else v :: w :: r'
      end
  end.

Definition span_obs_eqb (a b : span_obs) : bool :=
  Bool.eqb (fst (fst a)) (fst (fst b)) && view_eqb (snd (fst a)) (snd (fst b)) && view_eqb (snd a) (snd b).

Definition span_of (t : (nat * list (N * N)) * (nat * list (N * N))) : span_obs :=
  (negb (Nat.eqb (fst (fst t)) (fst (snd t))), snd (fst t), snd (snd t)).

(* every (request phase, response phase) pair the run allows *)
Definition model_spans (s : st N) : list span_obs :=
  map span_of (spans (tcompress (map (fun x => (fst x, view_of (snd x))) (timeline s)))).

(* the transaction that spans the whole update *)
Definition whole_span (s : st N) : list span_obs :=
  match timeline s with
  | [] => []
  | x :: r => [span_of ((fst x, view_of (snd x)), (fst (last r x), view_of (snd (last r x))))]
  end.

(* the tree structure of the paths of a case, as the harness computed it from
   the absolute paths: (p, q) is listed iff q lies below p *)
Definition c_under (pairs : list (cpath * cpath)) (p q : path) : bool :=
  existsb (fun x => path_eqb (path_of (fst x)) p && path_eqb (path_of (snd x)) q) pairs.

(* the comparison proper; [run_case] below evaluates it only on a case whose
   [before] disk is a tree *)
Definition run_case_on_tree (k : case) : option (N * disk N * list (list (N * N)) * list span_obs) :=
  let '(hd, before, payload, bads, fault, hints, obs, obs_spans, pairs) := k in
  let '(hs, hint) := hints in
  let '(h, method_ok, body_ok) := hd in
  let '(bad, badm) := bads in
  let '(obs_ok, obs_after, obs_views) := obs in
  let rq := {| r_handler := match h with 0%N => HConfiguration | _ => HApplyFlows end;
               r_method_ok := method_ok; r_body_ok := body_ok;
               r_payload := map (fun e => let '(f, t, c, dec) := e in
                                          {| e_field := field_of_N f; e_target := path_of t;
                                             e_content := c; e_decodable := dec |}) payload |} in
  let f := match fault with None => NoFault | Some n => AtHook n end in
  let '(r, s) := run N N (fun c => c) N.eqb 0%N 0%N (c_under pairs) (c_valid bad) (c_metrics_ok badm)
                     true true (map path_of hs) (map path_of hint) rq (c_disk before) f in
  let views := compress (map view_of (rev (arrivals s))) in
  let mspans := model_spans s in
  if Bool.eqb obs_ok (match r with Ok => true | _ => false end)
     && disk_eqb (c_disk obs_after) (dsk s)
     && views_eqb obs_views views
     (* every observed two-phase transaction is one the model allows, and the
        one spanning the whole update was observed *)
     && forallb (fun o => existsb (span_obs_eqb o) mspans) obs_spans
     && forallb (fun w => existsb (span_obs_eqb w) obs_spans) (whole_span s)
  then None
  else Some (result_code r, normalize (dsk s), views, mspans).

(* the [before] disk of a case is a file system: no path listed twice, no file
   below another file (under the tree structure [pairs] of the same case) *)
Definition case_before_ok (k : case) : bool :=
  let '(_, before, _, _, _, _, _, _, pairs) := k in
  distinct_keysb (c_disk before) && treeb (c_under pairs) (c_disk before).

(* what every shard of the suite evaluates.  A case whose [before] disk is not
   a tree is a mismatch whatever the gateway did (result code 3, nothing
   else): the hypothesis [tree] of the disk theorems is enforced per case
   (C08_accepted_case_disk_is_a_tree), not trusted. *)
Definition run_case (k : case) : option (N * disk N * list (list (N * N)) * list span_obs) :=
  if case_before_ok k then run_case_on_tree k else Some (3%N, [], [], []).
