(* C08 -- a fault that never fires changes nothing.
   The fault oracle is single-shot: [tick] turns it into [NoFault] exactly when
   it fires, and only [prim] reads or writes the field [flt].  So a run that
   ENDS with its oracle unconsumed ([flt s' <> NoFault]: the step / hook index
   lies beyond the end of the run) made every decision the run without fault
   makes: same result, same final state up to the field [flt] itself
   ([fault_beyond_end]).  Hence in every theorem that concludes [f <> NoFault]
   (C08_rollback_fails_only_after_two_failures) the fault can be read as one
   that fired.  Lemmas only; the final statements are in Property.v. *)
From Coq Require Import List Bool Arith.
From Verif Require Import C08.Model.
Import ListNotations.

Lemma tick_beyond hook f fired f' :
  tick hook f = (fired, f') -> f' <> NoFault -> f <> NoFault /\ fired = false.
Proof.
  destruct f as [|[|n]|[|k]]; cbn; try destruct hook; intro H; inversion H; subst; intro N;
    split; congruence.
Qed.

Section Beyond.
  Context {B D : Type}.
  Variable digest : B -> D.
  Variable D_eqb : D -> D -> bool.
  Variable empty garbage : B.
  Variable under : path -> path -> bool.
  Variable valid metrics_ok : disk B -> bool.

  Notation st := (st B).
  Notation prim := (prim B).
  Notation p_remove := (p_remove B).
  Notation store := (store B empty garbage under).
  Notation store_all := (store_all B empty garbage under).
  Notation remove_all := (remove_all B).
  Notation restore := (restore B D digest D_eqb empty garbage under).
  Notation clean_all := (clean_all B).
  Notation initialize_streams := (initialize_streams B).
  Notation reload := (reload B valid metrics_ok).
  Notation rollback := (rollback B D digest D_eqb empty garbage under valid metrics_ok).
  Notation update := (update B D digest D_eqb empty garbage under valid metrics_ok).
  Notation save_all := (save_all B empty garbage under).
  Notation run := (run B D digest D_eqb empty garbage under valid metrics_ok).

  (* the same state with the oracle switched off *)
  Definition unflt (s : st) : st :=
    {| dsk := dsk s; eng := eng s; flt := NoFault; seen := seen s; hk := hk s;
       ep := ep s; eps := eps s |}.

  (* an action that ends with the oracle unconsumed started with it
     unconsumed, and does the same with the oracle switched off *)
  Definition beyond {X : Type} (F : st -> X * st) : Prop :=
    forall s x s', F s = (x, s') -> flt s' <> NoFault ->
                   flt s <> NoFault /\ F (unflt s) = (x, unflt s').

  Lemma prim_beyond hook s fired s1 :
    prim hook s = (fired, s1) -> flt s1 <> NoFault ->
    flt s <> NoFault /\ fired = false /\ prim hook (unflt s) = (false, unflt s1).
  Proof.
    unfold Model.prim. destruct (tick hook (flt s)) as [fr f'] eqn:T.
    intro H; inversion H; subst; clear H. cbn [flt]. intro N.
    destruct (tick_beyond _ _ _ _ T N) as [N0 ->].
    split; [exact N0|]. split; reflexivity.
  Qed.

  Ltac step E := rewrite E; cbn beta iota; cbn [dsk hk unflt].

  Lemma p_remove_beyond hook p : beyond (p_remove hook p).
  Proof.
    intros s ok s'. unfold Model.p_remove.
    destruct (prim hook s) as [f0 s0] eqn:P0.
    destruct f0; intro H; inversion H; subst; clear H; cbn [flt with_disk]; intro N;
      destruct (prim_beyond _ _ _ _ P0 N) as (N0 & F0 & E0); [discriminate|].
    split; [exact N0|]. rewrite E0. reflexivity.
  Qed.

  Lemma store_beyond p c : beyond (store p c).
  Proof.
    intros s ok s'. unfold Model.store.
    destruct (prim true s) as [f0 s0] eqn:P0.
    destruct f0.
    { intro H; inversion H; subst; clear H. intro N.
      destruct (prim_beyond _ _ _ _ P0 N) as (_ & X & _); discriminate. }
    destruct (p_remove true p s0) as [o1 s1] eqn:P1.
    destruct (prim false s1) as [f2 s2] eqn:P2.
    destruct (f2 || file_above under p (dsk s2)) eqn:C2.
    { intro H; inversion H; subst; clear H. intro N.
      destruct (prim_beyond _ _ _ _ P2 N) as (N1 & -> & E2).
      destruct (p_remove_beyond _ _ _ _ _ P1 N1) as (N0 & E1).
      destruct (prim_beyond _ _ _ _ P0 N0) as (Ns & _ & E0).
      split; [exact Ns|]. step E0. step E1. step E2. rewrite C2. reflexivity. }
    destruct (prim false s2) as [f3 s3] eqn:P3.
    destruct (f3 || is_dir under p (dsk s3)) eqn:C3.
    { intro H; inversion H; subst; clear H. intro N.
      destruct (prim_beyond _ _ _ _ P3 N) as (N2 & -> & E3).
      destruct (prim_beyond _ _ _ _ P2 N2) as (N1 & -> & E2).
      destruct (p_remove_beyond _ _ _ _ _ P1 N1) as (N0 & E1).
      destruct (prim_beyond _ _ _ _ P0 N0) as (Ns & _ & E0).
      split; [exact Ns|]. step E0. step E1. step E2. rewrite C2. step E3. rewrite C3. reflexivity. }
    destruct (prim false (with_disk B (set p empty) s3)) as [f4 s4] eqn:P4.
    intro H. intro N.
    assert (N4 : flt s4 <> NoFault) by (destruct f4; inversion H; subst; exact N).
    destruct (prim_beyond _ _ _ _ P4 N4) as (N3 & -> & E4). cbn [flt with_disk] in N3.
    inversion H; subst; clear H.
    destruct (prim_beyond _ _ _ _ P3 N3) as (N2 & -> & E3).
    destruct (prim_beyond _ _ _ _ P2 N2) as (N1 & -> & E2).
    destruct (p_remove_beyond _ _ _ _ _ P1 N1) as (N0 & E1).
    destruct (prim_beyond _ _ _ _ P0 N0) as (Ns & _ & E0).
    split; [exact Ns|]. step E0. step E1. step E2. rewrite C2. step E3. rewrite C3.
    change (with_disk B (set p empty) (unflt s3)) with (unflt (with_disk B (set p empty) s3)).
    step E4. reflexivity.
  Qed.

  Lemma store_all_beyond l : beyond (store_all l).
  Proof.
    induction l as [|[p c] r IH]; intros s ok s'; cbn [Model.store_all].
    - intro H; inversion H; subst. intro N. split; [exact N|reflexivity].
    - destruct (store p c s) as [o s1] eqn:P. destruct o.
      + intros H N. destruct (IH _ _ _ H N) as [N1 E].
        destruct (store_beyond _ _ _ _ _ P N1) as [N0 E0].
        split; [exact N0|]. rewrite E0. exact E.
      + intro H; inversion H; subst; clear H. intro N.
        destruct (store_beyond _ _ _ _ _ P N) as [N0 E0].
        split; [exact N0|]. rewrite E0. reflexivity.
  Qed.

  Lemma remove_all_beyond hook l : beyond (remove_all hook l).
  Proof.
    induction l as [|p r IH]; intros s ok s'; cbn [Model.remove_all].
    - intro H; inversion H; subst. intro N. split; [exact N|reflexivity].
    - destruct (p_remove hook p s) as [o s1] eqn:P. destruct o.
      + intros H N. destruct (IH _ _ _ H N) as [N1 E].
        destruct (p_remove_beyond _ _ _ _ _ P N1) as [N0 E0].
        split; [exact N0|]. rewrite E0. exact E.
      + intro H; inversion H; subst; clear H. intro N.
        destruct (p_remove_beyond _ _ _ _ _ P N) as [N0 E0].
        split; [exact N0|]. rewrite E0. reflexivity.
  Qed.

  Lemma save_all_beyond fixed l : beyond (save_all fixed l).
  Proof.
    induction l as [|x r IH]; intros s ok s'; cbn [Model.save_all].
    - intro H; inversion H; subst. intro N. split; [exact N|reflexivity].
    - destruct (refused B fixed x).
      { intro H; inversion H; subst. intro N. split; [exact N|reflexivity]. }
      destruct (store (ikey B x) (snd (fst x)) s) as [o s1] eqn:P. destruct o.
      + intros H N. destruct (IH _ _ _ H N) as [N1 E].
        destruct (store_beyond _ _ _ _ _ P N1) as [N0 E0].
        split; [exact N0|]. rewrite E0. exact E.
      + intro H; inversion H; subst; clear H. intro N.
        destruct (store_beyond _ _ _ _ _ P N) as [N0 E0].
        split; [exact N0|]. rewrite E0. reflexivity.
  Qed.

  Lemma restore_beyond sf hint bk : beyond (restore sf hint bk).
  Proof.
    intros s ok s'. unfold Model.restore.
    destruct (prim false s) as [f0 s0] eqn:P0.
    destruct f0.
    { intro H; inversion H; subst; clear H. intro N.
      destruct (prim_beyond _ _ _ _ P0 N) as (_ & X & _); discriminate. }
    destruct sf.
    - destruct (remove_all true _ s0) as [o1 s1] eqn:P1. destruct o1.
      + intros H N. destruct (store_all_beyond _ _ _ _ H N) as [N1 E2].
        destruct (remove_all_beyond _ _ _ _ _ P1 N1) as [N0 E1].
        destruct (prim_beyond _ _ _ _ P0 N0) as (Ns & _ & E0).
        split; [exact Ns|]. step E0. step E1. exact E2.
      + intro H; inversion H; subst; clear H. intro N.
        destruct (remove_all_beyond _ _ _ _ _ P1 N) as [N0 E1].
        destruct (prim_beyond _ _ _ _ P0 N0) as (Ns & _ & E0).
        split; [exact Ns|]. step E0. step E1. reflexivity.
    - destruct (store_all _ s0) as [o1 s1] eqn:P1. destruct o1.
      + intros H N. destruct (remove_all_beyond _ _ _ _ _ H N) as [N1 E2].
        destruct (store_all_beyond _ _ _ _ P1 N1) as [N0 E1].
        destruct (prim_beyond _ _ _ _ P0 N0) as (Ns & _ & E0).
        split; [exact Ns|]. step E0. step E1. exact E2.
      + intro H; inversion H; subst; clear H. intro N.
        destruct (store_all_beyond _ _ _ _ P1 N) as [N0 E1].
        destruct (prim_beyond _ _ _ _ P0 N0) as (Ns & _ & E0).
        split; [exact Ns|]. step E0. step E1. reflexivity.
  Qed.

  Lemma clean_all_beyond hint : beyond (clean_all hint).
  Proof.
    intros s ok s'. unfold Model.clean_all.
    destruct (remove_all false _ s) as [o1 s1] eqn:P1. destruct o1.
    - intros H N. destruct (remove_all_beyond _ _ _ _ _ H N) as [N1 E2].
      destruct (remove_all_beyond _ _ _ _ _ P1 N1) as [N0 E1].
      split; [exact N0|]. cbn [dsk unflt]. step E1. exact E2.
    - intro H; inversion H; subst; clear H. intro N.
      destruct (remove_all_beyond _ _ _ _ _ P1 N) as [N0 E1].
      split; [exact N0|]. cbn [dsk unflt]. step E1. reflexivity.
  Qed.

  Lemma initialize_streams_beyond : beyond initialize_streams.
  Proof.
    intros s ok s'. unfold Model.initialize_streams.
    destruct (prim false s) as [f0 s0] eqn:P0.
    destruct f0.
    { intro H; inversion H; subst; clear H. intro N.
      destruct (prim_beyond _ _ _ _ P0 N) as (_ & X & _); discriminate. }
    destruct (prim true s0) as [f1 s1] eqn:P1.
    destruct f1.
    { intro H; inversion H; subst; clear H. intro N.
      destruct (prim_beyond _ _ _ _ P1 N) as (_ & X & _); discriminate. }
    destruct (prim false (observe B (with_eng B (EBuilt (dsk s1)) s1))) as [f3 s3] eqn:P3.
    destruct f3.
    { intro H; inversion H; subst; clear H. intro N.
      destruct (prim_beyond _ _ _ _ P3 N) as (_ & X & _); discriminate. }
    destruct (prim false s3) as [f4 s4] eqn:P4.
    intros H N.
    assert (N4 : flt s4 <> NoFault) by (destruct f4; inversion H; subst; exact N).
    destruct (prim_beyond _ _ _ _ P4 N4) as (N3 & -> & E4).
    inversion H; subst; clear H.
    destruct (prim_beyond _ _ _ _ P3 N3) as (N2 & _ & E3). cbn [flt observe with_eng] in N2.
    destruct (prim_beyond _ _ _ _ P1 N2) as (N1 & _ & E1).
    destruct (prim_beyond _ _ _ _ P0 N1) as (Ns & _ & E0).
    split; [exact Ns|]. step E0. step E1.
    change (observe B (with_eng B (EBuilt (dsk s1)) (unflt s1)))
      with (unflt (observe B (with_eng B (EBuilt (dsk s1)) s1))).
    step E3. step E4. reflexivity.
  Qed.

  Lemma reload_beyond : beyond reload.
  Proof.
    intros s ok s'. unfold Model.reload.
    destruct (prim false s) as [f0 s0] eqn:P0.
    destruct (f0 || negb (valid (dsk s0))) eqn:C0.
    { intro H; inversion H; subst; clear H. intro N.
      destruct (prim_beyond _ _ _ _ P0 N) as (Ns & -> & E0).
      split; [exact Ns|]. step E0. rewrite C0. reflexivity. }
    destruct (initialize_streams s0) as [o1 s1] eqn:P1. destruct o1.
    - destruct (prim false s1) as [f2 s2] eqn:P2.
      intros H N.
      assert (N2 : flt s2 <> NoFault)
        by (destruct (f2 || negb (metrics_ok (dsk s2))); inversion H; subst; exact N).
      destruct (prim_beyond _ _ _ _ P2 N2) as (N1 & -> & E2).
      destruct (initialize_streams_beyond _ _ _ P1 N1) as (N0 & E1).
      destruct (prim_beyond _ _ _ _ P0 N0) as (Ns & -> & E0).
      split; [exact Ns|]. step E0. rewrite C0. step E1. step E2.
      destruct (false || negb (metrics_ok (dsk s2))); inversion H; subst; reflexivity.
    - intro H; inversion H; subst; clear H. intro N.
      destruct (initialize_streams_beyond _ _ _ P1 N) as (N0 & E1).
      destruct (prim_beyond _ _ _ _ P0 N0) as (Ns & -> & E0).
      split; [exact Ns|]. step E0. rewrite C0. step E1. reflexivity.
  Qed.

  Lemma rollback_beyond sf hint bk wr : beyond (rollback sf hint bk wr).
  Proof.
    intros s r s'. unfold Model.rollback.
    destruct (restore sf hint bk s) as [ok1 s1] eqn:P1. destruct wr.
    - destruct (reload s1) as [ok2 s2] eqn:P2.
      intro H; inversion H; subst; clear H. intro N.
      destruct (reload_beyond _ _ _ P2 N) as (N1 & E2).
      destruct (restore_beyond _ _ _ _ _ _ P1 N1) as (N0 & E1).
      split; [exact N0|]. step E1. step E2. reflexivity.
    - intro H; inversion H; subst; clear H. intro N.
      destruct (restore_beyond _ _ _ _ _ _ P1 N) as (N0 & E1).
      split; [exact N0|]. step E1. reflexivity.
  Qed.

  Lemma update_beyond fixed sf hs hint rq : beyond (update fixed sf hs hint rq).
  Proof.
    intros s r s'. unfold Model.update.
    destruct (negb (r_method_ok rq)).
    { intro H; inversion H; subst. intro N. split; [exact N|reflexivity]. }
    destruct (negb (r_body_ok rq)).
    { intro H; inversion H; subst. intro N. split; [exact N|reflexivity]. }
    destruct (prim false s) as [f0 s0] eqn:P0.
    destruct f0.
    { intro H; inversion H; subst; clear H. intro N.
      destruct (prim_beyond _ _ _ _ P0 N) as (_ & X & _); discriminate. }
    destruct (negb (forallb e_decodable (r_payload rq))).
    { intro H; inversion H; subst; clear H. intro N.
      destruct (prim_beyond _ _ _ _ P0 N) as (Ns & _ & E0).
      split; [exact Ns|]. step E0. reflexivity. }
    assert (C : forall okc s1,
               match r_handler rq with
               | HApplyFlows => clean_all hs s0
               | HConfiguration => (true, s0)
               end = (okc, s1) -> flt s1 <> NoFault ->
               flt s0 <> NoFault /\
               match r_handler rq with
               | HApplyFlows => clean_all hs (unflt s0)
               | HConfiguration => (true, unflt s0)
               end = (okc, unflt s1)).
    { intros okc s1. destruct (r_handler rq).
      - intro H; inversion H; subst. intro N. split; [exact N|reflexivity].
      - apply clean_all_beyond. }
    destruct (match r_handler rq with
              | HApplyFlows => clean_all hs s0
              | HConfiguration => (true, s0)
              end) as [okc s1] eqn:P1.
    specialize (C okc s1 eq_refl).
    destruct okc.
    - destruct (save_all fixed _ s1) as [oks s2] eqn:P2. destruct oks.
      + destruct (reload s2) as [okr s3] eqn:P3. destruct okr.
        * intro H; inversion H; subst; clear H. intro N.
          destruct (reload_beyond _ _ _ P3 N) as (N2 & E3).
          destruct (save_all_beyond _ _ _ _ _ P2 N2) as (N1 & E2).
          destruct (C N1) as (N0 & E1).
          destruct (prim_beyond _ _ _ _ P0 N0) as (Ns & _ & E0).
          split; [exact Ns|]. step E0. rewrite E1. cbn beta iota. cbn [dsk hk unflt].
          step E2. step E3. reflexivity.
        * intros H N.
          destruct (rollback_beyond _ _ _ _ _ _ _ H N) as (N3 & E4).
          destruct (reload_beyond _ _ _ P3 N3) as (N2 & E3).
          destruct (save_all_beyond _ _ _ _ _ P2 N2) as (N1 & E2).
          destruct (C N1) as (N0 & E1).
          destruct (prim_beyond _ _ _ _ P0 N0) as (Ns & _ & E0).
          split; [exact Ns|]. step E0. rewrite E1. cbn beta iota. cbn [dsk hk unflt].
          step E2. step E3. exact E4.
      + intros H N.
        destruct (rollback_beyond _ _ _ _ _ _ _ H N) as (N2 & E4).
        destruct (save_all_beyond _ _ _ _ _ P2 N2) as (N1 & E2).
        destruct (C N1) as (N0 & E1).
        destruct (prim_beyond _ _ _ _ P0 N0) as (Ns & _ & E0).
        split; [exact Ns|]. step E0. rewrite E1. cbn beta iota. cbn [dsk hk unflt].
        step E2. exact E4.
    - intros H N.
      destruct (rollback_beyond _ _ _ _ _ _ _ H N) as (N1 & E4).
      destruct (C N1) as (N0 & E1).
      destruct (prim_beyond _ _ _ _ P0 N0) as (Ns & _ & E0).
      split; [exact Ns|]. step E0. rewrite E1. cbn beta iota. cbn [dsk hk unflt].
      exact E4.
  Qed.

  (* a fault whose index lies beyond the end of the run: the run is the run
     without fault *)
  Lemma fault_beyond_end fixed sf hs hint rq d f r s' :
    run fixed sf hs hint rq d f = (r, s') -> flt s' <> NoFault ->
    f <> NoFault /\ run fixed sf hs hint rq d NoFault = (r, unflt s').
  Proof.
    unfold Model.run. intros R N.
    destruct (update_beyond _ _ _ _ _ _ _ _ R N) as [N0 E]. split; [exact N0|exact E].
  Qed.

End Beyond.
