(* C17 — lemmas. Final statements are in Property.v. *)
From Coq Require Import List ZArith Bool Lia.
From Verif Require Import C17.Model C17.Spec.
Import ListNotations.
Open Scope Z_scope.

(* ------------------------------------------------------------------ *)
(* stores *)

Section StoreFacts.
  Context {K V : Type}.
  Variable eqb : K -> K -> bool.
  Hypothesis eqb_spec : forall a b, eqb a b = true <-> a = b.

  Lemma eqb_refl' : forall a, eqb a a = true.
  Proof. intro a. apply eqb_spec. reflexivity. Qed.

  Lemma eqb_neq : forall a b, a <> b -> eqb a b = false.
  Proof.
    intros a b H. destruct (eqb a b) eqn:E; [|reflexivity].
    apply eqb_spec in E. contradiction.
  Qed.

  Lemma get_del_same : forall (m : list (K * V)) k, get eqb (del eqb m k) k = None.
  Proof.
    induction m as [|[k' v] r IH]; intro k; simpl; [reflexivity|].
    destruct (eqb k k') eqn:E; [apply IH|]. simpl. rewrite E. apply IH.
  Qed.

  Lemma get_del_other : forall (m : list (K * V)) k k',
    k <> k' -> get eqb (del eqb m k) k' = get eqb m k'.
  Proof.
    induction m as [|[k0 v] r IH]; intros k k' N; simpl; [reflexivity|].
    destruct (eqb k k0) eqn:E.
    - apply eqb_spec in E. subst k0.
      rewrite (eqb_neq k' k) by (intro X; apply N; symmetry; exact X).
      apply IH; exact N.
    - simpl. destruct (eqb k' k0); [reflexivity|]. apply IH; exact N.
  Qed.

  Lemma get_set_same : forall (m : list (K * V)) k v, get eqb (set eqb m k v) k = Some v.
  Proof. intros. unfold set. simpl. rewrite eqb_refl'. reflexivity. Qed.

  Lemma get_set_other : forall (m : list (K * V)) k k' v,
    k <> k' -> get eqb (set eqb m k v) k' = get eqb m k'.
  Proof.
    intros m k k' v N. unfold set. simpl.
    rewrite (eqb_neq k' k) by (intro X; apply N; symmetry; exact X).
    apply get_del_other; exact N.
  Qed.
End StoreFacts.

Lemma fkey_eqb_spec : forall a b : fkey, fkey_eqb a b = true <-> a = b.
Proof.
  intros [a1 a2] [b1 b2]. unfold fkey_eqb. simpl.
  rewrite andb_true_iff, !Z.eqb_eq. split.
  - intros [-> ->]. reflexivity.
  - intro H. inversion H. split; reflexivity.
Qed.

Lemma zeqb_spec : forall a b : Z, Z.eqb a b = true <-> a = b.
Proof. intros. apply Z.eqb_eq. Qed.

Lemma fold_left_snoc : forall (A B : Type) (f : A -> B -> A) l x a,
  fold_left f (l ++ [x]) a = f (fold_left f l a) x.
Proof. intros. rewrite fold_left_app. reflexivity. Qed.

(* ================================================================== *)
(* FLOWS MODE                                                          *)

Lemma frun_snoc : forall att evs e,
  frun att (evs ++ [e]) = fstep_acc att (frun att evs) e.
Proof. intros. unfold frun. apply fold_left_snoc. Qed.

Lemma since_failed_snoc : forall k tr x,
  since_failed k (tr ++ [x]) = sf_step k (since_failed k tr) x.
Proof. intros. unfold since_failed. apply fold_left_snoc. Qed.

(* the output of Execute and the new counter depend on the counter only *)
Lemma fexec_out : forall att st k,
  let cur := match get fkey_eqb st k with Some n => n | None => 0 end in
  snd (fexec att st k) = (if att <? cur + 1 then FFailed else FRetry) /\
  get fkey_eqb (fst (fexec att st k)) k = (if att <? cur + 1 then None else Some (cur + 1)).
Proof.
  intros att st k cur. unfold fexec. fold cur.
  destruct (att <? cur + 1) eqn:E; cbn [fst snd]; split; try reflexivity.
  - apply (get_del_same fkey_eqb).
  - apply (get_set_same fkey_eqb fkey_eqb_spec).
Qed.

Lemma fexec_other : forall att st k k',
  k <> k' -> get fkey_eqb (fst (fexec att st k)) k' = get fkey_eqb st k'.
Proof.
  intros att st k k' N. unfold fexec.
  destruct (att <? _); cbn [fst snd].
  - rewrite (get_del_other fkey_eqb fkey_eqb_spec) by exact N.
    apply (get_set_other fkey_eqb fkey_eqb_spec); exact N.
  - apply (get_set_other fkey_eqb fkey_eqb_spec); exact N.
Qed.

Lemma f_on_true : forall k e, f_on k e = true <-> fkey_of e = Some k.
Proof.
  intros k [p s|s]; simpl.
  - rewrite fkey_eqb_spec. split; [intros ->; reflexivity|intro H; inversion H; reflexivity].
  - split; discriminate.
Qed.

(* key isolation: a step of another key (or a skipped response) leaves the
   counter of [k] untouched *)
Lemma fstep_isolation : forall att st e k,
  fkey_of e <> Some k -> get fkey_eqb (fst (fstep att st e)) k = get fkey_eqb st k.
Proof.
  intros att st [p s|s] k N; simpl; [|reflexivity].
  apply fexec_other. intro X. apply N. simpl. rewrite X. reflexivity.
Qed.

Definition finv (att : Z -> Z) (st : fstore) (tr : list (fev * fout)) : Prop :=
  forall p s,
    0 <= since_failed (p, s) tr <= Z.max 0 (att p) /\
    get fkey_eqb st (p, s) =
      (if since_failed (p, s) tr =? 0 then None else Some (since_failed (p, s) tr)).

Lemma finv_run : forall att evs,
  finv att (fst (frun att evs)) (snd (frun att evs)).
Proof.
  intros att evs. induction evs as [|e evs IH] using rev_ind.
  - intros p s. unfold frun, since_failed. simpl. split; [lia|reflexivity].
  - rewrite frun_snoc. destruct (frun att evs) as [st tr]. simpl in IH.
    unfold fstep_acc. simpl fst. simpl snd.
    destruct (fstep att st e) as [st' o] eqn:ES. simpl fst. simpl snd.
    intros p s. rewrite since_failed_snoc. unfold sf_step. simpl fst. simpl snd.
    destruct (IH p s) as [Hb Hg]. set (c := since_failed (p, s) tr) in *.
    destruct (f_on (p, s) e) eqn:On.
    + apply f_on_true in On. destruct e as [p0 s0|s0]; simpl in On; [|discriminate].
      inversion On; subst p0 s0. simpl in ES.
      pose proof (fexec_out (att p) st (p, s)) as [Ho Hn].
      rewrite ES in Ho, Hn. simpl in Ho, Hn.
      assert (Hcur : match get fkey_eqb st (p, s) with Some n => n | None => 0 end = c).
      { rewrite Hg. destruct (c =? 0) eqn:Ec; [apply Z.eqb_eq in Ec; lia|reflexivity]. }
      rewrite Hcur in Ho, Hn.
      destruct (att p <? c + 1) eqn:E.
      * subst o. rewrite Hn. simpl. split; [lia|reflexivity].
      * subst o. rewrite Hn. apply Z.ltb_ge in E.
        destruct (c + 1 =? 0) eqn:E0; [apply Z.eqb_eq in E0; lia|].
        split; [lia|reflexivity].
    + assert (N : fkey_of e <> Some (p, s)).
      { intro X. apply f_on_true in X. rewrite X in On. discriminate. }
      pose proof (fstep_isolation att st e (p, s) N) as Hi.
      rewrite ES in Hi. simpl in Hi. rewrite Hi. split; assumption.
Qed.

(* what the next Execute of processor p on sequence s answers *)
Lemma f_next : forall att evs p s,
  let st := fst (frun att evs) in
  let c := since_failed (p, s) (snd (frun att evs)) in
  let r := fstep att st (FExec p s) in
  (snd r = FFailed <-> c = Z.max 0 (att p)) /\
  (snd r = FRetry <-> c < Z.max 0 (att p)) /\
  (snd r = FFailed -> get fkey_eqb (fst r) (p, s) = None) /\
  (snd r = FRetry -> get fkey_eqb (fst r) (p, s) = Some (c + 1)).
Proof.
  intros att evs p s st c r.
  destruct (finv_run att evs p s) as [Hb Hg]. fold c in Hb, Hg. fold st in Hg.
  unfold r. simpl.
  pose proof (fexec_out (att p) st (p, s)) as [Ho Hn].
  assert (Hcur : match get fkey_eqb st (p, s) with Some n => n | None => 0 end = c).
  { rewrite Hg. destruct (c =? 0) eqn:Ec; [apply Z.eqb_eq in Ec; lia|reflexivity]. }
  rewrite Hcur in Ho, Hn. rewrite Ho, Hn.
  destruct (att p <? c + 1) eqn:E.
  - apply Z.ltb_lt in E. repeat split; intros; try discriminate; try lia; reflexivity.
  - apply Z.ltb_ge in E. repeat split; intros; try discriminate; try lia; reflexivity.
Qed.

(* interleaving does not matter: what key k sees in a run is what it sees in
   the run restricted to its own events *)
Lemma filter_snoc : forall (A : Type) (f : A -> bool) l x,
  filter f (l ++ [x]) = if f x then filter f l ++ [x] else filter f l.
Proof.
  intros. rewrite filter_app. simpl. destruct (f x); [reflexivity|apply app_nil_r].
Qed.

Lemma f_projection : forall att evs k,
  filter (fun x => f_on k (fst x)) (snd (frun att evs)) =
    snd (frun att (filter (f_on k) evs)) /\
  get fkey_eqb (fst (frun att evs)) k =
    get fkey_eqb (fst (frun att (filter (f_on k) evs))) k.
Proof.
  intros att evs k. induction evs as [|e evs IH] using rev_ind.
  - split; reflexivity.
  - destruct IH as [IHt IHg]. rewrite frun_snoc, filter_snoc.
    destruct (frun att evs) as [st tr]. simpl in IHt, IHg.
    unfold fstep_acc at 1 2. simpl fst. simpl snd.
    destruct (fstep att st e) as [st' o] eqn:ES. simpl fst. simpl snd.
    rewrite filter_snoc. simpl fst.
    destruct (f_on k e) eqn:On.
    + rewrite frun_snoc.
      destruct (frun att (filter (f_on k) evs)) as [st2 tr2]. simpl in IHt, IHg.
      unfold fstep_acc. simpl fst. simpl snd.
      destruct (fstep att st2 e) as [st2' o2] eqn:ES2. simpl fst. simpl snd.
      apply f_on_true in On. destruct e as [p s|s]; simpl in On; [|discriminate].
      inversion On; subst k. simpl in ES, ES2.
      pose proof (fexec_out (att p) st (p, s)) as [Ho Hn].
      pose proof (fexec_out (att p) st2 (p, s)) as [Ho2 Hn2].
      rewrite ES in Ho, Hn. rewrite ES2 in Ho2, Hn2. simpl in Ho, Hn, Ho2, Hn2.
      rewrite <- IHg in Ho2, Hn2.
      split; [rewrite IHt, Ho, Ho2; reflexivity|rewrite Hn, Hn2; reflexivity].
    + assert (N : fkey_of e <> Some k).
      { intro X. apply f_on_true in X. rewrite X in On. discriminate. }
      pose proof (fstep_isolation att st e k N) as Hi.
      rewrite ES in Hi. simpl in Hi. rewrite Hi. split; assumption.
Qed.

(* engine level: the Filter chain *)
Lemma route_none : forall stages i status,
  route stages i status = None <->
  Forall (fun st => negb ((fst (fst st) <=? status) && (status <=? snd (fst st))) = true) stages.
Proof.
  induction stages as [|[[from to] a] r IH]; intros i status; simpl.
  - split; [constructor|reflexivity].
  - destruct ((from <=? status) && (status <=? to)) eqn:E.
    + split; [discriminate|]. intro H. inversion H as [|x l Hx Hl]. simpl in Hx.
      rewrite E in Hx. discriminate.
    + rewrite IH. split.
      * intro H. constructor; [simpl; rewrite E; reflexivity|exact H].
      * intro H. inversion H; assumption.
Qed.

(* ================================================================== *)
(* POLICY MODE                                                         *)

Lemma grun_snoc : forall c evs e,
  grun c (evs ++ [e]) = gstep_acc c (grun c evs) e.
Proof. intros. unfold grun, grun_from. apply fold_left_snoc. Qed.

Lemma grun_app : forall c evs1 evs2,
  grun c (evs1 ++ evs2) = fold_left (gstep_acc c) evs2 (grun c evs1).
Proof. intros. unfold grun, grun_from. apply fold_left_app. Qed.

Lemma seg_snoc : forall s tr x,
  seg_retries s (tr ++ [x]) = seg_step s (seg_retries s tr) x.
Proof. intros. unfold seg_retries. apply fold_left_snoc. Qed.

Lemma started_snoc : forall s tr x,
  started s (tr ++ [x]) = started s tr || ((r_seq x =? s) && r_new x).
Proof. intros. unfold started. rewrite existsb_app. simpl. rewrite orb_false_r. reflexivity. Qed.

Lemma papply_other : forall st s a s',
  s <> s' -> get Z.eqb (papply st s a) s' = get Z.eqb st s'.
Proof.
  intros st s a s' N. destruct a; simpl; try reflexivity.
  - apply (get_del_other Z.eqb zeqb_spec); exact N.
  - apply (get_del_other Z.eqb zeqb_spec); exact N.
  - apply (get_set_other Z.eqb zeqb_spec); exact N.
Qed.

Lemma papply_same : forall st s a,
  get Z.eqb (papply st s a) s =
    match a with
    | ANoOpKeep => get Z.eqb st s
    | ANoOpDel | ARetryDel => None
    | ARetrySet l cd _ => Some (l, cd)
    end.
Proof.
  intros st s a. destruct a; simpl; try reflexivity.
  - apply (get_del_same Z.eqb).
  - apply (get_del_same Z.eqb).
  - apply (get_set_same Z.eqb zeqb_spec).
Qed.

(* a step on another sequence (response or loss) leaves [s] untouched *)
Lemma gstep_isolation : forall c st e s,
  g_on s e = false -> get Z.eqb (fst (gstep c st e)) s = get Z.eqb st s.
Proof.
  intros c st [s0 n status vis|s0] s H; simpl in *.
  - apply papply_other. intro X. subst. rewrite Z.eqb_refl in H. discriminate.
  - apply (get_del_other Z.eqb zeqb_spec). intro X. subst. rewrite Z.eqb_refl in H. discriminate.
Qed.

(* case analysis of the decision *)
Lemma pdecide_cases : forall c found isNew status,
  let a := pdecide c found isNew status in
  (in_ranges (pRanges c) status = false /\ a = ANoOpDel) \/
  (in_ranges (pRanges c) status = true /\
   match found with
   | Some (l, cd) =>
       (l < 1 /\ a = ANoOpDel) \/
       (l = 1 /\ a = ARetryDel) \/
       (2 <= l /\ a = ARetrySet (l - 1) (cd * pMult c) (cd + 30 + 1))
   | None =>
       (isNew = false /\ a = ANoOpKeep) \/
       (isNew = true /\
        let l := pAttempts c in let cd := pCooldown c in
        (l < 1 /\ a = ANoOpDel) \/
        (l = 1 /\ a = ARetryDel) \/
        (2 <= l /\ a = ARetrySet (l - 1) (cd * pMult c) (cd + 30 + 1)))
   end).
Proof.
  intros c found isNew status a. unfold a, pdecide.
  destruct (in_ranges (pRanges c) status); [right|left; split; reflexivity].
  split; [reflexivity|].
  assert (G : forall l cd,
    (l < 1 /\ (if l <? 1 then ANoOpDel else if l - 1 <? 1 then ARetryDel
               else ARetrySet (l - 1) (cd * pMult c) (cd + 30 + 1)) = ANoOpDel) \/
    (l = 1 /\ (if l <? 1 then ANoOpDel else if l - 1 <? 1 then ARetryDel
               else ARetrySet (l - 1) (cd * pMult c) (cd + 30 + 1)) = ARetryDel) \/
    (2 <= l /\ (if l <? 1 then ANoOpDel else if l - 1 <? 1 then ARetryDel
               else ARetrySet (l - 1) (cd * pMult c) (cd + 30 + 1))
              = ARetrySet (l - 1) (cd * pMult c) (cd + 30 + 1))).
  { intros l cd. destruct (l <? 1) eqn:E1.
    - left. apply Z.ltb_lt in E1. split; [lia|reflexivity].
    - apply Z.ltb_ge in E1. destruct (l - 1 <? 1) eqn:E2.
      + right; left. apply Z.ltb_lt in E2. split; [lia|reflexivity].
      + right; right. apply Z.ltb_ge in E2. split; [lia|reflexivity]. }
  destruct found as [[l cd]|].
  - apply G.
  - destruct isNew; [right; split; [reflexivity|apply G]|left; split; reflexivity].
Qed.

Definition ginv (c : pcfg) (st : pstore) (tr : list presp) : Prop :=
  forall s,
    0 <= seg_retries s tr /\
    (started s tr = false -> get Z.eqb st s = None /\ seg_retries s tr = 0) /\
    match get Z.eqb st s with
    | Some (l, _) => 1 <= l /\ seg_retries s tr + l <= pAttempts c
    | None => seg_retries s tr <= Z.max 0 (pAttempts c)
    end.

Lemma ginv_step : forall c st tr e,
  ginv c st tr ->
  ginv c (fst (gstep c st e)) (tr ++ snd (gstep c st e)).
Proof.
  intros c st tr e IH s. destruct (IH s) as [H0 [Hs He]].
  destruct (g_on s e) eqn:On.
  2:{ (* another sequence *)
    rewrite (gstep_isolation c st e s On).
    destruct e as [s0 n status vis|s0]; simpl in On; cbn [gstep snd].
    - rewrite seg_snoc, started_snoc. unfold seg_step, r_seq, r_new. cbn [fst snd].
      rewrite On. cbn [andb]. rewrite orb_false_r.
      repeat split; try assumption; apply Hs; assumption.
    - rewrite app_nil_r. repeat split; try assumption; apply Hs; assumption. }
  destruct e as [s0 n status vis|s0]; simpl in On; apply Z.eqb_eq in On; subst s0.
  2:{ (* the cache lost the entry *)
    simpl. rewrite app_nil_r. rewrite (get_del_same Z.eqb).
    split; [assumption|]. split.
    - intro X. split; [reflexivity|apply Hs; exact X].
    - destruct (get Z.eqb st s) as [[l cd]|]; lia. }
  (* a response of this sequence *)
  cbn [gstep fst snd]. rewrite seg_snoc, started_snoc, papply_same.
  unfold seg_step, r_seq, r_new, r_out. cbn [fst snd]. rewrite Z.eqb_refl. cbn [andb].
  set (m := seg_retries s tr) in *.
  set (found := if vis then get Z.eqb st s else None).
  pose proof (pdecide_cases c found n status) as [[_ Ea]|[_ Hc]].
  - (* status outside the ranges *)
    rewrite Ea. cbn [pact_out retry1]. split; [destruct n; lia|]. split.
    + intro X. apply orb_false_iff in X. destruct X as [X1 X2]. subst n.
      split; [reflexivity|]. destruct (Hs X1) as [_ Hz]. lia.
    + destruct n; [lia|]. destruct (get Z.eqb st s) as [[l cd]|]; lia.
  - destruct found as [[l cd]|] eqn:Ef.
    + (* visible state *)
      assert (Eg : get Z.eqb st s = Some (l, cd)).
      { unfold found in Ef. destruct vis; [exact Ef|discriminate]. }
      rewrite Eg in He. destruct He as [Hl Hsum].
      assert (St : started s tr = true).
      { destruct (started s tr) eqn:X; [reflexivity|].
        destruct (Hs eq_refl) as [Y _]. rewrite Y in Eg. discriminate. }
      rewrite St. cbn [orb].
      destruct Hc as [[Hl1 _]|[[Hl1 Ea]|[Hl2 Ea]]]; [lia| |]; rewrite Ea; cbn [pact_out retry1].
      * split; [destruct n; lia|]. split; [discriminate|]. destruct n; lia.
      * split; [destruct n; lia|]. split; [discriminate|]. destruct n; lia.
    + destruct Hc as [[En Ea]|[En Hc]]; subst n.
      * (* unknown sequence, not its first response: nothing happens *)
        rewrite Ea. cbn [pact_out retry1]. rewrite orb_false_r, Z.add_0_r.
        repeat split; try assumption; apply Hs; assumption.
      * (* the sequence is opened *)
        rewrite orb_true_r. cbv zeta in Hc.
        destruct Hc as [[Hl1 Ea]|[[Hl1 Ea]|[Hl2 Ea]]]; rewrite Ea; cbn [pact_out retry1];
          (split; [lia|]); (split; [discriminate|]); lia.
Qed.

Lemma ginv_run : forall c evs, ginv c (fst (grun c evs)) (snd (grun c evs)).
Proof.
  intros c evs. induction evs as [|e evs IH] using rev_ind.
  - intro s. unfold grun, grun_from, seg_retries, started. simpl.
    split; [lia|]. split; [intros _; split; reflexivity|lia].
  - rewrite grun_snoc. destruct (grun c evs) as [st tr]. simpl in IH.
    unfold gstep_acc. simpl fst. simpl snd.
    pose proof (ginv_step c st tr e IH) as H.
    destruct (gstep c st e) as [st' o]. exact H.
Qed.

Lemma seg_bound : forall c evs s,
  0 <= seg_retries s (snd (grun c evs)) <= Z.max 0 (pAttempts c).
Proof.
  intros c evs s. destruct (ginv_run c evs s) as [H0 [_ He]].
  split; [exact H0|]. destruct (get Z.eqb (fst (grun c evs)) s) as [[l cd]|]; lia.
Qed.

Lemma not_started_no_retry : forall c evs s,
  started s (snd (grun c evs)) = false ->
  seg_retries s (snd (grun c evs)) = 0 /\ get Z.eqb (fst (grun c evs)) s = None.
Proof.
  intros c evs s H. destruct (ginv_run c evs s) as [_ [Hs _]].
  destruct (Hs H); split; assumption.
Qed.

(* every prefix of a trace is the trace of a prefix of the history *)
Lemma app_snoc_cases : forall (A : Type) (pre post tr : list A) x,
  pre ++ post = tr ++ [x] ->
  (exists post', tr = pre ++ post') \/ (pre = tr ++ [x] /\ post = []).
Proof.
  intros A pre post tr x H. destruct post as [|y post' _] using rev_ind.
  - right. rewrite app_nil_r in H. split; [exact H|reflexivity].
  - left. rewrite app_assoc in H. apply app_inj_tail in H. destruct H as [H _].
    exists post'. symmetry. exact H.
Qed.

Lemma gtrace_prefix : forall c evs pre post,
  snd (grun c evs) = pre ++ post ->
  exists evs1 evs2, evs = evs1 ++ evs2 /\ snd (grun c evs1) = pre.
Proof.
  intros c evs. induction evs as [|e evs IH] using rev_ind; intros pre post H.
  - unfold grun, grun_from in H. simpl in H. symmetry in H. apply app_eq_nil in H.
    destruct H as [-> _]. exists [], []. split; reflexivity.
  - rewrite grun_snoc in H. destruct (grun c evs) as [st tr] eqn:ER.
    unfold gstep_acc in H. simpl fst in H. simpl snd in H.
    destruct (gstep c st e) as [st' o] eqn:ES. simpl in H.
    assert (Ho : o = [] \/ exists x, o = [x]).
    { destruct e; simpl in ES; inversion ES; [right; eexists; reflexivity|left; reflexivity]. }
    destruct Ho as [->|[x ->]].
    + rewrite app_nil_r in H. destruct (IH pre post H) as [e1 [e2 [E1 E2]]].
      exists e1, (e2 ++ [e]). split; [rewrite E1, app_assoc; reflexivity|exact E2].
    + symmetry in H. apply app_snoc_cases in H. destruct H as [[post' H]|[H _]].
      * destruct (IH pre post' H) as [e1 [e2 [E1 E2]]].
        exists e1, (e2 ++ [e]). split; [rewrite E1, app_assoc; reflexivity|exact E2].
      * exists (evs ++ [e]), []. split; [rewrite app_nil_r; reflexivity|].
        rewrite grun_snoc, ER. unfold gstep_acc. simpl fst. simpl snd. rewrite ES.
        simpl. symmetry. exact H.
Qed.

(* a response outside the ranges: NoOp, the sequence is forgotten, nobody else
   is touched *)
Lemma g_outside : forall c st s isNew status vis,
  in_ranges (pRanges c) status = false ->
  gstep c st (GResp s isNew status vis) = (del Z.eqb st s, [(s, isNew, status, PNoOp)]).
Proof.
  intros c st s isNew status vis H. simpl. unfold pdecide. rewrite H. reflexivity.
Qed.

(* interleaving does not matter in policy mode either *)
Lemma pdecide_out_state : forall c st1 st2 s isNew status vis,
  get Z.eqb st1 s = get Z.eqb st2 s ->
  snd (gstep c st1 (GResp s isNew status vis)) = snd (gstep c st2 (GResp s isNew status vis)) /\
  get Z.eqb (fst (gstep c st1 (GResp s isNew status vis))) s =
  get Z.eqb (fst (gstep c st2 (GResp s isNew status vis))) s.
Proof.
  intros c st1 st2 s isNew status vis H. simpl. rewrite H. split; [reflexivity|].
  rewrite !papply_same. rewrite H. reflexivity.
Qed.

Lemma g_projection : forall c evs s,
  filter (fun x => r_seq x =? s) (snd (grun c evs)) = snd (grun c (filter (g_on s) evs)) /\
  get Z.eqb (fst (grun c evs)) s = get Z.eqb (fst (grun c (filter (g_on s) evs))) s.
Proof.
  intros c evs s. induction evs as [|e evs IH] using rev_ind.
  - split; reflexivity.
  - destruct IH as [IHt IHg]. rewrite grun_snoc, filter_snoc.
    destruct (grun c evs) as [st tr]. simpl in IHt, IHg.
    unfold gstep_acc at 1 2. simpl fst. simpl snd.
    destruct (gstep c st e) as [st' o] eqn:ES. simpl fst. simpl snd.
    rewrite filter_app.
    destruct (g_on s e) eqn:On.
    + rewrite grun_snoc.
      destruct (grun c (filter (g_on s) evs)) as [st2 tr2]. simpl in IHt, IHg.
      unfold gstep_acc. simpl fst. simpl snd.
      destruct (gstep c st2 e) as [st2' o2] eqn:ES2. simpl fst. simpl snd.
      destruct e as [s0 n status vis|s0]; simpl in On; apply Z.eqb_eq in On; subst s0.
      * pose proof (pdecide_out_state c st st2 s n status vis IHg) as [Ho Hn].
        rewrite ES, ES2 in Ho, Hn. simpl in Ho, Hn. subst o2.
        split; [|exact Hn]. rewrite IHt. f_equal.
        simpl in ES. inversion ES. simpl. unfold r_seq. simpl. rewrite Z.eqb_refl. reflexivity.
      * simpl in ES, ES2. injection ES as <- <-. injection ES2 as <- <-. cbn [filter].
        rewrite !app_nil_r. split; [exact IHt|]. rewrite !(get_del_same Z.eqb). reflexivity.
    + pose proof (gstep_isolation c st e s On) as Hi. rewrite ES in Hi. simpl in Hi.
      rewrite Hi. split; [|exact IHg]. rewrite IHt.
      destruct e as [s0 n status vis|s0]; simpl in On, ES; inversion ES; simpl.
      * unfold r_seq. simpl. rewrite On. apply app_nil_r.
      * apply app_nil_r.
Qed.

(* ---------------- the timed machine is an instance ---------------- *)

Lemma drops_fold : forall c (l : list (Z * Z)) st acc,
  fold_left (gstep_acc c) (map (fun d => GDrop (snd d)) l) (st, acc) =
  (fold_left (fun m d => del Z.eqb m (snd d)) l st, acc).
Proof.
  intros c l. induction l as [|d l IH]; intros st acc; simpl; [reflexivity|].
  unfold gstep_acc at 2. simpl. rewrite app_nil_r. apply IH.
Qed.

Lemma tstep_sim : forall c t e acc,
  fold_left (gstep_acc c) (t_to_g t e) (tStore t, acc) =
  (tStore (fst (tstep c t e)), acc ++ snd (tstep c t e)).
Proof.
  intros c t e acc. destruct e as [s n status|dt|]; simpl.
  - unfold gstep_acc. simpl.
    destruct (pdecide c (if t_vis t s then get Z.eqb (tStore t) s else None) n status);
      reflexivity.
  - rewrite app_nil_r. reflexivity.
  - rewrite drops_fold, app_nil_r. reflexivity.
Qed.

Lemma trun_snoc : forall c t0 evs e,
  trun c t0 (evs ++ [e]) = tstep_acc c (trun c t0 evs) e.
Proof. intros. unfold trun. apply fold_left_snoc. Qed.

Lemma strip_drops : forall (l : list (Z * Z)),
  strip (map (fun d => GDrop (snd d)) l) = [].
Proof. induction l as [|d l IH]; simpl; [reflexivity|exact IH]. Qed.

Lemma count_new_drops : forall s (l : list (Z * Z)),
  count_new s (map (fun d => GDrop (snd d)) l) = 0%nat.
Proof. intros s l. unfold count_new. induction l as [|d l IH]; simpl; [reflexivity|exact IH]. Qed.

Lemma count_new_app : forall s a b,
  count_new s (a ++ b) = (count_new s a + count_new s b)%nat.
Proof. intros. unfold count_new. rewrite filter_app, app_length. reflexivity. Qed.

Lemma tcount_new_app : forall s a b,
  tcount_new s (a ++ b) = (tcount_new s a + tcount_new s b)%nat.
Proof. intros. unfold tcount_new. rewrite filter_app, app_length. reflexivity. Qed.

(* every timed run is a run of the general machine on the same responses *)
Lemma trun_is_grun : forall c t0 evs,
  exists gevs,
    grun c gevs = (tStore (fst (trun c t0 evs)), snd (trun c t0 evs)) /\
    strip gevs = resp_only evs /\
    (forall s, count_new s gevs = tcount_new s evs).
Proof.
  intros c t0 evs. induction evs as [|e evs IH] using rev_ind.
  - exists []. repeat split; reflexivity.
  - destruct IH as [gevs [Hr [Hs Hc]]].
    rewrite trun_snoc. destruct (trun c t0 evs) as [t tr] eqn:ET. simpl in Hr.
    exists (gevs ++ t_to_g t e). split; [|split].
    + rewrite grun_app, Hr, tstep_sim. unfold tstep_acc. simpl fst. simpl snd.
      destruct (tstep c t e) as [t' o]. reflexivity.
    + unfold strip, resp_only in *. rewrite !flat_map_app, Hs. f_equal.
      destruct e as [s n status|dt|]; simpl; try reflexivity.
      apply strip_drops.
    + intro s. rewrite count_new_app, tcount_new_app, Hc. f_equal.
      destruct e as [s0 n status|dt|].
      * unfold count_new, tcount_new. simpl. destruct ((s0 =? s) && n); reflexivity.
      * reflexivity.
      * simpl t_to_g. rewrite count_new_drops. reflexivity.
Qed.

(* ---------------- cache loss can only lower the count ---------------- *)

Lemma retries_snoc : forall s tr x,
  retries s (tr ++ [x]) = tot_step s (retries s tr) x.
Proof. intros. unfold retries. apply fold_left_snoc. Qed.

Definition left_of (o : option (Z * Z)) : Z :=
  match o with Some (l, _) => l | None => 0 end.

(* lossy store st1 / trace tr1 against lossless st2 / tr2 *)
Definition lrel (st1 st2 : pstore) (tr1 tr2 : list presp) (opened : Z -> nat) : Prop :=
  forall s,
    (match get Z.eqb st1 s with Some (l, _) => 1 <= l | None => True end) /\
    (match get Z.eqb st2 s with Some (l, _) => 1 <= l | None => True end) /\
    retries s tr1 <= retries s tr2 /\
    retries s tr1 + left_of (get Z.eqb st1 s) <= retries s tr2 + left_of (get Z.eqb st2 s) /\
    (opened s = 0%nat -> get Z.eqb st1 s = None /\ get Z.eqb st2 s = None).

Lemma strip_snoc : forall evs e, strip (evs ++ [e]) = strip evs ++ lossless e.
Proof. intros. unfold strip. rewrite flat_map_app. simpl. rewrite app_nil_r. reflexivity. Qed.

Lemma gstep_acc_resp : forall c st tr s n status vis,
  gstep_acc c (st, tr) (GResp s n status vis) =
  (papply st s (pdecide c (if vis then get Z.eqb st s else None) n status),
   tr ++ [(s, n, status,
           pact_out (pdecide c (if vis then get Z.eqb st s else None) n status))]).
Proof. reflexivity. Qed.

Lemma gstep_acc_drop : forall c st tr s,
  gstep_acc c (st, tr) (GDrop s) = (del Z.eqb st s, tr).
Proof. intros. unfold gstep_acc. simpl. rewrite app_nil_r. reflexivity. Qed.

Lemma retries_snoc_resp : forall s tr s0 n status o,
  retries s (tr ++ [(s0, n, status, o)]) =
  if s0 =? s then retries s tr + retry1 o else retries s tr.
Proof. intros. rewrite retries_snoc. reflexivity. Qed.

Lemma count_new_snoc : forall s evs e,
  count_new s (evs ++ [e]) = (count_new s evs + (if g_opens s e then 1 else 0))%nat.
Proof.
  intros. rewrite count_new_app. unfold count_new at 2. simpl.
  destruct (g_opens s e); reflexivity.
Qed.

Ltac close_op0 Hop :=
  match goal with
  | H : count_new _ _ = 0%nat |- _ => destruct (Hop H) as [Y1 Y2]; discriminate
  end.
Ltac close_op Hop V1 :=
  match goal with
  | H : count_new _ _ = 0%nat |- _ =>
      destruct (Hop H) as [Y1 Y2]; try discriminate; rewrite <- V1 in Y1; discriminate
  end.

Lemma lossy_le_lossless : forall c evs,
  (forall s, (count_new s evs <= 1)%nat) ->
  lrel (fst (grun c evs)) (fst (grun c (strip evs)))
       (snd (grun c evs)) (snd (grun c (strip evs))) (fun s => count_new s evs).
Proof.
  intros c evs. induction evs as [|e evs IH] using rev_ind; intro Once.
  - intro s. unfold grun, grun_from, retries. simpl. repeat split; try lia; reflexivity.
  - assert (Once' : forall s, (count_new s evs <= 1)%nat).
    { intro s. specialize (Once s). rewrite count_new_app in Once. lia. }
    specialize (IH Once'). rewrite strip_snoc, grun_snoc, grun_app.
    destruct (grun c evs) as [st1 tr1]. destruct (grun c (strip evs)) as [st2 tr2].
    cbn [fst snd] in IH. intro s. destruct (IH s) as [L1 [L2 [Hn [Hsum Hop]]]].
    specialize (Once s). rewrite count_new_snoc in Once. rewrite count_new_snoc.
    destruct e as [s0 n status vis|s0].
    2:{ (* the lossy run loses an entry *)
      cbn [lossless fold_left]. rewrite gstep_acc_drop. cbn [fst snd g_opens].
      rewrite Nat.add_0_r. destruct (s0 =? s) eqn:On.
      - apply Z.eqb_eq in On. subst s0. rewrite (get_del_same Z.eqb).
        split; [exact I|]. split; [exact L2|]. split; [exact Hn|]. split.
        + cbn [left_of]. destruct (get Z.eqb st1 s) as [[l1 cd1]|]; cbn [left_of] in Hsum; lia.
        + intro X. split; [reflexivity|]. apply Hop. exact X.
      - rewrite (get_del_other Z.eqb zeqb_spec)
          by (intro X; subst; rewrite Z.eqb_refl in On; discriminate).
        repeat split; try assumption; apply Hop; assumption. }
    cbn [lossless fold_left]. rewrite !gstep_acc_resp. cbn [fst snd].
    rewrite !retries_snoc_resp. cbn [g_opens] in Once |- *.
    destruct (s0 =? s) eqn:On.
    2:{ (* a response of another sequence *)
      rewrite !papply_other by (intro X; subst; rewrite Z.eqb_refl in On; discriminate).
      cbn [andb]. rewrite Nat.add_0_r.
      repeat split; try assumption; apply Hop; assumption. }
    apply Z.eqb_eq in On. subst s0. rewrite !papply_same. cbn [andb] in Once |- *.
    set (f1 := if vis then get Z.eqb st1 s else None).
    set (g1 := get Z.eqb st1 s) in *. set (g2 := get Z.eqb st2 s) in *.
    set (n1 := retries s tr1) in *. set (n2 := retries s tr2) in *.
    pose proof (pdecide_cases c f1 n status) as C1.
    pose proof (pdecide_cases c g2 n status) as C2.
    cbv zeta in C1, C2.
    destruct C1 as [[R1 E1]|[R1 C1]]; destruct C2 as [[R2 E2]|[R2 C2]];
      try (rewrite R1 in R2; discriminate).
    + (* outside the ranges: both forget *)
      rewrite E1, E2. cbn [pact_out retry1 left_of].
      repeat split; try exact I; try lia.
    + destruct n.
      * (* the (only) opening response: both stores are empty for s *)
        assert (Z0 : count_new s evs = 0%nat) by lia.
        destruct (Hop Z0) as [G1 G2].
        assert (F1 : f1 = None) by (unfold f1; destruct vis; [exact G1|reflexivity]).
        rewrite F1 in C1 |- *. rewrite G2 in C2, Hsum |- *. rewrite G1 in Hsum |- *.
        destruct C1 as [[X _]|[_ C1]]; [discriminate|].
        destruct C2 as [[X _]|[_ C2]]; [discriminate|].
        cbn [left_of] in Hsum.
        clear C2.
        destruct C1 as [[A1 E1]|[[A1 E1]|[A1 E1]]];
          rewrite E1; cbn [pact_out retry1 left_of];
          repeat split; try exact I; lia.
      * (* a later response *)
        rewrite Nat.add_0_r.
        assert (V1 : f1 = g1 \/ f1 = None) by (unfold f1; destruct vis; auto).
        destruct g2 as [[l2 cd2]|] eqn:G2; destruct f1 as [[l1 cd1]|] eqn:F1.
        -- (* both have state *)
           destruct V1 as [V1|V1]; [|discriminate].
           rewrite <- V1 in L1, Hsum. cbn [left_of] in Hsum.
           destruct C1 as [[A1 E1]|[[A1 E1]|[A1 E1]]]; [lia| |];
             destruct C2 as [[A2 E2]|[[A2 E2]|[A2 E2]]]; try lia;
             rewrite E1, E2; cbn [pact_out retry1 left_of];
             repeat split; try exact I; try lia;
             close_op Hop V1.
        -- (* the lossy run sees nothing: it does not retry, the lossless run may *)
           destruct C1 as [[_ E1]|[X _]]; [|discriminate].
           rewrite E1. cbn [pact_out retry1]. cbn [left_of] in Hsum.
           destruct C2 as [[A2 E2]|[[A2 E2]|[A2 E2]]]; [lia| |];
             rewrite E2; cbn [pact_out retry1 left_of];
             repeat split; try exact L1; try exact I; try lia;
             close_op0 Hop.
        -- (* only the lossy run has state *)
           destruct V1 as [V1|V1]; [|discriminate].
           rewrite <- V1 in L1, Hsum. cbn [left_of] in Hsum.
           destruct C2 as [[_ E2]|[X _]]; [|discriminate].
           rewrite E2. cbn [pact_out retry1 left_of].
           destruct C1 as [[A1 E1]|[[A1 E1]|[A1 E1]]]; [lia| |];
             rewrite E1; cbn [pact_out retry1 left_of];
             repeat split; try exact I; try lia;
             close_op Hop V1.
        -- (* neither *)
           destruct C1 as [[_ E1]|[X _]]; [|discriminate].
           destruct C2 as [[_ E2]|[X _]]; [|discriminate].
           rewrite E1. cbn [pact_out retry1 left_of] in Hsum |- *.
           repeat split; try exact L1; try exact I; try lia; try assumption.
           apply Hop; assumption.
Qed.

(* ================================================================== *)
(* FLOWS MODE: calls ended by a response outside the retry conditions   *)

Lemma cc_snoc : forall k tr x,
  call_carried k (tr ++ [x]) = cc_step k (call_carried k tr) x.
Proof. intros. unfold call_carried. apply fold_left_snoc. Qed.

(* the retries since the latest "failed" = those of the current call + those
   carried over the ends by non-retryable responses; for every trace *)
Lemma cc_split : forall k tr,
  0 <= since_end k tr /\ 0 <= carried k tr /\
  since_failed k tr = since_end k tr + carried k tr.
Proof.
  intros k tr. unfold since_end, carried.
  induction tr as [|x tr IH] using rev_ind.
  - unfold call_carried, since_failed. simpl. lia.
  - rewrite cc_snoc, since_failed_snoc.
    destruct (call_carried k tr) as [a b]. cbn [fst snd] in IH.
    destruct IH as [Ha [Hb Hs]].
    unfold cc_step, sf_step. destruct x as [e o]. cbn [fst snd].
    destruct e as [p s|s]; cbn [f_on].
    + destruct (fkey_eqb (p, s) k); [|cbn [fst snd]; lia].
      destruct o; cbn [fst snd]; lia.
    + destruct (s =? snd k); cbn [fst snd]; lia.
Qed.

(* what the next Execute answers, in the vocabulary of calls *)
Lemma f_next_call : forall att evs p s,
  let st := fst (frun att evs) in
  let tr := snd (frun att evs) in
  let r := fstep att st (FExec p s) in
  (snd r = FFailed <-> since_end (p, s) tr + carried (p, s) tr = Z.max 0 (att p)) /\
  (snd r = FRetry <-> since_end (p, s) tr + carried (p, s) tr < Z.max 0 (att p)).
Proof.
  intros att evs p s st tr r. subst st tr r.
  destruct (f_next att evs p s) as [Hf [Hr _]].
  destruct (cc_split (p, s) (snd (frun att evs))) as [_ [_ E]].
  rewrite <- E. split; assumption.
Qed.

(* the counter of a key is kept as long as no response reaches that processor
   for that sequence — whatever else happens (this is the leak) *)
Lemma f_kept : forall att evs evs2 k,
  forallb (fun e => negb (f_on k e)) evs2 = true ->
  get fkey_eqb (fst (frun att (evs ++ evs2))) k = get fkey_eqb (fst (frun att evs)) k /\
  since_failed k (snd (frun att (evs ++ evs2))) = since_failed k (snd (frun att evs)).
Proof.
  intros att evs evs2 k. induction evs2 as [|e evs2 IH] using rev_ind; intro H.
  - rewrite app_nil_r. split; reflexivity.
  - rewrite forallb_app in H. apply andb_true_iff in H. destruct H as [H1 H2].
    cbn [forallb] in H2. rewrite andb_true_r in H2. apply negb_true_iff in H2.
    destruct (IH H1) as [IHg IHs]. rewrite app_assoc, frun_snoc.
    destruct (frun att (evs ++ evs2)) as [st tr]. cbn [fst snd] in IHg, IHs.
    unfold fstep_acc. cbn [fst snd].
    destruct (fstep att st e) as [st' o] eqn:ES. cbn [fst snd].
    assert (N : fkey_of e <> Some k).
    { intro X. apply f_on_true in X. rewrite X in H2. discriminate. }
    pose proof (fstep_isolation att st e k N) as Hi. rewrite ES in Hi. cbn [fst] in Hi.
    rewrite Hi, since_failed_snoc. unfold sf_step. cbn [fst snd]. rewrite H2.
    split; assumption.
Qed.

(* ================================================================== *)
(* POLICY MODE: exhaustion forgets, a fresh opening gets the full budget *)

Lemma grun_snoc_parts : forall c evs e,
  fst (grun c (evs ++ [e])) = fst (gstep c (fst (grun c evs)) e) /\
  snd (grun c (evs ++ [e])) = snd (grun c evs) ++ snd (gstep c (fst (grun c evs)) e).
Proof.
  intros c evs e. rewrite grun_snoc. destruct (grun c evs) as [st tr].
  unfold gstep_acc. cbn [fst snd]. destruct (gstep c st e) as [st' o]. split; reflexivity.
Qed.

(* once the budget of the open call is used, nothing is stored for the sequence *)
Lemma exhausted_none : forall c evs s,
  seg_retries s (snd (grun c evs)) = Z.max 0 (pAttempts c) ->
  get Z.eqb (fst (grun c evs)) s = None.
Proof.
  intros c evs s H. destruct (ginv_run c evs s) as [_ [_ He]].
  destruct (get Z.eqb (fst (grun c evs)) s) as [[l cd]|]; [lia|reflexivity].
Qed.

Lemma pdecide_none_later : forall c status,
  pdecide c None false status = ANoOpKeep \/ pdecide c None false status = ANoOpDel.
Proof.
  intros c status. unfold pdecide. destruct (in_ranges (pRanges c) status); auto.
Qed.

(* a later (non-opening) response of a sequence without visible state: NoOp,
   every lookup of the store answers as before *)
Lemma gstep_none_later : forall c st s status vis,
  (vis = false \/ get Z.eqb st s = None) ->
  let r := gstep c st (GResp s false status vis) in
  snd r = [(s, false, status, PNoOp)] /\
  (get Z.eqb st s = None -> forall s', get Z.eqb (fst r) s' = get Z.eqb st s').
Proof.
  intros c st s status vis Hf r. unfold r. cbn [gstep fst snd].
  assert (F : (if vis then get Z.eqb st s else None) = None).
  { destruct Hf as [->|H]; [reflexivity|]. destruct vis; [exact H|reflexivity]. }
  rewrite F. destruct (pdecide_none_later c status) as [E|E]; rewrite E; cbn [pact_out papply].
  - split; [reflexivity|]. intros _ s'. reflexivity.
  - split; [reflexivity|]. intros Hn s'. destruct (Z.eq_dec s s') as [<-|N].
    + rewrite (get_del_same Z.eqb). symmetry. exact Hn.
    + apply (get_del_other Z.eqb zeqb_spec). exact N.
Qed.

Lemma no_open_seg_step : forall c st e s tr,
  no_open s e = true ->
  seg_retries s (tr ++ snd (gstep c st e)) =
    seg_retries s tr + retries s (snd (gstep c st e)) /\
  retries s (tr ++ snd (gstep c st e)) = retries s tr + retries s (snd (gstep c st e)).
Proof.
  intros c st e s tr H. destruct e as [s0 n status vis|s0]; cbn [gstep snd].
  - rewrite seg_snoc, retries_snoc. unfold seg_step, tot_step, retries, r_seq, r_new, r_out.
    cbn [fst snd fold_left]. unfold tot_step, r_seq, r_out. cbn [fst snd].
    unfold no_open in H. cbn [g_opens] in H. apply negb_true_iff in H.
    destruct (s0 =? s) eqn:On; cbn [andb] in H.
    + subst n. split; lia.
    + split; lia.
  - rewrite !app_nil_r. unfold retries. cbn [fold_left]. split; lia.
Qed.

Lemma retries_step_nonneg : forall c st e s, 0 <= retries s (snd (gstep c st e)).
Proof.
  intros c st e s. destruct e as [s0 n status vis|s0]; cbn [gstep snd].
  - unfold retries. cbn [fold_left]. unfold tot_step, r_seq, r_out. cbn [fst snd].
    destruct (s0 =? s); [|lia].
    destruct (pact_out _); cbn [retry1]; lia.
  - unfold retries. cbn [fold_left]. lia.
Qed.

(* after exhaustion, as long as the sequence is not opened again: no retry is
   ever asked for it, nothing is stored for it — for every continuation, every
   interleaving, every cache behaviour *)
Lemma exhausted_stays : forall c evs evs2 s,
  seg_retries s (snd (grun c evs)) = Z.max 0 (pAttempts c) ->
  forallb (no_open s) evs2 = true ->
  seg_retries s (snd (grun c (evs ++ evs2))) = Z.max 0 (pAttempts c) /\
  get Z.eqb (fst (grun c (evs ++ evs2))) s = None /\
  retries s (snd (grun c (evs ++ evs2))) = retries s (snd (grun c evs)).
Proof.
  intros c evs evs2 s H0. induction evs2 as [|e evs2 IH] using rev_ind; intro H.
  - rewrite app_nil_r. split; [exact H0|]. split; [apply exhausted_none; exact H0|reflexivity].
  - rewrite forallb_app in H. apply andb_true_iff in H. destruct H as [H1 H2].
    cbn [forallb] in H2. rewrite andb_true_r in H2.
    destruct (IH H1) as [IHs [_ IHr]]. rewrite app_assoc.
    destruct (grun_snoc_parts c (evs ++ evs2) e) as [_ Et].
    destruct (no_open_seg_step c (fst (grun c (evs ++ evs2))) e s
                (snd (grun c (evs ++ evs2))) H2) as [Es Er].
    rewrite <- Et in Es, Er.
    pose proof (seg_bound c ((evs ++ evs2) ++ [e]) s) as [_ Hb].
    pose proof (retries_step_nonneg c (fst (grun c (evs ++ evs2))) e s) as Hn.
    assert (Z0 : retries s (snd (gstep c (fst (grun c (evs ++ evs2))) e)) = 0) by lia.
    assert (S1 : seg_retries s (snd (grun c ((evs ++ evs2) ++ [e]))) = Z.max 0 (pAttempts c)) by lia.
    split; [exact S1|]. split; [apply exhausted_none; exact S1|lia].
Qed.

(* ---------------- lossless exactness ---------------- *)

Lemma count_resp_snoc : forall s evs e,
  count_resp s (evs ++ [e]) = count_resp s evs + (if g_resp_of s e then 1 else 0).
Proof.
  intros. unfold count_resp. rewrite filter_app, app_length, Nat2Z.inj_add. cbn [filter].
  destruct (g_resp_of s e); reflexivity.
Qed.

Lemma count_resp_nonneg : forall s evs, 0 <= count_resp s evs.
Proof. intros. unfold count_resp. lia. Qed.

(* the state of an undisturbed call after [k] responses meeting the conditions *)
Definition exact_inv (c : pcfg) (s : Z) (k : Z) (st : pstore) (tr : list presp) : Prop :=
  let A := Z.max 0 (pAttempts c) in
  seg_retries s tr = Z.min k A /\
  match get Z.eqb st s with
  | Some (l, _) => l = A - k /\ k < A
  | None => A <= k
  end.

(* the opening response of a call that finds nothing *)
Lemma exact_open : forall c st tr s status vis,
  in_ranges (pRanges c) status = true ->
  (vis = false \/ get Z.eqb st s = None) ->
  let r := gstep c st (GResp s true status vis) in
  exact_inv c s 1 (fst r) (tr ++ snd r) /\
  snd r = [(s, true, status, if pAttempts c <? 1 then PNoOp else PRetry)] /\
  get Z.eqb (fst r) s =
    (if pAttempts c <? 2 then None
     else Some (pAttempts c - 1, pCooldown c * pMult c)).
Proof.
  intros c st tr s status vis Hin Hf r. unfold r, exact_inv. cbn [gstep fst snd].
  assert (F : (if vis then get Z.eqb st s else None) = None).
  { destruct Hf as [->|H]; [reflexivity|]. destruct vis; [exact H|reflexivity]. }
  rewrite F, seg_snoc, papply_same. unfold seg_step, r_seq, r_new, r_out. cbn [fst snd].
  rewrite Z.eqb_refl.
  pose proof (pdecide_cases c None true status) as [[X _]|[_ Hc]];
    [rewrite Hin in X; discriminate|].
  destruct Hc as [[X _]|[_ Hc]]; [discriminate|]. cbv zeta in Hc.
  destruct Hc as [[Hl Ea]|[[Hl Ea]|[Hl Ea]]]; rewrite Ea; cbn [pact_out retry1].
  - destruct (pAttempts c <? 1) eqn:E1; [|apply Z.ltb_ge in E1; lia].
    destruct (pAttempts c <? 2) eqn:E2; [|apply Z.ltb_ge in E2; lia].
    repeat split; lia.
  - destruct (pAttempts c <? 1) eqn:E1; [apply Z.ltb_lt in E1; lia|].
    destruct (pAttempts c <? 2) eqn:E2; [|apply Z.ltb_ge in E2; lia].
    repeat split; lia.
  - destruct (pAttempts c <? 1) eqn:E1; [apply Z.ltb_lt in E1; lia|].
    destruct (pAttempts c <? 2) eqn:E2; [apply Z.ltb_lt in E2; lia|].
    repeat split; lia.
Qed.

Lemma exact_step : forall c s k st tr e,
  1 <= k ->
  exact_inv c s k st tr ->
  calm c s e = true ->
  exact_inv c s (k + (if g_resp_of s e then 1 else 0))
            (fst (gstep c st e)) (tr ++ snd (gstep c st e)).
Proof.
  intros c s k st tr e Hk [Hs Hg] Hc. unfold exact_inv.
  destruct e as [s0 n status vis|s0]; cbn [calm g_resp_of] in Hc |- *.
  2:{ apply negb_true_iff in Hc. cbn [gstep fst snd]. rewrite app_nil_r, Z.add_0_r.
      rewrite (get_del_other Z.eqb zeqb_spec)
        by (intro X; subst; rewrite Z.eqb_refl in Hc; discriminate).
      split; assumption. }
  destruct (s0 =? s) eqn:On.
  2:{ cbn [gstep fst snd]. rewrite Z.add_0_r, seg_snoc.
      unfold seg_step, r_seq. cbn [fst snd]. rewrite On.
      rewrite papply_other by (intro X; subst; rewrite Z.eqb_refl in On; discriminate).
      split; assumption. }
  apply Z.eqb_eq in On. subst s0.
  apply andb_true_iff in Hc. destruct Hc as [Hc Hin].
  apply andb_true_iff in Hc. destruct Hc as [Hn Hv].
  apply negb_true_iff in Hn. subst n vis.
  cbn [gstep fst snd]. rewrite seg_snoc, papply_same.
  unfold seg_step, r_seq, r_new, r_out. cbn [fst snd]. rewrite Z.eqb_refl.
  pose proof (pdecide_cases c (get Z.eqb st s) false status) as [[X _]|[_ Hc]];
    [rewrite Hin in X; discriminate|].
  destruct (get Z.eqb st s) as [[l cd]|].
  - destruct Hg as [El Hlt].
    destruct Hc as [[Hl _]|[[Hl Ea]|[Hl Ea]]]; [lia| |]; rewrite Ea; cbn [pact_out retry1].
    + split; lia.
    + split; [lia|]. split; lia.
  - destruct Hc as [[_ Ea]|[X _]]; [|discriminate]. rewrite Ea. cbn [pact_out retry1].
    split; lia.
Qed.

Lemma exact_run : forall c evs1 evs2 s status vis,
  in_ranges (pRanges c) status = true ->
  (vis = false \/ get Z.eqb (fst (grun c evs1)) s = None) ->
  forallb (calm c s) evs2 = true ->
  let r := grun c (evs1 ++ GResp s true status vis :: evs2) in
  exact_inv c s (1 + count_resp s evs2) (fst r) (snd r).
Proof.
  intros c evs1 evs2 s status vis Hin Hf. induction evs2 as [|e evs2 IH] using rev_ind; intro H.
  - cbv zeta. destruct (grun_snoc_parts c evs1 (GResp s true status vis)) as [Ef Et].
    rewrite Ef, Et. unfold count_resp. cbn [filter length Z.of_nat]. rewrite Z.add_0_r.
    apply (exact_open c (fst (grun c evs1)) (snd (grun c evs1)) s status vis Hin Hf).
  - rewrite forallb_app in H. apply andb_true_iff in H. destruct H as [H1 H2].
    cbn [forallb] in H2. rewrite andb_true_r in H2. specialize (IH H1). cbv zeta in IH |- *.
    replace (evs1 ++ GResp s true status vis :: evs2 ++ [e])
      with ((evs1 ++ GResp s true status vis :: evs2) ++ [e])
      by (rewrite <- app_assoc; reflexivity).
    destruct (grun_snoc_parts c (evs1 ++ GResp s true status vis :: evs2) e) as [Ef Et].
    rewrite Ef, Et, count_resp_snoc, Z.add_assoc.
    apply exact_step; [pose proof (count_resp_nonneg s evs2); lia|exact IH|exact H2].
Qed.

(* ---------------- exactness on the timed machine ---------------- *)

Lemma tfold_is_gfold : forall c evs t acc,
  fold_left (gstep_acc c) (tg_from c t evs) (tStore t, acc) =
  (tStore (fst (fold_left (tstep_acc c) evs (t, acc))),
   snd (fold_left (tstep_acc c) evs (t, acc))).
Proof.
  intros c evs. induction evs as [|e r IH]; intros t acc.
  - reflexivity.
  - cbn [tg_from fold_left]. rewrite fold_left_app, tstep_sim.
    unfold tstep_acc at 2 4. cbn [fst snd].
    destruct (tstep c t e) as [t' o]. cbn [fst snd]. apply IH.
Qed.

Lemma count_resp_app : forall s a b,
  count_resp s (a ++ b) = count_resp s a + count_resp s b.
Proof. intros. unfold count_resp. rewrite filter_app, app_length, Nat2Z.inj_add. reflexivity. Qed.

Lemma count_resp_drops : forall s (l : list (Z * Z)),
  count_resp s (map (fun d => GDrop (snd d)) l) = 0.
Proof. intros s l. unfold count_resp. induction l as [|d l IH]; simpl; [reflexivity|exact IH]. Qed.

Lemma count_resp_tg : forall c s evs t,
  count_resp s (tg_from c t evs) = tcount_resp s evs.
Proof.
  intros c s evs. induction evs as [|e r IH]; intro t; [reflexivity|].
  cbn [tg_from]. rewrite count_resp_app, IH.
  unfold tcount_resp. cbn [filter].
  destruct e as [s0 n status|dt|]; cbn [t_to_g t_resp_of].
  - unfold count_resp. cbn [filter g_resp_of]. destruct (s0 =? s); cbn [length]; lia.
  - reflexivity.
  - rewrite count_resp_drops. reflexivity.
Qed.

Lemma timed_exact_run : forall c t0 evs1 evs2 s status,
  let t1 := fst (trun c t0 evs1) in
  in_ranges (pRanges c) status = true ->
  (t_vis t1 s = false \/ get Z.eqb (tStore t1) s = None) ->
  forallb (calm c s) (tg_from c (fst (tstep c t1 (TResp s true status))) evs2) = true ->
  seg_retries s (snd (trun c t0 (evs1 ++ TResp s true status :: evs2))) =
    Z.min (1 + tcount_resp s evs2) (Z.max 0 (pAttempts c)).
Proof.
  intros c t0 evs1 evs2 s status t1 Hin Hf Hc.
  destruct (trun_is_grun c t0 evs1) as [g1 [Hg _]].
  assert (Hs : fst (grun c g1) = tStore t1) by (rewrite Hg; reflexivity).
  rewrite <- Hs in Hf.
  pose proof (exact_run c g1 _ s status (t_vis t1 s) Hin Hf Hc) as [E _].
  cbv zeta in E. rewrite count_resp_tg in E. rewrite <- E. f_equal. f_equal.
  change (GResp s true status (t_vis t1 s) ::
          tg_from c (fst (tstep c t1 (TResp s true status))) evs2)
    with (tg_from c t1 (TResp s true status :: evs2)).
  rewrite grun_app, Hg. unfold trun at 1. rewrite fold_left_app. fold (trun c t0 evs1).
  rewrite (surjective_pairing (trun c t0 evs1)). fold t1.
  rewrite tfold_is_gfold. reflexivity.
Qed.
