(* C17 — the hand-written model equals what the translator reads off the source
   (flows mode).

   theories/C17/Gen.v is regenerated from streams/processors/retry/
   retry_processor.go on every check run (getCounterKey, incrementRetryCount,
   removeCount, Execute).  The code keeps the retry counter as a Go int in the
   transaction's flow context under the string key
   "<processor name>::retry_counter::<sequence id>"; the model (Model.fexec)
   keeps an association list keyed by (processor id, sequence id) with
   cons-and-delete updates.  Both are read through look-ups only, so the tie is
   the simulation relation [Rf]: every counter key of the flow context holds the
   Go int the model's store has for it.  C17_gen_Execute: related stores, same
   processor and sequence => the generated Execute does not panic, answers
   "failed" / "retry" exactly as fexec does, and the stores are related again;
   for ALL flow contexts, attempts values and ids, and all namings of processors
   and sequences that are injective and keep ':' out of one of the two sides
   (ckey_inj is PROVED from that; without it two pairs can share a key, see
   counter_key_collision).  C17_gen_Execute_bits: the statement closed for one
   concrete naming.  C17_gen_Execute_run: the square lifted to whole runs — from
   the empty flow context (Rf_empty) a run of the generated Execute over any
   history (gen_run) never panics and answers exactly the trace of Model.frun,
   the function the suites evaluate; _run_bits: closed; gen_run_example: the
   generated code computing a run.

   Not translated: getCooldownDuration (float64; a parameter of the generated
   Execute, its value is only waited for), init (load-time validation: fload),
   the policy-mode plugin (services/remedies/retry_plugin.go) — tied by the
   differential suites only. *)
From Coq Require Import List ZArith Bool Lia.
From Verif Require Import Lib.GoSem C17.Model C17.Proofs.
From Verif Require C17.Gen.
Import ListNotations.
Open Scope Z_scope.

(* ---------------------------------------------------------------- key strings *)

(* a string is cut in one way only at its FIRST ':' ... *)
Lemma cut_first_colon : forall (P P' R R' : gostring),
  ~ In 58 P -> ~ In 58 P' -> P ++ 58 :: R = P' ++ 58 :: R' -> P = P' /\ R = R'.
Proof.
  induction P as [|x P IH]; intros [|y P'] R R' HP HP' E; cbn [app] in E.
  - injection E as E. split; [reflexivity|exact E].
  - injection E as E1 E2. exfalso. apply HP'. left. symmetry. exact E1.
  - injection E as E1 E2. exfalso. apply HP. left. exact E1.
  - injection E as E1 E2. subst y.
    destruct (IH P' R R') as [-> ->]; [..|split; reflexivity].
    + intro X. apply HP. right. exact X.
    + intro X. apply HP'. right. exact X.
    + exact E2.
Qed.

(* ... and at its LAST ':' *)
Lemma cut_last_colon : forall (A A' S S' : gostring),
  ~ In 58 S -> ~ In 58 S' -> A ++ 58 :: S = A' ++ 58 :: S' -> A = A' /\ S = S'.
Proof.
  induction A as [|x A IH]; intros [|y A'] S S' HS HS' E; cbn [app] in E.
  - injection E as E. split; [reflexivity|exact E].
  - injection E as E1 E2. exfalso. apply HS. rewrite E2. apply in_or_app. right. left. reflexivity.
  - injection E as E1 E2. exfalso. apply HS'. rewrite <- E2. apply in_or_app. right. left. reflexivity.
  - injection E as E1 E2. subst y.
    destruct (IH A' S S' HS HS' E2) as [-> ->]. split; reflexivity.
Qed.

(* the key format of getCounterKey: "<processor>::retry_counter::<sequence>".
   Different (processor, sequence) pairs can give the same string when ':' is
   allowed on both sides ("A" + "retry_counter::x" and "A::retry_counter" + "x"
   both give "A::retry_counter::retry_counter::x", see counter_key_collision);
   it is enough that ONE side is free of ':' *)
Lemma getCounterKey_inj : forall n a P P' S S',
  (~ In 58 P /\ ~ In 58 P') \/ (~ In 58 S /\ ~ In 58 S') ->
  Gen.getCounterKey (Gen.mk_rp P n) S = Gen.getCounterKey (Gen.mk_rp P' a) S' ->
  P = P' /\ S = S'.
Proof.
  intros n a P P' S S' H E. unfold Gen.getCounterKey in E. cbn [Gen.rp_name] in E.
  destruct H as [[HP HP']|[HS HS']].
  - cbn [app] in E. destruct (cut_first_colon _ _ _ _ HP HP' E) as [-> E2].
    split; [reflexivity|]. injection E2 as E2.
    repeat (injection E2 as _ E2). exact E2.
  - set (K := [58; 58] ++ [114;101;116;114;121;95;99;111;117;110;116;101;114] ++ [58]) in *.
    assert (R : forall (X Y : gostring),
      X ++ [58; 58] ++ [114;101;116;114;121;95;99;111;117;110;116;101;114] ++ [58; 58] ++ Y
      = (X ++ K) ++ 58 :: Y).
    { intros X Y. unfold K. rewrite <- !app_assoc. reflexivity. }
    rewrite !R in E. destruct (cut_last_colon _ _ _ _ HS HS' E) as [E1 ->].
    split; [|reflexivity]. apply app_inv_tail in E1. exact E1.
Qed.

Example counter_key_collision :
  Gen.getCounterKey (Gen.mk_rp [65] 0) ([114;101;116;114;121;95;99;111;117;110;116;101;114;58;58;120])
  = Gen.getCounterKey (Gen.mk_rp ([65;58;58;114;101;116;114;121;95;99;111;117;110;116;101;114]) 0) [120].
Proof. reflexivity. Qed.

Section Names.

(* processor ids / sequence ids of the model -> the strings of the code *)
Variable pname : Z -> gostring.
Variable sname : Z -> gostring.

(* different ids have different names, and ':' does not occur in the processor
   names, or does not occur in the sequence ids (decidable per name; the
   sequence ids the proxy generates are UUIDs) *)
Hypothesis pname_inj : forall a b, pname a = pname b -> a = b.
Hypothesis sname_inj : forall a b, sname a = sname b -> a = b.
Hypothesis one_side_colon_free :
  (forall p, ~ In 58 (pname p)) \/ (forall s, ~ In 58 (sname s)).

Definition ckey (k : fkey) : gostring :=
  Gen.getCounterKey (Gen.mk_rp (pname (fst k)) 0) (sname (snd k)).

(* distinct (processor, sequence) pairs have distinct counter keys *)
Lemma ckey_inj : forall k k', ckey k = ckey k' -> k = k'.
Proof.
  intros [p s] [p' s'] E. unfold ckey in E. cbn [fst snd] in E.
  apply getCounterKey_inj in E.
  - destruct E as [Ep Es]. apply pname_inj in Ep. apply sname_inj in Es. subst. reflexivity.
  - destruct one_side_colon_free as [H|H]; [left|right]; split; apply H.
Qed.

Definition Rf (c : ctxmem) (st : fstore) : Prop :=
  forall k, smap_get c (ckey k) = option_map VInt (get fkey_eqb st k).

Definition out_of (io : Gen.ProcessorIO) : option fout :=
  if gostring_eqb (Gen.ProcessorIO_Name io) [102;97;105;108;101;100]          (* "failed" *)
  then match Gen.ProcessorIO_RespAction io with None => Some FFailed | Some _ => None end
  else if gostring_eqb (Gen.ProcessorIO_Name io) [114;101;116;114;121]        (* "retry" *)
  then match Gen.ProcessorIO_RespAction io with Some _ => Some FRetry | None => None end
  else None.

Lemma ckey_nonempty k : ckey k <> [].
Proof.
  unfold ckey, Gen.getCounterKey. cbn [Gen.rp_name].
  destruct (pname (fst k)); discriminate.
Qed.

Lemma ckey_of p a pid sid :
  Gen.rp_name p = pname pid -> as_seq a = sname sid ->
  Gen.getCounterKey p (as_seq a) = ckey (pid, sid).
Proof. intros Hp Hs. unfold ckey, Gen.getCounterKey. cbn. now rewrite Hp, Hs. Qed.

Lemma Rf_set c st k n :
  Rf c st -> Rf (smap_set c (ckey k) (VInt n)) (set fkey_eqb st k n).
Proof.
  intros H k'. destruct (fkey_eqb k' k) eqn:E.
  - apply fkey_eqb_spec in E. subst k'.
    rewrite smap_get_set_same, (get_set_same fkey_eqb fkey_eqb_spec). reflexivity.
  - assert (Hn : k' <> k) by (intros ->; now rewrite (proj2 (fkey_eqb_spec k k) eq_refl) in E).
    rewrite smap_get_set_other by (intros Hc; apply ckey_inj in Hc; contradiction).
    rewrite (get_set_other fkey_eqb fkey_eqb_spec) by (intros X; apply Hn; now symmetry).
    apply H.
Qed.

Lemma Rf_del c st k :
  Rf c st -> Rf (smap_delete c (ckey k)) (del fkey_eqb st k).
Proof.
  intros H k'. destruct (fkey_eqb k' k) eqn:E.
  - apply fkey_eqb_spec in E. subst k'.
    rewrite smap_get_delete_same, (get_del_same fkey_eqb). reflexivity.
  - assert (Hn : k' <> k) by (intros ->; now rewrite (proj2 (fkey_eqb_spec k k) eq_refl) in E).
    rewrite smap_get_delete_other by (intros Hc; apply ckey_inj in Hc; contradiction).
    rewrite (get_del_other fkey_eqb fkey_eqb_spec) by (intros X; apply Hn; now symmetry).
    apply H.
Qed.

(* ---------------------------------------------------------------- incrementRetryCount *)

Lemma gen_incrementRetryCount p a st k :
  Rf (as_flow a) st ->
  let cur := match get fkey_eqb st k with Some n => n | None => 0 end in
  Gen.incrementRetryCount p (ckey k) a
  = Normal (set_as_flow (smap_set (as_flow a) (ckey k) (VInt (cur + 1))) a) (cur + 1).
Proof.
  intros HR. cbv zeta. unfold Gen.incrementRetryCount, ctx_get.
  rewrite (HR k). destruct (get fkey_eqb st k) as [n|]; cbn [option_map err_is_nil negb is_int int_of].
  - unfold ctx_set. destruct (ckey k) eqn:Ek; [now apply ckey_nonempty in Ek|]. reflexivity.
  - unfold ctx_set. destruct (ckey k) eqn:Ek; [now apply ckey_nonempty in Ek|]. reflexivity.
Qed.

Lemma gen_removeCount p a k :
  Gen.removeCount p (ckey k) a = set_as_flow (smap_delete (as_flow a) (ckey k)) a
  \/ (smap_get (as_flow a) (ckey k) = None /\ Gen.removeCount p (ckey k) a = set_as_flow (as_flow a) a).
Proof.
  unfold Gen.removeCount, ctx_pop.
  destruct (smap_get (as_flow a) (ckey k)) as [v|]; [left|right; split]; reflexivity.
Qed.

(* ---------------------------------------------------------------- Execute *)

Theorem C17_gen_Execute : forall cd p flowName a st pid sid,
  Gen.rp_name p = pname pid ->
  as_seq a = sname sid ->
  Rf (as_flow a) st ->
  exists a' io,
    Gen.Execute cd p flowName a = Normal a' (io, ErrNil)
    /\ (let '(st', o) := fexec (Gen.rp_attempts p) st (pid, sid) in
        Rf (as_flow a') st' /\ out_of io = Some o)
    /\ as_id a' = as_id a /\ as_seq a' = as_seq a /\ as_count a' = as_count a.
Proof.
  intros cd p flowName a st pid sid Hp Hs HR.
  unfold Gen.Execute. rewrite (ckey_of p a pid sid Hp Hs).
  rewrite (gen_incrementRetryCount p a st (pid, sid) HR).
  unfold fexec.
  set (cur := match get fkey_eqb st (pid, sid) with Some n => n | None => 0 end).
  set (a1 := set_as_flow (smap_set (as_flow a) (ckey (pid, sid)) (VInt (cur + 1))) a).
  assert (HR1 : Rf (as_flow a1) (set fkey_eqb st (pid, sid) (cur + 1))) by (apply Rf_set; exact HR).
  destruct (Gen.rp_attempts p <? cur + 1) eqn:Eatt.
  - (* more than the configured attempts: the counter is removed, "failed" *)
    destruct (gen_removeCount p a1 (pid, sid)) as [Hrm|[Habs _]].
    + rewrite Hrm. eexists; eexists; split; [reflexivity|]. split; [|repeat split].
      split; [|reflexivity]. cbn [as_flow set_as_flow]. apply Rf_del. exact HR1.
    + exfalso. unfold a1 in Habs. cbn [as_flow set_as_flow] in Habs.
      rewrite smap_get_set_same in Habs. discriminate Habs.
  - eexists; eexists; split; [reflexivity|]. split; [|repeat split].
    split; [exact HR1|reflexivity].
Qed.

(* ---------------------------------------------------------------- runs *)

(* the premise of the square is satisfiable: the empty flow context is related
   to the empty store (where Model.frun starts), and the square preserves the
   relation, so it holds along every run (C17_gen_Execute_run) *)
Example Rf_empty : Rf [] [].
Proof. intro k. reflexivity. Qed.

(* A run of the GENERATED code over the events of Model.frun: one flow context
   threaded through; [FExec p s] calls the generated Execute of the processor
   named [pname p] with [att p] attempts on a stream whose sequence id is
   [sname s] (transaction id / body-count fields [aid s], [acnt s]: arbitrary,
   Execute neither reads nor changes them); [FSkip] touches nothing.  [None] =
   Execute panicked, returned an error, or answered something that is neither
   "failed" without action nor "retry" with the retry action. *)
Definition gen_step (cd : Z -> Z) (att : Z -> Z) (fl : gostring)
    (aid : Z -> gostring) (acnt : Z -> Z * goerror)
    (c : ctxmem) (e : fev) : option (ctxmem * fout) :=
  match e with
  | FExec p s =>
      match Gen.Execute cd (Gen.mk_rp (pname p) (att p)) fl
                        (mk_apistream (aid s) (acnt s) (sname s) c) with
      | Normal a' (io, ErrNil) =>
          match out_of io with Some o => Some (as_flow a', o) | None => None end
      | _ => None
      end
  | FSkip _ => Some (c, FOther)
  end.

Fixpoint gen_run (cd : Z -> Z) (att : Z -> Z) (fl : gostring)
    (aid : Z -> gostring) (acnt : Z -> Z * goerror)
    (c : ctxmem) (evs : list fev) : option (ctxmem * list (fev * fout)) :=
  match evs with
  | [] => Some (c, [])
  | e :: r =>
      match gen_step cd att fl aid acnt c e with
      | None => None
      | Some (c', o) =>
          match gen_run cd att fl aid acnt c' r with
          | None => None
          | Some (c'', tr) => Some (c'', (e, o) :: tr)
          end
      end
  end.

Lemma gen_step_sim cd att fl aid acnt c st e :
  Rf c st ->
  exists c', gen_step cd att fl aid acnt c e = Some (c', snd (fstep att st e))
             /\ Rf c' (fst (fstep att st e)).
Proof.
  intros HR. destruct e as [p s|s].
  - destruct (C17_gen_Execute cd (Gen.mk_rp (pname p) (att p)) fl
                (mk_apistream (aid s) (acnt s) (sname s) c) st p s
                eq_refl eq_refl HR) as [a' [io [HE [HS _]]]].
    cbn [Gen.rp_attempts] in HS. cbn [fstep].
    destruct (fexec (att p) st (p, s)) as [st' o]. destruct HS as [HR' Ho].
    exists (as_flow a'). unfold gen_step. rewrite HE, Ho. cbn [fst snd].
    split; [reflexivity|exact HR'].
  - exists c. cbn [gen_step fstep fst snd]. split; [reflexivity|exact HR].
Qed.

Lemma gen_run_sim cd att fl aid acnt : forall evs c st acc,
  Rf c st ->
  exists c' st' tr,
    gen_run cd att fl aid acnt c evs = Some (c', tr)
    /\ fold_left (fstep_acc att) evs (st, acc) = (st', acc ++ tr)
    /\ Rf c' st'.
Proof.
  induction evs as [|e r IH]; intros c st acc HR.
  - exists c, st, []. cbn [gen_run fold_left]. rewrite app_nil_r. repeat split. exact HR.
  - destruct (gen_step_sim cd att fl aid acnt c st e HR) as [c1 [H1 HR1]].
    cbn [gen_run fold_left]. rewrite H1.
    unfold fstep_acc at 2. cbn [fst snd].
    destruct (fstep att st e) as [st1 o] eqn:Es. cbn [fst snd] in HR1 |- *.
    destruct (IH c1 st1 (acc ++ [(e, o)]) HR1) as [c' [st' [tr [Hg [Hf HR']]]]].
    exists c', st', ((e, o) :: tr). rewrite Hg, Hf, <- app_assoc.
    repeat split. exact HR'.
Qed.

(* The square lifted to runs: from the empty flow context the generated code
   never panics, never returns an error, and its whole run — every answer, in
   order — is the trace of Model.frun (the function the suites flowproc /
   flowengine evaluate); the final flow context holds exactly the counters of
   the model's final store.  For ALL histories, attempts, cool-down oracles. *)
Corollary C17_gen_Execute_run : forall cd att fl aid acnt evs,
  exists c,
    gen_run cd att fl aid acnt [] evs = Some (c, snd (frun att evs))
    /\ Rf c (fst (frun att evs)).
Proof.
  intros cd att fl aid acnt evs.
  destruct (gen_run_sim cd att fl aid acnt evs [] [] [] Rf_empty)
    as [c [st' [tr [Hg [Hf HR]]]]].
  assert (E : frun att evs = (st', tr)) by exact Hf.
  exists c. rewrite E. cbn [fst snd]. split; assumption.
Qed.

End Names.
Print Assumptions C17_gen_Execute.
Print Assumptions C17_gen_Execute_run.

(* ---------------------------------------------------------------- a concrete naming *)

(* the hypotheses of the section are satisfiable: names = sign and binary
   digits ("+101", "-11", ""), which never contain ':' *)
Fixpoint pos_bits (p : positive) : gostring :=
  match p with
  | xH => [49]
  | xO q => 48 :: pos_bits q
  | xI q => 49 :: pos_bits q
  end.

Definition zbits (z : Z) : gostring :=
  match z with Z0 => [] | Zpos p => 43 :: pos_bits p | Zneg p => 45 :: pos_bits p end.

Lemma pos_bits_inj : forall p q, pos_bits p = pos_bits q -> p = q.
Proof.
  induction p as [p IH|p IH|]; intros [q|q|] E; cbn [pos_bits] in E;
    try discriminate; try reflexivity.
  - injection E as E. f_equal. apply IH. exact E.
  - injection E as E. destruct p; discriminate.
  - injection E as E. f_equal. apply IH. exact E.
  - injection E as E. destruct q; discriminate.
Qed.

Lemma zbits_inj : forall a b, zbits a = zbits b -> a = b.
Proof.
  intros [|p|p] [|q|q] E; cbn [zbits] in E; try discriminate; try reflexivity;
    injection E as E; apply pos_bits_inj in E; subst; reflexivity.
Qed.

Lemma pos_bits_no_colon : forall p, ~ In 58 (pos_bits p).
Proof.
  induction p as [p IH|p IH|]; cbn [pos_bits In]; intros [X|X];
    try discriminate; try contradiction; apply IH; exact X.
Qed.

Lemma zbits_no_colon : forall z, ~ In 58 (zbits z).
Proof.
  intros [|p|p]; cbn [zbits In]; [tauto| |]; intros [X|X]; try discriminate;
    apply (pos_bits_no_colon p); exact X.
Qed.

Theorem C17_gen_Execute_bits : forall cd p flowName a st pid sid,
  Gen.rp_name p = zbits pid ->
  as_seq a = zbits sid ->
  Rf zbits zbits (as_flow a) st ->
  exists a' io,
    Gen.Execute cd p flowName a = Normal a' (io, ErrNil)
    /\ (let '(st', o) := fexec (Gen.rp_attempts p) st (pid, sid) in
        Rf zbits zbits (as_flow a') st' /\ out_of io = Some o)
    /\ as_id a' = as_id a /\ as_seq a' = as_seq a /\ as_count a' = as_count a.
Proof.
  exact (C17_gen_Execute zbits zbits zbits_inj zbits_inj (or_introl zbits_no_colon)).
Qed.
Print Assumptions C17_gen_Execute_bits.

(* the run statement closed for the concrete naming *)
Corollary C17_gen_Execute_run_bits : forall cd att fl aid acnt evs,
  exists c,
    gen_run zbits zbits cd att fl aid acnt [] evs = Some (c, snd (frun att evs))
    /\ Rf zbits zbits c (fst (frun att evs)).
Proof.
  exact (C17_gen_Execute_run zbits zbits zbits_inj zbits_inj (or_introl zbits_no_colon)).
Qed.
Print Assumptions C17_gen_Execute_run_bits.

(* the generated code really runs (by computation, not through the corollary):
   attempts 2, one processor, sequence 7 interleaved with sequence 8 and a
   response routed elsewhere: retry, retry, other, retry, failed, and the reused
   id starts from an absent counter *)
Example gen_run_example :
  let evs := [FExec 0 7; FExec 0 8; FSkip 7; FExec 0 7; FExec 0 7; FExec 0 7] in
  option_map (fun r => map (fun x => fout_code (snd x)) (snd r))
             (gen_run zbits zbits (fun _ => 0) (fun _ => 2) [] zbits (fun _ => (0, ErrNil)) [] evs)
    = Some [0; 0; 2; 0; 1; 0]
  /\ map (fun x => fout_code (snd x)) (snd (frun (fun _ => 2) evs)) = [0; 0; 2; 0; 1; 0].
Proof. vm_compute. split; reflexivity. Qed.
