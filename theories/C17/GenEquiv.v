(* C17 — the hand-written model equals what the translator reads off the source
   (flows mode).

   theories/C17/Gen.v is regenerated from streams/processors/retry/
   retry_processor.go on every check run (getCounterKey, incrementRetryCount,
   removeCount, Execute).  The code keeps the retry counter as a Go int in the
   transaction's flow context under the string key
   "<processor name>::retry_counter::<sequence id>"; the model (Model.fexec)
   keeps an association list keyed by (processor id, sequence id) with
   cons-and-delete updates.  Both are read through look-ups only, so the tie is
   the simulation relation [Rf]: every counter key of the flow context holds the
   Go int the model's store has for it.  C17_gen_Execute: related stores, same
   processor and sequence => the generated Execute does not panic, answers
   "failed" / "retry" exactly as fexec does, and the stores are related again;
   for ALL flow contexts, attempts values, names and ids.

   Not translated: getCooldownDuration (float64; a parameter of the generated
   Execute, its value is only waited for), init (load-time validation: fload),
   the policy-mode plugin (services/remedies/retry_plugin.go) — tied by the
   differential suites only. *)
From Coq Require Import List ZArith Bool Lia.
From Verif Require Import Lib.GoSem C17.Model C17.Proofs.
From Verif Require C17.Gen.
Import ListNotations.
Open Scope Z_scope.

Section Names.

(* processor ids / sequence ids of the model -> the strings of the code *)
Variable pname : Z -> gostring.
Variable sname : Z -> gostring.

Definition ckey (k : fkey) : gostring :=
  Gen.getCounterKey (Gen.mk_rp (pname (fst k)) 0) (sname (snd k)).

(* distinct (processor, sequence) pairs have distinct counter keys — true when
   the names do not contain the separator; assumed (see notes) *)
Hypothesis ckey_inj : forall k k', ckey k = ckey k' -> k = k'.

Definition Rf (c : ctxmem) (st : fstore) : Prop :=
  forall k, smap_get c (ckey k) = option_map VInt (get fkey_eqb st k).

Definition out_of (io : Gen.ProcessorIO) : option fout :=
  if gostring_eqb (Gen.ProcessorIO_Name io) [102;97;105;108;101;100]          (* "failed" *)
  then match Gen.ProcessorIO_RespAction io with None => Some FFailed | Some _ => None end
  else if gostring_eqb (Gen.ProcessorIO_Name io) [114;101;116;114;121]        (* "retry" *)
  then match Gen.ProcessorIO_RespAction io with Some _ => Some FRetry | None => None end
  else None.

Lemma ckey_nonempty k : ckey k <> [].
Proof.
  unfold ckey, Gen.getCounterKey. cbn [Gen.rp_name].
  destruct (pname (fst k)); discriminate.
Qed.

Lemma ckey_of p a pid sid :
  Gen.rp_name p = pname pid -> as_seq a = sname sid ->
  Gen.getCounterKey p (as_seq a) = ckey (pid, sid).
Proof. intros Hp Hs. unfold ckey, Gen.getCounterKey. cbn. now rewrite Hp, Hs. Qed.

Lemma Rf_set c st k n :
  Rf c st -> Rf (smap_set c (ckey k) (VInt n)) (set fkey_eqb st k n).
Proof.
  intros H k'. destruct (fkey_eqb k' k) eqn:E.
  - apply fkey_eqb_spec in E. subst k'.
    rewrite smap_get_set_same, (get_set_same fkey_eqb fkey_eqb_spec). reflexivity.
  - assert (Hn : k' <> k) by (intros ->; now rewrite (proj2 (fkey_eqb_spec k k) eq_refl) in E).
    rewrite smap_get_set_other by (intros Hc; apply ckey_inj in Hc; contradiction).
    rewrite (get_set_other fkey_eqb fkey_eqb_spec) by (intros X; apply Hn; now symmetry).
    apply H.
Qed.

Lemma Rf_del c st k :
  Rf c st -> Rf (smap_delete c (ckey k)) (del fkey_eqb st k).
Proof.
  intros H k'. destruct (fkey_eqb k' k) eqn:E.
  - apply fkey_eqb_spec in E. subst k'.
    rewrite smap_get_delete_same, (get_del_same fkey_eqb). reflexivity.
  - assert (Hn : k' <> k) by (intros ->; now rewrite (proj2 (fkey_eqb_spec k k) eq_refl) in E).
    rewrite smap_get_delete_other by (intros Hc; apply ckey_inj in Hc; contradiction).
    rewrite (get_del_other fkey_eqb fkey_eqb_spec) by (intros X; apply Hn; now symmetry).
    apply H.
Qed.

(* ---------------------------------------------------------------- incrementRetryCount *)

Lemma gen_incrementRetryCount p a st k :
  Rf (as_flow a) st ->
  let cur := match get fkey_eqb st k with Some n => n | None => 0 end in
  Gen.incrementRetryCount p (ckey k) a
  = Normal (set_as_flow (smap_set (as_flow a) (ckey k) (VInt (cur + 1))) a) (cur + 1).
Proof.
  intros HR. cbv zeta. unfold Gen.incrementRetryCount, ctx_get.
  rewrite (HR k). destruct (get fkey_eqb st k) as [n|]; cbn [option_map err_is_nil negb is_int int_of].
  - unfold ctx_set. destruct (ckey k) eqn:Ek; [now apply ckey_nonempty in Ek|]. reflexivity.
  - unfold ctx_set. destruct (ckey k) eqn:Ek; [now apply ckey_nonempty in Ek|]. reflexivity.
Qed.

Lemma gen_removeCount p a k :
  Gen.removeCount p (ckey k) a = set_as_flow (smap_delete (as_flow a) (ckey k)) a
  \/ (smap_get (as_flow a) (ckey k) = None /\ Gen.removeCount p (ckey k) a = set_as_flow (as_flow a) a).
Proof.
  unfold Gen.removeCount, ctx_pop.
  destruct (smap_get (as_flow a) (ckey k)) as [v|]; [left|right; split]; reflexivity.
Qed.

(* ---------------------------------------------------------------- Execute *)

Theorem C17_gen_Execute : forall cd p flowName a st pid sid,
  Gen.rp_name p = pname pid ->
  as_seq a = sname sid ->
  Rf (as_flow a) st ->
  exists a' io,
    Gen.Execute cd p flowName a = Normal a' (io, ErrNil)
    /\ (let '(st', o) := fexec (Gen.rp_attempts p) st (pid, sid) in
        Rf (as_flow a') st' /\ out_of io = Some o)
    /\ as_id a' = as_id a /\ as_seq a' = as_seq a /\ as_count a' = as_count a.
Proof.
  intros cd p flowName a st pid sid Hp Hs HR.
  unfold Gen.Execute. rewrite (ckey_of p a pid sid Hp Hs).
  rewrite (gen_incrementRetryCount p a st (pid, sid) HR).
  unfold fexec.
  set (cur := match get fkey_eqb st (pid, sid) with Some n => n | None => 0 end).
  set (a1 := set_as_flow (smap_set (as_flow a) (ckey (pid, sid)) (VInt (cur + 1))) a).
  assert (HR1 : Rf (as_flow a1) (set fkey_eqb st (pid, sid) (cur + 1))) by (apply Rf_set; exact HR).
  destruct (Gen.rp_attempts p <? cur + 1) eqn:Eatt.
  - (* more than the configured attempts: the counter is removed, "failed" *)
    destruct (gen_removeCount p a1 (pid, sid)) as [Hrm|[Habs _]].
    + rewrite Hrm. eexists; eexists; split; [reflexivity|]. split; [|repeat split].
      split; [|reflexivity]. cbn [as_flow set_as_flow]. apply Rf_del. exact HR1.
    + exfalso. unfold a1 in Habs. cbn [as_flow set_as_flow] in Habs.
      rewrite smap_get_set_same in Habs. discriminate Habs.
  - eexists; eexists; split; [reflexivity|]. split; [|repeat split].
    split; [exact HR1|reflexivity].
Qed.

End Names.
