(* C17 — the REPRESENTATION of the per-call retry counter (flows mode).

   retry_processor.go keeps the counter in the flow context as a Go `int` and
   compares it with `attempts` (also an `int`, any value >= 1 is accepted at
   load).  Model.fexec reads that as unbounded integers (trusted: 64-bit
   overflow is out of reach).  The dimension made explicit here is the WIDTH of
   the stored counter relative to the configured budget, with a variant switch:

     CountInt    the code as it is: the counter is as wide as `attempts`;
     CountUint8  the plausible "compact" edit (seeded change C17-12): the counter
                 is stored as an 8-bit unsigned value, 255 + 1 = 0, read back,
                 widened to int and compared with `attempts` as before.

   With CountUint8 the value compared with `attempts` never exceeds 255, so for
   attempts >= 255 `failed` is never answered: the bound is refuted.  For
   attempts <= 254 the two variants are the same machine (proved), i.e. the
   narrowing is invisible to every suite that stops at small budgets. *)
From Coq Require Import List ZArith Bool Lia.
From Verif Require Import C17.Model C17.Spec C17.Proofs.
Import ListNotations.
Open Scope Z_scope.

Inductive counter_repr := CountInt | CountUint8.

(* what is stored for the value [x] *)
Definition cnorm (v : counter_repr) (x : Z) : Z :=
  match v with CountInt => x | CountUint8 => x mod 256 end.

(* retryProcessor.Execute with the counter kept in representation [v] *)
Definition wexec (v : counter_repr) (att : Z) (st : fstore) (k : fkey) : fstore * fout :=
  let cur := match get fkey_eqb st k with Some n => n | None => 0 end in
  let upd := cnorm v (cur + 1) in
  let st1 := set fkey_eqb st k upd in
  if att <? upd then (del fkey_eqb st1 k, FFailed) else (st1, FRetry).

Definition wstep (v : counter_repr) (att : Z -> Z) (st : fstore) (e : fev) : fstore * fout :=
  match e with
  | FExec p s => wexec v (att p) st (p, s)
  | FSkip _ => (st, FOther)
  end.

Definition wstep_acc (v : counter_repr) (att : Z -> Z) (acc : fstore * list (fev * fout)) (e : fev)
  : fstore * list (fev * fout) :=
  let '(st', o) := wstep v att (fst acc) e in (st', snd acc ++ [(e, o)]).

Definition wrun (v : counter_repr) (att : Z -> Z) (evs : list fev) : fstore * list (fev * fout) :=
  fold_left (wstep_acc v att) evs ([], []).

Lemma wrun_snoc : forall v att evs e,
  wrun v att (evs ++ [e]) = wstep_acc v att (wrun v att evs) e.
Proof. intros. unfold wrun. apply fold_left_snoc. Qed.

(* the code as it is: the machine of Model.v *)
Lemma wexec_int : forall att st k, wexec CountInt att st k = fexec att st k.
Proof. reflexivity. Qed.

Lemma wstep_acc_int : forall att acc e, wstep_acc CountInt att acc e = fstep_acc att acc e.
Proof. intros att acc [p s | s]; reflexivity. Qed.

Lemma wrun_int : forall att evs, wrun CountInt att evs = frun att evs.
Proof.
  intros att evs. unfold wrun, frun.
  generalize (@nil (fkey * Z), @nil (fev * fout)).
  induction evs as [| e evs IH]; intro acc; [reflexivity |].
  cbn [fold_left]. rewrite wstep_acc_int. apply IH.
Qed.

(* an 8-bit counter behaves as the int counter as long as the stored value
   stays below 255 *)
Lemma wexec_uint8_small : forall att st k,
  0 <= match get fkey_eqb st k with Some n => n | None => 0 end < 255 ->
  wexec CountUint8 att st k = fexec att st k.
Proof.
  intros att st k H. unfold wexec, fexec, cnorm.
  rewrite Z.mod_small by lia. reflexivity.
Qed.

(* every budget of at most 254 attempts: the two representations give the same
   run, for all histories *)
Lemma wrun_uint8_small : forall att evs,
  (forall p, att p <= 254) ->
  wrun CountUint8 att evs = frun att evs.
Proof.
  intros att evs Hatt. induction evs as [| e evs IH] using rev_ind; [reflexivity |].
  rewrite wrun_snoc, frun_snoc, IH.
  pose proof (finv_run att evs) as Hinv.
  destruct (frun att evs) as [st tr]. cbn [fst snd] in Hinv.
  unfold wstep_acc, fstep_acc. cbn [fst snd].
  destruct e as [p s | s]; [| reflexivity].
  cbn [wstep fstep]. rewrite wexec_uint8_small; [reflexivity |].
  destruct (Hinv p s) as [Hb Hg]. rewrite Hg.
  specialize (Hatt p).
  destruct (since_failed (p, s) tr =? 0); lia.
Qed.

Definition flow_bound_with_counter (v : counter_repr) : Prop :=
  forall att evs p s,
    0 <= since_failed (p, s) (snd (wrun v att evs)) <= Z.max 0 (att p).

Lemma flow_bound_int : flow_bound_with_counter CountInt.
Proof.
  intros att evs p s. rewrite wrun_int. exact (proj1 (finv_run att evs p s)).
Qed.

Lemma flow_bound_uint8_small : forall att evs p s,
  (forall q, att q <= 254) ->
  0 <= since_failed (p, s) (snd (wrun CountUint8 att evs)) <= Z.max 0 (att p).
Proof.
  intros att evs p s H. rewrite wrun_uint8_small by exact H.
  exact (proj1 (finv_run att evs p s)).
Qed.

(* the seeded variant: attempts 255, one sequence, 256 failing responses: all of
   them are answered "retry" (the stored counter goes 1, 2, ..., 255, 0) *)
Definition width_witness : list fev := repeat (FExec 0 1) (Z.to_nat 256).

Lemma flow_bound_uint8_refuted : ~ flow_bound_with_counter CountUint8.
Proof.
  intro H. specialize (H (fun _ => 255) width_witness 0 1).
  vm_compute in H. destruct H as [_ H]. apply H. reflexivity.
Qed.

(* ... and it never stops: with an 8-bit counter and attempts >= 255 NO response
   is ever answered "failed", whatever the history *)
Lemma wexec_uint8_never_fails : forall att st k,
  255 <= att -> snd (wexec CountUint8 att st k) = FRetry.
Proof.
  intros att st k H. unfold wexec, cnorm.
  set (cur := match get fkey_eqb st k with Some n => n | None => 0 end).
  pose proof (Z.mod_pos_bound (cur + 1) 256 ltac:(lia)) as B.
  destruct (att <? (cur + 1) mod 256) eqn:E; [apply Z.ltb_lt in E; lia | reflexivity].
Qed.

Lemma wrun_uint8_never_fails : forall att evs,
  (forall p, 255 <= att p) ->
  forall x, In x (snd (wrun CountUint8 att evs)) -> snd x <> FFailed.
Proof.
  intros att evs Hatt. induction evs as [| e evs IH] using rev_ind.
  - intros x [].
  - rewrite wrun_snoc. destruct (wrun CountUint8 att evs) as [st tr]. cbn [snd] in IH.
    unfold wstep_acc. cbn [fst snd].
    destruct (wstep CountUint8 att st e) as [st' o] eqn:ES. cbn [snd].
    intros x Hx. apply in_app_or in Hx. destruct Hx as [Hx | [Hx | []]]; [now apply IH |].
    subst x. cbn [snd]. destruct e as [p s | s]; cbn [wstep] in ES.
    + pose proof (wexec_uint8_never_fails (att p) st (p, s) (Hatt p)) as Hn.
      rewrite ES in Hn. cbn [snd] in Hn. rewrite Hn. discriminate.
    + inversion ES. discriminate.
Qed.
