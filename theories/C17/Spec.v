(* C17 — vocabulary of the statements: counting functions over traces.
   Nothing here is used by the model; these are the observer's definitions. *)
From Coq Require Import List ZArith Bool.
From Verif Require Import C17.Model.
Import ListNotations.
Open Scope Z_scope.

(* ---------------- flows mode ---------------- *)

Definition fkey_of (e : fev) : option fkey :=
  match e with FExec p s => Some (p, s) | FSkip _ => None end.

Definition f_on (k : fkey) (e : fev) : bool :=
  match e with FExec p s => fkey_eqb (p, s) k | FSkip _ => false end.

(* number of "retry" outputs of processor/sequence [k] since its latest
   "failed" (or since the beginning) *)
Definition sf_step (k : fkey) (acc : Z) (x : fev * fout) : Z :=
  if f_on k (fst x) then
    match snd x with FRetry => acc + 1 | FFailed => 0 | FOther => acc end
  else acc.

Definition since_failed (k : fkey) (tr : list (fev * fout)) : Z :=
  fold_left (sf_step k) tr 0.

(* The reading of the property text: a logical call of sequence [s] on retry
   processor [p] is ended by "failed" AND by a response of [s] outside the retry
   conditions ([FSkip s]: no retry processor is reached).  [call_carried] counts
   in one pass
     fst: the retries asked for (p, s) since the latest END of a call;
     snd: the retries asked for (p, s) since its latest "failed" that PRECEDE
          that end — retries of an ended call which a gateway that forgot the
          sequence at its end would no longer count ("carried over").
   This is literally what the harness monitor computes (call / carried). *)
Definition cc_step (k : fkey) (acc : Z * Z) (x : fev * fout) : Z * Z :=
  match fst x with
  | FExec p s =>
      if fkey_eqb (p, s) k then
        match snd x with
        | FRetry => (fst acc + 1, snd acc)
        | FFailed => (0, 0)
        | FOther => acc
        end
      else acc
  | FSkip s => if s =? snd k then (0, snd acc + fst acc) else acc
  end.

Definition call_carried (k : fkey) (tr : list (fev * fout)) : Z * Z :=
  fold_left (cc_step k) tr (0, 0).

Definition since_end (k : fkey) (tr : list (fev * fout)) : Z := fst (call_carried k tr).
Definition carried (k : fkey) (tr : list (fev * fout)) : Z := snd (call_carried k tr).

(* ---------------- policy mode ---------------- *)

Definition r_seq (x : presp) : Z := fst (fst (fst x)).
Definition r_new (x : presp) : bool := snd (fst (fst x)).
Definition r_status (x : presp) : Z := snd (fst x).
Definition r_out (x : presp) : pout := snd x.

Definition retry1 (o : pout) : Z := match o with PRetry => 1 | PNoOp => 0 end.

(* retries asked for sequence [s] since (and including) the latest response
   that opened the sequence (ID = SequenceID); if the sequence was never
   opened: all retries asked for it *)
Definition seg_step (s : Z) (acc : Z) (x : presp) : Z :=
  if r_seq x =? s then (if r_new x then 0 else acc) + retry1 (r_out x) else acc.

Definition seg_retries (s : Z) (tr : list presp) : Z := fold_left (seg_step s) tr 0.

(* has the sequence been opened *)
Definition started (s : Z) (tr : list presp) : bool :=
  existsb (fun x => (r_seq x =? s) && r_new x) tr.

(* all retries ever asked for sequence [s] *)
Definition tot_step (s : Z) (acc : Z) (x : presp) : Z :=
  if r_seq x =? s then acc + retry1 (r_out x) else acc.
Definition retries (s : Z) (tr : list presp) : Z := fold_left (tot_step s) tr 0.

(* the same responses without any cache loss *)
Definition lossless (e : gev) : list gev :=
  match e with
  | GResp s n st _ => [GResp s n st true]
  | GDrop _ => []
  end.
Definition strip (evs : list gev) : list gev := flat_map lossless evs.

(* how many responses open sequence [s] *)
Definition g_opens (s : Z) (e : gev) : bool :=
  match e with GResp s' n _ _ => (s' =? s) && n | GDrop _ => false end.
Definition count_new (s : Z) (evs : list gev) : nat := length (filter (g_opens s) evs).

Definition t_opens (s : Z) (e : tev) : bool :=
  match e with TResp s' n _ => (s' =? s) && n | _ => false end.
Definition tcount_new (s : Z) (evs : list tev) : nat := length (filter (t_opens s) evs).

Definition t_lossless (e : tev) : list gev :=
  match e with TResp s n st => [GResp s n st true] | _ => [] end.
Definition resp_only (evs : list tev) : list gev := flat_map t_lossless evs.

(* events of one sequence *)
Definition g_on (s : Z) (e : gev) : bool :=
  match e with GResp s' _ _ _ => s' =? s | GDrop s' => s' =? s end.

(* number of responses of sequence [s] in a history *)
Definition g_resp_of (s : Z) (e : gev) : bool :=
  match e with GResp s' _ _ _ => s' =? s | GDrop _ => false end.
Definition count_resp (s : Z) (evs : list gev) : Z :=
  Z.of_nat (length (filter (g_resp_of s) evs)).

(* a continuation in which the call of [s] that is open goes on undisturbed:
   its responses are later ones (not opening), meet the retry conditions and
   find what the cache holds; the cache does not lose the entry of [s].
   Events of other sequences are arbitrary. *)
Definition calm (c : pcfg) (s : Z) (e : gev) : bool :=
  match e with
  | GResp s' n status vis =>
      if s' =? s then negb n && vis && in_ranges (pRanges c) status else true
  | GDrop s' => negb (s' =? s)
  end.

(* a continuation without a response opening [s] *)
Definition no_open (s : Z) (e : gev) : bool := negb (g_opens s e).

(* ---------------- the timed machine in the general vocabulary ---------------- *)

(* the general events a timed history amounts to when run from state [t]: each
   response with the visibility the clock gives it at that moment (t_vis: ttl
   not lapsed), each TFire as the losses of the sleepers due at that moment *)
Fixpoint tg_from (c : pcfg) (t : tstate) (evs : list tev) : list gev :=
  match evs with
  | [] => []
  | e :: r => t_to_g t e ++ tg_from c (fst (tstep c t e)) r
  end.

(* number of responses of sequence [s] in a timed history *)
Definition t_resp_of (s : Z) (e : tev) : bool :=
  match e with TResp s' _ _ => s' =? s | _ => false end.
Definition tcount_resp (s : Z) (evs : list tev) : Z :=
  Z.of_nat (length (filter (t_resp_of s) evs)).
