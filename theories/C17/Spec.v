(* C17 — vocabulary of the statements: counting functions over traces.
   Nothing here is used by the model; these are the observer's definitions. *)
From Coq Require Import List ZArith Bool.
From Verif Require Import C17.Model.
Import ListNotations.
Open Scope Z_scope.

(* ---------------- flows mode ---------------- *)

Definition fkey_of (e : fev) : option fkey :=
  match e with FExec p s => Some (p, s) | FSkip _ => None end.

Definition f_on (k : fkey) (e : fev) : bool :=
  match e with FExec p s => fkey_eqb (p, s) k | FSkip _ => false end.

(* number of "retry" outputs of processor/sequence [k] since its latest
   "failed" (or since the beginning) *)
Definition sf_step (k : fkey) (acc : Z) (x : fev * fout) : Z :=
  if f_on k (fst x) then
    match snd x with FRetry => acc + 1 | FFailed => 0 | FOther => acc end
  else acc.

Definition since_failed (k : fkey) (tr : list (fev * fout)) : Z :=
  fold_left (sf_step k) tr 0.

(* ---------------- policy mode ---------------- *)

Definition r_seq (x : presp) : Z := fst (fst (fst x)).
Definition r_new (x : presp) : bool := snd (fst (fst x)).
Definition r_status (x : presp) : Z := snd (fst x).
Definition r_out (x : presp) : pout := snd x.

Definition retry1 (o : pout) : Z := match o with PRetry => 1 | PNoOp => 0 end.

(* retries asked for sequence [s] since (and including) the latest response
   that opened the sequence (ID = SequenceID); if the sequence was never
   opened: all retries asked for it *)
Definition seg_step (s : Z) (acc : Z) (x : presp) : Z :=
  if r_seq x =? s then (if r_new x then 0 else acc) + retry1 (r_out x) else acc.

Definition seg_retries (s : Z) (tr : list presp) : Z := fold_left (seg_step s) tr 0.

(* has the sequence been opened *)
Definition started (s : Z) (tr : list presp) : bool :=
  existsb (fun x => (r_seq x =? s) && r_new x) tr.

(* all retries ever asked for sequence [s] *)
Definition tot_step (s : Z) (acc : Z) (x : presp) : Z :=
  if r_seq x =? s then acc + retry1 (r_out x) else acc.
Definition retries (s : Z) (tr : list presp) : Z := fold_left (tot_step s) tr 0.

(* the same responses without any cache loss *)
Definition lossless (e : gev) : list gev :=
  match e with
  | GResp s n st _ => [GResp s n st true]
  | GDrop _ => []
  end.
Definition strip (evs : list gev) : list gev := flat_map lossless evs.

(* how many responses open sequence [s] *)
Definition g_opens (s : Z) (e : gev) : bool :=
  match e with GResp s' n _ _ => (s' =? s) && n | GDrop _ => false end.
Definition count_new (s : Z) (evs : list gev) : nat := length (filter (g_opens s) evs).

Definition t_opens (s : Z) (e : tev) : bool :=
  match e with TResp s' n _ => (s' =? s) && n | _ => false end.
Definition tcount_new (s : Z) (evs : list tev) : nat := length (filter (t_opens s) evs).

Definition t_lossless (e : tev) : list gev :=
  match e with TResp s n st => [GResp s n st true] | _ => [] end.
Definition resp_only (evs : list tev) : list gev := flat_map t_lossless evs.

(* events of one sequence *)
Definition g_on (s : Z) (e : gev) : bool :=
  match e with GResp s' _ _ _ => s' =? s | GDrop s' => s' =? s end.
