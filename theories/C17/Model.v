(* C17 — retries are bounded by the configured number of attempts.

   Two machines, written from the anchored Go code.

   FLOWS MODE  (streams/processors/retry/retry_processor.go)
     Execute:  key := "<processor>::retry_counter::<sequence id>"
               n   := (flowContext[key] or 0) + 1 ; flowContext[key] := n
               if n > attempts { pop key ; "failed" } else { wait ; "retry" }
     init:     attempts < 1 is refused at load.
     The processor never looks at the status: which responses reach it is
     decided by the flow graph (Filter processors in front of it).  A response
     that is routed elsewhere does not touch the counter at all: it is neither
     incremented nor removed.

   POLICY MODE (services/remedies/retry_plugin.go, with patches/C17/fix-F-C17:
               "attemptsLeft < 1 => NoOp")
     OnResponse: status outside every configured range => cache.Del(seq); NoOp
                 else  state := cache.Get(seq)
                       not found: not the first response of the sequence
                                  (ID <> SequenceID) => NoOp, nothing touched
                                  else state := {Attempts, InitialCooldown}
                       state.attemptsLeft < 1 => cache.Del(seq); NoOp   (the fix)
                       left' := attemptsLeft - 1
                       left' < 1 => cache.Del(seq)
                       else cache.Set(seq, {left', cooldown*multiplier},
                                      ttl = cooldown + 30 + 1 seconds)
                       => ModifyResponse (x-lunar-retry-after) = "retry"
     utils/cache.go (MemoryCache): Get reports "not found" when
     now > expiration (the entry itself stays in the map); every Set starts a
     sleeper that deletes the KEY after its own ttl, whatever was stored under
     the key meanwhile (this is the premature expiry).

   Sequence ids, processor ids: Z tokens interned by the harness. Time: Z ns.

   Case formats (harness -> cases):
     flowproc   : (procs, events, (loaded, outs))
                    procs  = list (processor id, attempts)   tried to load
                    events = list (processor id, sequence id) Execute calls
                    loaded = list bool (NewProcessor succeeded)
                    outs   = list Z   0 retry | 1 failed | 2 other
     flowengine : (stages, events, (init_ok, outs))
                    stages = list (from, to, attempts): Filter i -> Retry i
                    events = list (sequence id, status)
     policy     : (cfg, t0, events, outs)
                    cfg    = (attempts, initial cooldown s, multiplier, ranges)
                    events = list tev (TResp seq isNew status | TAdvance ns | TFire)
                    outs   = list Z, one per TResp: 0 retry | 1 noop *)
From Coq Require Import List ZArith Bool.
Import ListNotations.
Open Scope Z_scope.

(* ------------------------------------------------------------------ *)
(* association stores (latest binding first; [del] removes every binding) *)

Section Store.
  Context {K V : Type}.
  Variable eqb : K -> K -> bool.

  Fixpoint get (m : list (K * V)) (k : K) : option V :=
    match m with
    | [] => None
    | (k', v) :: r => if eqb k k' then Some v else get r k
    end.

  Fixpoint del (m : list (K * V)) (k : K) : list (K * V) :=
    match m with
    | [] => []
    | (k', v) :: r => if eqb k k' then del r k else (k', v) :: del r k
    end.

  Definition set (m : list (K * V)) (k : K) (v : V) : list (K * V) :=
    (k, v) :: del m k.
End Store.

(* ================================================================== *)
(* FLOWS MODE                                                          *)

Inductive fout := FRetry | FFailed | FOther.

Definition fkey := (Z * Z)%type.            (* processor id, sequence id *)
Definition fkey_eqb (a b : fkey) : bool := (fst a =? fst b) && (snd a =? snd b).
Definition fstore := list (fkey * Z).

(* retryProcessor.Execute *)
Definition fexec (att : Z) (st : fstore) (k : fkey) : fstore * fout :=
  let cur := match get fkey_eqb st k with Some n => n | None => 0 end in
  let upd := cur + 1 in
  let st1 := set fkey_eqb st k upd in                 (* incrementRetryCount *)
  if att <? upd then (del fkey_eqb st1 k, FFailed)    (* removeCount, "failed" *)
  else (st1, FRetry).

(* a response of sequence [s] either reaches retry processor [p] or none *)
Inductive fev := FExec (p s : Z) | FSkip (s : Z).

Definition fstep (att : Z -> Z) (st : fstore) (e : fev) : fstore * fout :=
  match e with
  | FExec p s => fexec (att p) st (p, s)
  | FSkip _ => (st, FOther)
  end.

Definition fstep_acc (att : Z -> Z) (acc : fstore * list (fev * fout)) (e : fev)
  : fstore * list (fev * fout) :=
  let '(st', o) := fstep att (fst acc) e in (st', snd acc ++ [(e, o)]).

(* final store and the trace (event, output) from the empty flow context *)
Definition frun (att : Z -> Z) (evs : list fev) : fstore * list (fev * fout) :=
  fold_left (fstep_acc att) evs ([], []).

(* retryProcessor.init: attempts < 1 is refused *)
Definition fload (att : Z) : bool := negb (att <? 1).

Definition fout_code (o : fout) : Z :=
  match o with FRetry => 0 | FFailed => 1 | FOther => 2 end.

(* attempts of processor [p] in a table (id, attempts); unknown => 0 *)
Fixpoint att_of (procs : list (Z * Z)) (p : Z) : Z :=
  match procs with
  | [] => 0
  | (q, a) :: r => if p =? q then a else att_of r p
  end.

Fixpoint loaded_of (procs : list (Z * Z)) (p : Z) : bool :=
  match procs with
  | [] => false
  | (q, a) :: r => if p =? q then fload a else loaded_of r p
  end.

(* processor level: an Execute on a processor that could not be loaded does
   not happen *)
Definition proc_event (procs : list (Z * Z)) (e : Z * Z) : fev :=
  if loaded_of procs (fst e) then FExec (fst e) (snd e) else FSkip (snd e).

(* engine level: chain of Filter(status_code_range from-to) -> Retry i *)
Fixpoint route (stages : list (Z * Z * Z)) (i : Z) (status : Z) : option Z :=
  match stages with
  | [] => None
  | (from, to, _) :: r =>
      if (from <=? status) && (status <=? to) then Some i else route r (i + 1) status
  end.

Fixpoint stage_atts (stages : list (Z * Z * Z)) (i : Z) : list (Z * Z) :=
  match stages with
  | [] => []
  | (_, _, a) :: r => (i, a) :: stage_atts r (i + 1)
  end.

Definition engine_event (stages : list (Z * Z * Z)) (e : Z * Z) : fev :=
  match route stages 0 (snd e) with
  | Some p => FExec p (fst e)
  | None => FSkip (fst e)
  end.

Definition engine_ok (stages : list (Z * Z * Z)) : bool :=
  forallb (fun s => fload (snd s)) stages.

(* ================================================================== *)
(* POLICY MODE                                                         *)

Inductive pout := PRetry | PNoOp.

Record pcfg := { pAttempts : Z; pCooldown : Z; pMult : Z; pRanges : list (Z * Z) }.

Definition in_ranges (rs : list (Z * Z)) (status : Z) : bool :=
  existsb (fun r => (fst r <=? status) && (status <=? snd r)) rs.

(* what OnResponse decides, given what cache.Get returned *)
Inductive pact :=
| ANoOpKeep                      (* unknown sequence, not its first response *)
| ANoOpDel                       (* status outside the ranges / nothing left *)
| ARetryDel                      (* last attempt handed out *)
| ARetrySet (lft cd ttl : Z).   (* retry, state stored with ttl seconds *)

Definition pdecide (c : pcfg) (found : option (Z * Z)) (isNew : bool) (status : Z) : pact :=
  if in_ranges (pRanges c) status then
    let start := match found with
                 | Some e => Some e
                 | None => if isNew then Some (pAttempts c, pCooldown c) else None
                 end in
    match start with
    | None => ANoOpKeep
    | Some (lft, cd) =>
        if lft <? 1 then ANoOpDel                       (* fix-F-C17 *)
        else if lft - 1 <? 1 then ARetryDel
        else ARetrySet (lft - 1) (cd * pMult c) (cd + 30 + 1)
    end
  else ANoOpDel.

Definition pact_out (a : pact) : pout :=
  match a with
  | ANoOpKeep | ANoOpDel => PNoOp
  | ARetryDel | ARetrySet _ _ _ => PRetry
  end.

Definition pstore := list (Z * (Z * Z)).     (* seq -> (attemptsLeft, nextCooldown) *)

Definition papply (st : pstore) (s : Z) (a : pact) : pstore :=
  match a with
  | ANoOpKeep => st
  | ANoOpDel | ARetryDel => del Z.eqb st s
  | ARetrySet l cd _ => set Z.eqb st s (l, cd)
  end.

(* ---- the general machine: the cache may hide an entry from one lookup
        ([vis = false]: ttl lapsed) or lose it at any moment ([GDrop]) ---- *)
Inductive gev :=
| GResp (s : Z) (isNew : bool) (status : Z) (vis : bool)
| GDrop (s : Z).

(* a trace records the responses only: (seq, isNew, status, output) *)
Definition presp := (Z * bool * Z * pout)%type.

Definition gstep (c : pcfg) (st : pstore) (e : gev) : pstore * list presp :=
  match e with
  | GResp s isNew status vis =>
      let a := pdecide c (if vis then get Z.eqb st s else None) isNew status in
      (papply st s a, [(s, isNew, status, pact_out a)])
  | GDrop s => (del Z.eqb st s, [])
  end.

Definition gstep_acc (c : pcfg) (acc : pstore * list presp) (e : gev) : pstore * list presp :=
  let '(st', o) := gstep c (fst acc) e in (st', snd acc ++ o).

Definition grun_from (c : pcfg) (st : pstore) (evs : list gev) : pstore * list presp :=
  fold_left (gstep_acc c) evs (st, []).

Definition grun (c : pcfg) (evs : list gev) : pstore * list presp := grun_from c [] evs.

(* ---- the timed machine (what the harness drives): MemoryCache with a clock ---- *)
Inductive tev :=
| TResp (s : Z) (isNew : bool) (status : Z)
| TAdvance (dt : Z)
| TFire.                           (* every sleeper whose deadline passed runs *)

Record tstate := {
  tNow : Z;
  tStore : pstore;
  tExp : list (Z * Z);             (* seq -> expirationTimeNano of the last Set *)
  tSleep : list (Z * Z)            (* sleepers: (deadline, seq) *)
}.

Definition second : Z := 1000000000.

(* valueExpired: now > expiration *)
Definition t_vis (t : tstate) (s : Z) : bool :=
  match get Z.eqb (tExp t) s with
  | Some x => negb (x <? tNow t)
  | None => true
  end.

Definition t_due (t : tstate) : list (Z * Z) :=
  filter (fun d => fst d <=? tNow t) (tSleep t).

(* the general events one timed event amounts to *)
Definition t_to_g (t : tstate) (e : tev) : list gev :=
  match e with
  | TResp s isNew status => [GResp s isNew status (t_vis t s)]
  | TAdvance _ => []
  | TFire => map (fun d => GDrop (snd d)) (t_due t)
  end.

Definition tstep (c : pcfg) (t : tstate) (e : tev) : tstate * list presp :=
  match e with
  | TResp s isNew status =>
      let a := pdecide c (if t_vis t s then get Z.eqb (tStore t) s else None) isNew status in
      let t' :=
        match a with
        | ARetrySet _ _ ttl =>
            let x := tNow t + ttl * second in
            {| tNow := tNow t; tStore := papply (tStore t) s a;
               tExp := set Z.eqb (tExp t) s x; tSleep := tSleep t ++ [(x, s)] |}
        | _ => {| tNow := tNow t; tStore := papply (tStore t) s a;
                  tExp := tExp t; tSleep := tSleep t |}
        end in
      (t', [(s, isNew, status, pact_out a)])
  | TAdvance dt =>
      ({| tNow := tNow t + dt; tStore := tStore t; tExp := tExp t; tSleep := tSleep t |}, [])
  | TFire =>
      ({| tNow := tNow t;
          tStore := fold_left (fun m d => del Z.eqb m (snd d)) (t_due t) (tStore t);
          tExp := tExp t;
          tSleep := filter (fun d => negb (fst d <=? tNow t)) (tSleep t) |}, [])
  end.

Definition tstep_acc (c : pcfg) (acc : tstate * list presp) (e : tev) : tstate * list presp :=
  let '(t', o) := tstep c (fst acc) e in (t', snd acc ++ o).

Definition tinit (t0 : Z) : tstate :=
  {| tNow := t0; tStore := []; tExp := []; tSleep := [] |}.

Definition trun (c : pcfg) (t0 : Z) (evs : list tev) : tstate * list presp :=
  fold_left (tstep_acc c) evs (tinit t0, []).

Definition pout_code (o : pout) : Z := match o with PRetry => 0 | PNoOp => 1 end.

(* ================================================================== *)
(* correspondence entry points                                         *)

Fixpoint eq_zs (a b : list Z) : bool :=
  match a, b with
  | [], [] => true
  | x :: a', y :: b' => (x =? y) && eq_zs a' b'
  | _, _ => false
  end.

Fixpoint eq_bs (a b : list bool) : bool :=
  match a, b with
  | [], [] => true
  | x :: a', y :: b' => Bool.eqb x y && eq_bs a' b'
  | _, _ => false
  end.

Definition case_flowproc :=
  (list (Z * Z) * list (Z * Z) * (list bool * list Z))%type.

Definition run_flowproc (k : case_flowproc) : option (list bool * list Z) :=
  let '(procs, events, (loaded, outs)) := k in
  let mloaded := map (fun p => fload (snd p)) procs in
  let tr := snd (frun (att_of procs) (map (proc_event procs) events)) in
  let mouts := map (fun x => fout_code (snd x)) tr in
  if eq_bs mloaded loaded && eq_zs mouts outs then None else Some (mloaded, mouts).

Definition case_flowengine :=
  (list (Z * Z * Z) * list (Z * Z) * (bool * list Z))%type.

Definition run_flowengine (k : case_flowengine) : option (bool * list Z) :=
  let '(stages, events, (ok, outs)) := k in
  let mok := engine_ok stages in
  let mouts :=
    if mok then
      map (fun x => fout_code (snd x))
          (snd (frun (att_of (stage_atts stages 0)) (map (engine_event stages) events)))
    else [] in
  if Bool.eqb mok ok && eq_zs mouts outs then None else Some (mok, mouts).

Definition case_policy :=
  ((Z * Z * Z * list (Z * Z)) * Z * list tev * list Z)%type.

Definition run_policy (k : case_policy) : option (list Z) :=
  let '(p, t0, events, outs) := k in
  let '(a, cd, m, rs) := p in
  let c := {| pAttempts := a; pCooldown := cd; pMult := m; pRanges := rs |} in
  let mouts := map (fun x => pout_code (snd x)) (snd (trun c t0 events)) in
  if eq_zs mouts outs then None else Some mouts.
