(* C17 — WHICH sequence the retry state is charged to.

   Two places in front of the machines of Model.v decide under which sequence
   id a response reaches the retry remedy / the retry processor:

   POLICY MODE, the dispatcher (runner/plugin_dispatcher.go,
   obtainModifiedEarlyResponse): when a request-side remedy answers the request
   itself (fixed response, throttling, cache hit) the dispatcher builds the
   OnResponse of that early response from the REQUEST
        ID := onRequest.ID ; SequenceID := onRequest.SequenceID ; Status := early status
   and runs the response remedies on it.  A provider response
   (DispatchOnResponse) is handed over as it is.

   FLOWS MODE, the stream constructor (streams/types/response.util.go,
   NewResponse <- NewResponseAPIStream <- routing.processResponse): the
   response part of the API stream gets  SequenceID := onResponse.SequenceID
   whether or not the body could be decoded (a decode error is logged, the body
   stays empty); APIStream.GetSequenceID() is what the retry processor keys its
   counter with.

   Both are modelled with a variant switch: the code as it is ([KeySequence],
   [KeepSeq]) and the plausible wrong edit ([KeyTransaction]: the early response
   is identified by the transaction; [DropSeqOnDecodeError]: the error path
   returns a response without its sequence id).  The traces below record the ids
   the CLIENT used, which is what the property speaks about.

   Tie to the code.  Suite dispatch evaluates [run_dispatch] (end of this file)
   on RAW cases: per transaction the transaction id, the sequence id header if
   present, whether the real dispatcher answered the request itself, the
   provider's status otherwise.  The identification step — which sequence, opening
   or not, which status — is computed HERE ([dx_seq], [dev_gev KeySequence]) and
   the policy run on it is compared with what the real dispatcher answered;
   [run_dispatch_accepted]: an accepted case is a run of [drun KeySequence] on
   the raw transactions.  harness/cmd/c17/ident.go:dispatchAsPolicy / identify
   remain as the Go mirror that feeds the monitor; the case carries the mirror's
   result and run_dispatch rejects the case when it differs from the model's.
   No suite evaluates brun: suite flowbody evaluates Model.run_flowproc; bodies
   exist on the Go side only (brun_keep: with KeepSeq the body is the identity).

   [no_seq] = 0 is also a legal client id: flow_body_bound_keep holds for every
   s including 0 (no hypothesis s <> no_seq is needed, KeepSeq never produces
   the token); the refutation witness uses ids 1 and 2. *)
From Coq Require Import List ZArith Bool Lia.
From Verif Require Import C17.Model C17.Spec C17.Proofs.
Import ListNotations.
Open Scope Z_scope.

(* ================================================================== *)
(* POLICY MODE: the dispatcher                                         *)

Inductive early_key := KeySequence | KeyTransaction.

(* what reaches the dispatcher *)
Inductive dev :=
| DEarly (id seq status : Z) (vis : bool)   (* request (id, seq) answered by the gateway with [status] *)
| DProv (e : gev).                          (* a provider response / a cache loss, as in Model.gev *)

(* the response event the retry remedy is given *)
Definition dev_gev (v : early_key) (e : dev) : gev :=
  match e with
  | DEarly id seq status vis =>
      match v with
      | KeySequence => GResp seq (id =? seq) status vis
      | KeyTransaction => GResp id (id =? id) status vis
      end
  | DProv g => g
  end.

(* how the client sees the answer: under the ids of its request *)
Definition dev_label (e : dev) (x : presp) : presp :=
  match e with
  | DEarly id seq status _ => (seq, id =? seq, status, r_out x)
  | DProv _ => x
  end.

Definition dstep_acc (v : early_key) (c : pcfg) (acc : pstore * list presp) (e : dev)
  : pstore * list presp :=
  let '(st', o) := gstep c (fst acc) (dev_gev v e) in (st', snd acc ++ map (dev_label e) o).

Definition drun (v : early_key) (c : pcfg) (evs : list dev) : pstore * list presp :=
  fold_left (dstep_acc v c) evs ([], []).

Lemma dstep_keyseq : forall c acc e,
  dstep_acc KeySequence c acc e = gstep_acc c acc (dev_gev KeySequence e).
Proof.
  intros c acc e. unfold dstep_acc, gstep_acc.
  destruct e as [id seq status vis | g]; cbn [dev_gev].
  - cbn [gstep map dev_label r_out snd]. reflexivity.
  - destruct (gstep c (fst acc) g) as [st' o]. f_equal. f_equal.
    induction o as [| x o IH]; [reflexivity |]. cbn [map dev_label]. now rewrite IH.
Qed.

Lemma fold_left_map_eq : forall (A B C : Type) (f : A -> B -> A) (g : A -> C -> A) (h : B -> C) l a,
  (forall a b, f a b = g a (h b)) ->
  fold_left f l a = fold_left g (map h l) a.
Proof.
  intros A B C f g h l. induction l as [| b l IH]; intros a H; [reflexivity |].
  cbn [fold_left map]. rewrite H. now apply IH.
Qed.

(* with the sequence id of the request, a dispatcher history IS a history of the
   general machine on the responses the client saw: every theorem about [grun]
   applies *)
Lemma drun_keyseq : forall c evs,
  drun KeySequence c evs = grun c (map (dev_gev KeySequence) evs).
Proof.
  intros c evs. unfold drun, grun, grun_from.
  apply fold_left_map_eq. intros a b. apply dstep_keyseq.
Qed.

Definition dispatch_bound_keyed_by (v : early_key) : Prop :=
  forall c evs s pre post,
    snd (drun v c evs) = pre ++ post ->
    0 <= seg_retries s pre <= Z.max 0 (pAttempts c).

Lemma dispatch_bound_keyseq : dispatch_bound_keyed_by KeySequence.
Proof.
  intros c evs s pre post H. rewrite drun_keyseq in H.
  destruct (gtrace_prefix c (map (dev_gev KeySequence) evs) pre post H) as [e1 [e2 [_ E]]].
  rewrite <- E. apply seg_bound.
Qed.

(* the seeded variant: attempts 1, two gateway-made 503 of sequence 7 (requests
   7 and 8): both are answered "retry" *)
Definition dispatch_witness_cfg : pcfg :=
  {| pAttempts := 1; pCooldown := 1; pMult := 2; pRanges := [(500, 599)] |}.
Definition dispatch_witness : list dev := [DEarly 7 7 503 true; DEarly 8 7 503 true].

Lemma dispatch_bound_keytxn_refuted : ~ dispatch_bound_keyed_by KeyTransaction.
Proof.
  intro H.
  specialize (H dispatch_witness_cfg dispatch_witness 7
                (snd (drun KeyTransaction dispatch_witness_cfg dispatch_witness)) []
                (eq_sym (app_nil_r _))).
  vm_compute in H. destruct H as [_ H]. apply H. reflexivity.
Qed.

(* ================================================================== *)
(* FLOWS MODE: the sequence id of a response stream                    *)

Inductive body := BodyDecodable | BodyUndecodable.
Inductive decode_variant := KeepSeq | DropSeqOnDecodeError.

(* the token of the empty sequence id "" ; client sequences are any Z *)
Definition no_seq : Z := 0.

(* APIStream.GetSequenceID() of the stream NewResponseAPIStream builds *)
Definition stream_seq (v : decode_variant) (b : body) (s : Z) : Z :=
  match v, b with
  | DropSeqOnDecodeError, BodyUndecodable => no_seq
  | _, _ => s
  end.

Definition body_ev (v : decode_variant) (x : fev * body) : fev :=
  match fst x with
  | FExec p s => FExec p (stream_seq v (snd x) s)
  | FSkip s => FSkip s
  end.

(* the trace records the event under the client's sequence id *)
Definition bstep_acc (v : decode_variant) (att : Z -> Z) (acc : fstore * list (fev * fout))
  (x : fev * body) : fstore * list (fev * fout) :=
  let '(st', o) := fstep att (fst acc) (body_ev v x) in (st', snd acc ++ [(fst x, o)]).

Definition brun (v : decode_variant) (att : Z -> Z) (evs : list (fev * body))
  : fstore * list (fev * fout) :=
  fold_left (bstep_acc v att) evs ([], []).

Lemma body_ev_keep : forall x, body_ev KeepSeq x = fst x.
Proof. intros [[p s | s] b]; destruct b; reflexivity. Qed.

(* the body of a response is irrelevant *)
Lemma brun_keep : forall att evs, brun KeepSeq att evs = frun att (map fst evs).
Proof.
  intros att evs. unfold brun, frun. apply fold_left_map_eq.
  intros a x. unfold bstep_acc, fstep_acc. now rewrite body_ev_keep.
Qed.

Definition flow_body_bound_with (v : decode_variant) : Prop :=
  forall att evs p s,
    0 <= since_failed (p, s) (snd (brun v att evs)) <= Z.max 0 (att p).

Lemma flow_body_bound_keep : flow_body_bound_with KeepSeq.
Proof.
  intros att evs p s. rewrite brun_keep.
  exact (proj1 (finv_run att (map fst evs) p s)).
Qed.

(* the seeded variant: attempts 2, sequence 1 uses its budget, one undecodable
   response of sequence 2 is answered "failed" and clears the shared counter,
   sequence 1 is asked for a third retry *)
Definition body_witness : list (fev * body) :=
  [(FExec 0 1, BodyUndecodable); (FExec 0 1, BodyUndecodable);
   (FExec 0 2, BodyUndecodable); (FExec 0 1, BodyUndecodable)].

Lemma flow_body_bound_drop_refuted : ~ flow_body_bound_with DropSeqOnDecodeError.
Proof.
  intro H. specialize (H (fun _ => 2) body_witness 0 1).
  vm_compute in H. destruct H as [_ H]. apply H. reflexivity.
Qed.

(* ================================================================== *)
(* POLICY MODE: the dispatch suite evaluates the front-end in Coq      *)

(* The RAW case of suite dispatch: the transactions as HAProxy hands them to
   the gateway — transaction id (unique-id), the x-lunar-sequence-id header of
   the request if there is one — and, per transaction, what the harness
   observed at the real dispatcher: whether the gateway answered the request
   itself (return_early_response), else the status of the provider's response.
   Nothing in it says which sequence is charged or whether the response opens
   it: that is derived HERE, by [dx_seq] (rootfs/etc/haproxy/haproxy.cfg:90-91
   + spoe/lunar.conf: sequence_id = the header when present, else the unique-id
   of the transaction) and by [dev_gev KeySequence] above (the early response
   gets the ids of the request; a provider response is handed over as it is,
   opening iff ID = SequenceID, messages.model.go IsNewSequence). *)
Record dtxn := {
  dxId : Z;                 (* transaction id *)
  dxSeqHdr : option Z;      (* sequence id header of the request; None = absent *)
  dxEarly : bool;           (* observed: answered by the gateway itself *)
  dxProv : Z                (* status of the provider's response (used when not early) *)
}.

Record case_dispatch := {
  dcAttempts : Z; dcCooldown : Z; dcMult : Z; dcRanges : list (Z * Z);
  dcEarlyStatus : Z;                   (* status the request-side remedy is configured to answer *)
  dcTxns : list dtxn;
  dcMirror : list (Z * bool * Z);      (* cross-check only: (sequence, opening, status) per transaction as
                                          harness/cmd/c17/ident.go:dispatchAsPolicy derives them for the monitor *)
  dcOuts : list Z                      (* observed, per transaction: 0 retry | 1 noop | 2 anything else *)
}.

Definition dc_cfg (k : case_dispatch) : pcfg :=
  {| pAttempts := dcAttempts k; pCooldown := dcCooldown k; pMult := dcMult k; pRanges := dcRanges k |}.

Definition dx_seq (t : dtxn) : Z :=
  match dxSeqHdr t with Some s => s | None => dxId t end.

Definition dx_status (early_status : Z) (t : dtxn) : Z :=
  if dxEarly t then early_status else dxProv t.

(* the transaction in the vocabulary of the dispatcher machine above; [vis] =
   what the cache will answer the lookup (not the dispatcher's business) *)
Definition dx_dev (early_status : Z) (vis : bool) (t : dtxn) : dev :=
  if dxEarly t then DEarly (dxId t) (dx_seq t) early_status vis
  else DProv (GResp (dx_seq t) (dxId t =? dx_seq t) (dxProv t) vis).

(* the response the retry remedy is given = Ident's own key derivation *)
Definition gev_resp (g : gev) : list (Z * bool * Z) :=
  match g with GResp s n st _ => [(s, n, st)] | GDrop _ => [] end.

Definition dx_ident (early_status : Z) (t : dtxn) : list (Z * bool * Z) :=
  gev_resp (dev_gev KeySequence (dx_dev early_status true t)).

Definition resp_tev (x : Z * bool * Z) : tev := TResp (fst (fst x)) (snd (fst x)) (snd x).

Definition dc_ident (k : case_dispatch) : list (Z * bool * Z) :=
  flat_map (dx_ident (dcEarlyStatus k)) (dcTxns k).

(* the policy case the raw case amounts to: clock at 0 and not moving (the
   suite parks the cache's sleepers), one TResp per transaction *)
Definition dispatch_policy_case (k : case_dispatch) : case_policy :=
  ((dcAttempts k, dcCooldown k, dcMult k, dcRanges k), 0, map resp_tev (dc_ident k), dcOuts k).

Fixpoint eq_ident (a b : list (Z * bool * Z)) : bool :=
  match a, b with
  | [], [] => true
  | (s, n, st) :: a', (s', n', st') :: b' =>
      (s =? s') && Bool.eqb n n' && (st =? st') && eq_ident a' b'
  | _, _ => false
  end.

(* None iff the real dispatcher answered every transaction as the policy run
   on the identified responses does AND the Go mirror identified them alike *)
Definition run_dispatch (k : case_dispatch) : option (list (Z * bool * Z) * list Z) :=
  let mouts := map (fun x => pout_code (snd x))
                   (snd (trun (dc_cfg k) 0 (map resp_tev (dc_ident k)))) in
  if eq_ident (dc_ident k) (dcMirror k) && eq_zs mouts (dcOuts k) then None
  else Some (dc_ident k, mouts).

(* ---- an accepted case is a run of the dispatcher machine [drun] ---- *)

(* the dispatcher history of the case: every transaction with the visibility
   the (unmoving) clock of the timed machine gives its lookup *)
Fixpoint dx_devs (c : pcfg) (es : Z) (t : tstate) (txns : list dtxn) : list dev :=
  match txns with
  | [] => []
  | x :: r =>
      dx_dev es (t_vis t (dx_seq x)) x ::
      dx_devs c es (fst (tstep c t (TResp (dx_seq x) (dxId x =? dx_seq x) (dx_status es x)))) r
  end.

Definition dispatch_history (k : case_dispatch) : list dev :=
  dx_devs (dc_cfg k) (dcEarlyStatus k) (tinit 0) (dcTxns k).

(* how the client identifies a transaction: sequence, opening or not *)
Definition dx_client (es : Z) (t : dtxn) : Z * bool * Z :=
  (dx_seq t, dxId t =? dx_seq t, dx_status es t).

Lemma dx_ident_client : forall es t, dx_ident es t = [dx_client es t].
Proof.
  intros es t. unfold dx_ident, dx_dev, dx_client, dx_status.
  destruct (dxEarly t); reflexivity.
Qed.

Lemma dc_ident_client : forall k, dc_ident k = map (dx_client (dcEarlyStatus k)) (dcTxns k).
Proof.
  intro k. unfold dc_ident. induction (dcTxns k) as [| t r IH]; [reflexivity |].
  cbn [flat_map map]. rewrite dx_ident_client, IH. reflexivity.
Qed.

Lemma dx_devs_tg : forall c es txns t,
  map (dev_gev KeySequence) (dx_devs c es t txns) =
  tg_from c t (map resp_tev (map (dx_client es) txns)).
Proof.
  intros c es txns. induction txns as [| x r IH]; intro t; [reflexivity |].
  cbn [dx_devs map tg_from resp_tev dx_client fst snd t_to_g app].
  rewrite IH. f_equal.
  unfold dx_dev, dx_status. destruct (dxEarly x); reflexivity.
Qed.

Lemma dev_label_keyseq : forall c st e,
  map (dev_label e) (snd (gstep c st (dev_gev KeySequence e))) =
  snd (gstep c st (dev_gev KeySequence e)).
Proof.
  intros c st e. destruct e as [id seq status vis | g]; cbn [dev_gev].
  - reflexivity.
  - cbn [dev_label]. apply map_id.
Qed.

Lemma eq_zs_eq : forall a b, eq_zs a b = true -> a = b.
Proof.
  induction a as [| x a IH]; destruct b as [| y b]; cbn [eq_zs]; intro H;
    try reflexivity; try discriminate.
  apply andb_prop in H. destruct H as [H1 H2]. apply Z.eqb_eq in H1. subst y.
  f_equal. now apply IH.
Qed.

Lemma eq_ident_eq : forall a b, eq_ident a b = true -> a = b.
Proof.
  induction a as [| [[s n] st] a IH]; destruct b as [| [[s' n'] st'] b]; cbn [eq_ident]; intro H;
    try reflexivity; try discriminate.
  apply andb_prop in H. destruct H as [H H4]. apply andb_prop in H. destruct H as [H H3].
  apply andb_prop in H. destruct H as [H1 H2].
  apply Z.eqb_eq in H1. apply Z.eqb_eq in H3. apply Bool.eqb_prop in H2. subst.
  f_equal. now apply IH.
Qed.

(* the trace of the timed run on the identified responses IS the trace of
   [drun KeySequence] on the dispatcher history of the case *)
Lemma dispatch_trace : forall k,
  snd (trun (dc_cfg k) 0 (map resp_tev (dc_ident k))) =
  snd (drun KeySequence (dc_cfg k) (dispatch_history k)).
Proof.
  intro k. rewrite drun_keyseq. unfold dispatch_history. rewrite dx_devs_tg, dc_ident_client.
  unfold grun, grun_from, trun.
  change (@nil (Z * (Z * Z))) with (tStore (tinit 0)).
  rewrite tfold_is_gfold. reflexivity.
Qed.

(* the responses of a timed run on TResp events only carry the ids of the events *)
Lemma tstep_resp_shape : forall c t s n st,
  exists t' o, tstep c t (TResp s n st) = (t', [(s, n, st, o)]).
Proof. intros. cbn [tstep]. eexists. eexists. reflexivity. Qed.

Lemma trun_resp_ids : forall c l t acc,
  map (fun x => (r_seq x, r_new x, r_status x))
      (snd (fold_left (tstep_acc c) (map resp_tev l) (t, acc))) =
  map (fun x => (r_seq x, r_new x, r_status x)) acc ++ l.
Proof.
  intros c l. induction l as [| [[s n] st] l IH]; intros t acc.
  - cbn [map fold_left snd]. now rewrite app_nil_r.
  - cbn [map fold_left resp_tev fst snd].
    destruct (tstep_resp_shape c t s n st) as [t' [o E]].
    unfold tstep_acc at 2. unfold resp_tev at 2. cbn [fst snd]. rewrite E.
    rewrite (IH t' (acc ++ [(s, n, st, o)])).
    rewrite map_app, <- app_assoc. reflexivity.
Qed.

Lemma run_dispatch_accepted : forall k,
  run_dispatch k = None ->
  dcMirror k = dc_ident k /\
  dcOuts k = map (fun x => pout_code (r_out x)) (snd (drun KeySequence (dc_cfg k) (dispatch_history k))) /\
  map (fun x => (r_seq x, r_new x, r_status x)) (snd (drun KeySequence (dc_cfg k) (dispatch_history k))) =
    map (dx_client (dcEarlyStatus k)) (dcTxns k).
Proof.
  intros k H. unfold run_dispatch in H.
  destruct (eq_ident (dc_ident k) (dcMirror k) && eq_zs _ (dcOuts k)) eqn:E; [| discriminate].
  apply andb_prop in E. destruct E as [E1 E2].
  apply eq_ident_eq in E1. apply eq_zs_eq in E2.
  rewrite <- dispatch_trace. split; [now symmetry | split].
  - rewrite <- E2. reflexivity.
  - rewrite <- dc_ident_client. unfold trun. rewrite trun_resp_ids. reflexivity.
Qed.

Lemma run_dispatch_policy : forall k,
  run_dispatch k = None -> run_policy (dispatch_policy_case k) = None.
Proof.
  intros k H. unfold run_dispatch in H.
  destruct (eq_ident (dc_ident k) (dcMirror k) && eq_zs _ (dcOuts k)) eqn:E; [| discriminate].
  apply andb_prop in E. destruct E as [_ E2].
  unfold run_policy, dispatch_policy_case. cbv beta iota.
  change (Build_pcfg (dcAttempts k) (dcCooldown k) (dcMult k) (dcRanges k)) with (dc_cfg k).
  rewrite E2. reflexivity.
Qed.

(* ---- the bound, in the vocabulary of the raw case ---- *)

(* retries (answer code 0) of the transactions of sequence [s] since, and
   including, the latest transaction that opened it (its own id is [s]) *)
Definition raw_seg_step (s : Z) (acc : Z) (x : dtxn * Z) : Z :=
  if dx_seq (fst x) =? s
  then (if dxId (fst x) =? dx_seq (fst x) then 0 else acc) + (if snd x =? 0 then 1 else 0)
  else acc.

Definition raw_seg_retries (s : Z) (l : list (dtxn * Z)) : Z := fold_left (raw_seg_step s) l 0.

Lemma raw_seg_is_seg : forall es s txns tr,
  map (fun x => (r_seq x, r_new x, r_status x)) tr = map (dx_client es) txns ->
  forall n acc,
  fold_left (raw_seg_step s) (firstn n (combine txns (map (fun x => pout_code (r_out x)) tr))) acc =
  fold_left (seg_step s) (firstn n tr) acc.
Proof.
  intros es s txns. induction txns as [| t r IH]; intros tr H n acc.
  - destruct tr; [| discriminate]. destruct n; reflexivity.
  - destruct tr as [| x tr]; [discriminate |].
    cbn [map] in H. injection H as Hs Hn Hst Hr.
    destruct n as [| n]; [reflexivity |].
    cbn [map combine firstn fold_left].
    rewrite (IH tr Hr n). f_equal.
    unfold raw_seg_step, seg_step. cbn [fst snd]. rewrite Hs, Hn.
    destruct (r_out x); reflexivity.
Qed.

Lemma run_dispatch_bound : forall k,
  run_dispatch k = None ->
  forall s n,
    0 <= raw_seg_retries s (firstn n (combine (dcTxns k) (dcOuts k))) <= Z.max 0 (dcAttempts k).
Proof.
  intros k H s n. destruct (run_dispatch_accepted k H) as [_ [Ho Hi]].
  unfold raw_seg_retries. rewrite Ho.
  rewrite (raw_seg_is_seg (dcEarlyStatus k) s _ _ Hi n 0).
  change (dcAttempts k) with (pAttempts (dc_cfg k)).
  apply (dispatch_bound_keyseq (dc_cfg k) (dispatch_history k) s
           (firstn n (snd (drun KeySequence (dc_cfg k) (dispatch_history k))))
           (skipn n (snd (drun KeySequence (dc_cfg k) (dispatch_history k))))).
  symmetry. apply firstn_skipn.
Qed.
