(* C17 — WHICH sequence the retry state is charged to.

   Two places in front of the machines of Model.v decide under which sequence
   id a response reaches the retry remedy / the retry processor:

   POLICY MODE, the dispatcher (runner/plugin_dispatcher.go,
   obtainModifiedEarlyResponse): when a request-side remedy answers the request
   itself (fixed response, throttling, cache hit) the dispatcher builds the
   OnResponse of that early response from the REQUEST
        ID := onRequest.ID ; SequenceID := onRequest.SequenceID ; Status := early status
   and runs the response remedies on it.  A provider response
   (DispatchOnResponse) is handed over as it is.

   FLOWS MODE, the stream constructor (streams/types/response.util.go,
   NewResponse <- NewResponseAPIStream <- routing.processResponse): the
   response part of the API stream gets  SequenceID := onResponse.SequenceID
   whether or not the body could be decoded (a decode error is logged, the body
   stays empty); APIStream.GetSequenceID() is what the retry processor keys its
   counter with.

   Both are modelled with a variant switch: the code as it is ([KeySequence],
   [KeepSeq]) and the plausible wrong edit ([KeyTransaction]: the early response
   is identified by the transaction; [DropSeqOnDecodeError]: the error path
   returns a response without its sequence id).  The traces below record the ids
   the CLIENT used, which is what the property speaks about.

   Tie to the code: no suite evaluates drun / brun.  Suite dispatch evaluates
   Model.run_policy on the case harness/cmd/c17/ident.go:dispatchAsPolicy builds
   from what the real dispatcher did: that Go function is the mirror of
   [map (dev_gev KeySequence)] (event of sequence Seq, opening iff the request's
   ID = SequenceID, status of the remedy or of the provider), written in Go, not
   evaluated in Coq — the front-end step itself is TESTED (differential suite +
   monitor), the Coq side proves only drun KeySequence = grun o map dev_gev
   (drun_keyseq).  Suite flowbody evaluates Model.run_flowproc; bodies exist on
   the Go side only (brun_keep: with KeepSeq the body is the identity).

   [no_seq] = 0 is also a legal client id: flow_body_bound_keep holds for every
   s including 0 (no hypothesis s <> no_seq is needed, KeepSeq never produces
   the token); the refutation witness uses ids 1 and 2. *)
From Coq Require Import List ZArith Bool Lia.
From Verif Require Import C17.Model C17.Spec C17.Proofs.
Import ListNotations.
Open Scope Z_scope.

(* ================================================================== *)
(* POLICY MODE: the dispatcher                                         *)

Inductive early_key := KeySequence | KeyTransaction.

(* what reaches the dispatcher *)
Inductive dev :=
| DEarly (id seq status : Z) (vis : bool)   (* request (id, seq) answered by the gateway with [status] *)
| DProv (e : gev).                          (* a provider response / a cache loss, as in Model.gev *)

(* the response event the retry remedy is given *)
Definition dev_gev (v : early_key) (e : dev) : gev :=
  match e with
  | DEarly id seq status vis =>
      match v with
      | KeySequence => GResp seq (id =? seq) status vis
      | KeyTransaction => GResp id (id =? id) status vis
      end
  | DProv g => g
  end.

(* how the client sees the answer: under the ids of its request *)
Definition dev_label (e : dev) (x : presp) : presp :=
  match e with
  | DEarly id seq status _ => (seq, id =? seq, status, r_out x)
  | DProv _ => x
  end.

Definition dstep_acc (v : early_key) (c : pcfg) (acc : pstore * list presp) (e : dev)
  : pstore * list presp :=
  let '(st', o) := gstep c (fst acc) (dev_gev v e) in (st', snd acc ++ map (dev_label e) o).

Definition drun (v : early_key) (c : pcfg) (evs : list dev) : pstore * list presp :=
  fold_left (dstep_acc v c) evs ([], []).

Lemma dstep_keyseq : forall c acc e,
  dstep_acc KeySequence c acc e = gstep_acc c acc (dev_gev KeySequence e).
Proof.
  intros c acc e. unfold dstep_acc, gstep_acc.
  destruct e as [id seq status vis | g]; cbn [dev_gev].
  - cbn [gstep map dev_label r_out snd]. reflexivity.
  - destruct (gstep c (fst acc) g) as [st' o]. f_equal. f_equal.
    induction o as [| x o IH]; [reflexivity |]. cbn [map dev_label]. now rewrite IH.
Qed.

Lemma fold_left_map_eq : forall (A B C : Type) (f : A -> B -> A) (g : A -> C -> A) (h : B -> C) l a,
  (forall a b, f a b = g a (h b)) ->
  fold_left f l a = fold_left g (map h l) a.
Proof.
  intros A B C f g h l. induction l as [| b l IH]; intros a H; [reflexivity |].
  cbn [fold_left map]. rewrite H. now apply IH.
Qed.

(* with the sequence id of the request, a dispatcher history IS a history of the
   general machine on the responses the client saw: every theorem about [grun]
   applies *)
Lemma drun_keyseq : forall c evs,
  drun KeySequence c evs = grun c (map (dev_gev KeySequence) evs).
Proof.
  intros c evs. unfold drun, grun, grun_from.
  apply fold_left_map_eq. intros a b. apply dstep_keyseq.
Qed.

Definition dispatch_bound_keyed_by (v : early_key) : Prop :=
  forall c evs s pre post,
    snd (drun v c evs) = pre ++ post ->
    0 <= seg_retries s pre <= Z.max 0 (pAttempts c).

Lemma dispatch_bound_keyseq : dispatch_bound_keyed_by KeySequence.
Proof.
  intros c evs s pre post H. rewrite drun_keyseq in H.
  destruct (gtrace_prefix c (map (dev_gev KeySequence) evs) pre post H) as [e1 [e2 [_ E]]].
  rewrite <- E. apply seg_bound.
Qed.

(* the seeded variant: attempts 1, two gateway-made 503 of sequence 7 (requests
   7 and 8): both are answered "retry" *)
Definition dispatch_witness_cfg : pcfg :=
  {| pAttempts := 1; pCooldown := 1; pMult := 2; pRanges := [(500, 599)] |}.
Definition dispatch_witness : list dev := [DEarly 7 7 503 true; DEarly 8 7 503 true].

Lemma dispatch_bound_keytxn_refuted : ~ dispatch_bound_keyed_by KeyTransaction.
Proof.
  intro H.
  specialize (H dispatch_witness_cfg dispatch_witness 7
                (snd (drun KeyTransaction dispatch_witness_cfg dispatch_witness)) []
                (eq_sym (app_nil_r _))).
  vm_compute in H. destruct H as [_ H]. apply H. reflexivity.
Qed.

(* ================================================================== *)
(* FLOWS MODE: the sequence id of a response stream                    *)

Inductive body := BodyDecodable | BodyUndecodable.
Inductive decode_variant := KeepSeq | DropSeqOnDecodeError.

(* the token of the empty sequence id "" ; client sequences are any Z *)
Definition no_seq : Z := 0.

(* APIStream.GetSequenceID() of the stream NewResponseAPIStream builds *)
Definition stream_seq (v : decode_variant) (b : body) (s : Z) : Z :=
  match v, b with
  | DropSeqOnDecodeError, BodyUndecodable => no_seq
  | _, _ => s
  end.

Definition body_ev (v : decode_variant) (x : fev * body) : fev :=
  match fst x with
  | FExec p s => FExec p (stream_seq v (snd x) s)
  | FSkip s => FSkip s
  end.

(* the trace records the event under the client's sequence id *)
Definition bstep_acc (v : decode_variant) (att : Z -> Z) (acc : fstore * list (fev * fout))
  (x : fev * body) : fstore * list (fev * fout) :=
  let '(st', o) := fstep att (fst acc) (body_ev v x) in (st', snd acc ++ [(fst x, o)]).

Definition brun (v : decode_variant) (att : Z -> Z) (evs : list (fev * body))
  : fstore * list (fev * fout) :=
  fold_left (bstep_acc v att) evs ([], []).

Lemma body_ev_keep : forall x, body_ev KeepSeq x = fst x.
Proof. intros [[p s | s] b]; destruct b; reflexivity. Qed.

(* the body of a response is irrelevant *)
Lemma brun_keep : forall att evs, brun KeepSeq att evs = frun att (map fst evs).
Proof.
  intros att evs. unfold brun, frun. apply fold_left_map_eq.
  intros a x. unfold bstep_acc, fstep_acc. now rewrite body_ev_keep.
Qed.

Definition flow_body_bound_with (v : decode_variant) : Prop :=
  forall att evs p s,
    0 <= since_failed (p, s) (snd (brun v att evs)) <= Z.max 0 (att p).

Lemma flow_body_bound_keep : flow_body_bound_with KeepSeq.
Proof.
  intros att evs p s. rewrite brun_keep.
  exact (proj1 (finv_run att (map fst evs) p s)).
Qed.

(* the seeded variant: attempts 2, sequence 1 uses its budget, one undecodable
   response of sequence 2 is answered "failed" and clears the shared counter,
   sequence 1 is asked for a third retry *)
Definition body_witness : list (fev * body) :=
  [(FExec 0 1, BodyUndecodable); (FExec 0 1, BodyUndecodable);
   (FExec 0 2, BodyUndecodable); (FExec 0 1, BodyUndecodable)].

Lemma flow_body_bound_drop_refuted : ~ flow_body_bound_with DropSeqOnDecodeError.
Proof.
  intro H. specialize (H (fun _ => 2) body_witness 0 1).
  vm_compute in H. destruct H as [_ H]. apply H. reflexivity.
Qed.
