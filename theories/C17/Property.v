(* C17 — Retries are bounded by the configured number of attempts.
   Final statements only; proofs are in Proofs.v, the observer's counting
   functions in Spec.v, the machines in Model.v.

   Histories are arbitrary lists of responses of arbitrarily many sequences
   (sequential interleaving), settings are arbitrary integers. *)
From Coq Require Import List ZArith Bool Lia.
From Verif Require Import C17.Model C17.Spec C17.Proofs.
Import ListNotations.
Open Scope Z_scope.

(* ================================================================== *)
(* FLOWS MODE (retry processor)                                        *)

(* After every history, for every processor p and sequence s: the number of
   "retry" answers since the latest "failed" (or since the beginning) is at
   most attempts(p); the stored counter equals that number, and is ABSENT
   exactly when the number is 0 — i.e. at the start and right after "failed". *)
Theorem C17_flow_bound : forall att evs p s,
  let st := fst (frun att evs) in
  let c := since_failed (p, s) (snd (frun att evs)) in
  0 <= c <= Z.max 0 (att p) /\
  get fkey_eqb st (p, s) = (if c =? 0 then None else Some c).
Proof. intros att evs p s. exact (finv_run att evs p s). Qed.
Print Assumptions C17_flow_bound.

(* The next response of s that reaches p is answered "failed" exactly when
   the bound is used up, "retry" otherwise; after "failed" the counter is
   gone (fresh start for a later call reusing the id), after "retry" it is
   one higher. *)
Theorem C17_flow_next : forall att evs p s,
  let st := fst (frun att evs) in
  let c := since_failed (p, s) (snd (frun att evs)) in
  let r := fstep att st (FExec p s) in
  (snd r = FFailed <-> c = Z.max 0 (att p)) /\
  (snd r = FRetry <-> c < Z.max 0 (att p)) /\
  (snd r = FFailed -> get fkey_eqb (fst r) (p, s) = None) /\
  (snd r = FRetry -> get fkey_eqb (fst r) (p, s) = Some (c + 1)).
Proof. intros att evs p s. exact (f_next att evs p s). Qed.
Print Assumptions C17_flow_next.

(* Interleaving does not matter (key isolation): what (p, s) is answered in a
   history, and its counter afterwards, are what it gets in the history
   restricted to its own events. *)
Theorem C17_flow_interleaving : forall att evs k,
  filter (fun x => f_on k (fst x)) (snd (frun att evs)) =
    snd (frun att (filter (f_on k) evs)) /\
  get fkey_eqb (fst (frun att evs)) k =
    get fkey_eqb (fst (frun att (filter (f_on k) evs))) k.
Proof. intros att evs k. exact (f_projection att evs k). Qed.
Print Assumptions C17_flow_interleaving.

(* What the code does with a response outside the retry conditions: no Filter
   stage routes it to a retry processor, the answer is never "retry", and the
   flow context is NOT touched: the counter of the sequence is neither
   advanced nor removed (the sequence is ended by the client getting the
   response, not by the gateway forgetting it). *)
Theorem C17_flow_outside_conditions : forall att st stages s status,
  Forall (fun sg => negb ((fst (fst sg) <=? status) && (status <=? snd (fst sg))) = true)
         stages ->
  engine_event stages (s, status) = FSkip s /\
  fstep att st (FSkip s) = (st, FOther).
Proof.
  intros att st stages s status H. split; [|reflexivity].
  unfold engine_event. simpl. apply (proj2 (route_none stages 0 status)) in H.
  rewrite H. reflexivity.
Qed.
Print Assumptions C17_flow_outside_conditions.

(* The bound on the engine-level machine (Filter chain in front of the retry
   processors), for all (sequence, status) histories. *)
Theorem C17_flow_engine_bound : forall stages evs p s,
  let att := att_of (stage_atts stages 0) in
  let r := frun att (map (engine_event stages) evs) in
  0 <= since_failed (p, s) (snd r) <= Z.max 0 (att p).
Proof. intros stages evs p s. apply (finv_run _ _ p s). Qed.
Print Assumptions C17_flow_engine_bound.

(* Load-time validation: a retry processor with attempts < 1 is refused. *)
Theorem C17_flow_load : forall a, fload a = true <-> 1 <= a.
Proof.
  intro a. unfold fload. rewrite negb_true_iff, Z.ltb_ge. reflexivity.
Qed.
Print Assumptions C17_flow_load.

Example C17_flow_example :
  map (fun x => fout_code (snd x))
      (snd (frun (fun _ => 2)
                 [FExec 0 7; FExec 0 8; FExec 0 7; FSkip 7; FExec 0 7; FExec 0 7; FExec 0 8]))
  = [0; 0; 0; 2; 1; 0; 0].
Proof. vm_compute. reflexivity. Qed.

(* ================================================================== *)
(* POLICY MODE (retry remedy, with fix-F-C17)                          *)

(* General machine: the cache may hide the entry from any lookup and lose it
   at any moment. At every point of every history, for every sequence: the
   retries asked since the response that opened the sequence (ID = SequenceID)
   are at most max(attempts, 0) — for ALL integer attempts. *)
Theorem C17_policy_bound : forall c evs s pre post,
  snd (grun c evs) = pre ++ post ->
  0 <= seg_retries s pre <= Z.max 0 (pAttempts c).
Proof.
  intros c evs s pre post H.
  destruct (gtrace_prefix c evs pre post H) as [e1 [e2 [_ E]]].
  rewrite <- E. apply seg_bound.
Qed.
Print Assumptions C17_policy_bound.

(* A sequence that was never opened is never retried and leaves no state. *)
Theorem C17_policy_needs_start : forall c evs s,
  started s (snd (grun c evs)) = false ->
  seg_retries s (snd (grun c evs)) = 0 /\ get Z.eqb (fst (grun c evs)) s = None.
Proof. intros c evs s. exact (not_started_no_retry c evs s). Qed.
Print Assumptions C17_policy_needs_start.

(* A response outside the status ranges: NoOp, the state of the sequence is
   cleared, no other sequence is touched. *)
Theorem C17_policy_outside_ranges : forall c st s isNew status vis,
  in_ranges (pRanges c) status = false ->
  let r := gstep c st (GResp s isNew status vis) in
  snd r = [(s, isNew, status, PNoOp)] /\
  get Z.eqb (fst r) s = None /\
  forall s', s' <> s -> get Z.eqb (fst r) s' = get Z.eqb st s'.
Proof.
  intros c st s isNew status vis H r. unfold r. rewrite (g_outside c st s isNew status vis H).
  simpl. split; [reflexivity|]. split; [apply (get_del_same Z.eqb)|].
  intros s' N. apply (get_del_other Z.eqb zeqb_spec). intro X. apply N. symmetry. exact X.
Qed.
Print Assumptions C17_policy_outside_ranges.

(* Interleaving does not matter (key isolation). *)
Theorem C17_policy_interleaving : forall c evs s,
  filter (fun x => r_seq x =? s) (snd (grun c evs)) = snd (grun c (filter (g_on s) evs)) /\
  get Z.eqb (fst (grun c evs)) s = get Z.eqb (fst (grun c (filter (g_on s) evs))) s.
Proof. intros c evs s. exact (g_projection c evs s). Qed.
Print Assumptions C17_policy_interleaving.

(* The timed machine — the one the harness compares with the real plugin and
   MemoryCache: ttl, sleepers, any clock movement (also backwards) — obeys the
   same bound at every point of every history. *)
Theorem C17_policy_timed_bound : forall c t0 evs s,
  0 <= seg_retries s (snd (trun c t0 evs)) <= Z.max 0 (pAttempts c).
Proof.
  intros c t0 evs s. destruct (trun_is_grun c t0 evs) as [gevs [H _]].
  replace (snd (trun c t0 evs)) with (snd (grun c gevs)) by (rewrite H; reflexivity).
  apply seg_bound.
Qed.
Print Assumptions C17_policy_timed_bound.

(* Cache expiry (ttl lapse, premature sleeper) can only LOWER the number of
   retries of a sequence, compared with the same responses and a cache that
   never loses anything — provided each sequence id is opened at most once
   (the protocol: only the first response has ID = SequenceID). *)
Theorem C17_policy_expiry_only_lowers : forall c t0 evs,
  (forall s, (tcount_new s evs <= 1)%nat) ->
  forall s, retries s (snd (trun c t0 evs)) <= retries s (snd (grun c (resp_only evs))).
Proof.
  intros c t0 evs Once s.
  destruct (trun_is_grun c t0 evs) as [gevs [H [Hs Hc]]].
  assert (O : forall s, (count_new s gevs <= 1)%nat) by (intro; rewrite Hc; apply Once).
  destruct (lossy_le_lossless c gevs O s) as [_ [_ [L _]]].
  rewrite Hs, H in L. exact L.
Qed.
Print Assumptions C17_policy_expiry_only_lowers.

(* Without that proviso the total can be higher (a re-opened id gets a fresh
   budget after a loss) — the per-opening bound above still holds. *)
Example C17_policy_reopen_after_loss :
  let c := {| pAttempts := 2; pCooldown := 0; pMult := 1; pRanges := [(500, 599)] |} in
  let evs := [GResp 1 true 500 true; GDrop 1; GResp 1 true 500 true; GResp 1 false 500 true] in
  retries 1 (snd (grun c evs)) = 3 /\ retries 1 (snd (grun c (strip evs))) = 2 /\
  seg_retries 1 (snd (grun c evs)) = 2.
Proof. vm_compute. repeat split; reflexivity. Qed.

(* Non-vacuity: the budget is reached, then NoOp; a status outside the ranges
   ends the sequence; a premature sleeper lowers the count of sequence 3;
   attempts = 0 never retries (F-C17 fixed). *)
Example C17_policy_example :
  let c := {| pAttempts := 2; pCooldown := 5; pMult := 2; pRanges := [(500, 502); (504, 599)] |} in
  map (fun x => pout_code (snd x))
      (snd (trun c 1000
         [TResp 1 true 500; TResp 2 true 599; TResp 1 false 504; TResp 1 false 500;
          TResp 2 false 503; TResp 2 false 500;
          TResp 3 true 500; TAdvance (36 * second); TFire; TResp 3 false 500]))
  = [0; 0; 0; 1; 1; 1; 0; 1]
  /\
  map (fun x => pout_code (snd x))
      (snd (trun {| pAttempts := 0; pCooldown := 5; pMult := 2; pRanges := [(500, 599)] |}
                 0 [TResp 1 true 500; TResp 1 false 500])) = [1; 1].
Proof. vm_compute. split; reflexivity. Qed.
