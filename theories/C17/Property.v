(* C17 — Retries are bounded by the configured number of attempts.
   Final statements only; proofs are in Proofs.v, the observer's counting
   functions in Spec.v, the machines in Model.v.

   Histories are arbitrary lists of responses of arbitrarily many sequences
   (sequential interleaving), settings are arbitrary integers. *)
From Coq Require Import List ZArith Bool Lia.
From Verif Require Import C17.Model C17.Spec C17.Proofs C17.Ident C17.Width.
Import ListNotations.
Open Scope Z_scope.

(* ================================================================== *)
(* FLOWS MODE (retry processor)                                        *)

(* After every history, for every processor p and sequence s: the number of
   "retry" answers since the latest "failed" (or since the beginning) is at
   most attempts(p); the stored counter equals that number, and is ABSENT
   exactly when the number is 0 — i.e. at the start and right after "failed". *)
Theorem C17_flow_bound : forall att evs p s,
  let st := fst (frun att evs) in
  let c := since_failed (p, s) (snd (frun att evs)) in
  0 <= c <= Z.max 0 (att p) /\
  get fkey_eqb st (p, s) = (if c =? 0 then None else Some c).
Proof. intros att evs p s. exact (finv_run att evs p s). Qed.
Print Assumptions C17_flow_bound.

(* The next response of s that reaches p is answered "failed" exactly when
   the bound is used up, "retry" otherwise; after "failed" the counter is
   gone (fresh start for a later call reusing the id), after "retry" it is
   one higher. *)
Theorem C17_flow_next : forall att evs p s,
  let st := fst (frun att evs) in
  let c := since_failed (p, s) (snd (frun att evs)) in
  let r := fstep att st (FExec p s) in
  (snd r = FFailed <-> c = Z.max 0 (att p)) /\
  (snd r = FRetry <-> c < Z.max 0 (att p)) /\
  (snd r = FFailed -> get fkey_eqb (fst r) (p, s) = None) /\
  (snd r = FRetry -> get fkey_eqb (fst r) (p, s) = Some (c + 1)).
Proof. intros att evs p s. exact (f_next att evs p s). Qed.
Print Assumptions C17_flow_next.

(* Interleaving does not matter (key isolation): what (p, s) is answered in a
   history, and its counter afterwards, are what it gets in the history
   restricted to its own events. *)
Theorem C17_flow_interleaving : forall att evs k,
  filter (fun x => f_on k (fst x)) (snd (frun att evs)) =
    snd (frun att (filter (f_on k) evs)) /\
  get fkey_eqb (fst (frun att evs)) k =
    get fkey_eqb (fst (frun att (filter (f_on k) evs))) k.
Proof. intros att evs k. exact (f_projection att evs k). Qed.
Print Assumptions C17_flow_interleaving.

(* What the code does with a response outside the retry conditions: no Filter
   stage routes it to a retry processor, the answer is never "retry", and the
   flow context is NOT touched: the counter of the sequence is neither
   advanced nor removed (the sequence is ended by the client getting the
   response, not by the gateway forgetting it). *)
Theorem C17_flow_outside_conditions : forall att st stages s status,
  Forall (fun sg => negb ((fst (fst sg) <=? status) && (status <=? snd (fst sg))) = true)
         stages ->
  engine_event stages (s, status) = FSkip s /\
  fstep att st (FSkip s) = (st, FOther).
Proof.
  intros att st stages s status H. split; [|reflexivity].
  unfold engine_event. simpl. apply (proj2 (route_none stages 0 status)) in H.
  rewrite H. reflexivity.
Qed.
Print Assumptions C17_flow_outside_conditions.

(* The bound on the engine-level machine (Filter chain in front of the retry
   processors), for all (sequence, status) histories. *)
Theorem C17_flow_engine_bound : forall stages evs p s,
  let att := att_of (stage_atts stages 0) in
  let r := frun att (map (engine_event stages) evs) in
  0 <= since_failed (p, s) (snd r) <= Z.max 0 (att p).
Proof. intros stages evs p s. apply (finv_run _ _ p s). Qed.
Print Assumptions C17_flow_engine_bound.

(* Load-time validation: a retry processor with attempts < 1 is refused. *)
Theorem C17_flow_load : forall a, fload a = true <-> 1 <= a.
Proof.
  intro a. unfold fload. rewrite negb_true_iff, Z.ltb_ge. reflexivity.
Qed.
Print Assumptions C17_flow_load.

(* ---- "A response outside the retry conditions ... ends the sequence" ----

   The text of the property has a logical call ended by "failed" AND by a
   response outside the retry conditions.  In flows mode the code does not do
   the second: the retry processor is simply not reached, its counter stays in
   the flow context (finding F-C17b, open).  The full statements, their
   refutation on the faithful model, and what holds outside the finding.
   Spec.since_end / Spec.carried: retries of (p, s) in the current call / retries
   of calls already ended by a non-retryable response that the counter still
   holds; this is what the harness monitor computes. *)

(* state: after a response of s that reaches no retry processor, no retry
   processor holds a counter for s *)
Definition C17_flow_skip_forgets_full : Prop :=
  forall att evs p s,
    get fkey_eqb (fst (frun att (evs ++ [FSkip s]))) (p, s) = None.

Theorem C17_flow_skip_forgets_full_refuted : ~ C17_flow_skip_forgets_full.
Proof.
  intro H. specialize (H (fun _ => 2) [FExec 0 7] 0 7). vm_compute in H. discriminate H.
Qed.
Print Assumptions C17_flow_skip_forgets_full_refuted.

(* exactly: the counter survives the end of the call iff retries were handed
   out since the latest "failed" (classifier: since_failed (p, s) <> 0) *)
Theorem C17_flow_skip_forgets_holds_outside_F_C17b : forall att evs p s,
  let c := since_failed (p, s) (snd (frun att evs)) in
  get fkey_eqb (fst (frun att (evs ++ [FSkip s]))) (p, s) =
    (if c =? 0 then None else Some c).
Proof.
  intros att evs p s c.
  destruct (f_kept att evs [FSkip s] (p, s) eq_refl) as [Hg _]. rewrite Hg.
  apply (finv_run att evs p s).
Qed.
Print Assumptions C17_flow_skip_forgets_holds_outside_F_C17b.

(* behaviour: a call following an ended one starts afresh, i.e. "failed" is
   reported exactly when the retries of THIS call reach the bound *)
Definition C17_flow_fresh_after_end_full : Prop :=
  forall att evs p s,
    let st := fst (frun att evs) in
    let tr := snd (frun att evs) in
    snd (fstep att st (FExec p s)) = FFailed <-> since_end (p, s) tr = Z.max 0 (att p).

Theorem C17_flow_fresh_after_end_full_refuted : ~ C17_flow_fresh_after_end_full.
Proof.
  intro H. specialize (H (fun _ => 2) [FExec 0 7; FSkip 7; FExec 0 7] 0 7).
  vm_compute in H. destruct H as [H _]. specialize (H eq_refl). discriminate H.
Qed.
Print Assumptions C17_flow_fresh_after_end_full_refuted.

(* what the code does, for every history: the carried retries count against the
   new call; the counts are non-negative and add up to the stored counter *)
Theorem C17_flow_next_call : forall att evs p s,
  let st := fst (frun att evs) in
  let tr := snd (frun att evs) in
  let r := fstep att st (FExec p s) in
  0 <= since_end (p, s) tr /\ 0 <= carried (p, s) tr /\
  since_failed (p, s) tr = since_end (p, s) tr + carried (p, s) tr /\
  (snd r = FFailed <-> since_end (p, s) tr + carried (p, s) tr = Z.max 0 (att p)) /\
  (snd r = FRetry <-> since_end (p, s) tr + carried (p, s) tr < Z.max 0 (att p)).
Proof.
  intros att evs p s st tr r.
  destruct (cc_split (p, s) (snd (frun att evs))) as [H1 [H2 H3]].
  destruct (f_next_call att evs p s) as [H4 H5].
  split; [exact H1|]. split; [exact H2|]. split; [exact H3|]. split; [exact H4|exact H5].
Qed.
Print Assumptions C17_flow_next_call.

(* outside the finding — nothing carried over (decidable; the monitor's
   classifier is [carried > 0] at a "failed") — the call starts afresh *)
Theorem C17_flow_fresh_after_end_holds_outside_F_C17b : forall att evs p s,
  let st := fst (frun att evs) in
  let tr := snd (frun att evs) in
  let r := fstep att st (FExec p s) in
  carried (p, s) tr = 0 ->
  (snd r = FFailed <-> since_end (p, s) tr = Z.max 0 (att p)) /\
  (snd r = FRetry <-> since_end (p, s) tr < Z.max 0 (att p)).
Proof.
  intros att evs p s st tr r H0.
  destruct (f_next_call att evs p s) as [H4 H5]. fold st tr r in H4, H5.
  rewrite H0, Z.add_0_r in H4, H5. split; assumption.
Qed.
Print Assumptions C17_flow_fresh_after_end_holds_outside_F_C17b.

(* and inside it: an early "failed" (before this call used its budget) happens
   exactly when retries were carried over *)
Theorem C17_flow_early_failure_iff_carried : forall att evs p s,
  let st := fst (frun att evs) in
  let tr := snd (frun att evs) in
  snd (fstep att st (FExec p s)) = FFailed ->
  (since_end (p, s) tr < Z.max 0 (att p) <-> 0 < carried (p, s) tr).
Proof.
  intros att evs p s st tr Hf.
  destruct (cc_split (p, s) (snd (frun att evs))) as [H1 [H2 H3]].
  destruct (f_next_call att evs p s) as [H4 _]. apply H4 in Hf. fold tr in H1, H2, H3, Hf.
  lia.
Qed.
Print Assumptions C17_flow_early_failure_iff_carried.

(* the leak: the counter of (p, s) is kept — same value — through every
   continuation in which no response of s reaches p, however long *)
Theorem C17_flow_counter_kept : forall att evs evs2 k,
  forallb (fun e => negb (f_on k e)) evs2 = true ->
  get fkey_eqb (fst (frun att (evs ++ evs2))) k = get fkey_eqb (fst (frun att evs)) k.
Proof. intros att evs evs2 k H. exact (proj1 (f_kept att evs evs2 k H)). Qed.
Print Assumptions C17_flow_counter_kept.

(* satisfiable side conditions, and the finding's witness: attempts 2;
   500 -> retry, 200 -> other (call ended, 1 retry carried), 500 -> retry,
   500 -> failed after ONE retry of the second call *)
Example C17_flow_carried_example :
  let tr := snd (frun (fun _ => 2) [FExec 0 7; FSkip 7; FExec 0 7]) in
  since_end (0, 7) tr = 1 /\ carried (0, 7) tr = 1 /\ since_failed (0, 7) tr = 2 /\
  carried (0, 8) tr = 0 /\
  map (fun x => fout_code (snd x))
      (snd (frun (fun _ => 2) [FExec 0 7; FSkip 7; FExec 0 7; FExec 0 7])) = [0; 2; 0; 1].
Proof. vm_compute. repeat split; reflexivity. Qed.

Example C17_flow_example :
  map (fun x => fout_code (snd x))
      (snd (frun (fun _ => 2)
                 [FExec 0 7; FExec 0 8; FExec 0 7; FSkip 7; FExec 0 7; FExec 0 7; FExec 0 8]))
  = [0; 0; 0; 2; 1; 0; 0].
Proof. vm_compute. reflexivity. Qed.

(* ================================================================== *)
(* POLICY MODE (retry remedy, with fix-F-C17)                          *)

(* General machine: the cache may hide the entry from any lookup and lose it
   at any moment. At every point of every history, for every sequence: the
   retries asked since the response that opened the sequence (ID = SequenceID)
   are at most max(attempts, 0) — for ALL integer attempts. *)
Theorem C17_policy_bound : forall c evs s pre post,
  snd (grun c evs) = pre ++ post ->
  0 <= seg_retries s pre <= Z.max 0 (pAttempts c).
Proof.
  intros c evs s pre post H.
  destruct (gtrace_prefix c evs pre post H) as [e1 [e2 [_ E]]].
  rewrite <- E. apply seg_bound.
Qed.
Print Assumptions C17_policy_bound.

(* A sequence that was never opened is never retried and leaves no state. *)
Theorem C17_policy_needs_start : forall c evs s,
  started s (snd (grun c evs)) = false ->
  seg_retries s (snd (grun c evs)) = 0 /\ get Z.eqb (fst (grun c evs)) s = None.
Proof. intros c evs s. exact (not_started_no_retry c evs s). Qed.
Print Assumptions C17_policy_needs_start.

(* A response outside the status ranges: NoOp, the state of the sequence is
   cleared, no other sequence is touched. *)
Theorem C17_policy_outside_ranges : forall c st s isNew status vis,
  in_ranges (pRanges c) status = false ->
  let r := gstep c st (GResp s isNew status vis) in
  snd r = [(s, isNew, status, PNoOp)] /\
  get Z.eqb (fst r) s = None /\
  forall s', s' <> s -> get Z.eqb (fst r) s' = get Z.eqb st s'.
Proof.
  intros c st s isNew status vis H r. unfold r. rewrite (g_outside c st s isNew status vis H).
  simpl. split; [reflexivity|]. split; [apply (get_del_same Z.eqb)|].
  intros s' N. apply (get_del_other Z.eqb zeqb_spec). intro X. apply N. symmetry. exact X.
Qed.
Print Assumptions C17_policy_outside_ranges.

(* Interleaving does not matter (key isolation). *)
Theorem C17_policy_interleaving : forall c evs s,
  filter (fun x => r_seq x =? s) (snd (grun c evs)) = snd (grun c (filter (g_on s) evs)) /\
  get Z.eqb (fst (grun c evs)) s = get Z.eqb (fst (grun c (filter (g_on s) evs))) s.
Proof. intros c evs s. exact (g_projection c evs s). Qed.
Print Assumptions C17_policy_interleaving.

(* The timed machine — the one the harness compares with the real plugin and
   MemoryCache: ttl, sleepers, any clock movement (also backwards) — obeys the
   same bound at every point of every history. *)
Theorem C17_policy_timed_bound : forall c t0 evs s,
  0 <= seg_retries s (snd (trun c t0 evs)) <= Z.max 0 (pAttempts c).
Proof.
  intros c t0 evs s. destruct (trun_is_grun c t0 evs) as [gevs [H _]].
  replace (snd (trun c t0 evs)) with (snd (grun c gevs)) by (rewrite H; reflexivity).
  apply seg_bound.
Qed.
Print Assumptions C17_policy_timed_bound.

(* Cache expiry (ttl lapse, premature sleeper) can only LOWER the number of
   retries of a sequence, compared with the same responses and a cache that
   never loses anything — provided each sequence id is opened at most once
   (the protocol: only the first response has ID = SequenceID). *)
Theorem C17_policy_expiry_only_lowers : forall c t0 evs,
  (forall s, (tcount_new s evs <= 1)%nat) ->
  forall s, retries s (snd (trun c t0 evs)) <= retries s (snd (grun c (resp_only evs))).
Proof.
  intros c t0 evs Once s.
  destruct (trun_is_grun c t0 evs) as [gevs [H [Hs Hc]]].
  assert (O : forall s, (count_new s gevs <= 1)%nat) by (intro; rewrite Hc; apply Once).
  destruct (lossy_le_lossless c gevs O s) as [_ [_ [L _]]].
  rewrite Hs, H in L. exact L.
Qed.
Print Assumptions C17_policy_expiry_only_lowers.

(* ---- "after which it reports failure and forgets the sequence" ---- *)

(* General machine (any lookup may miss, any entry may vanish).  Once the
   retries of the open call of s reach max(attempts, 0): nothing is stored for
   s; the next non-opening response of s — any status, found or not — is
   answered NoOp ("reports failure": the response goes to the client as it is)
   and every lookup of the store answers as before. *)
Theorem C17_policy_exhausted_forgets : forall c evs s,
  seg_retries s (snd (grun c evs)) = Z.max 0 (pAttempts c) ->
  let st := fst (grun c evs) in
  get Z.eqb st s = None /\
  forall status vis,
    let r := gstep c st (GResp s false status vis) in
    snd r = [(s, false, status, PNoOp)] /\
    forall s', get Z.eqb (fst r) s' = get Z.eqb st s'.
Proof.
  intros c evs s H st. pose proof (exhausted_none c evs s H) as Hn. fold st in Hn.
  split; [exact Hn|]. intros status vis r.
  destruct (gstep_none_later c st s status vis (or_intror Hn)) as [Ho Hk].
  split; [exact Ho|exact (Hk Hn)].
Qed.
Print Assumptions C17_policy_exhausted_forgets.

(* ... and it stays so through EVERY continuation that does not open s again
   (other sequences, losses, any statuses): no further retry for s, nothing
   stored for s. *)
Theorem C17_policy_exhausted_stays_ended : forall c evs evs2 s,
  seg_retries s (snd (grun c evs)) = Z.max 0 (pAttempts c) ->
  forallb (no_open s) evs2 = true ->
  retries s (snd (grun c (evs ++ evs2))) = retries s (snd (grun c evs)) /\
  get Z.eqb (fst (grun c (evs ++ evs2))) s = None.
Proof.
  intros c evs evs2 s H0 H. destruct (exhausted_stays c evs evs2 s H0 H) as [_ [Hg Hr]].
  split; assumption.
Qed.
Print Assumptions C17_policy_exhausted_stays_ended.

(* the same on the timed machine (the one compared with the real plugin and
   cache): budget used => no entry in the cache map, and the next non-opening
   response is answered NoOp whatever the clock says *)
Theorem C17_policy_timed_exhausted_forgets : forall c t0 evs s,
  seg_retries s (snd (trun c t0 evs)) = Z.max 0 (pAttempts c) ->
  let t := fst (trun c t0 evs) in
  get Z.eqb (tStore t) s = None /\
  forall status, snd (tstep c t (TResp s false status)) = [(s, false, status, PNoOp)].
Proof.
  intros c t0 evs s H t. destruct (trun_is_grun c t0 evs) as [gevs [Hg _]].
  assert (Hn : get Z.eqb (tStore t) s = None).
  { replace (tStore t) with (fst (grun c gevs)) by (rewrite Hg; reflexivity).
    apply exhausted_none. rewrite Hg. exact H. }
  split; [exact Hn|]. intro status. cbn [tstep snd]. rewrite Hn.
  replace (if t_vis t s then None else None) with (@None (Z * Z)) by (destruct (t_vis t s); reflexivity).
  destruct (pdecide_none_later c status) as [E|E]; rewrite E; reflexivity.
Qed.
Print Assumptions C17_policy_timed_exhausted_forgets.

(* ---- "so a later call reusing the counter starts afresh" + exactness ---- *)

(* An opening response (ID = SequenceID) that meets the conditions and finds
   nothing for s (entry absent — e.g. after exhaustion or after a non-retryable
   status, see above — or hidden by the cache) is answered from the FULL
   configured budget, and as long as the call goes on undisturbed ([calm]: its
   later responses meet the conditions and see the cache entry, the entry is
   not lost; other sequences arbitrary) the retries asked are EXACTLY
   min(number of its responses, max(attempts, 0)): not more and not fewer. *)
Theorem C17_policy_fresh_start_exact : forall c evs1 evs2 s status vis,
  in_ranges (pRanges c) status = true ->
  (vis = false \/ get Z.eqb (fst (grun c evs1)) s = None) ->
  forallb (calm c s) evs2 = true ->
  seg_retries s (snd (grun c (evs1 ++ GResp s true status vis :: evs2))) =
    Z.min (1 + count_resp s evs2) (Z.max 0 (pAttempts c)).
Proof.
  intros c evs1 evs2 s status vis Hin Hf Hc.
  exact (proj1 (exact_run c evs1 evs2 s status vis Hin Hf Hc)).
Qed.
Print Assumptions C17_policy_fresh_start_exact.

(* the opening step itself: retry iff attempts >= 1; what is stored is the full
   budget minus this retry, with the first cool-down multiplied *)
Theorem C17_policy_fresh_start : forall c st s status vis,
  in_ranges (pRanges c) status = true ->
  (vis = false \/ get Z.eqb st s = None) ->
  let r := gstep c st (GResp s true status vis) in
  snd r = [(s, true, status, if pAttempts c <? 1 then PNoOp else PRetry)] /\
  get Z.eqb (fst r) s =
    (if pAttempts c <? 2 then None else Some (pAttempts c - 1, pCooldown c * pMult c)).
Proof.
  intros c st s status vis Hin Hf r.
  exact (proj2 (exact_open c st [] s status vis Hin Hf)).
Qed.
Print Assumptions C17_policy_fresh_start.

(* The same exactness on the TIMED machine — the function suite policy
   (run_policy) evaluates against the real plugin and MemoryCache.  After any
   timed history evs1, an opening response of s that meets the conditions and
   finds nothing (no entry in the cache map, or its ttl lapsed) starts a call;
   if the continuation evs2 is undisturbed AS THE CLOCK AND THE SLEEPERS MAKE IT
   (Spec.tg_from: every later response of s is non-opening, meets the
   conditions and arrives before the ttl of the entry lapses, t_vis; no TFire
   releases a sleeper of s while the call is open; clock movements, responses
   and sleepers of other sequences arbitrary) the retries asked are EXACTLY
   min(number of its responses, max(attempts, 0)).  The hypothesis is decidable
   (a run of the timed machine) and cannot be dropped: see the example below
   (ttl lapse; negative cool-down = ttl lapsed when stored). *)
Theorem C17_policy_timed_fresh_start_exact : forall c t0 evs1 evs2 s status,
  let t1 := fst (trun c t0 evs1) in
  in_ranges (pRanges c) status = true ->
  (t_vis t1 s = false \/ get Z.eqb (tStore t1) s = None) ->
  forallb (calm c s) (tg_from c (fst (tstep c t1 (TResp s true status))) evs2) = true ->
  seg_retries s (snd (trun c t0 (evs1 ++ TResp s true status :: evs2))) =
    Z.min (1 + tcount_resp s evs2) (Z.max 0 (pAttempts c)).
Proof. exact timed_exact_run. Qed.
Print Assumptions C17_policy_timed_fresh_start_exact.

(* hypotheses satisfiable with the clock moving and a sleeper (of sequence 2)
   firing inside the call: budget 3, three responses after the opening one =>
   retry, retry, retry, NoOp.  Not undisturbed: 37 s without a response lets
   the ttl (5 + 30 + 1 s) of the opening entry lapse => the next response finds
   nothing and is answered NoOp (fewer retries, never more); a negative
   cool-down below -31 s stores an entry whose ttl has already lapsed. *)
Example C17_policy_timed_fresh_example :
  let c := {| pAttempts := 3; pCooldown := 5; pMult := 2; pRanges := [(500, 599)] |} in
  let evs1 := [TResp 2 true 500; TAdvance (5 * second); TResp 1 false 404] in
  let evs2 := [TAdvance (10 * second); TResp 1 false 503; TAdvance (22 * second);
               TFire; TResp 1 false 500; TResp 1 false 500] in
  let t1 := fst (trun c 0 evs1) in
  get Z.eqb (tStore t1) 1 = None /\
  forallb (calm c 1) (tg_from c (fst (tstep c t1 (TResp 1 true 500))) evs2) = true /\
  In (GDrop 2) (tg_from c (fst (tstep c t1 (TResp 1 true 500))) evs2) /\
  map (fun x => pout_code (snd x)) (snd (trun c 0 (evs1 ++ TResp 1 true 500 :: evs2)))
    = [0; 1; 0; 0; 0; 1] /\
  forallb (calm c 1) (tg_from c (fst (tstep c t1 (TResp 1 true 500)))
                        [TAdvance (37 * second); TResp 1 false 500]) = false /\
  map (fun x => pout_code (snd x))
      (snd (trun c 0 (evs1 ++ TResp 1 true 500 :: [TAdvance (37 * second); TResp 1 false 500])))
    = [0; 1; 0; 1] /\
  map (fun x => pout_code (snd x))
      (snd (trun {| pAttempts := 3; pCooldown := -40; pMult := 1; pRanges := [(500, 599)] |} 0
                 [TResp 1 true 500; TResp 1 false 500])) = [0; 1].
Proof. vm_compute. repeat split; try reflexivity. right; left; reflexivity. Qed.

(* hypotheses satisfiable: budget 2 used up by sequence 1 (interleaved with
   sequence 2), later responses NoOp, reopened: again exactly 2 retries.
   NOT covered by "fresh": an opening response that still FINDS an entry (the
   previous call neither used its budget nor saw a non-retryable status, e.g.
   the client gave up) continues on the leftover budget — fewer retries, never
   more (second part; ids are unique per call in the protocol). *)
Example C17_policy_fresh_example :
  let c := {| pAttempts := 2; pCooldown := 5; pMult := 2; pRanges := [(500, 599)] |} in
  let evs1 := [GResp 1 true 500 true; GResp 2 true 500 true; GResp 1 false 503 true;
               GResp 1 false 500 true] in
  seg_retries 1 (snd (grun c evs1)) = Z.max 0 (pAttempts c) /\
  get Z.eqb (fst (grun c evs1)) 1 = None /\
  forallb (calm c 1) [GResp 2 false 200 true; GResp 1 false 500 true; GDrop 2;
                      GResp 1 false 599 true] = true /\
  map (fun x => pout_code (snd x))
      (snd (grun c (evs1 ++ GResp 1 true 500 true ::
                    [GResp 2 false 200 true; GResp 1 false 500 true; GDrop 2;
                     GResp 1 false 599 true])))
  = [0; 0; 0; 1; 0; 1; 0; 1]
  /\
  map (fun x => pout_code (snd x))
      (snd (grun {| pAttempts := 3; pCooldown := 0; pMult := 1; pRanges := [(500, 599)] |}
                 [GResp 1 true 500 true; GResp 1 true 500 true; GResp 1 false 500 true;
                  GResp 1 false 500 true])) = [0; 0; 0; 1].
Proof. vm_compute. repeat split; reflexivity. Qed.

(* Without that proviso the total can be higher (a re-opened id gets a fresh
   budget after a loss) — the per-opening bound above still holds. *)
Example C17_policy_reopen_after_loss :
  let c := {| pAttempts := 2; pCooldown := 0; pMult := 1; pRanges := [(500, 599)] |} in
  let evs := [GResp 1 true 500 true; GDrop 1; GResp 1 true 500 true; GResp 1 false 500 true] in
  retries 1 (snd (grun c evs)) = 3 /\ retries 1 (snd (grun c (strip evs))) = 2 /\
  seg_retries 1 (snd (grun c evs)) = 2.
Proof. vm_compute. repeat split; reflexivity. Qed.

(* Non-vacuity: the budget is reached, then NoOp; a status outside the ranges
   ends the sequence; a premature sleeper lowers the count of sequence 3;
   attempts = 0 never retries (F-C17 fixed). *)
Example C17_policy_example :
  let c := {| pAttempts := 2; pCooldown := 5; pMult := 2; pRanges := [(500, 502); (504, 599)] |} in
  map (fun x => pout_code (snd x))
      (snd (trun c 1000
         [TResp 1 true 500; TResp 2 true 599; TResp 1 false 504; TResp 1 false 500;
          TResp 2 false 503; TResp 2 false 500;
          TResp 3 true 500; TAdvance (36 * second); TFire; TResp 3 false 500]))
  = [0; 0; 0; 1; 1; 1; 0; 1]
  /\
  map (fun x => pout_code (snd x))
      (snd (trun {| pAttempts := 0; pCooldown := 5; pMult := 2; pRanges := [(500, 599)] |}
                 0 [TResp 1 true 500; TResp 1 false 500])) = [1; 1].
Proof. vm_compute. split; reflexivity. Qed.

(* ================================================================== *)
(* WHICH SEQUENCE IS CHARGED (Ident.v)                                 *)

(* POLICY MODE through the dispatcher.  A history is any interleaving of
   requests answered by the gateway itself ([DEarly id seq status vis]: a
   request-side remedy produced an early response, the dispatcher builds the
   OnResponse for the response remedies) and provider responses / cache losses
   ([DProv]).  The trace carries the ids of the client's REQUEST.  For the
   dispatcher as it is (the early response keeps the request's sequence id) the
   history is a history of the general machine on exactly those responses ... *)
Theorem C17_dispatch_is_policy_run : forall c evs,
  drun KeySequence c evs = grun c (map (dev_gev KeySequence) evs).
Proof. exact drun_keyseq. Qed.
Print Assumptions C17_dispatch_is_policy_run.

(* ... hence at every point of every such history, for every sequence, the
   retries asked since the request that opened it (ID = SequenceID) are at most
   max(attempts, 0), gateway-made responses included. *)
Theorem C17_dispatch_bound : dispatch_bound_keyed_by KeySequence.
Proof. exact dispatch_bound_keyseq. Qed.
Print Assumptions C17_dispatch_bound.

(* The variant in which the early response is identified by its transaction
   (SequenceID := request ID; seeded change C17-9) does NOT satisfy it. *)
Theorem C17_dispatch_bound_transaction_key_refuted : ~ dispatch_bound_keyed_by KeyTransaction.
Proof. exact dispatch_bound_keytxn_refuted. Qed.
Print Assumptions C17_dispatch_bound_transaction_key_refuted.

Example C17_dispatch_example :
  let c := {| pAttempts := 2; pCooldown := 1; pMult := 2; pRanges := [(429, 429); (500, 599)] |} in
  let evs := [DEarly 1 1 503 true; DEarly 2 2 429 true; DEarly 11 1 503 true;
              DProv (GResp 2 false 500 true); DEarly 12 1 503 true; DEarly 21 2 429 true;
              DEarly 13 1 503 true] in
  map (fun x => (r_seq x, pout_code (r_out x))) (snd (drun KeySequence c evs))
    = [(1, 0); (2, 0); (1, 0); (2, 0); (1, 1); (2, 1); (1, 1)] /\
  map (fun x => (r_seq x, pout_code (r_out x))) (snd (drun KeyTransaction c evs))
    = [(1, 0); (2, 0); (1, 0); (2, 0); (1, 0); (2, 0); (1, 0)] /\
  seg_retries 1 (snd (drun KeyTransaction c evs)) = 4.
Proof. vm_compute. repeat split; reflexivity. Qed.

(* The dispatch suite EVALUATES that front-end: its cases are raw
   ([case_dispatch]: per transaction the transaction id, the sequence id header
   of the request if present, whether the real dispatcher answered the request
   itself, the provider's status otherwise; plus the answers observed).  Which
   sequence a transaction is charged to and whether it opens it is derived by
   the model — [dx_seq] (header, else the transaction id) and Ident's own
   [dev_gev KeySequence] — and it is what the client sees: *)
Theorem C17_dispatch_identification : forall es t,
  dx_ident es t = [(dx_seq t, dxId t =? dx_seq t, if dxEarly t then es else dxProv t)].
Proof. exact dx_ident_client. Qed.
Print Assumptions C17_dispatch_identification.

(* A case the suite accepts ([run_dispatch k = None], evaluated by vm_compute
   on every case of every check run) is a run of the dispatcher machine of
   Ident.v on the raw transactions — the machine C17_dispatch_bound is about —
   answered as the real dispatcher answered, under the ids of the client's
   transactions; it is a run of the general policy machine, the policy suite's
   own function accepts the derived policy case, and the Go mirror the monitor
   reads (ident.go:dispatchAsPolicy) identified every transaction alike. *)
Theorem C17_accepted_dispatch_case_is_a_policy_run : forall k,
  run_dispatch k = None ->
  let c := dc_cfg k in
  let tr := snd (drun KeySequence c (dispatch_history k)) in
  dcOuts k = map (fun x => pout_code (r_out x)) tr /\
  map (fun x => (r_seq x, r_new x, r_status x)) tr =
    map (fun t => (dx_seq t, dxId t =? dx_seq t, if dxEarly t then dcEarlyStatus k else dxProv t))
        (dcTxns k) /\
  drun KeySequence c (dispatch_history k) = grun c (map (dev_gev KeySequence) (dispatch_history k)) /\
  run_policy (dispatch_policy_case k) = None /\
  dcMirror k = dc_ident k.
Proof.
  intros k H c tr. destruct (run_dispatch_accepted k H) as [Hm [Ho Hi]].
  repeat split; [exact Ho | exact Hi | apply drun_keyseq | exact (run_dispatch_policy k H) | exact Hm].
Qed.
Print Assumptions C17_accepted_dispatch_case_is_a_policy_run.

(* The bound restated on what the suite holds in its hands: in an accepted
   case, after any number n of transactions, for every sequence s, the "retry"
   answers (code 0) given to transactions of s since the latest transaction
   that opened it (transaction id = sequence id, e.g. no sequence id header) are
   at most max(attempts, 0) — whatever mix of gateway-made and provider
   responses.  No hypothesis on the case besides its acceptance. *)
Theorem C17_accepted_dispatch_case_bound : forall k,
  run_dispatch k = None ->
  forall s n,
    0 <= raw_seg_retries s (firstn n (combine (dcTxns k) (dcOuts k))) <= Z.max 0 (dcAttempts k).
Proof. exact run_dispatch_bound. Qed.
Print Assumptions C17_accepted_dispatch_case_bound.

(* Acceptance is satisfiable on a non-trivial case (header absent / present /
   naming the transaction itself, gateway-made and provider responses, budget
   used up) and is NOT vacuous: the same transactions with the answers of the
   transaction-keyed variant, or with a mirror that calls a retry "opening",
   are rejected. *)
Definition dispatch_case_example (mirror4 : bool) (outs : list Z) : case_dispatch :=
  {| dcAttempts := 2; dcCooldown := 1; dcMult := 2; dcRanges := [(429, 429); (500, 599)];
     dcEarlyStatus := 503;
     dcTxns := [ {| dxId := 1; dxSeqHdr := None; dxEarly := true; dxProv := 500 |};
                 {| dxId := 1001; dxSeqHdr := Some 1; dxEarly := true; dxProv := 500 |};
                 {| dxId := 2; dxSeqHdr := Some 2; dxEarly := false; dxProv := 500 |};
                 {| dxId := 1002; dxSeqHdr := Some 1; dxEarly := true; dxProv := 500 |};
                 {| dxId := 1003; dxSeqHdr := None; dxEarly := true; dxProv := 500 |};
                 {| dxId := 1004; dxSeqHdr := Some 2; dxEarly := false; dxProv := 200 |} ];
     dcMirror := [(1, true, 503); (1, false, 503); (2, true, 500); (1, mirror4, 503);
                  (1003, true, 503); (2, false, 200)];
     dcOuts := outs |}.

Example C17_dispatch_case_example :
  run_dispatch (dispatch_case_example false [0; 0; 0; 1; 0; 1]) = None /\
  raw_seg_retries 1 (combine (dcTxns (dispatch_case_example false [])) [0; 0; 0; 1; 0; 1]) = 2 /\
  run_dispatch (dispatch_case_example false [0; 0; 0; 0; 0; 1]) <> None /\
  run_dispatch (dispatch_case_example true [0; 0; 0; 1; 0; 1]) <> None /\
  map (fun x => pout_code (r_out x))
      (snd (drun KeyTransaction (dc_cfg (dispatch_case_example false []))
                 (dispatch_history (dispatch_case_example false [])))) = [0; 0; 0; 0; 0; 1].
Proof. vm_compute. repeat split; try reflexivity; discriminate. Qed.

(* FLOWS MODE through the stream constructor.  Every response carries a body
   that can or cannot be decoded.  For the constructor as it is (the sequence id
   is kept on the decode-error path) the body is irrelevant: the run is the run
   of Model.frun on the same events, so every flows-mode theorem above applies ... *)
Theorem C17_flow_body_irrelevant : forall att evs,
  brun KeepSeq att evs = frun att (map fst evs).
Proof. exact brun_keep. Qed.
Print Assumptions C17_flow_body_irrelevant.

(* ... in particular the bound per (processor, client sequence), for every
   interleaving and every assignment of bodies. *)
Theorem C17_flow_body_bound : flow_body_bound_with KeepSeq.
Proof. exact flow_body_bound_keep. Qed.
Print Assumptions C17_flow_body_bound.

(* The variant whose decode-error path returns the response without its
   sequence id (seeded change C17-10) does NOT satisfy it: all undecodable
   responses share the counter of the empty id. *)
Theorem C17_flow_body_bound_dropped_id_refuted : ~ flow_body_bound_with DropSeqOnDecodeError.
Proof. exact flow_body_bound_drop_refuted. Qed.
Print Assumptions C17_flow_body_bound_dropped_id_refuted.

Example C17_flow_body_example :
  map (fun x => fout_code (snd x)) (snd (brun KeepSeq (fun _ => 2) body_witness)) = [0; 0; 0; 1] /\
  map (fun x => fout_code (snd x)) (snd (brun DropSeqOnDecodeError (fun _ => 2) body_witness)) = [0; 0; 1; 0] /\
  since_failed (0, 1) (snd (brun DropSeqOnDecodeError (fun _ => 2) body_witness)) = 3.
Proof. vm_compute. repeat split; reflexivity. Qed.

(* FLOWS MODE, the representation of the stored counter (Width.v).  With the
   counter as wide as the configured budget (the code as it is: both are Go
   ints) the run is the run of Model.frun, for every budget however large ... *)
Theorem C17_flow_counter_int_is_model : forall att evs,
  wrun CountInt att evs = frun att evs.
Proof. exact wrun_int. Qed.
Print Assumptions C17_flow_counter_int_is_model.

(* ... hence the bound for ALL integer attempts (255, 256, 1000, ...), all
   histories, all interleavings. *)
Theorem C17_flow_counter_bound : flow_bound_with_counter CountInt.
Proof. exact flow_bound_int. Qed.
Print Assumptions C17_flow_counter_bound.

(* The variant that keeps the counter in 8 bits (seeded change C17-12) does NOT
   satisfy it: attempts 255, one sequence, 256 failing responses, 256 retries. *)
Theorem C17_flow_counter_bound_uint8_refuted : ~ flow_bound_with_counter CountUint8.
Proof. exact flow_bound_uint8_refuted. Qed.
Print Assumptions C17_flow_counter_bound_uint8_refuted.

(* Where exactly the narrow counter goes wrong: with every budget <= 254 it is
   the same machine as the model (so no suite with small attempts can tell) ... *)
Theorem C17_flow_counter_uint8_small_budgets : forall att evs,
  (forall p, att p <= 254) ->
  wrun CountUint8 att evs = frun att evs.
Proof. exact wrun_uint8_small. Qed.
Print Assumptions C17_flow_counter_uint8_small_budgets.

(* ... and with every budget >= 255 it NEVER reports failure, in any history. *)
Theorem C17_flow_counter_uint8_never_fails : forall att evs,
  (forall p, 255 <= att p) ->
  forall x, In x (snd (wrun CountUint8 att evs)) -> snd x <> FFailed.
Proof. exact wrun_uint8_never_fails. Qed.
Print Assumptions C17_flow_counter_uint8_never_fails.

Example C17_flow_counter_example :
  let evs := repeat (FExec 0 1) (Z.to_nat 258) in
  let outs v a := map (fun x => fout_code (snd x)) (snd (wrun v (fun _ => a) evs)) in
  (* attempts 255: 255 x retry, failed, then the reused id starts afresh *)
  outs CountInt 255 = repeat 0 (Z.to_nat 255) ++ [1; 0; 0] /\
  outs CountUint8 255 = repeat 0 (Z.to_nat 258) /\
  (* attempts 254: the two agree, 254 x retry, failed, retry x 3 *)
  outs CountUint8 254 = outs CountInt 254 /\
  outs CountInt 254 = repeat 0 (Z.to_nat 254) ++ [1; 0; 0; 0] /\
  since_failed (0, 1) (snd (wrun CountUint8 (fun _ => 255) evs)) = 258.
Proof. vm_compute. repeat split; reflexivity. Qed.
