(* C15 — model of the discovery aggregation of the aggregation output plugin
   (aggregation-output-plugin/discovery/{runner,aggregation,aggregation_combine,
   aggregation_converge,persistence_utils,state}.go, shared-model/discovery/
   {combine,input.model,utils}.go).

   One flush of the plugin = [step]: optional restart (the state is what
   State.InitializeState reads back from the file State.UpdateAggregation wrote),
   then discovery.Run: internal records are dropped, ConvergeAggregation re-keys
   the existing aggregates when the URL tree reports a convergence, ExtractAggs
   groups the new records, CombineAggregation merges.

   The URL tree is an ORACLE: per batch four arbitrary functions url -> url
   (what common.NormalizeURL answered while re-keying endpoints / consumers and
   while grouping by endpoint / by consumer+endpoint) and the convergence flag
   common.NormalizeTree returned.  Nothing is assumed about them.

   The model describes the code WITH patches/C15/fix-C15c.patch,
   fix-C15d.patch and fix-F-C15e.patch applied (the last one: [sanitize] below;
   all three are committed in /repo, so this is /repo as it is): common.NormalizeTree only logs a URL the tree
   refuses (the unpatched code returned the error and discovery.Run dropped the
   whole batch), and a persisted key is split at its FIRST ":::" only
   (strings.SplitN; the unpatched strings.Split truncated a URL containing
   ":::" on read-back, merging/losing endpoints).

   Representation choices (the observables are unaffected):
   - strings are lists of byte codes;
   - a Go map is an association list with distinct keys, insertion order kept;
   - the status-code map that lives inside every EndpointAgg is kept flat, keyed
     by (endpoint, status); the per-consumer mappings are kept flat, keyed by
     (consumer, endpoint);
   - the float32 means AverageDuration / AverageTotalDuration are represented by
     the exact duration SUM next to the count (mean = sum / count); float
     rounding is outside the model and is compared with a tolerance;
   - a persisted timestamp (layout 2006-01-02T15:04:05Z) is the whole second
     it denotes. *)
From Coq Require Import List ZArith Bool Uint63.
From Verif Require Import C15.Utf8.
Import ListNotations.
Open Scope Z_scope.

Definition str := list Z.

Fixpoint str_eqb (a b : str) : bool :=
  match a, b with
  | [], [] => true
  | x :: a', y :: b' => (x =? y) && str_eqb a' b'
  | _, _ => false
  end.

Definition pair_eqb {A B : Type} (ea : A -> A -> bool) (eb : B -> B -> bool)
  (x y : A * B) : bool := ea (fst x) (fst y) && eb (snd x) (snd y).

(* ---------------------------------------------------------------------- *)
(* Aggregating association maps (utils.Map.Combine, EndpointMapping.Combine,
   the re-keying loops of ConvergeAggregation, lo.GroupBy + per-group fold).  *)
Section AMap.
  Context {K V : Type}.
  Variable keqb : K -> K -> bool.
  Variable op : V -> V -> V.

  (* res[k] = res[k].Combine(v) when present, res[k] = v otherwise *)
  Fixpoint ins (k : K) (v : V) (m : list (K * V)) : list (K * V) :=
    match m with
    | [] => [(k, v)]
    | (k', v') :: t =>
        if keqb k' k then (k', op v' v) :: t else (k', v') :: ins k v t
    end.

  Definition ins_all (l m : list (K * V)) : list (K * V) :=
    fold_left (fun acc e => ins (fst e) (snd e) acc) l m.

  Definition of_list (l : list (K * V)) : list (K * V) := ins_all l [].

  (* a.Combine(b): copy of a, then every entry of b merged in *)
  Definition mcombine (a b : list (K * V)) : list (K * V) := ins_all b a.

  (* new map; every entry goes to f(key), colliding entries are combined *)
  Definition rekey (f : K -> K) (a : list (K * V)) : list (K * V) :=
    of_list (map (fun e => (f (fst e), snd e)) a).

  Fixpoint mfind (k : K) (m : list (K * V)) : option V :=
    match m with
    | [] => None
    | (k', v') :: t => if keqb k' k then Some v' else mfind k t
    end.

  (* plain Go map assignment m[k] = v (overwrites) *)
  Fixpoint put (k : K) (v : V) (m : list (K * V)) : list (K * V) :=
    match m with
    | [] => [(k, v)]
    | (k', v') :: t => if keqb k' k then (k', v) :: t else (k', v') :: put k v t
    end.

  Definition put_all (l m : list (K * V)) : list (K * V) :=
    fold_left (fun acc e => put (fst e) (snd e) acc) l m.
End AMap.

(* ---------------------------------------------------------------------- *)
(* Records and aggregates *)

Record rec := mkRec {
  r_method : str; r_url : str; r_status : Z;
  r_dur : Z;            (* Duration *)
  r_tdur : Z;           (* TotalDuration *)
  r_ts : Z;             (* Timestamp, milliseconds *)
  r_cons : str;         (* ConsumerTag *)
  r_icpt : str;         (* Interceptor header, "type/version" *)
  r_internal : bool
}.

(* EndpointAgg without its status map; sums instead of means *)
Record sagg := mkAgg {
  a_count : Z; a_min : Z; a_max : Z;
  a_dsum : Z;           (* AverageDuration * Count, exactly *)
  a_tsum : Z            (* AverageTotalDuration * Count, exactly *)
}.

(* EndpointAgg.Combine *)
Definition acomb (a b : sagg) : sagg :=
  {| a_count := a_count a + a_count b;
     a_min := Z.min (a_min a) (a_min b);
     a_max := Z.max (a_max a) (a_max b);
     a_dsum := a_dsum a + a_dsum b;
     a_tsum := a_tsum a + a_tsum b |}.

(* what one record contributes (extractEndpointAgg of a one-record group; a
   larger group is the Combine of its records: count = len, min/max, sums) *)
Definition single_at (ts : Z) (r : rec) : sagg :=
  {| a_count := 1; a_min := ts; a_max := ts; a_dsum := r_dur r; a_tsum := r_tdur r |}.
Definition single (r : rec) : sagg := single_at (r_ts r) r.

Definition key := (str * str)%type.           (* Endpoint{Method, URL} *)
Definition key_eqb : key -> key -> bool := pair_eqb str_eqb str_eqb.
Definition skey_eqb : key * Z -> key * Z -> bool := pair_eqb key_eqb Z.eqb.
Definition ckey_eqb : str * key -> str * key -> bool := pair_eqb str_eqb key_eqb.
Definition cskey_eqb : (str * key) * Z -> (str * key) * Z -> bool := pair_eqb ckey_eqb Z.eqb.
Definition sz_eqb : str * Z -> str * Z -> bool := pair_eqb str_eqb Z.eqb.

Record state := mkState {
  sE : list (key * sagg);                 (* Agg.Endpoints *)
  sES : list ((key * Z) * Z);             (* ... their StatusCodes, flat *)
  sC : list ((str * key) * sagg);         (* Agg.Consumers, flat *)
  sCS : list (((str * key) * Z) * Z);     (* ... their StatusCodes, flat *)
  sI : list ((str * str) * Z)             (* Agg.Interceptors: last timestamp *)
}.

Definition empty_state : state := mkState [] [] [] [] [].

(* ---------------------------------------------------------------------- *)
(* Keys of one record *)

Definition NA : str := [78; 47; 65].                               (* "N/A" *)
Definition unknown : str := [117; 110; 107; 110; 111; 119; 110].   (* "unknown" *)

Definition ep (nx : str -> str) (r : rec) : key := (r_method r, nx (r_url r)).

Definition cons_tag (r : rec) : str :=
  match r_cons r with [] => NA | t => t end.

(* strings.Split(s, c) for a one-byte separator *)
Fixpoint split_on (c : Z) (s : str) : list str :=
  match s with
  | [] => [[]]
  | x :: t =>
      if x =? c then [] :: split_on c t
      else match split_on c t with
           | [] => [[x]]
           | h :: r => (x :: h) :: r
           end
  end.

(* accessLogToInterceptor: exactly two parts, else unknown/unknown *)
Definition icpt_key (r : rec) : str * str :=
  match split_on 47 (r_icpt r) with
  | [a; b] => (a, b)
  | _ => (unknown, unknown)
  end.

(* ---------------------------------------------------------------------- *)
(* ExtractAggs / ConvergeAggregation / Combine on whole states *)

Definition extract (nxE nxC : str -> str) (rs : list rec) : state :=
  {| sE := of_list key_eqb acomb (map (fun r => (ep nxE r, single r)) rs);
     sES := of_list skey_eqb Z.add (map (fun r => ((ep nxE r, r_status r), 1)) rs);
     sC := of_list ckey_eqb acomb (map (fun r => ((cons_tag r, ep nxC r), single r)) rs);
     sCS := of_list cskey_eqb Z.add
              (map (fun r => (((cons_tag r, ep nxC r), r_status r), 1)) rs);
     sI := of_list key_eqb Z.max (map (fun r => (icpt_key r, r_ts r)) rs) |}.

Definition on_url (f : str -> str) (k : key) : key := (fst k, f (snd k)).

Definition rekey_state (rkE rkC : str -> str) (s : state) : state :=
  {| sE := rekey key_eqb acomb (on_url rkE) (sE s);
     sES := rekey skey_eqb Z.add (fun ks => (on_url rkE (fst ks), snd ks)) (sES s);
     sC := rekey ckey_eqb acomb (fun ck => (fst ck, on_url rkC (snd ck))) (sC s);
     sCS := rekey cskey_eqb Z.add
              (fun cks => ((fst (fst cks), on_url rkC (snd (fst cks))), snd cks)) (sCS s);
     sI := sI s |}.

Definition combine_state (a b : state) : state :=
  {| sE := mcombine key_eqb acomb (sE a) (sE b);
     sES := mcombine skey_eqb Z.add (sES a) (sES b);
     sC := mcombine ckey_eqb acomb (sC a) (sC b);
     sCS := mcombine cskey_eqb Z.add (sCS a) (sCS b);
     sI := mcombine key_eqb Z.max (sI a) (sI b) |}.

(* ---------------------------------------------------------------------- *)
(* Persisted form (ConvertToPersisted / ConvertFromPersisted) *)

Definition delim : str := [58; 58; 58].                            (* ":::" *)

(* dumpEndpoint *)
Definition pkey (k : key) : str := fst k ++ delim ++ snd k.

Definition starts_delim (s : str) : option str :=
  match s with
  | a :: b :: c :: rest =>
      if (a =? 58) && (b =? 58) && (c =? 58) then Some rest else None
  | _ => None
  end.

(* strings.SplitN(s, ":::", 2): the text before the first ":::" and the text
   after it; None when there is no ":::" *)
Fixpoint split_delim (s : str) : option (str * str) :=
  match starts_delim s with
  | Some rest => Some ([], rest)
  | None =>
      match s with
      | [] => None
      | x :: t =>
          match split_delim t with
          | Some (a, b) => Some (x :: a, b)
          | None => None
          end
      end
  end.

(* Endpoint{parts[0], parts[1]}.  Without a delimiter the Go code panics; a
   persisted key always has one, the default is never reached from [persist]. *)
Definition rkey (s : str) : key :=
  match split_delim s with Some p => p | None => (s, []) end.

(* TimestampToStringFromInt64: the string names a whole second *)
Definition ptime (ms : Z) : Z := ms / 1000.
(* TimestampFromStringToInt64 *)
Definition rtime (sec : Z) : Z := sec * 1000.

Definition pval (a : sagg) : sagg :=
  {| a_count := a_count a; a_min := ptime (a_min a); a_max := ptime (a_max a);
     a_dsum := a_dsum a; a_tsum := a_tsum a |}.
Definition rval (a : sagg) : sagg :=
  {| a_count := a_count a; a_min := rtime (a_min a); a_max := rtime (a_max a);
     a_dsum := a_dsum a; a_tsum := a_tsum a |}.

Record pstate := mkP {
  pE : list (str * sagg);
  pES : list ((str * Z) * Z);
  pC : list ((str * str) * sagg);
  pCS : list (((str * str) * Z) * Z);
  pI : list ((str * str) * Z)
}.

Definition persist (s : state) : pstate :=
  {| pE := put_all str_eqb (map (fun e => (pkey (fst e), pval (snd e))) (sE s)) [];
     pES := put_all sz_eqb (map (fun e => ((pkey (fst (fst e)), snd (fst e)), snd e)) (sES s)) [];
     pC := put_all key_eqb
             (map (fun e => ((fst (fst e), pkey (snd (fst e))), pval (snd e))) (sC s)) [];
     pCS := put_all skey_eqb
              (map (fun e => (((fst (fst (fst e)), pkey (snd (fst (fst e)))), snd (fst e)), snd e))
                   (sCS s)) [];
     pI := map (fun e => (fst e, ptime (snd e))) (sI s) |}.

Definition restore (p : pstate) : state :=
  {| sE := put_all key_eqb (map (fun e => (rkey (fst e), rval (snd e))) (pE p)) [];
     sES := put_all skey_eqb (map (fun e => ((rkey (fst (fst e)), snd (fst e)), snd e)) (pES p)) [];
     sC := put_all ckey_eqb
             (map (fun e => ((fst (fst e), rkey (snd (fst e))), rval (snd e))) (pC p)) [];
     sCS := put_all cskey_eqb
              (map (fun e => (((fst (fst (fst e)), rkey (snd (fst (fst e)))), snd (fst e)), snd e))
                   (pCS p)) [];
     sI := put_all key_eqb (map (fun e => (fst e, rtime (snd e))) (pI p)) [] |}.

(* ---------------------------------------------------------------------- *)
(* One flush, a whole run *)

Record batch := mkBatch {
  b_recs : list rec;
  b_restart : bool;          (* the plugin was restarted before this flush *)
  b_conv : bool;             (* oracle: NormalizeTree reported a convergence *)
  b_rkE : str -> str;        (* oracle: NormalizeURL while re-keying Endpoints *)
  b_rkC : str -> str;        (*         ... while re-keying Consumers *)
  b_nxE : str -> str;        (* oracle: NormalizeURL while grouping by endpoint *)
  b_nxC : str -> str         (*         ... by consumer and endpoint *)
}.

Definition accepted (rs : list rec) : list rec :=
  filter (fun r => negb (r_internal r)) rs.

Definition step (s : state) (b : batch) : state :=
  let s0 := if b_restart b then restore (persist s) else s in
  match b_recs b with
  | [] => s0                                   (* Run returns at once *)
  | _ =>
      let s1 := if b_conv b then rekey_state (b_rkE b) (b_rkC b) s0 else s0 in
      combine_state s1 (extract (b_nxE b) (b_nxC b) (accepted (b_recs b)))
  end.

Definition run_from (s : state) (bs : list batch) : state := fold_left step bs s.
Definition run (bs : list batch) : state := run_from empty_state bs.

(* Records as they enter discovery.Run (filterOutInternalRecords,
   withValidUTF8Keys — patches/C15/fix-F-C15e.patch): the four fields that name
   an aggregate are made valid UTF-8 (strings.ToValidUTF8(s, "\uFFFD"), Utf8.v)
   before anything looks at them — the URL tree included, so the oracle is asked
   about sanitised URLs only.  The code does it for the non-internal records;
   the internal ones are dropped anyway.  [run] is the pipeline on records that
   have passed this point, [run_entry] the pipeline on records as logged. *)
Definition sanitize (r : rec) : rec :=
  mkRec (to_valid_utf8 (r_method r)) (to_valid_utf8 (r_url r)) (r_status r) (r_dur r) (r_tdur r)
        (r_ts r) (to_valid_utf8 (r_cons r)) (to_valid_utf8 (r_icpt r)) (r_internal r).

Definition sanitize_batch (b : batch) : batch :=
  mkBatch (map sanitize (b_recs b)) (b_restart b) (b_conv b)
          (b_rkE b) (b_rkC b) (b_nxE b) (b_nxC b).

Definition run_entry (bs : list batch) : state := run (map sanitize_batch bs).

(* ---------------------------------------------------------------------- *)
(* Correspondence entry point.

   case = (records, runs); one run = one batching of the same records:
     (batches, observed final aggregate)
     batch    = (number of records, restarted before, converged,
                 tables rekeyE rekeyC extractE extractC)   -- oracle values
     observed = (endpoints, consumers, interceptors), as read from the
                implementation after the last flush:
       endpoint    = ((method, url), (count, status counts, min, max,
                      mean duration * 10^6, mean total duration * 10^6))
       consumer    = ((tag, (method, url)), same)
       interceptor = ((type, version), timestamp)
   Numbers travel as primitive 63-bit integers (all are non-negative; a status
   code goes through [zst]), only
   because their literals are cheap to read; they are converted to Z at once. *)

Definition istr := list int.
Definition itbl := list (istr * istr).
Definition crec := (istr * istr * int * int * int * int * istr * istr * bool)%type.
Definition cbatch := (int * bool * bool * itbl * itbl * itbl * itbl)%type.
Definition cobs_agg := (int * list (int * int) * int * int * int * int)%type.
Definition cobs := (list ((istr * istr) * cobs_agg)
                    * list ((istr * (istr * istr)) * cobs_agg)
                    * list ((istr * istr) * int))%type.
Definition crun := (list cbatch * cobs)%type.
Definition case := (list crec * list crun)%type.

Definition zi : int -> Z := Uint63.to_Z.
Definition zs (s : istr) : str := map zi s.

(* A status code is a Go int and is used as it is logged (countStatusCodes:
   res[record.StatusCode]++, any int is a key: HAProxy's placeholder -1, 0, 99,
   600, 999 ... are counted like 200).  On the wire a value v >= 0 travels as v
   and a negative value as 2^61 - v, so that all numbers stay non-negative. *)
Definition status_bias : Z := 2305843009213693952.                   (* 2^61 *)
Definition zst (x : int) : Z :=
  let z := zi x in if z <? status_bias then z else status_bias - z.

Definition tbl := list (str * str).
Fixpoint tbl_get (t : tbl) (u : str) : str :=
  match t with
  | [] => u
  | (a, b) :: t' => if str_eqb a u then b else tbl_get t' u
  end.
Definition ztbl (t : itbl) : tbl := map (fun p => (zs (fst p), zs (snd p))) t.

(* a record of a case is a record as logged: it passes [sanitize] *)
Definition rec_of (c : crec) : rec :=
  let '(m, u, st, d, td, ts, cs, ic, it) := c in
  sanitize (mkRec (zs m) (zs u) (zst st) (zi d) (zi td) (zi ts) (zs cs) (zs ic) it).

Fixpoint batches_of (rs : list rec) (bs : list cbatch) : list batch :=
  match bs with
  | [] => []
  | (n, rst, cv, rkE, rkC, nxE, nxC) :: bs' =>
      let k := Z.to_nat (zi n) in
      mkBatch (firstn k rs) rst cv
              (tbl_get (ztbl rkE)) (tbl_get (ztbl rkC))
              (tbl_get (ztbl nxE)) (tbl_get (ztbl nxC))
      :: batches_of (skipn k rs) bs'
  end.

(* |mean*10^6 * count - 10^6 * sum| <= 10^-4 relative + 10^-3 absolute *)
Definition avg_ok (avg_micro cnt sum : Z) : bool :=
  Z.abs (avg_micro * cnt - 1000000 * sum) <=? 100 * Z.abs sum + 1001 * cnt.

Definition agg_ok {K : Type} (keqb : K -> K -> bool) (skeqb : K * Z -> K * Z -> bool)
  (m : list (K * sagg)) (ms : list ((K * Z) * Z)) (k : K) (o : cobs_agg) : bool :=
  let '(cnt, sts, mn, mx, ad, atd) := o in
  match mfind keqb k m with
  | None => false
  | Some a =>
      (a_count a =? zi cnt) && (a_min a =? zi mn) && (a_max a =? zi mx)
      && avg_ok (zi ad) (zi cnt) (a_dsum a) && avg_ok (zi atd) (zi cnt) (a_tsum a)
      && forallb (fun sc => match mfind skeqb (k, zst (fst sc)) ms with
                            | Some c => c =? zi (snd sc)
                            | None => false
                            end) sts
  end.

Definition nstatus {K : Type} (os : list (K * cobs_agg)) : nat :=
  fold_right (fun o n => (length (snd (fst (fst (fst (fst (snd o)))))) + n)%nat) 0%nat os.

Definition agrees (s : state) (o : cobs) : bool :=
  let '(oe, oc, oi) := o in
  Nat.eqb (length oe) (length (sE s)) && Nat.eqb (nstatus oe) (length (sES s))
  && forallb (fun e => agg_ok key_eqb skey_eqb (sE s) (sES s)
                         (zs (fst (fst e)), zs (snd (fst e))) (snd e)) oe
  && Nat.eqb (length oc) (length (sC s)) && Nat.eqb (nstatus oc) (length (sCS s))
  && forallb (fun e => agg_ok ckey_eqb cskey_eqb (sC s) (sCS s)
                         (zs (fst (fst e)), (zs (fst (snd (fst e))), zs (snd (snd (fst e)))))
                         (snd e)) oc
  && Nat.eqb (length oi) (length (sI s))
  && forallb (fun it => match mfind key_eqb (zs (fst (fst it)), zs (snd (fst it))) (sI s) with
                        | Some t => t =? zi (snd it)
                        | None => false
                        end) oi.

Fixpoint first_bad (rs : list rec) (runs : list crun) (i : Z) : option (Z * state) :=
  match runs with
  | [] => None
  | (bs, o) :: rest =>
      let s := run (batches_of rs bs) in
      if agrees s o then first_bad rs rest (i + 1) else Some (i, s)
  end.

(* None = the model agrees with the implementation on every batching of the
   case; otherwise the index of the first disagreeing run and the model's final
   state (endpoints, flat status counts, consumers, ..., interceptors). *)
Definition run_case (k : case) : option (Z * state) :=
  first_bad (map rec_of (fst k)) (snd k) 0.

(* ---------------------------------------------------------------------- *)
(* Wire format.  A case travels as one flat list of integers (such a literal is
   an order of magnitude cheaper to read than the nested term) with the
   strings, oracle tables, aggregates and final observations of the case stored
   once and referred to by position:
     strings  n, then per string: length, bytes
     tables   n, then per table: pairs, then (from, to) string positions
     aggs     n, then per aggregate: count, statuses (n, then status count ...),
              min, max, mean*10^6, total mean*10^6
     finals   n, then per final: endpoints (n, then method url agg),
              consumers (n, then tag method url agg),
              interceptors (n, then type version timestamp)
     records  n, then method url status duration total_duration timestamp
              consumer interceptor internal
     runs     n, then per run: batches (n, then size restarted converged
              rekeyE rekeyC extractE extractC), final *)

Definition P (A : Type) := list int -> option (A * list int).
Definition pret {A : Type} (a : A) : P A := fun l => Some (a, l).
Definition pbind {A B : Type} (p : P A) (f : A -> P B) : P B :=
  fun l => match p l with Some (a, t) => f a t | None => None end.
Definition pint : P int := fun l => match l with x :: t => Some (x, t) | [] => None end.
Definition pnat : P nat := pbind pint (fun x => pret (Z.to_nat (zi x))).
Definition pbool : P bool := pbind pint (fun x => pret (negb (zi x =? 0))).
Fixpoint prep {A : Type} (n : nat) (p : P A) : P (list A) :=
  match n with
  | O => pret []
  | S n' => pbind p (fun a => pbind (prep n' p) (fun r => pret (a :: r)))
  end.
Definition plist {A : Type} (p : P A) : P (list A) := pbind pnat (fun n => prep n p).
(* a position into a table decoded earlier; out of range = malformed *)
Definition pref {A : Type} (tab : list A) : P A :=
  pbind pnat (fun i => fun l => match nth_error tab i with Some a => Some (a, l) | None => None end).

Notation "x <- p ;; q" := (pbind p (fun x => q)) (at level 61, p at next level, right associativity).

Definition pagg : P cobs_agg :=
  cnt <- pint ;; sts <- plist (s <- pint ;; c <- pint ;; pret (s, c)) ;;
  mn <- pint ;; mx <- pint ;; ad <- pint ;; atd <- pint ;;
  pret (cnt, sts, mn, mx, ad, atd).

Definition pfinal (strs : list istr) (aggs : list cobs_agg) : P cobs :=
  oe <- plist (m <- pref strs ;; u <- pref strs ;; a <- pref aggs ;; pret ((m, u), a)) ;;
  oc <- plist (c <- pref strs ;; m <- pref strs ;; u <- pref strs ;; a <- pref aggs ;;
               pret ((c, (m, u)), a)) ;;
  oi <- plist (t <- pref strs ;; v <- pref strs ;; ts <- pint ;; pret ((t, v), ts)) ;;
  pret (oe, oc, oi).

Definition prec (strs : list istr) : P crec :=
  m <- pref strs ;; u <- pref strs ;; st <- pint ;; d <- pint ;; td <- pint ;; ts <- pint ;;
  cs <- pref strs ;; ic <- pref strs ;; it <- pbool ;;
  pret (m, u, st, d, td, ts, cs, ic, it).

Definition pbatch (tbls : list itbl) : P cbatch :=
  n <- pint ;; rst <- pbool ;; cv <- pbool ;;
  a <- pref tbls ;; b <- pref tbls ;; c <- pref tbls ;; d <- pref tbls ;;
  pret (n, rst, cv, a, b, c, d).

Definition pcase : P case :=
  strs <- plist (plist pint) ;;
  tbls <- plist (plist (a <- pref strs ;; b <- pref strs ;; pret (a, b))) ;;
  aggs <- plist pagg ;;
  fins <- plist (pfinal strs aggs) ;;
  recs <- plist (prec strs) ;;
  runs <- plist (bs <- plist (pbatch tbls) ;; f <- pref fins ;; pret (bs, f)) ;;
  pret (recs, runs).

Definition fcase := list int.

(* a malformed encoding is reported as a disagreement of "run -1" *)
Definition run_flat (k : fcase) : option (Z * state) :=
  match pcase k with
  | Some (c, []) => run_case c
  | _ => Some (-1, empty_state)
  end.
