(* C15 — proofs about the persisted key (definitions: Keys.v).

   1. pkey is injective on the keys a reachable state holds (no ':' in the
      method; the URL is arbitrary and may contain ":::"), so the state file
      has one entry per in-memory entry.
   2. The round trip [restore_with rk (persist_with pk s) = fl_state s] holds
      for ANY key function with a left inverse on the keys of s.
   3. Conversely, ANY key function that sends two distinct keys of s to one
      persisted key loses an entry and, counts being positive, requests —
      whatever the reader. *)
From Coq Require Import List ZArith Bool Lia.
From Verif Require Import C15.Model C15.Spec C15.Proofs C15.Keys.
Import ListNotations.
Open Scope Z_scope.

(* ---------------------------------------------------------------------- *)
(* 1. pkey is injective *)

Lemma pkey_inj k1 k2 :
  nocolon (fst k1) -> nocolon (fst k2) -> pkey k1 = pkey k2 -> k1 = k2.
Proof.
  intros H1 H2 E. rewrite <- (rkey_pkey k1 H1), <- (rkey_pkey k2 H2). now rewrite E.
Qed.

Lemma persist_with_pkey s : persist_with pkey s = persist s.
Proof. reflexivity. Qed.

Lemma restore_with_rkey p : restore_with rkey p = restore p.
Proof. reflexivity. Qed.

(* one entry of the file per entry of the memory, under pairwise distinct keys *)
Lemma persist_entries s : wf_state s ->
  pE (persist s) = map (fun e => (pkey (fst e), pval (snd e))) (sE s) /\
  pC (persist s) = map (fun e => ((fst (fst e), pkey (snd (fst e))), pval (snd e))) (sC s) /\
  NoDup (map fst (pE (persist s))) /\ NoDup (map fst (pC (persist s))).
Proof.
  intros ([NE FE] & _ & [NC FC] & _).
  rewrite Forall_forall in FE, FC.
  assert (DE : NoDup (map fst (map (fun e : key * sagg => (pkey (fst e), pval (snd e))) (sE s)))).
  { rewrite map_map. cbn [fst]. rewrite <- (map_map fst pkey).
    apply NoDup_map_inj_in; [|assumption].
    intros x y Hx Hy. apply pkey_inj; [now apply FE | now apply FE]. }
  assert (DC : NoDup (map fst (map (fun e : (str * key) * sagg =>
                 ((fst (fst e), pkey (snd (fst e))), pval (snd e))) (sC s)))).
  { rewrite map_map. cbn [fst].
    rewrite <- (map_map fst (fun ck : str * key => (fst ck, pkey (snd ck)))).
    apply NoDup_map_inj_in; [|assumption].
    intros [c1 k1] [c2 k2] Hx Hy E. cbn in E. injection E as E1 E2. subst c2.
    f_equal. apply pkey_inj; [exact (FC _ Hx) | exact (FC _ Hy) | assumption]. }
  assert (PE : pE (persist s) = map (fun e => (pkey (fst e), pval (snd e))) (sE s)).
  { unfold persist. cbn [pE]. rewrite (put_all_fresh str_eqb eqdec_str); [reflexivity | exact DE |].
    intros x _ []. }
  assert (PC : pC (persist s)
               = map (fun e => ((fst (fst e), pkey (snd (fst e))), pval (snd e))) (sC s)).
  { unfold persist. cbn [pC]. rewrite (put_all_fresh key_eqb eqdec_key); [reflexivity | exact DC |].
    intros x _ []. }
  rewrite PE, PC. repeat apply conj; try reflexivity; assumption.
Qed.

(* ---------------------------------------------------------------------- *)
(* 2. the round trip for any key function with a left inverse *)

Lemma restore_persist_with pk rk s :
  nodup_state s -> (forall k, holds_key s k -> rk (pk k) = k) ->
  restore_with rk (persist_with pk s) = fl_state s.
Proof.
  intros (HE & HES & HC & HCS & HI) Inv.
  unfold restore_with, persist_with, fl_state. cbn [pE pES pC pCS pI]. f_equal.
  - apply (roundtrip_gen key_eqb str_eqb eqdec_key eqdec_str pk rk pval rval); [exact HE|].
    intros k Hk. apply Inv. now left.
  - rewrite (roundtrip_gen skey_eqb sz_eqb eqdec_skey eqdec_sz
               (fun ks => (pk (fst ks), snd ks)) (fun ks => (rk (fst ks), snd ks))
               (fun v : Z => v) (fun v : Z => v)); [| exact HES |].
    + apply map_id_ext. now intros [k v].
    + intros [k st] Hk. cbn. rewrite Inv; [reflexivity|]. right; left.
      apply in_map_iff in Hk. destruct Hk as [e [E He]].
      apply in_map_iff. exists e. split; [now rewrite E | assumption].
  - apply (roundtrip_gen ckey_eqb key_eqb eqdec_ckey eqdec_key
             (fun ck => (fst ck, pk (snd ck))) (fun ck => (fst ck, rk (snd ck))) pval rval);
      [exact HC|].
    intros [c k] Hk. cbn. rewrite Inv; [reflexivity|]. right; right; left.
    apply in_map_iff in Hk. destruct Hk as [e [E He]].
    apply in_map_iff. exists e. split; [now rewrite E | assumption].
  - rewrite (roundtrip_gen cskey_eqb skey_eqb eqdec_cskey eqdec_skey
               (fun cks => ((fst (fst cks), pk (snd (fst cks))), snd cks))
               (fun cks => ((fst (fst cks), rk (snd (fst cks))), snd cks))
               (fun v : Z => v) (fun v : Z => v)); [| exact HCS |].
    + apply map_id_ext. now intros [k v].
    + intros [[c k] st] Hk. cbn. rewrite Inv; [reflexivity|]. right; right; right.
      apply in_map_iff in Hk. destruct Hk as [e [E He]].
      apply in_map_iff. exists e. split; [now rewrite E | assumption].
  - rewrite map_map. cbn [fst snd].
    rewrite (put_all_fresh key_eqb eqdec_key).
    + reflexivity.
    + rewrite map_map. cbn [fst]. assumption.
    + intros x _ [].
Qed.

Lemma wf_nodup s : wf_state s -> nodup_state s.
Proof. intros ([A _] & [B _] & [C _] & [D _] & E). repeat split; assumption. Qed.

Lemma wf_holds_nocolon s k : wf_state s -> holds_key s k -> nocolon (fst k).
Proof.
  intros ([_ FE] & [_ FES] & [_ FC] & [_ FCS] & _) H.
  rewrite Forall_forall in FE, FES, FC, FCS.
  destruct H as [H | [H | [H | H]]].
  - now apply FE.
  - apply in_map_iff in H. destruct H as [e [<- He]]. apply (FES (fst e)). now apply in_map.
  - apply in_map_iff in H. destruct H as [e [<- He]]. apply (FC (fst e)). now apply in_map.
  - apply in_map_iff in H. destruct H as [e [<- He]]. apply (FCS (fst e)). now apply in_map.
Qed.

(* ---------------------------------------------------------------------- *)
(* 3. overwriting assignment under a weight: a collision loses weight *)

Section Weight.
  Context {K V : Type}.
  Variable keqb : K -> K -> bool.
  Hypothesis keq : eqdec keqb.
  Variable w : V -> Z.

  Definition total (m : list (K * V)) : Z := fold_right (fun e acc => w (snd e) + acc) 0 m.
  Definition pos (m : list (K * V)) : Prop := Forall (fun e => 0 < w (snd e)) m.

  Lemma total_app a b : total (a ++ b) = total a + total b.
  Proof. induction a as [|e a IH]; cbn; [reflexivity|]. fold (total (a ++ b)). rewrite IH. fold (total a). lia. Qed.

  Lemma put_pos k v m : pos m -> 0 < w v -> pos (put keqb k v m).
  Proof.
    unfold pos. induction m as [|[k' v'] t IH]; intros H Hv; cbn.
    - constructor; [exact Hv | constructor].
    - inversion H as [|? ? H1 H2]; subst. destruct (keqb k' k).
      + constructor; assumption.
      + constructor; [assumption | now apply IH].
  Qed.

  Lemma put_total_le k v m : pos m -> total (put keqb k v m) <= total m + w v.
  Proof.
    unfold pos. induction m as [|[k' v'] t IH]; intros H; cbn; [lia|].
    inversion H as [|? ? H1 H2]; subst. cbn in H1. destruct (keqb k' k); cbn.
    - fold (total t). lia.
    - fold (total (put keqb k v t)) (total t). specialize (IH H2). lia.
  Qed.

  Lemma put_total_hit k v (m : list (K * V)) :
    pos m -> In k (map fst m) -> total (put keqb k v m) < total m + w v.
  Proof.
    unfold pos. induction m as [|[k' v'] t IH]; intros H Hin; cbn; [destruct Hin|].
    inversion H as [|? ? H1 H2]; subst. cbn in H1. destruct (keqb k' k) eqn:E; cbn.
    - fold (total t). lia.
    - fold (total (put keqb k v t)) (total t).
      destruct Hin as [Hk | Hk].
      + cbn in Hk. subst k'. rewrite (proj1 keq) in E. discriminate.
      + specialize (IH H2 Hk). lia.
  Qed.

  Lemma put_keys x k v (m : list (K * V)) :
    In x (map fst m) \/ x = k -> In x (map fst (put keqb k v m)).
  Proof.
    induction m as [|[k' v'] t IH]; intros H; cbn.
    - destruct H as [[] | ->]. now left.
    - destruct (keqb k' k) eqn:E; cbn.
      + apply (proj2 keq) in E. subst k'. destruct H as [[H | H] | H]; [now left | now right | now left].
      + destruct H as [[H | H] | H]; [now left | right; apply IH; now left | right; apply IH; now right].
  Qed.

  Lemma put_all_pos l : forall m, pos m -> pos l -> pos (put_all keqb l m).
  Proof.
    unfold put_all. induction l as [|e l IH]; intros m Hm Hl; cbn; [assumption|].
    inversion Hl as [|? ? H1 H2]; subst. apply IH; [|assumption]. now apply put_pos.
  Qed.

  Lemma put_all_total_le l : forall m, pos m -> pos l ->
    total (put_all keqb l m) <= total m + total l.
  Proof.
    unfold put_all. induction l as [|e l IH]; intros m Hm Hl; cbn [fold_left].
    - change (total []) with 0. lia.
    - inversion Hl as [|? ? H1 H2]; subst.
      change (total (e :: l)) with (w (snd e) + total l).
      specialize (IH (put keqb (fst e) (snd e) m) (put_pos _ _ _ Hm H1) H2).
      pose proof (put_total_le (fst e) (snd e) m Hm). lia.
  Qed.

  Lemma put_all_keys (l : list (K * V)) : forall (m : list (K * V)) x,
    In x (map fst m) \/ In x (map fst l) -> In x (map fst (put_all keqb l m)).
  Proof.
    unfold put_all. induction l as [|e l IH]; intros m x H; cbn.
    - destruct H as [H | []]. exact H.
    - apply IH. destruct H as [H | [H | H]].
      + left. apply put_keys. now left.
      + left. apply put_keys. right. now symmetry.
      + now right.
  Qed.

  Lemma put_all_app (l1 l2 m : list (K * V)) :
    put_all keqb (l1 ++ l2) m = put_all keqb l2 (put_all keqb l1 m).
  Proof. unfold put_all. apply fold_left_app. Qed.

  (* an entry assigned under a key that was assigned before: strictly less *)
  Lemma put_all_collision l1 e l2 m :
    pos m -> pos (l1 ++ e :: l2) -> In (fst e) (map fst m ++ map fst l1) ->
    total (put_all keqb (l1 ++ e :: l2) m) < total m + total (l1 ++ e :: l2).
  Proof.
    intros Hm Hl Hin. unfold pos in Hl. apply Forall_app in Hl. destruct Hl as [H1 H2].
    inversion H2 as [|? ? He H3]; subst.
    rewrite put_all_app. change (e :: l2) with ([e] ++ l2). rewrite put_all_app.
    rewrite !total_app. set (M1 := put_all keqb l1 m).
    assert (P1 : pos M1) by (now apply put_all_pos).
    assert (K1 : In (fst e) (map fst M1)).
    { apply put_all_keys. apply in_app_iff in Hin. exact Hin. }
    pose proof (put_all_total_le l1 m Hm H1) as T1. fold M1 in T1.
    pose proof (put_total_hit (fst e) (snd e) M1 P1 K1) as T2.
    assert (P2 : pos (put_all keqb [e] M1)) by (apply put_pos; assumption).
    pose proof (put_all_total_le l2 (put_all keqb [e] M1) P2 H3) as T3.
    change (put_all keqb [e] M1) with (put keqb (fst e) (snd e) M1) in *.
    change (total [e]) with (w (snd e) + 0). lia.
  Qed.
End Weight.

Lemma two_in_split {A : Type} (l : list A) x y : In x l -> In y l -> x <> y ->
  exists a b l1 l2 l3, l = l1 ++ a :: l2 ++ b :: l3 /\ ((a = x /\ b = y) \/ (a = y /\ b = x)).
Proof.
  induction l as [|h t IH]; intros Hx Hy N; [destruct Hx|].
  destruct Hx as [Hx | Hx], Hy as [Hy | Hy].
  - subst. contradiction.
  - subst h. apply in_split in Hy. destruct Hy as [t1 [t2 ->]].
    exists x, y, [], t1, t2. split; [reflexivity | now left].
  - subst h. apply in_split in Hx. destruct Hx as [t1 [t2 ->]].
    exists y, x, [], t1, t2. split; [reflexivity | now right].
  - destruct (IH Hx Hy N) as (a & b & l1 & l2 & l3 & -> & D).
    exists a, b, (h :: l1), l2, l3. split; [reflexivity | exact D].
Qed.

Lemma total_map {K K' V V' : Type} (w : V -> Z) (w' : V' -> Z) (f : K -> K') (g : V -> V')
  (m : list (K * V)) : (forall v, w' (g v) = w v) ->
  total w' (map (fun e => (f (fst e), g (snd e))) m) = total w m.
Proof.
  intros H. induction m as [|e m IH]; cbn; [reflexivity|].
  fold (total w' (map (fun e => (f (fst e), g (snd e))) m)) (total w m). now rewrite IH, H.
Qed.

Lemma pos_map {K K' V V' : Type} (w : V -> Z) (w' : V' -> Z) (f : K -> K') (g : V -> V')
  (m : list (K * V)) : (forall v, w' (g v) = w v) ->
  pos w m -> pos w' (map (fun e => (f (fst e), g (snd e))) m).
Proof.
  intros H P. unfold pos in *. rewrite Forall_forall in *. intros e' He'.
  apply in_map_iff in He'. destruct He' as [e [<- He]]. cbn. rewrite H. now apply P.
Qed.

(* write through tr1 (overwriting), read through tr2 (overwriting): if two
   distinct keys of m share their tr1 image, weight is lost — whatever tr2 *)
Section TwoStage.
  Context {K K' V V' : Type}.
  Variable keqb : K -> K -> bool.
  Variable keqb' : K' -> K' -> bool.
  Hypothesis keq' : eqdec keqb'.
  Variable tr1 : K -> K'.
  Variable tr2 : K' -> K.
  Variable g1 : V -> V'.
  Variable g2 : V' -> V.
  Variable w : V -> Z.
  Variable w' : V' -> Z.
  Hypothesis w1 : forall v, w' (g1 v) = w v.
  Hypothesis w2 : forall v', w (g2 v') = w' v'.

  Lemma two_stage_collision (m : list (K * V)) k1 k2 :
    pos w m -> In k1 (map fst m) -> In k2 (map fst m) -> k1 <> k2 -> tr1 k1 = tr1 k2 ->
    total w (put_all keqb
               (map (fun e => (tr2 (fst e), g2 (snd e)))
                    (put_all keqb' (map (fun e => (tr1 (fst e), g1 (snd e))) m) [])) [])
    < total w m.
  Proof.
    intros P H1 H2 N E.
    apply in_map_iff in H1. destruct H1 as [e1 [F1 I1]].
    apply in_map_iff in H2. destruct H2 as [e2 [F2 I2]].
    assert (Ne : e1 <> e2) by (intros ->; apply N; now rewrite <- F1, <- F2).
    destruct (two_in_split m e1 e2 I1 I2 Ne) as (a & b & l1 & l2 & l3 & Hm & D).
    assert (Eab : tr1 (fst a) = tr1 (fst b)).
    { destruct D as [[-> ->] | [-> ->]]; rewrite F1, F2; [exact E | now symmetry]. }
    set (F := fun e : K * V => (tr1 (fst e), g1 (snd e))).
    set (G := fun e : K' * V' => (tr2 (fst e), g2 (snd e))).
    set (Pm := put_all keqb' (map F m) []).
    assert (PF : pos w' (map F m)) by exact (pos_map w w' tr1 g1 m w1 P).
    assert (T1 : total w' Pm < total w m).
    { rewrite <- (total_map w w' tr1 g1 m w1). fold F.
      assert (S : map F m = map F (l1 ++ a :: l2) ++ F b :: map F l3).
      { rewrite Hm. rewrite (app_comm_cons l2 (b :: l3) a), app_assoc. now rewrite map_app. }
      unfold Pm. rewrite S in PF |- *.
      pose proof (put_all_collision keqb' keq' w' (map F (l1 ++ a :: l2)) (F b) (map F l3) []
                    (Forall_nil _) PF) as C.
      cbn [total fold_right] in C. apply C. cbn [map app].
      rewrite map_map. cbn [F fst]. rewrite <- Eab.
      apply in_map_iff. exists a. split; [reflexivity|]. apply in_app_iff. right. now left. }
    assert (PP : pos w' Pm) by (apply put_all_pos; [apply Forall_nil | exact PF]).
    pose proof (put_all_total_le keqb w (map G Pm) [] (Forall_nil _)
                  (pos_map w' w tr2 g2 Pm w2 PP)) as T2.
    cbn [total fold_right] in T2. unfold G in T2. rewrite (total_map w' w tr2 g2 Pm w2) in T2.
    fold F. fold Pm. unfold G. lia.
  Qed.
End TwoStage.

Lemma total_count {K : Type} (m : list (K * sagg)) :
  total a_count m = count_where everywhere m.
Proof. induction m as [|e m IH]; cbn; [reflexivity|]. fold (total a_count m). now rewrite IH. Qed.

Lemma total_length {K V : Type} (m : list (K * V)) :
  total (fun _ => 1) m = Z.of_nat (length m).
Proof.
  induction m as [|e m IH]; [reflexivity|].
  cbn [total fold_right length]. fold (total (fun _ : V => 1) m). rewrite IH. lia.
Qed.

Lemma pos_one {K V : Type} (m : list (K * V)) : pos (fun _ => 1) m.
Proof. unfold pos. rewrite Forall_forall. intros; lia. Qed.

(* the endpoint map: requests and entries are lost *)
Lemma collision_loses_E pk rk s k1 k2 :
  Forall (fun e => 0 < a_count (snd e)) (sE s) ->
  In k1 (map fst (sE s)) -> In k2 (map fst (sE s)) -> k1 <> k2 -> pk k1 = pk k2 ->
  count_where everywhere (sE (restore_with rk (persist_with pk s)))
    < count_where everywhere (sE s) /\
  (length (sE (restore_with rk (persist_with pk s))) < length (sE s))%nat.
Proof.
  intros P H1 H2 N E. unfold restore_with, persist_with. cbn [sE pE]. split.
  - rewrite <- !total_count.
    apply (two_stage_collision key_eqb str_eqb eqdec_str pk rk pval rval
             a_count a_count (fun _ => eq_refl) (fun _ => eq_refl) (sE s) k1 k2); assumption.
  - apply Nat2Z.inj_lt. rewrite <- !(total_length (V := sagg)).
    apply (two_stage_collision key_eqb str_eqb eqdec_str pk rk pval rval
             (fun _ => 1) (fun _ => 1) (fun _ => eq_refl) (fun _ => eq_refl) (sE s) k1 k2);
      try assumption. apply pos_one.
Qed.

(* the per-consumer map: the same under one consumer tag *)
Lemma collision_loses_C pk rk s c k1 k2 :
  Forall (fun e => 0 < a_count (snd e)) (sC s) ->
  In (c, k1) (map fst (sC s)) -> In (c, k2) (map fst (sC s)) -> k1 <> k2 -> pk k1 = pk k2 ->
  count_where everywhere (sC (restore_with rk (persist_with pk s)))
    < count_where everywhere (sC s) /\
  (length (sC (restore_with rk (persist_with pk s))) < length (sC s))%nat.
Proof.
  intros P H1 H2 N E. unfold restore_with, persist_with. cbn [sC pC].
  assert (N' : (c, k1) <> (c, k2)) by (intros X; injection X as X; contradiction).
  assert (E' : (fun ck : str * key => (fst ck, pk (snd ck))) (c, k1)
               = (fun ck : str * key => (fst ck, pk (snd ck))) (c, k2)) by (cbn; now rewrite E).
  split.
  - rewrite <- !total_count.
    apply (two_stage_collision ckey_eqb key_eqb eqdec_key
             (fun ck => (fst ck, pk (snd ck))) (fun ck => (fst ck, rk (snd ck))) pval rval
             a_count a_count (fun _ => eq_refl) (fun _ => eq_refl) (sC s) (c, k1) (c, k2));
      assumption.
  - apply Nat2Z.inj_lt. rewrite <- !(total_length (V := sagg)).
    apply (two_stage_collision ckey_eqb key_eqb eqdec_key
             (fun ck => (fst ck, pk (snd ck))) (fun ck => (fst ck, rk (snd ck))) pval rval
             (fun _ => 1) (fun _ => 1) (fun _ => eq_refl) (fun _ => eq_refl) (sC s) (c, k1) (c, k2));
      try assumption. apply pos_one.
Qed.

(* ---------------------------------------------------------------------- *)
(* request counts of reachable states are positive *)

Lemma mfind_in {K V : Type} (keqb : K -> K -> bool) (keq : eqdec keqb) (m : list (K * V)) e :
  NoDup (map fst m) -> In e m -> mfind keqb (fst e) m = Some (snd e).
Proof.
  induction m as [|[k' v'] t IH]; intros ND H; [destruct H|].
  inversion ND as [|? ? Hk Ht]; subst. cbn. destruct H as [H | H].
  - subst e. cbn. now rewrite (proj1 keq).
  - destruct (keqb k' (fst e)) eqn:E.
    + apply (proj2 keq) in E. subst k'. exfalso. apply Hk. now apply in_map.
    + now apply IH.
Qed.

Lemma summary_count_pos g a : summary g = Some a -> 0 < a_count a.
Proof.
  destruct g as [|x t]; cbn; [discriminate|]. intros H. injection H as <-. cbn [a_count]. lia.
Qed.

Lemma counts_positive_run bs : batches_ok bs -> counts_positive (run bs).
Proof.
  intros H. destruct (wf_run bs H) as ([NE _] & _ & [NC _] & _).
  split; rewrite Forall_forall; intros e He.
  - pose proof (mfind_in key_eqb eqdec_key _ e NE He) as M.
    rewrite (final_E bs H) in M. exact (summary_count_pos _ _ M).
  - pose proof (mfind_in ckey_eqb eqdec_ckey _ e NC He) as M.
    rewrite (final_C bs H) in M. exact (summary_count_pos _ _ M).
Qed.
