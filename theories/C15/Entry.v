(* C15 — records as logged vs records as aggregated: vocabulary of the
   statements about non-UTF-8 keys (definitions only; Utf8.v, Model.v
   [sanitize] / [run_entry]).

   The state file is JSON.  [json_p js p] is a persisted state after its strings
   (entry names, consumer tags, interceptor type and version) went through the
   JSON writer and reader, [js] being what that does to one string.  Trusted
   about goccy/go-json: a string that is valid UTF-8 comes back as it was
   ([json_ok]); a byte that is not valid UTF-8 is written as U+FFFD. *)
From Coq Require Import List ZArith Bool.
From Verif Require Import C15.Utf8 C15.Model C15.Spec.
Import ListNotations.
Open Scope Z_scope.

Definition rec_valid (r : rec) : Prop :=
  valid_utf8 (r_method r) /\ valid_utf8 (r_url r) /\ valid_utf8 (r_cons r) /\ valid_utf8 (r_icpt r).

Definition recs_valid (bs : list batch) : Prop :=
  Forall (fun b => Forall rec_valid (b_recs b)) bs.

(* the URL tree answers with text made of parts of the URLs it was given and
   of "{_param_N}": well-formed input, well-formed answer *)
Definition keeps_valid (f : str -> str) : Prop := forall u, valid_utf8 u -> valid_utf8 (f u).
Definition oracle_valid (bs : list batch) : Prop :=
  Forall (fun b => keeps_valid (b_rkE b) /\ keeps_valid (b_rkC b) /\
                   keeps_valid (b_nxE b) /\ keeps_valid (b_nxC b)) bs.

Definition kvalid (k : str * str) : Prop := valid_utf8 (fst k) /\ valid_utf8 (snd k).

(* every string that names an entry of the state is valid UTF-8 *)
Definition state_valid (s : state) : Prop :=
  Forall (fun e => kvalid (fst e)) (sE s) /\
  Forall (fun e => kvalid (fst (fst e))) (sES s) /\
  Forall (fun e => valid_utf8 (fst (fst e)) /\ kvalid (snd (fst e))) (sC s) /\
  Forall (fun e => valid_utf8 (fst (fst (fst e))) /\ kvalid (snd (fst (fst e)))) (sCS s) /\
  Forall (fun e => kvalid (fst e)) (sI s).

Definition onk {K V : Type} (g : K -> K) (e : K * V) : K * V := (g (fst e), snd e).

Definition json_p (js : str -> str) (p : pstate) : pstate :=
  {| pE := map (onk js) (pE p);
     pES := map (onk (fun ks : str * Z => (js (fst ks), snd ks))) (pES p);
     pC := map (onk (fun ck : str * str => (js (fst ck), js (snd ck)))) (pC p);
     pCS := map (onk (fun cks : (str * str) * Z =>
                        ((js (fst (fst cks)), js (snd (fst cks))), snd cks))) (pCS p);
     pI := map (onk (fun tv : str * str => (js (fst tv), js (snd tv)))) (pI p) |}.

Definition json_ok (js : str -> str) : Prop := forall s, valid_utf8 s -> js s = s.

(* two endpoints whose URLs differ in one byte that is not UTF-8 (h/\xff twice,
   h/\xfe three times), one flush *)
Definition nu_rec (u : str) (st ts : Z) : rec :=
  mkRec [71; 69; 84] u st 10 12 ts [116; 255] [112; 121; 47; 49] false.
Definition nu_a : str := [104; 47; 255].
Definition nu_b : str := [104; 47; 254].
Definition non_utf8 : list batch :=
  [ mkBatch [nu_rec nu_a 200 1700000000123; nu_rec nu_b 200 1700000001123;
             nu_rec nu_a 500 1700000002123; nu_rec nu_b 404 1700000003123;
             nu_rec nu_b 201 1700000004123]
            false false (fun u => u) (fun u => u) (fun u => u) (fun u => u) ].
