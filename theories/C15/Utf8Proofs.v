(* C15 — proofs about to_valid_utf8 (definitions: Utf8.v). *)
From Coq Require Import List ZArith Bool Lia.
From Verif Require Import C15.Utf8.
Import ListNotations.
Open Scope Z_scope.

Ltac unb :=
  unfold is2, is3, is4, cont, inr in *;
  repeat match goal with
  | H : _ && _ = true |- _ => apply andb_prop in H; destruct H
  | H : _ || _ = true |- _ => apply orb_prop in H; destruct H
  | H : (_ <=? _) = true |- _ => apply Z.leb_le in H
  | H : (_ =? _) = true |- _ => apply Z.eqb_eq in H
  | H : (_ <? _) = true |- _ => apply Z.ltb_lt in H
  | H : (_ <? _) = false |- _ => apply Z.ltb_ge in H
  end.

Lemma is2_lead c c2 : is2 c c2 = true -> 194 <= c <= 223 /\ 128 <= c2 <= 191.
Proof. intros H. unb. lia. Qed.
Lemma is3_lead c c2 c3 : is3 c c2 c3 = true -> 224 <= c <= 239 /\ 128 <= c2 <= 191 /\ 128 <= c3 <= 191.
Proof. intros H. unb; lia. Qed.
Lemma is4_lead c c2 c3 c4 : is4 c c2 c3 c4 = true ->
  240 <= c <= 244 /\ 128 <= c2 <= 191 /\ 128 <= c3 <= 191 /\ 128 <= c4 <= 191.
Proof. intros H. unb; lia. Qed.

Lemma is2_false_of_lead c c2 : 224 <= c -> is2 c c2 = false.
Proof.
  intros H. unfold is2, inr. destruct (c <=? 223) eqn:E; [apply Z.leb_le in E; lia|].
  now rewrite andb_false_r.
Qed.
Lemma is3_false_of_lead c c2 c3 : 240 <= c -> is3 c c2 c3 = false.
Proof.
  intros H. unfold is3, inr.
  replace (c =? 224) with false by (symmetry; apply Z.eqb_neq; lia).
  replace (c =? 237) with false by (symmetry; apply Z.eqb_neq; lia).
  replace (c <=? 236) with false by (symmetry; apply Z.leb_gt; lia).
  replace (c <=? 239) with false by (symmetry; apply Z.leb_gt; lia).
  now rewrite !andb_false_r.
Qed.

Lemma ltb128_false c : 128 <= c -> (c <? 128) = false.
Proof. intros H. apply Z.ltb_ge. lia. Qed.

(* the replacement is a well-formed 3-byte sequence *)
Lemma valid_repl s : valid_utf8 s -> valid_utf8 (repl ++ s).
Proof. intros H. unfold repl. cbn [app]. apply v_3; [reflexivity | assumption]. Qed.

(* ---- the output is well-formed ---- *)
Lemma tv_valid_len n : forall s inv, (length s <= n)%nat -> valid_utf8 (tv inv s).
Proof.
  induction n as [|n IH]; intros s inv L.
  - destruct s; [constructor | cbn in L; lia].
  - destruct s as [|c t]; [constructor|]. cbn [length] in L.
    assert (Bad : valid_utf8 ((if inv then [] else repl) ++ tv true t)).
    { destruct inv; [cbn [app] | apply valid_repl]; apply IH; lia. }
    cbn [tv]. destruct (c <? 128) eqn:E1; [apply v_1; [assumption | apply IH; lia]|].
    destruct t as [|c2 t2]; [exact Bad|]. cbn [length] in L.
    destruct (is2 c c2) eqn:E2; [apply v_2; [assumption | apply IH; lia]|].
    destruct t2 as [|c3 t3]; [exact Bad|]. cbn [length] in L.
    destruct (is3 c c2 c3) eqn:E3; [apply v_3; [assumption | apply IH; lia]|].
    destruct t3 as [|c4 t4]; [exact Bad|]. cbn [length] in L.
    destruct (is4 c c2 c3 c4) eqn:E4; [apply v_4; [assumption | apply IH; lia]|].
    exact Bad.
Qed.

Lemma tv_valid inv s : valid_utf8 (tv inv s).
Proof. apply (tv_valid_len (length s)). lia. Qed.

(* ---- well-formed input is left alone ---- *)
Lemma tv_id s : valid_utf8 s -> forall inv, tv inv s = s.
Proof.
  induction 1 as [|c s H1 V IH|c c2 s H2 V IH|c c2 c3 s H3 V IH|c c2 c3 c4 s H4 V IH]; intros inv.
  - reflexivity.
  - cbn [tv]. rewrite H1. now rewrite IH.
  - cbn [tv]. destruct (is2_lead _ _ H2) as [L _].
    rewrite ltb128_false by lia. rewrite H2. now rewrite IH.
  - cbn [tv]. destruct (is3_lead _ _ _ H3) as [L _].
    rewrite ltb128_false by lia. rewrite is2_false_of_lead by lia. rewrite H3. now rewrite IH.
  - cbn [tv]. destruct (is4_lead _ _ _ _ H4) as [L _].
    rewrite ltb128_false by lia. rewrite is2_false_of_lead by lia.
    rewrite is3_false_of_lead by lia. rewrite H4. now rewrite IH.
Qed.

Lemma to_valid_utf8_valid s : valid_utf8 (to_valid_utf8 s).
Proof. apply tv_valid. Qed.
Lemma to_valid_utf8_id s : valid_utf8 s -> to_valid_utf8 s = s.
Proof. intros H. now apply tv_id. Qed.
Lemma to_valid_utf8_idem s : to_valid_utf8 (to_valid_utf8 s) = to_valid_utf8 s.
Proof. apply to_valid_utf8_id, to_valid_utf8_valid. Qed.

Lemma bytes_eqb_eq a : forall b, bytes_eqb a b = true <-> a = b.
Proof.
  induction a as [|x a IH]; intros [|y b]; cbn; split; intros H; try discriminate; try reflexivity.
  - apply andb_prop in H. destruct H as [H1 H2]. apply Z.eqb_eq in H1. apply IH in H2. now subst.
  - injection H as -> ->. rewrite Z.eqb_refl. now apply IH.
Qed.

Lemma valid_utf8_iff s : valid_utf8b s = true <-> valid_utf8 s.
Proof.
  unfold valid_utf8b. rewrite bytes_eqb_eq. split.
  - intros H. rewrite <- H. apply to_valid_utf8_valid.
  - apply to_valid_utf8_id.
Qed.

(* ---- every byte of the output is a byte of the input or of the replacement ---- *)
Lemma tv_Forall_len (P : Z -> Prop) n : Forall P repl -> forall s inv,
  (length s <= n)%nat -> Forall P s -> Forall P (tv inv s).
Proof.
  intros R. induction n as [|n IH]; intros s inv L F.
  - destruct s; [constructor | cbn in L; lia].
  - destruct s as [|c t]; [constructor|]. cbn [length] in L.
    inversion F as [|? ? Pc Ft]; subst.
    assert (Bad : Forall P ((if inv then [] else repl) ++ tv true t)).
    { apply Forall_app. split; [destruct inv; [constructor | exact R] | apply IH; [lia | assumption]]. }
    cbn [tv]. destruct (c <? 128); [constructor; [assumption | apply IH; [lia | assumption]]|].
    destruct t as [|c2 t2]; [exact Bad|]. cbn [length] in L. inversion Ft as [|? ? Pc2 Ft2]; subst.
    destruct (is2 c c2); [repeat constructor; try assumption; apply IH; [lia | assumption]|].
    destruct t2 as [|c3 t3]; [exact Bad|]. cbn [length] in L. inversion Ft2 as [|? ? Pc3 Ft3]; subst.
    destruct (is3 c c2 c3); [repeat constructor; try assumption; apply IH; [lia | assumption]|].
    destruct t3 as [|c4 t4]; [exact Bad|]. cbn [length] in L. inversion Ft3 as [|? ? Pc4 Ft4]; subst.
    destruct (is4 c c2 c3 c4); [repeat constructor; try assumption; apply IH; [lia | assumption]|].
    exact Bad.
Qed.

Lemma to_valid_utf8_Forall (P : Z -> Prop) s :
  Forall P repl -> Forall P s -> Forall P (to_valid_utf8 s).
Proof. intros R F. apply (tv_Forall_len P (length s) R); [lia | assumption]. Qed.

(* ---- concatenation, splitting at a one-byte character ---- *)
Lemma valid_app a b : valid_utf8 a -> valid_utf8 b -> valid_utf8 (a ++ b).
Proof.
  induction 1 as [|c s H1 V IH|c c2 s H2 V IH|c c2 c3 s H3 V IH|c c2 c3 c4 s H4 V IH]; intros Hb; cbn [app].
  - assumption.
  - apply v_1; auto.
  - apply v_2; auto.
  - apply v_3; auto.
  - apply v_4; auto.
Qed.

Lemma valid_ascii s : Forall (fun c => c <? 128 = true) s -> valid_utf8 s.
Proof. induction 1; constructor; assumption. Qed.
