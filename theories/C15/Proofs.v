(* C15 — proofs (definitions used by the statements: Spec.v).
   Part 1: algebra of aggregating association maps. *)
From Coq Require Import List ZArith Bool Lia Permutation.
From Verif Require Import C15.Model C15.Spec.
Import ListNotations.
Open Scope Z_scope.

(* ---------------------------------------------------------------------- *)
(* decidable equalities *)

Lemma str_eqb_refl s : str_eqb s s = true.
Proof. induction s as [|x s IH]; cbn; [reflexivity|]. now rewrite Z.eqb_refl, IH. Qed.

Lemma str_eqb_eq a : forall b, str_eqb a b = true -> a = b.
Proof.
  induction a as [|x a IH]; intros [|y b] H; cbn in H; try discriminate; [reflexivity|].
  apply andb_prop in H. destruct H as [H1 H2].
  apply Z.eqb_eq in H1. apply IH in H2. now subst.
Qed.


Lemma eqdec_str : eqdec str_eqb.
Proof. split; [exact str_eqb_refl | exact str_eqb_eq]. Qed.

Lemma eqdec_Z : eqdec Z.eqb.
Proof. split; [exact Z.eqb_refl | intros a b H; now apply Z.eqb_eq]. Qed.

Lemma eqdec_pair {A B : Type} (ea : A -> A -> bool) (eb : B -> B -> bool) :
  eqdec ea -> eqdec eb -> eqdec (pair_eqb ea eb).
Proof.
  intros [ra ea'] [rb eb']. split.
  - intros [a b]. unfold pair_eqb; cbn. now rewrite ra, rb.
  - intros [a b] [a' b'] H. unfold pair_eqb in H; cbn in H.
    apply andb_prop in H. destruct H as [H1 H2].
    apply ea' in H1. apply eb' in H2. now subst.
Qed.

Lemma eqdec_key : eqdec key_eqb.
Proof. apply eqdec_pair; apply eqdec_str. Qed.
Lemma eqdec_skey : eqdec skey_eqb.
Proof. apply eqdec_pair; [apply eqdec_key | apply eqdec_Z]. Qed.
Lemma eqdec_ckey : eqdec ckey_eqb.
Proof. apply eqdec_pair; [apply eqdec_str | apply eqdec_key]. Qed.
Lemma eqdec_cskey : eqdec cskey_eqb.
Proof. apply eqdec_pair; [apply eqdec_ckey | apply eqdec_Z]. Qed.
Lemma eqdec_sz : eqdec sz_eqb.
Proof. apply eqdec_pair; [apply eqdec_str | apply eqdec_Z]. Qed.

Lemma eqdec_false {A : Type} (e : A -> A -> bool) : eqdec e ->
  forall a b, e a b = false -> a <> b.
Proof. intros [r _] a b H E. subst. rewrite r in H. discriminate. Qed.

Lemma NoDup_snoc {A : Type} (l : list A) (k : A) :
  NoDup l -> ~ In k l -> NoDup (l ++ [k]).
Proof.
  induction l as [|x l IH]; intros H N; cbn.
  - constructor; [tauto | constructor].
  - inversion H as [|? ? Hx Hl]; subst. constructor.
    + rewrite in_app_iff. cbn. intros [H1 | [H1 | []]]; [tauto|]. subst. apply N. now left.
    + apply IH; [assumption|]. intros H1. apply N. now right.
Qed.

(* ---------------------------------------------------------------------- *)
(* option-lifted semigroup *)

Section Oplus.
  Context {V : Type}.
  Variable op : V -> V -> V.
  Hypothesis op_comm : forall a b, op a b = op b a.
  Hypothesis op_assoc : forall a b c, op a (op b c) = op (op a b) c.


  Lemma oplus_None_r x : oplus op x None = x.
  Proof. now destruct x. Qed.
  Lemma oplus_comm x y : oplus op x y = oplus op y x.
  Proof. destruct x, y; cbn; try reflexivity. now rewrite op_comm. Qed.
  Lemma oplus_assoc x y z : oplus op x (oplus op y z) = oplus op (oplus op x y) z.
  Proof. destruct x, y, z; cbn; try reflexivity. now rewrite op_assoc. Qed.
End Oplus.

(* ---------------------------------------------------------------------- *)
(* sums over the entries whose key satisfies a predicate *)

Section Facts.
  Context {K V : Type}.
  Variable keqb : K -> K -> bool.
  Variable op : V -> V -> V.
  Hypothesis keq : eqdec keqb.
  Hypothesis op_comm : forall a b, op a b = op b a.
  Hypothesis op_assoc : forall a b c, op a (op b c) = op (op a b) c.

  Notation "x (+) y" := (oplus op x y) (at level 50, left associativity).
  Local Notation psum := (@C15.Spec.psum K V op).



  Lemma psum_app p l1 l2 : psum p (l1 ++ l2) = psum p l1 (+) psum p l2.
  Proof.
    induction l1 as [|e l1 IH]; cbn; [reflexivity|].
    rewrite IH. apply oplus_assoc; assumption.
  Qed.

  Lemma psum_ins p k v m :
    psum p (ins keqb op k v m) = psum p m (+) pick p k v.
  Proof.
    induction m as [|[k' v'] t IH]; cbn.
    - now rewrite oplus_None_r.
    - destruct (keqb k' k) eqn:E; cbn.
      + apply (proj2 keq) in E. subst k'. unfold pick. destruct (p k); cbn.
        * destruct (psum p t); cbn; [|reflexivity].
          f_equal. rewrite <- !op_assoc. f_equal. apply op_comm.
        * now rewrite oplus_None_r.
      + rewrite IH. apply oplus_assoc; assumption.
  Qed.

  Lemma psum_ins_all p l : forall m,
    psum p (ins_all keqb op l m) = psum p m (+) psum p l.
  Proof.
    unfold ins_all.
    induction l as [|e l IH]; intros m; cbn.
    - now rewrite oplus_None_r.
    - rewrite IH, psum_ins. symmetry. apply oplus_assoc; assumption.
  Qed.

  Lemma psum_of_list p l : psum p (of_list keqb op l) = psum p l.
  Proof. unfold of_list. now rewrite psum_ins_all. Qed.

  Lemma psum_mcombine p a b :
    psum p (mcombine keqb op a b) = psum p a (+) psum p b.
  Proof. unfold mcombine. apply psum_ins_all. Qed.

  Lemma psum_map_key p (f : K -> K) l :
    psum p (map (fun e => (f (fst e), snd e)) l) = psum (fun k => p (f k)) l.
  Proof. induction l as [|e l IH]; cbn; [reflexivity|]. now rewrite IH. Qed.

  Lemma psum_rekey p f a :
    psum p (rekey keqb op f a) = psum (fun k => p (f k)) a.
  Proof. unfold rekey. now rewrite psum_of_list, psum_map_key. Qed.

  (* a map on values that commutes with the combination *)
  Lemma psum_map_val p (g : V -> V) l :
    (forall a b, g (op a b) = op (g a) (g b)) ->
    psum p (map (fun e => (fst e, g (snd e))) l) = option_map g (psum p l).
  Proof.
    intros Hg. induction l as [|e l IH]; cbn; [reflexivity|].
    rewrite IH. unfold pick. destruct (p (fst e)), (psum p l); cbn; try reflexivity.
    now rewrite Hg.
  Qed.

  Lemma psum_ext p q l :
    (forall k, In k (map fst l) -> p k = q k) -> psum p l = psum q l.
  Proof.
    induction l as [|e l IH]; intros H; cbn; [reflexivity|].
    rewrite IH by (intros k Hk; apply H; now right).
    unfold pick. rewrite (H (fst e)) by now left. reflexivity.
  Qed.

  Lemma psum_none p l :
    (forall k, In k (map fst l) -> p k = false) -> psum p l = None.
  Proof.
    induction l as [|e l IH]; intros H; cbn; [reflexivity|].
    rewrite IH by (intros k Hk; apply H; now right).
    unfold pick. now rewrite (H (fst e)) by now left.
  Qed.

  (* ---- keys ---- *)

  Lemma keys_ins k v m :
    map fst (ins keqb op k v m) = map fst m \/
    (map fst (ins keqb op k v m) = map fst m ++ [k] /\ ~ In k (map fst m)).
  Proof.
    induction m as [|[k' v'] t IH]; cbn.
    - right. split; [reflexivity | tauto].
    - destruct (keqb k' k) eqn:E; cbn.
      + now left.
      + destruct IH as [IH | [IH1 IH2]].
        * left. now rewrite IH.
        * right. split; [now rewrite IH1|].
          intros [H | H]; [|tauto]. subst. now rewrite (proj1 keq) in E.
  Qed.

  Lemma NoDup_ins k v m :
    NoDup (map fst m) -> NoDup (map fst (ins keqb op k v m)).
  Proof.
    intros H. destruct (keys_ins k v m) as [E | [E N]]; rewrite E; [assumption|].
    apply NoDup_snoc; assumption.
  Qed.

  Lemma Forall_keys_ins (P : K -> Prop) k v m :
    Forall P (map fst m) -> P k -> Forall P (map fst (ins keqb op k v m)).
  Proof.
    intros H Hk. destruct (keys_ins k v m) as [E | [E _]]; rewrite E; [assumption|].
    apply Forall_app. split; [assumption | now constructor].
  Qed.

  Lemma NoDup_ins_all l : forall m,
    NoDup (map fst m) -> NoDup (map fst (ins_all keqb op l m)).
  Proof.
    unfold ins_all. induction l as [|e l IH]; intros m H; cbn; [assumption|].
    apply IH. now apply NoDup_ins.
  Qed.

  Lemma Forall_keys_ins_all (P : K -> Prop) l : forall m,
    Forall P (map fst m) -> Forall P (map fst l) ->
    Forall P (map fst (ins_all keqb op l m)).
  Proof.
    unfold ins_all. induction l as [|e l IH]; intros m H Hl; cbn; [assumption|].
    inversion Hl; subst. apply IH; [|assumption]. now apply Forall_keys_ins.
  Qed.

  Lemma NoDup_of_list l : NoDup (map fst (of_list keqb op l)).
  Proof. unfold of_list. apply NoDup_ins_all. constructor. Qed.

  Lemma Forall_keys_of_list (P : K -> Prop) l :
    Forall P (map fst l) -> Forall P (map fst (of_list keqb op l)).
  Proof. unfold of_list. intros H. apply Forall_keys_ins_all; [constructor | assumption]. Qed.

  Lemma NoDup_mcombine a b :
    NoDup (map fst a) -> NoDup (map fst (mcombine keqb op a b)).
  Proof. unfold mcombine. apply NoDup_ins_all. Qed.

  Lemma Forall_keys_mcombine (P : K -> Prop) a b :
    Forall P (map fst a) -> Forall P (map fst b) ->
    Forall P (map fst (mcombine keqb op a b)).
  Proof. unfold mcombine. apply Forall_keys_ins_all. Qed.

  Lemma NoDup_rekey f a : NoDup (map fst (rekey keqb op f a)).
  Proof. unfold rekey. apply NoDup_of_list. Qed.

  Lemma Forall_keys_rekey (P : K -> Prop) f a :
    (forall k, P k -> P (f k)) -> Forall P (map fst a) ->
    Forall P (map fst (rekey keqb op f a)).
  Proof.
    intros Hf H. unfold rekey. apply Forall_keys_of_list.
    rewrite map_map. cbn. rewrite Forall_forall in *. intros k Hk.
    apply in_map_iff in Hk. destruct Hk as [e [<- He]].
    apply Hf, H. now apply in_map.
  Qed.

  (* with distinct keys, looking a key up = summing over that key *)
  Lemma mfind_psum k m :
    NoDup (map fst m) -> mfind keqb k m = psum (fun k' => keqb k' k) m.
  Proof.
    induction m as [|[k' v'] t IH]; intros H; cbn; [reflexivity|].
    inversion H as [|? ? Hk Ht]; subst. unfold pick. cbn.
    destruct (keqb k' k) eqn:E.
    - apply (proj2 keq) in E. subst k'.
      rewrite psum_none; [reflexivity|].
      intros x Hx. destruct (keqb x k) eqn:E; [|reflexivity].
      apply (proj2 keq) in E. now subst.
    - now rewrite IH.
  Qed.

  (* ---- overwriting assignment ---- *)

  Lemma put_fresh k v (m : list (K * V)) :
    ~ In k (map fst m) -> put keqb k v m = m ++ [(k, v)].
  Proof.
    induction m as [|[k' v'] t IH]; intros H; cbn; [reflexivity|].
    destruct (keqb k' k) eqn:E.
    - apply (proj2 keq) in E. subst. exfalso. apply H. now left.
    - rewrite IH; [reflexivity|]. intros H1. apply H. now right.
  Qed.

  Lemma put_all_fresh (l : list (K * V)) : forall m,
    NoDup (map fst l) -> (forall x, In x (map fst l) -> ~ In x (map fst m)) ->
    put_all keqb l m = m ++ l.
  Proof.
    unfold put_all. induction l as [|e l IH]; intros m H D; cbn.
    - now rewrite app_nil_r.
    - inversion H as [|? ? He Hl]; subst.
      rewrite put_fresh by (apply D; now left).
      rewrite IH; [now rewrite <- app_assoc; destruct e | assumption |].
      intros x Hx. rewrite map_app, in_app_iff. cbn.
      intros [H1 | [H1 | []]].
      + apply (D x); [now right | assumption].
      + subst. contradiction.
  Qed.
End Facts.

(* ---------------------------------------------------------------------- *)
(* Part 2: the three combinations used by the pipeline *)

Lemma acomb_comm a b : acomb a b = acomb b a.
Proof.
  unfold acomb. f_equal; try lia.
Qed.

Lemma acomb_assoc a b c : acomb a (acomb b c) = acomb (acomb a b) c.
Proof.
  unfold acomb; cbn. f_equal; try lia.
Qed.

Lemma Zadd_assoc' a b c : a + (b + c) = a + b + c.
Proof. lia. Qed.
Lemma Zmax_assoc' a b c : Z.max a (Z.max b c) = Z.max (Z.max a b) c.
Proof. lia. Qed.


Lemma floor_s_le ms : floor_s ms <= ms.
Proof. unfold floor_s, rtime, ptime. pose proof (Z.mul_div_le ms 1000). lia. Qed.

Lemma floor_s_gt ms : ms - 1000 < floor_s ms.
Proof.
  unfold floor_s, rtime, ptime.
  pose proof (Z.mod_pos_bound ms 1000). pose proof (Z.div_mod ms 1000). lia.
Qed.

Lemma floor_s_mono a b : a <= b -> floor_s a <= floor_s b.
Proof.
  intros H. unfold floor_s, rtime, ptime.
  pose proof (Z.div_le_mono a b 1000). lia.
Qed.

Lemma floor_s_idem a : floor_s (floor_s a) = floor_s a.
Proof. unfold floor_s, rtime, ptime. now rewrite Z.div_mul by lia. Qed.

Lemma floor_s_aligned a : a mod 1000 = 0 -> floor_s a = a.
Proof.
  intros H. unfold floor_s, rtime, ptime.
  pose proof (Z.div_mod a 1000). lia.
Qed.

Lemma floor_s_min a b : floor_s (Z.min a b) = Z.min (floor_s a) (floor_s b).
Proof.
  destruct (Z.le_ge_cases a b) as [H | H].
  - pose proof (floor_s_mono _ _ H). now rewrite !Z.min_l.
  - pose proof (floor_s_mono _ _ H). now rewrite !Z.min_r.
Qed.

Lemma floor_s_max a b : floor_s (Z.max a b) = Z.max (floor_s a) (floor_s b).
Proof.
  destruct (Z.le_ge_cases a b) as [H | H].
  - pose proof (floor_s_mono _ _ H). now rewrite !Z.max_r.
  - pose proof (floor_s_mono _ _ H). now rewrite !Z.max_l.
Qed.


Lemma rval_pval a : rval (pval a) = fl a.
Proof. reflexivity. Qed.

Lemma fl_acomb a b : fl (acomb a b) = acomb (fl a) (fl b).
Proof. unfold fl, acomb; cbn. now rewrite floor_s_min, floor_s_max. Qed.

Lemma fl_single_at ts r : fl (single_at ts r) = single_at (floor_s ts) r.
Proof. reflexivity. Qed.

(* ---------------------------------------------------------------------- *)
(* Part 3: the persisted endpoint key *)


Lemma split_delim_pkey m u :
  nocolon m -> split_delim (m ++ delim ++ u) = Some (m, u).
Proof.
  induction m as [|x m IH]; intros H.
  - reflexivity.
  - inversion H as [|? ? Hx Hm]; subst.
    change ((x :: m) ++ delim ++ u) with (x :: (m ++ delim ++ u)).
    assert (S : starts_delim (x :: (m ++ delim ++ u)) = None).
    { unfold starts_delim. destruct (m ++ delim ++ u) as [|b [|c rest]]; try reflexivity.
      apply Z.eqb_neq in Hx. now rewrite Hx. }
    cbn [split_delim]. rewrite S. rewrite (IH Hm). reflexivity.
  Qed.

Lemma rkey_pkey k : nocolon (fst k) -> rkey (pkey k) = k.
Proof.
  intros H. unfold rkey, pkey. rewrite split_delim_pkey by assumption. now destruct k.
Qed.

(* ---------------------------------------------------------------------- *)
(* Part 4: well-formed states and the disk round trip *)

Lemma NoDup_map_inj_in {A B : Type} (f : A -> B) (l : list A) :
  (forall x y, In x l -> In y l -> f x = f y -> x = y) -> NoDup l -> NoDup (map f l).
Proof.
  induction l as [|a l IH]; intros Hf H; cbn; [constructor|].
  inversion H as [|? ? Ha Hl]; subst. constructor.
  - intros Hin. apply in_map_iff in Hin. destruct Hin as [y [E Hy]].
    assert (y = a) by (apply Hf; [now right | now left | assumption]). now subst.
  - apply IH; [|assumption]. intros x y Hx Hy. apply Hf; now right.
Qed.

Section RoundTrip.
  Context {K K' V V' : Type}.
  Variable keqb : K -> K -> bool.
  Variable keqb' : K' -> K' -> bool.
  Hypothesis keq : eqdec keqb.
  Hypothesis keq' : eqdec keqb'.
  Variable tr1 : K -> K'.
  Variable tr2 : K' -> K.
  Variable g1 : V -> V'.
  Variable g2 : V' -> V.

  Lemma roundtrip_gen (m : list (K * V)) :
    NoDup (map fst m) ->
    (forall k, In k (map fst m) -> tr2 (tr1 k) = k) ->
    put_all keqb
      (map (fun e => (tr2 (fst e), g2 (snd e)))
           (put_all keqb' (map (fun e => (tr1 (fst e), g1 (snd e))) m) [])) []
    = map (fun e => (fst e, g2 (g1 (snd e)))) m.
  Proof.
    intros ND Inv.
    assert (Inj : forall x y, In x (map fst m) -> In y (map fst m) -> tr1 x = tr1 y -> x = y).
    { intros x y Hx Hy E. rewrite <- (Inv x Hx), <- (Inv y Hy). now rewrite E. }
    rewrite (put_all_fresh keqb' keq').
    - cbn [app]. rewrite map_map. cbn [fst snd].
      rewrite (put_all_fresh keqb keq).
      + cbn [app]. apply map_ext_in. intros e He. cbn.
        rewrite Inv; [reflexivity | now apply in_map].
      + rewrite map_map. cbn [fst].
        replace (map (fun x => tr2 (tr1 (fst x))) m) with (map fst m); [assumption|].
        apply map_ext_in. intros e He. symmetry. apply Inv. now apply in_map.
      + intros x _ [].
    - rewrite map_map. cbn [fst].
      rewrite <- (map_map fst tr1). now apply NoDup_map_inj_in.
    - intros x _ [].
  Qed.
End RoundTrip.



Lemma map_id_ext {A : Type} (f : A -> A) (l : list A) :
  (forall x, f x = x) -> map f l = l.
Proof. intros H. rewrite <- (map_id l) at 2. now apply map_ext. Qed.

Lemma restore_persist s : wf_state s -> restore (persist s) = fl_state s.
Proof.
  intros (HE & HES & HC & HCS & HI).
  unfold restore, persist, fl_state. cbn [pE pES pC pCS pI]. f_equal.
  - apply (roundtrip_gen key_eqb str_eqb eqdec_key eqdec_str pkey rkey pval rval);
      [apply HE|].
    intros k Hk. apply rkey_pkey. destruct HE as [_ F].
    rewrite Forall_forall in F. now apply F.
  - rewrite (roundtrip_gen skey_eqb sz_eqb eqdec_skey eqdec_sz
               (fun ks => (pkey (fst ks), snd ks)) (fun ks => (rkey (fst ks), snd ks))
               (fun v : Z => v) (fun v : Z => v)); [| apply HES |].
    + apply map_id_ext. now intros [k v].
    + intros [k st] Hk. cbn. rewrite rkey_pkey; [reflexivity|].
      destruct HES as [_ F]. rewrite Forall_forall in F. now apply (F (k, st)).
  - apply (roundtrip_gen ckey_eqb key_eqb eqdec_ckey eqdec_key
             (fun ck => (fst ck, pkey (snd ck))) (fun ck => (fst ck, rkey (snd ck))) pval rval);
      [apply HC|].
    intros [c k] Hk. cbn. rewrite rkey_pkey; [reflexivity|].
    destruct HC as [_ F]. rewrite Forall_forall in F. now apply (F (c, k)).
  - rewrite (roundtrip_gen cskey_eqb skey_eqb eqdec_cskey eqdec_skey
               (fun cks => ((fst (fst cks), pkey (snd (fst cks))), snd cks))
               (fun cks => ((fst (fst cks), rkey (snd (fst cks))), snd cks))
               (fun v : Z => v) (fun v : Z => v)); [| apply HCS |].
    + apply map_id_ext. now intros [k v].
    + intros [[c k] st] Hk. cbn. rewrite rkey_pkey; [reflexivity|].
      destruct HCS as [_ F]. rewrite Forall_forall in F. now apply (F ((c, k), st)).
  - rewrite map_map. cbn [fst snd].
    rewrite (put_all_fresh key_eqb eqdec_key).
    + reflexivity.
    + rewrite map_map. cbn [fst]. assumption.
    + intros x _ [].
Qed.

(* ---- well-formedness is an invariant of the pipeline ---- *)

Section WfmFacts.
  Context {K V : Type}.
  Variable keqb : K -> K -> bool.
  Variable op : V -> V -> V.
  Hypothesis keq : eqdec keqb.
  Variable P : K -> Prop.

  Lemma wfm_of_list l : Forall P (map fst l) -> wfm P (of_list keqb op l).
  Proof.
    intros H. split; [now apply NoDup_of_list | now apply Forall_keys_of_list].
  Qed.

  Lemma wfm_mcombine a b :
    wfm P a -> Forall P (map fst b) -> wfm P (mcombine keqb op a b).
  Proof.
    intros [H1 H2] Hb. split; [now apply NoDup_mcombine | now apply Forall_keys_mcombine].
  Qed.

  Lemma wfm_rekey f a :
    (forall k, P k -> P (f k)) -> wfm P a -> wfm P (rekey keqb op f a).
  Proof.
    intros Hf [H1 H2]. split; [now apply NoDup_rekey | now apply Forall_keys_rekey].
  Qed.

  Lemma wfm_map_val (g : V -> V) (m : list (K * V)) :
    wfm P m -> wfm P (map (fun e => (fst e, g (snd e))) m).
  Proof. unfold wfm. rewrite map_map. cbn [fst]. tauto. Qed.
End WfmFacts.


Lemma recs_ok_accepted rs : recs_ok rs -> recs_ok (accepted rs).
Proof.
  unfold recs_ok, accepted. rewrite !Forall_forall. intros H r Hr.
  apply filter_In in Hr. now apply H.
Qed.

Lemma Forall_map_keys {A K V : Type} (P : K -> Prop) (f : A -> K * V) (l : list A) :
  (forall a, In a l -> P (fst (f a))) -> Forall P (map fst (map f l)).
Proof.
  intros H. rewrite map_map. rewrite Forall_forall. intros k Hk.
  apply in_map_iff in Hk. destruct Hk as [a [<- Ha]]. now apply H.
Qed.

Lemma wf_extract nxE nxC rs : recs_ok rs -> wf_state (extract nxE nxC rs).
Proof.
  intros H. unfold recs_ok in H. rewrite Forall_forall in H.
  unfold wf_state, extract; cbn [sE sES sC sCS sI].
  refine (conj _ (conj _ (conj _ (conj _ _)))).
  - apply wfm_of_list; [exact eqdec_key|].
    apply Forall_map_keys. intros r Hr. now apply H.
  - apply wfm_of_list; [exact eqdec_skey|].
    apply Forall_map_keys. intros r Hr. now apply H.
  - apply wfm_of_list; [exact eqdec_ckey|].
    apply Forall_map_keys. intros r Hr. now apply H.
  - apply wfm_of_list; [exact eqdec_cskey|].
    apply Forall_map_keys. intros r Hr. now apply H.
  - apply NoDup_of_list. exact eqdec_key.
Qed.

Lemma wf_empty : wf_state empty_state.
Proof. unfold wf_state, wfm; cbn. repeat split; constructor. Qed.

Lemma wf_rekey_state rkE rkC s : wf_state s -> wf_state (rekey_state rkE rkC s).
Proof.
  intros (HE & HES & HC & HCS & HI).
  unfold wf_state, rekey_state; cbn [sE sES sC sCS sI].
  refine (conj _ (conj _ (conj _ (conj _ _)))); try assumption.
  - apply wfm_rekey; [exact eqdec_key | now intros [m u] | assumption].
  - apply wfm_rekey; [exact eqdec_skey | now intros [[m u] st] | assumption].
  - apply wfm_rekey; [exact eqdec_ckey | now intros [c [m u]] | assumption].
  - apply wfm_rekey; [exact eqdec_cskey | now intros [[c [m u]] st] | assumption].
Qed.

Lemma wf_combine_state a b : wf_state a -> wf_state b -> wf_state (combine_state a b).
Proof.
  intros (HE & HES & HC & HCS & HI) (HE' & HES' & HC' & HCS' & HI').
  unfold wf_state, combine_state; cbn [sE sES sC sCS sI].
  refine (conj _ (conj _ (conj _ (conj _ _)))).
  - apply wfm_mcombine; [exact eqdec_key | assumption | apply HE'].
  - apply wfm_mcombine; [exact eqdec_skey | assumption | apply HES'].
  - apply wfm_mcombine; [exact eqdec_ckey | assumption | apply HC'].
  - apply wfm_mcombine; [exact eqdec_cskey | assumption | apply HCS'].
  - apply NoDup_mcombine; [exact eqdec_key | assumption].
Qed.

Lemma wf_fl_state s : wf_state s -> wf_state (fl_state s).
Proof.
  intros (HE & HES & HC & HCS & HI).
  unfold wf_state, fl_state; cbn [sE sES sC sCS sI].
  refine (conj _ (conj _ (conj _ (conj _ _)))); try assumption.
  - now apply wfm_map_val.
  - now apply wfm_map_val.
  - rewrite map_map. cbn [fst]. assumption.
Qed.

(* [step] with the disk round trip replaced by its effect *)
Definition step' (s : state) (b : batch) : state :=
  let s0 := if b_restart b then fl_state s else s in
  match b_recs b with
  | [] => s0
  | _ =>
      let s1 := if b_conv b then rekey_state (b_rkE b) (b_rkC b) s0 else s0 in
      combine_state s1 (extract (b_nxE b) (b_nxC b) (accepted (b_recs b)))
  end.

Lemma step_step' s b : wf_state s -> step s b = step' s b.
Proof.
  intros H. unfold step, step'. destruct (b_restart b); [|reflexivity].
  now rewrite restore_persist.
Qed.

Lemma wf_step' s b : wf_state s -> recs_ok (b_recs b) -> wf_state (step' s b).
Proof.
  intros H Hr. unfold step'.
  assert (H0 : wf_state (if b_restart b then fl_state s else s)).
  { destruct (b_restart b); [now apply wf_fl_state | assumption]. }
  destruct (b_recs b) as [|r rs] eqn:E; [assumption|].
  apply wf_combine_state.
  - destruct (b_conv b); [now apply wf_rekey_state | assumption].
  - apply wf_extract. now apply recs_ok_accepted.
Qed.


Lemma wf_run_from bs : forall s,
  wf_state s -> batches_ok bs -> wf_state (run_from s bs).
Proof.
  unfold run_from.
  induction bs as [|b bs IH]; intros s H Hb; cbn; [assumption|].
  inversion Hb; subst. apply IH; [|assumption].
  rewrite step_step' by assumption. now apply wf_step'.
Qed.


(* two association lists give the same combined value on every set of keys *)
Definition seq {K V : Type} (op : V -> V -> V) (m L : list (K * V)) : Prop :=
  forall p, psum op p m = psum op p L.

Section Seq.
  Context {K V : Type}.
  Variable keqb : K -> K -> bool.
  Variable op : V -> V -> V.
  Hypothesis keq : eqdec keqb.
  Hypothesis op_comm : forall a b, op a b = op b a.
  Hypothesis op_assoc : forall a b c, op a (op b c) = op (op a b) c.

  Lemma seq_map_val (g : V -> V) (m L : list (K * V)) :
    (forall a b, g (op a b) = op (g a) (g b)) -> seq op m L ->
    seq op (map (fun e => (fst e, g (snd e))) m) (map (fun e => (fst e, g (snd e))) L).
  Proof. intros Hg H p. rewrite !psum_map_val by assumption. now rewrite H. Qed.

  Lemma seq_rekey (f : K -> K) (m L : list (K * V)) :
    seq op m L -> seq op (rekey keqb op f m) (map (fun e => (f (fst e), snd e)) L).
  Proof.
    intros H p. rewrite psum_rekey by assumption. rewrite psum_map_key. apply H.
  Qed.

  Lemma seq_combine (m L c : list (K * V)) :
    seq op m L -> seq op (mcombine keqb op m (of_list keqb op c)) (L ++ c).
  Proof.
    intros H p. rewrite psum_mcombine, psum_of_list by assumption.
    rewrite psum_app by assumption. now rewrite H.
  Qed.
End Seq.

Definition sem (s : state) (L : list lrec) : Prop :=
  seq acomb (sE s) (map viewE L) /\ seq Z.add (sES s) (map viewES L) /\
  seq acomb (sC s) (map viewC L) /\ seq Z.add (sCS s) (map viewCS L) /\
  seq Z.max (sI s) (map viewI L).

Lemma sem_empty : sem empty_state [].
Proof. unfold sem, seq; cbn. repeat split. Qed.

Lemma sem_fl s L : sem s L -> sem (fl_state s) (map floor_l L).
Proof.
  intros (HE & HES & HC & HCS & HI).
  unfold sem, fl_state; cbn [sE sES sC sCS sI].
  refine (conj _ (conj _ (conj _ (conj _ _)))).
  - rewrite map_map.
    replace (map (fun x => viewE (floor_l x)) L)
      with (map (fun e => (fst e, fl (snd e))) (map viewE L)) by now rewrite map_map.
    apply seq_map_val; [exact fl_acomb | assumption].
  - rewrite map_map. exact HES.
  - rewrite map_map.
    replace (map (fun x => viewC (floor_l x)) L)
      with (map (fun e => (fst e, fl (snd e))) (map viewC L)) by now rewrite map_map.
    apply seq_map_val; [exact fl_acomb | assumption].
  - rewrite map_map. exact HCS.
  - rewrite map_map.
    replace (map (fun x => viewI (floor_l x)) L)
      with (map (fun e => (fst e, floor_s (snd e))) (map viewI L)) by now rewrite map_map.
    apply seq_map_val; [exact floor_s_max | assumption].
Qed.

Lemma sem_rekey rkE rkC s L :
  sem s L -> sem (rekey_state rkE rkC s) (map (relabel rkE rkC) L).
Proof.
  intros (HE & HES & HC & HCS & HI).
  unfold sem, rekey_state; cbn [sE sES sC sCS sI].
  refine (conj _ (conj _ (conj _ (conj _ _)))).
  - rewrite map_map.
    replace (map (fun x => viewE (relabel rkE rkC x)) L)
      with (map (fun e => (on_url rkE (fst e), snd e)) (map viewE L)) by now rewrite map_map.
    apply seq_rekey; [exact eqdec_key | exact acomb_comm | exact acomb_assoc | assumption].
  - rewrite map_map.
    replace (map (fun x => viewES (relabel rkE rkC x)) L)
      with (map (fun e => ((on_url rkE (fst (fst e)), snd (fst e)), snd e)) (map viewES L))
      by now rewrite map_map.
    apply (seq_rekey skey_eqb Z.add eqdec_skey Z.add_comm Zadd_assoc'
             (fun ks => (on_url rkE (fst ks), snd ks))). assumption.
  - rewrite map_map.
    replace (map (fun x => viewC (relabel rkE rkC x)) L)
      with (map (fun e => ((fst (fst e), on_url rkC (snd (fst e))), snd e)) (map viewC L))
      by now rewrite map_map.
    apply (seq_rekey ckey_eqb acomb eqdec_ckey acomb_comm acomb_assoc
             (fun ck => (fst ck, on_url rkC (snd ck)))). assumption.
  - rewrite map_map.
    replace (map (fun x => viewCS (relabel rkE rkC x)) L)
      with (map (fun e => (((fst (fst (fst e)), on_url rkC (snd (fst (fst e)))), snd (fst e)), snd e))
                (map viewCS L)) by now rewrite map_map.
    apply (seq_rekey cskey_eqb Z.add eqdec_cskey Z.add_comm Zadd_assoc'
             (fun cks => ((fst (fst cks), on_url rkC (snd (fst cks))), snd cks))). assumption.
  - rewrite map_map. exact HI.
Qed.

Lemma sem_combine_extract nxE nxC rs s L :
  sem s L ->
  sem (combine_state s (extract nxE nxC rs)) (L ++ map (fresh nxE nxC) rs).
Proof.
  intros (HE & HES & HC & HCS & HI).
  unfold sem, combine_state, extract; cbn [sE sES sC sCS sI].
  rewrite !map_app, !map_map.
  refine (conj _ (conj _ (conj _ (conj _ _)))).
  - apply (seq_combine key_eqb acomb eqdec_key acomb_comm acomb_assoc); assumption.
  - apply (seq_combine skey_eqb Z.add eqdec_skey Z.add_comm Zadd_assoc'); assumption.
  - apply (seq_combine ckey_eqb acomb eqdec_ckey acomb_comm acomb_assoc); assumption.
  - apply (seq_combine cskey_eqb Z.add eqdec_cskey Z.add_comm Zadd_assoc'); assumption.
  - apply (seq_combine key_eqb Z.max eqdec_key Z.max_comm Zmax_assoc'); assumption.
Qed.

Lemma sem_step' s L b : sem s L -> sem (step' s b) (lstep L b).
Proof.
  intros H. unfold step', lstep.
  assert (H0 : sem (if b_restart b then fl_state s else s)
                   (if b_restart b then map floor_l L else L)).
  { destruct (b_restart b); [now apply sem_fl | assumption]. }
  destruct (b_recs b) as [|r rs]; [assumption|].
  apply sem_combine_extract.
  destruct (b_conv b); [now apply sem_rekey | assumption].
Qed.

(* the pipeline refines the ledger *)
Lemma refinement_from bs : forall s L,
  wf_state s -> batches_ok bs -> sem s L ->
  sem (run_from s bs) (ledger_from L bs).
Proof.
  unfold run_from, ledger_from.
  induction bs as [|b bs IH]; intros s L W Hb H; cbn; [assumption|].
  inversion Hb; subst.
  rewrite step_step' by assumption.
  apply IH; [now apply wf_step' | assumption | now apply sem_step'].
Qed.

Lemma refinement bs : batches_ok bs -> sem (run bs) (ledger bs).
Proof.
  intros H. apply refinement_from; [exact wf_empty | assumption | exact sem_empty].
Qed.

Lemma wf_run bs : batches_ok bs -> wf_state (run bs).
Proof. intros H. apply wf_run_from; [exact wf_empty | assumption]. Qed.

(* ---------------------------------------------------------------------- *)
(* Part 6: what the ledger contains *)


Lemma lstep_recs L b : map l_rec (lstep L b) = map l_rec L ++ accepted (b_recs b).
Proof.
  unfold lstep.
  assert (E0 : map l_rec (if b_restart b then map floor_l L else L) = map l_rec L).
  { destruct (b_restart b); [|reflexivity]. now rewrite map_map. }
  destruct (b_recs b) as [|r rs] eqn:E.
  - cbn. now rewrite app_nil_r.
  - rewrite map_app, map_map. cbn [l_rec fresh]. rewrite map_id. f_equal.
    destruct (b_conv b); [|assumption]. now rewrite map_map.
Qed.

Lemma ledger_from_recs bs : forall L,
  map l_rec (ledger_from L bs) = map l_rec L ++ all_accepted bs.
Proof.
  unfold ledger_from, all_accepted.
  induction bs as [|b bs IH]; intros L; cbn; [now rewrite app_nil_r|].
  now rewrite IH, lstep_recs, <- app_assoc.
Qed.

(* the ledger holds exactly the accepted records, in order *)
Lemma ledger_recs bs : map l_rec (ledger bs) = all_accepted bs.
Proof. unfold ledger. now rewrite ledger_from_recs. Qed.


Lemma lok_fresh nxE nxC r : lok (fresh nxE nxC r).
Proof. unfold lok; cbn. pose proof (floor_s_le (r_ts r)). repeat split; lia. Qed.

Lemma lok_relabel rkE rkC l : lok l -> lok (relabel rkE rkC l).
Proof. unfold lok; cbn. tauto. Qed.

Lemma lok_floor l : lok l -> lok (floor_l l).
Proof.
  unfold lok; cbn. intros ([H1 H2] & H). split; [|exact H].
  split.
  - rewrite <- (floor_s_idem (r_ts (l_rec l))). now apply floor_s_mono.
  - pose proof (floor_s_le (l_ts l)). lia.
Qed.

Lemma Forall_map_in {A B : Type} (P : B -> Prop) (f : A -> B) (l : list A) :
  (forall a, In a l -> P (f a)) -> Forall P (map f l).
Proof.
  intros H. rewrite Forall_forall. intros b Hb.
  apply in_map_iff in Hb. destruct Hb as [a [<- Ha]]. now apply H.
Qed.

Lemma lok_lstep L b : Forall lok L -> Forall lok (lstep L b).
Proof.
  intros H. unfold lstep.
  assert (H0 : Forall lok (if b_restart b then map floor_l L else L)).
  { destruct (b_restart b); [|assumption].
    apply Forall_map_in. rewrite Forall_forall in H. intros a Ha. now apply lok_floor, H. }
  destruct (b_recs b) as [|r rs]; [assumption|].
  apply Forall_app. split.
  - destruct (b_conv b); [|assumption].
    apply Forall_map_in. rewrite Forall_forall in H0. intros a Ha. now apply lok_relabel, H0.
  - apply Forall_map_in. intros a _. apply lok_fresh.
Qed.

Lemma lok_ledger_from bs : forall L, Forall lok L -> Forall lok (ledger_from L bs).
Proof.
  unfold ledger_from. induction bs as [|b bs IH]; intros L H; cbn; [assumption|].
  now apply IH, lok_lstep.
Qed.

Lemma lok_ledger bs : Forall lok (ledger bs).
Proof. apply lok_ledger_from. constructor. Qed.


Lemma lexact_ledger_from bs : forall L,
  no_restart bs -> Forall lexact L -> Forall lexact (ledger_from L bs).
Proof.
  unfold ledger_from. induction bs as [|b bs IH]; intros L N H; cbn; [assumption|].
  inversion N as [|? ? Nb Nbs]; subst. apply IH; [assumption|].
  unfold lstep. rewrite Nb.
  destruct (b_recs b) as [|r rs]; [assumption|].
  apply Forall_app. split.
  - destruct (b_conv b); [|assumption].
    apply Forall_map_in. rewrite Forall_forall in H. intros a Ha. exact (H a Ha).
  - apply Forall_map_in. intros a _. reflexivity.
Qed.

Lemma lexact_ledger bs : no_restart bs -> Forall lexact (ledger bs).
Proof. intros N. apply lexact_ledger_from; [assumption | constructor]. Qed.

(* ---------------------------------------------------------------------- *)
(* Part 7: direct summaries of a group of ledger lines *)


Lemma fold_min_swap a b l :
  fold_right Z.min a (b :: l) = Z.min a (fold_right Z.min b l).
Proof. induction l as [|c l IH]; cbn in *; lia. Qed.

Lemma fold_max_swap a b l :
  fold_right Z.max a (b :: l) = Z.max a (fold_right Z.max b l).
Proof. induction l as [|c l IH]; cbn in *; lia. Qed.

Lemma summary_cons x g :
  summary (x :: g) = oplus acomb (Some (single_at (l_ts x) (l_rec x))) (summary g).
Proof.
  destruct g as [|y g].
  - cbn. unfold single_at. f_equal. f_equal; lia.
  - unfold summary at 2. unfold oplus. unfold summary.
    f_equal. unfold acomb, single_at. cbn [a_count a_min a_max a_dsum a_tsum].
    f_equal.
    + cbn [length]. rewrite !Nat2Z.inj_succ. lia.
    + cbn [map]. apply fold_min_swap.
    + cbn [map]. apply fold_max_swap.
Qed.

Lemma psum_summary {K : Type} (view : lrec -> K * sagg) p L :
  (forall l, snd (view l) = single_at (l_ts l) (l_rec l)) ->
  psum acomb p (map view L) = summary (filter (fun l => p (fst (view l))) L).
Proof.
  intros Hv. induction L as [|x L IH]; cbn; [reflexivity|].
  rewrite IH. unfold pick. destruct (p (fst (view x))).
  - rewrite summary_cons, Hv. reflexivity.
  - reflexivity.
Qed.

Lemma ocount_succ n : oplus Z.add (Some 1) (ocount n) = ocount (S n).
Proof.
  destruct n as [|n]; [reflexivity|].
  unfold ocount, oplus. f_equal. rewrite (Nat2Z.inj_succ (S n)). lia.
Qed.

Lemma psum_count {K : Type} (view : lrec -> K * Z) p L :
  (forall l, snd (view l) = 1) ->
  psum Z.add p (map view L) = ocount (length (filter (fun l => p (fst (view l))) L)).
Proof.
  intros Hv. induction L as [|x L IH]; cbn; [reflexivity|].
  rewrite IH. unfold pick. destruct (p (fst (view x))).
  - rewrite Hv. cbn [length]. apply ocount_succ.
  - reflexivity.
Qed.

Lemma omax_cons x l : omax (x :: l) = oplus Z.max (Some x) (omax l).
Proof.
  destruct l as [|y l]; [reflexivity|].
  unfold omax, oplus. f_equal. apply fold_max_swap.
Qed.

Lemma psum_omax p L :
  psum Z.max p (map viewI L)
  = omax (map l_ts (filter (fun l => p (icpt_key (l_rec l))) L)).
Proof.
  induction L as [|x L IH]; cbn; [reflexivity|].
  rewrite IH. unfold pick. cbn. destruct (p (icpt_key (l_rec x))).
  - cbn [map]. now rewrite omax_cons.
  - reflexivity.
Qed.

(* the minimum / maximum of a group are attained and are bounds *)
Lemma fold_min_spec a l :
  (fold_right Z.min a l <= a /\ Forall (fun x => fold_right Z.min a l <= x) l) /\
  (fold_right Z.min a l = a \/ In (fold_right Z.min a l) l).
Proof.
  induction l as [|b l [[IH1 IH2] IH3]]; cbn.
  - split; [split; [lia | constructor] | now left].
  - split; [split|].
    + lia.
    + constructor; [lia|]. eapply Forall_impl; [|exact IH2]. cbn. intros; lia.
    + destruct (Z.min_spec b (fold_right Z.min a l)) as [[_ E] | [_ E]]; rewrite E.
      * right. now left.
      * destruct IH3; [now left | right; now right].
Qed.

Lemma fold_max_spec a l :
  (a <= fold_right Z.max a l /\ Forall (fun x => x <= fold_right Z.max a l) l) /\
  (fold_right Z.max a l = a \/ In (fold_right Z.max a l) l).
Proof.
  induction l as [|b l [[IH1 IH2] IH3]]; cbn.
  - split; [split; [lia | constructor] | now left].
  - split; [split|].
    + lia.
    + constructor; [lia|]. eapply Forall_impl; [|exact IH2]. cbn. intros; lia.
    + destruct (Z.max_spec b (fold_right Z.max a l)) as [[_ E] | [_ E]]; rewrite E.
      * destruct IH3; [now left | right; now right].
      * right. now left.
Qed.

Lemma summary_extremes g a :
  summary g = Some a ->
  (forall l, In l g -> a_min a <= l_ts l <= a_max a) /\
  (exists l, In l g /\ a_min a = l_ts l) /\
  (exists l, In l g /\ a_max a = l_ts l).
Proof.
  destruct g as [|x t]; [discriminate|]. intros H. inversion H; subst; clear H.
  cbn [a_min a_max].
  destruct (fold_min_spec (l_ts x) (map l_ts t)) as [[m1 m2] m3].
  destruct (fold_max_spec (l_ts x) (map l_ts t)) as [[M1 M2] M3].
  rewrite Forall_forall in m2, M2.
  split; [|split].
  - intros l [<- | Hl]; [lia|].
    assert (In (l_ts l) (map l_ts t)) by now apply in_map.
    split; [now apply m2 | now apply M2].
  - destruct m3 as [E | Hin].
    + exists x. split; [now left | assumption].
    + apply in_map_iff in Hin. destruct Hin as [l [E Hl]].
      exists l. split; [now right | now symmetry].
  - destruct M3 as [E | Hin].
    + exists x. split; [now left | assumption].
    + apply in_map_iff in Hin. destruct Hin as [l [E Hl]].
      exists l. split; [now right | now symmetry].
Qed.

(* ---------------------------------------------------------------------- *)
(* Part 8: every entry of the final state, read off the ledger *)

Section Final.
  Variable bs : list batch.
  Hypothesis Hok : batches_ok bs.

  Let s := run bs.
  Let L := ledger bs.

  Lemma final_E k :
    mfind key_eqb k (sE s) = summary (filter (fun l => key_eqb (l_ekey l) k) L).
  Proof.
    destruct (wf_run bs Hok) as ([ND _] & _).
    destruct (refinement bs Hok) as (HE & _).
    rewrite (mfind_psum key_eqb acomb eqdec_key) by exact ND.
    rewrite HE. now rewrite (psum_summary viewE).
  Qed.

  Lemma final_ES k st :
    mfind skey_eqb (k, st) (sES s)
    = ocount (length (filter (fun l => key_eqb (l_ekey l) k && (r_status (l_rec l) =? st)) L)).
  Proof.
    destruct (wf_run bs Hok) as (_ & [ND _] & _).
    destruct (refinement bs Hok) as (_ & HES & _).
    rewrite (mfind_psum skey_eqb Z.add eqdec_skey) by exact ND.
    rewrite HES. now rewrite (psum_count viewES).
  Qed.

  Lemma final_C ck :
    mfind ckey_eqb ck (sC s) = summary (filter (fun l => ckey_eqb (l_ckey l) ck) L).
  Proof.
    destruct (wf_run bs Hok) as (_ & _ & [ND _] & _).
    destruct (refinement bs Hok) as (_ & _ & HC & _).
    rewrite (mfind_psum ckey_eqb acomb eqdec_ckey) by exact ND.
    rewrite HC. now rewrite (psum_summary viewC).
  Qed.

  Lemma final_CS ck st :
    mfind cskey_eqb (ck, st) (sCS s)
    = ocount (length (filter (fun l => ckey_eqb (l_ckey l) ck && (r_status (l_rec l) =? st)) L)).
  Proof.
    destruct (wf_run bs Hok) as (_ & _ & _ & [ND _] & _).
    destruct (refinement bs Hok) as (_ & _ & _ & HCS & _).
    rewrite (mfind_psum cskey_eqb Z.add eqdec_cskey) by exact ND.
    rewrite HCS. now rewrite (psum_count viewCS).
  Qed.

  Lemma final_I i :
    mfind key_eqb i (sI s)
    = omax (map l_ts (filter (fun l => key_eqb (icpt_key (l_rec l)) i) L)).
  Proof.
    destruct (wf_run bs Hok) as (_ & _ & _ & _ & ND).
    destruct (refinement bs Hok) as (_ & _ & _ & _ & HI).
    rewrite (mfind_psum key_eqb Z.max eqdec_key) by exact ND.
    rewrite HI. now rewrite psum_omax.
  Qed.
End Final.

(* ---------------------------------------------------------------------- *)
(* Part 9: totals *)


Lemma count_where_psum {K : Type} (p : K -> bool) m :
  count_where p m = cnt_of (psum acomb p m).
Proof.
  unfold count_where. induction m as [|e m IH]; [reflexivity|].
  cbn [fold_right psum]. rewrite IH. unfold pick.
  destruct (p (fst e)), (psum acomb p m); cbn; lia.
Qed.

Lemma dsum_where_psum {K : Type} (p : K -> bool) m :
  dsum_where p m = dsum_of (psum acomb p m).
Proof.
  unfold dsum_where. induction m as [|e m IH]; [reflexivity|].
  cbn [fold_right psum]. rewrite IH. unfold pick.
  destruct (p (fst e)), (psum acomb p m); cbn; lia.
Qed.

Lemma tsum_where_psum {K : Type} (p : K -> bool) m :
  tsum_where p m = tsum_of (psum acomb p m).
Proof.
  unfold tsum_where. induction m as [|e m IH]; [reflexivity|].
  cbn [fold_right psum]. rewrite IH. unfold pick.
  destruct (p (fst e)), (psum acomb p m); cbn; lia.
Qed.

Lemma sum_where_psum {K : Type} (p : K -> bool) (m : list (K * Z)) :
  sum_where p m = zof (psum Z.add p m).
Proof.
  unfold sum_where. induction m as [|e m IH]; [reflexivity|].
  cbn [fold_right psum]. rewrite IH. unfold pick.
  destruct (p (fst e)), (psum Z.add p m); cbn; lia.
Qed.

Lemma cnt_summary g : cnt_of (summary g) = Z.of_nat (length g).
Proof. now destruct g. Qed.
Lemma dsum_summary g :
  dsum_of (summary g) = fold_right Z.add 0 (map (fun l => r_dur (l_rec l)) g).
Proof. now destruct g. Qed.
Lemma tsum_summary g :
  tsum_of (summary g) = fold_right Z.add 0 (map (fun l => r_tdur (l_rec l)) g).
Proof. now destruct g. Qed.
Lemma zof_ocount n : zof (ocount n) = Z.of_nat n.
Proof. now destruct n. Qed.

Lemma filter_map_comm {A B : Type} (f : A -> B) (q : B -> bool) (l : list A) :
  filter q (map f l) = map f (filter (fun a => q (f a)) l).
Proof.
  induction l as [|a l IH]; cbn; [reflexivity|].
  destruct (q (f a)); cbn; now rewrite IH.
Qed.

Lemma filter_everywhere {A : Type} (l : list A) : filter (fun _ => true) l = l.
Proof. induction l as [|a l IH]; cbn; [reflexivity | now rewrite IH]. Qed.

Lemma filter_ext_in' {A : Type} (f g : A -> bool) (l : list A) :
  (forall a, In a l -> f a = g a) -> filter f l = filter g l.
Proof.
  induction l as [|a l IH]; intros H; cbn; [reflexivity|].
  rewrite (H a) by now left. rewrite IH by (intros x Hx; apply H; now right). reflexivity.
Qed.

Section Totals.
  Variable bs : list batch.
  Hypothesis Hok : batches_ok bs.

  Let s := run bs.
  Let L := ledger bs.


  Lemma nrec_ledger q : nrec bs q = Z.of_nat (length (filter (fun l => q (l_rec l)) L)).
  Proof.
    unfold nrec. rewrite <- (ledger_recs bs). fold L.
    now rewrite filter_map_comm, map_length.
  Qed.

  Lemma total_E p :
    count_where p (sE s) = Z.of_nat (length (filter (fun l => p (l_ekey l)) L)).
  Proof.
    destruct (refinement bs Hok) as (HE & _).
    rewrite count_where_psum, HE, (psum_summary viewE) by reflexivity. apply cnt_summary.
  Qed.

  Lemma total_C p :
    count_where p (sC s) = Z.of_nat (length (filter (fun l => p (l_ckey l)) L)).
  Proof.
    destruct (refinement bs Hok) as (_ & _ & HC & _).
    rewrite count_where_psum, HC, (psum_summary viewC) by reflexivity. apply cnt_summary.
  Qed.

  Lemma total_ES p :
    sum_where p (sES s)
    = Z.of_nat (length (filter (fun l => p (l_ekey l, r_status (l_rec l))) L)).
  Proof.
    destruct (refinement bs Hok) as (_ & HES & _).
    rewrite sum_where_psum, HES, (psum_count viewES) by reflexivity. apply zof_ocount.
  Qed.

  Lemma total_CS p :
    sum_where p (sCS s)
    = Z.of_nat (length (filter (fun l => p (l_ckey l, r_status (l_rec l))) L)).
  Proof.
    destruct (refinement bs Hok) as (_ & _ & _ & HCS & _).
    rewrite sum_where_psum, HCS, (psum_count viewCS) by reflexivity. apply zof_ocount.
  Qed.

  (* the sum of all request counts is the number of non-internal records *)
  Lemma conservation_count : count_where everywhere (sE s) = nrec bs everywhere.
  Proof. rewrite total_E, nrec_ledger. reflexivity. Qed.

  Lemma conservation_count_C : count_where everywhere (sC s) = nrec bs everywhere.
  Proof. rewrite total_C, nrec_ledger. reflexivity. Qed.

  (* ... per method *)
  Lemma conservation_method m :
    count_where (fun k => str_eqb (fst k) m) (sE s) = nrec bs (fun r => str_eqb (r_method r) m).
  Proof.
    rewrite total_E, nrec_ledger. do 2 f_equal. apply filter_ext_in'.
    intros l Hl. pose proof (lok_ledger bs) as H. rewrite Forall_forall in H.
    destruct (H l Hl) as (_ & E & _). now rewrite E.
  Qed.

  (* ... per consumer tag *)
  Lemma conservation_tag t :
    count_where (fun ck => str_eqb (fst ck) t) (sC s) = nrec bs (fun r => str_eqb (cons_tag r) t).
  Proof.
    rewrite total_C, nrec_ledger. do 2 f_equal. apply filter_ext_in'.
    intros l Hl. pose proof (lok_ledger bs) as H. rewrite Forall_forall in H.
    destruct (H l Hl) as (_ & _ & E & _). now rewrite E.
  Qed.

  (* per endpoint: request count = sum of its status-code counts *)
  Lemma count_is_status_sum k :
    cnt_of (mfind key_eqb k (sE s))
    = sum_where (fun ks => key_eqb (fst ks) k) (sES s).
  Proof.
    unfold s. rewrite (final_E bs Hok), cnt_summary. fold s. rewrite total_ES. reflexivity.
  Qed.

  Lemma count_is_status_sum_C ck :
    cnt_of (mfind ckey_eqb ck (sC s))
    = sum_where (fun cks => ckey_eqb (fst cks) ck) (sCS s).
  Proof.
    unfold s. rewrite (final_C bs Hok), cnt_summary. fold s. rewrite total_CS. reflexivity.
  Qed.

  (* per status code: the counts over all endpoints add up to the number of
     records with that status *)
  Lemma conservation_status st :
    sum_where (fun ks => snd ks =? st) (sES s) = nrec bs (fun r => r_status r =? st).
  Proof. rewrite total_ES, nrec_ledger. reflexivity. Qed.

  Lemma conservation_status_C st :
    sum_where (fun cks => snd cks =? st) (sCS s) = nrec bs (fun r => r_status r =? st).
  Proof. rewrite total_CS, nrec_ledger. reflexivity. Qed.

  (* durations: the sums are exact, so mean = sum / count is the true mean *)
  Lemma conservation_durations :
    dsum_where everywhere (sE s) = fold_right Z.add 0 (map r_dur (all_accepted bs)) /\
    tsum_where everywhere (sE s) = fold_right Z.add 0 (map r_tdur (all_accepted bs)).
  Proof.
    destruct (refinement bs Hok) as (HE & _).
    rewrite dsum_where_psum, tsum_where_psum, !HE, !(psum_summary viewE) by reflexivity.
    cbn [fst viewE everywhere]. rewrite filter_everywhere.
    rewrite dsum_summary, tsum_summary. rewrite <- (ledger_recs bs), !map_map. split; reflexivity.
  Qed.

  Lemma agg_total_E : agg_total (sE s) = summary L.
  Proof.
    destruct (refinement bs Hok) as (HE & _).
    unfold agg_total. rewrite HE, (psum_summary viewE) by reflexivity.
    cbn [everywhere]. now rewrite filter_everywhere.
  Qed.
End Totals.

(* extreme timestamps of a group of ledger lines, in terms of the records *)
Lemma group_extremes g a :
  Forall lok g -> summary g = Some a ->
  (forall l, In l g -> a_min a <= r_ts (l_rec l) /\ floor_s (r_ts (l_rec l)) <= a_max a) /\
  (exists l, In l g /\ floor_s (r_ts (l_rec l)) <= a_min a) /\
  (exists l, In l g /\ a_max a <= r_ts (l_rec l)).
Proof.
  intros Hg Hs. rewrite Forall_forall in Hg.
  destruct (summary_extremes g a Hs) as (B & (l1 & I1 & E1) & (l2 & I2 & E2)).
  split; [|split].
  - intros l Hl. destruct (Hg l Hl) as ([? ?] & _). pose proof (B l Hl). lia.
  - exists l1. split; [assumption|]. destruct (Hg l1 I1) as ([? ?] & _). lia.
  - exists l2. split; [assumption|]. destruct (Hg l2 I2) as ([? ?] & _). lia.
Qed.

Lemma group_extremes_exact g a :
  Forall lexact g -> summary g = Some a ->
  (forall l, In l g -> a_min a <= r_ts (l_rec l) <= a_max a) /\
  (exists l, In l g /\ a_min a = r_ts (l_rec l)) /\
  (exists l, In l g /\ a_max a = r_ts (l_rec l)).
Proof.
  intros Hg Hs. rewrite Forall_forall in Hg.
  destruct (summary_extremes g a Hs) as (B & (l1 & I1 & E1) & (l2 & I2 & E2)).
  split; [|split].
  - intros l Hl. rewrite <- (Hg l Hl). now apply B.
  - exists l1. split; [assumption|]. now rewrite <- (Hg l1 I1).
  - exists l2. split; [assumption|]. now rewrite <- (Hg l2 I2).
Qed.

Lemma Forall_filter {A : Type} (P : A -> Prop) (f : A -> bool) (l : list A) :
  Forall P l -> Forall P (filter f l).
Proof.
  rewrite !Forall_forall. intros H a Ha. apply filter_In in Ha. now apply H.
Qed.

(* ---------------------------------------------------------------------- *)
(* Part 10: equivalence of states, homomorphism, batch invariance *)


Definition nodup_state (s : state) : Prop :=
  NoDup (map fst (sE s)) /\ NoDup (map fst (sES s)) /\ NoDup (map fst (sC s)) /\
  NoDup (map fst (sCS s)) /\ NoDup (map fst (sI s)).

Lemma wf_nodup s : wf_state s -> nodup_state s.
Proof. intros ([? _] & [? _] & [? _] & [? _] & ?). repeat split; assumption. Qed.

Lemma nodup_extract nxE nxC rs : nodup_state (extract nxE nxC rs).
Proof.
  unfold nodup_state, extract; cbn [sE sES sC sCS sI].
  refine (conj _ (conj _ (conj _ (conj _ _)))); apply NoDup_of_list;
    first [exact eqdec_key | exact eqdec_skey | exact eqdec_ckey | exact eqdec_cskey].
Qed.

Lemma nodup_combine a b : nodup_state a -> nodup_state (combine_state a b).
Proof.
  intros (H1 & H2 & H3 & H4 & H5).
  unfold nodup_state, combine_state; cbn [sE sES sC sCS sI].
  refine (conj _ (conj _ (conj _ (conj _ _)))); apply NoDup_mcombine; try assumption;
    first [exact eqdec_key | exact eqdec_skey | exact eqdec_ckey | exact eqdec_cskey].
Qed.

(* two states that refine the same ledger are the same finite maps *)
Lemma sem_equiv s1 s2 L :
  nodup_state s1 -> nodup_state s2 -> sem s1 L -> sem s2 L -> state_equiv s1 s2.
Proof.
  intros (A1 & A2 & A3 & A4 & A5) (B1 & B2 & B3 & B4 & B5)
         (S1 & S2 & S3 & S4 & S5) (T1 & T2 & T3 & T4 & T5).
  unfold state_equiv. refine (conj _ (conj _ (conj _ (conj _ _)))); intros k.
  - rewrite !(mfind_psum key_eqb acomb eqdec_key) by assumption. now rewrite S1, T1.
  - rewrite !(mfind_psum skey_eqb Z.add eqdec_skey) by assumption. now rewrite S2, T2.
  - rewrite !(mfind_psum ckey_eqb acomb eqdec_ckey) by assumption. now rewrite S3, T3.
  - rewrite !(mfind_psum cskey_eqb Z.add eqdec_cskey) by assumption. now rewrite S4, T4.
  - rewrite !(mfind_psum key_eqb Z.max eqdec_key) by assumption. now rewrite S5, T5.
Qed.

Lemma sem_extract nxE nxC rs : sem (extract nxE nxC rs) (map (fresh nxE nxC) rs).
Proof.
  unfold sem, extract, seq; cbn [sE sES sC sCS sI]. rewrite !map_map.
  refine (conj _ (conj _ (conj _ (conj _ _)))); intros p.
  - now rewrite (psum_of_list key_eqb acomb eqdec_key acomb_comm acomb_assoc).
  - now rewrite (psum_of_list skey_eqb Z.add eqdec_skey Z.add_comm Zadd_assoc').
  - now rewrite (psum_of_list ckey_eqb acomb eqdec_ckey acomb_comm acomb_assoc).
  - now rewrite (psum_of_list cskey_eqb Z.add eqdec_cskey Z.add_comm Zadd_assoc').
  - now rewrite (psum_of_list key_eqb Z.max eqdec_key Z.max_comm Zmax_assoc').
Qed.

(* extraction is a homomorphism from concatenation to Combine *)
Lemma homomorphism nxE nxC xs ys :
  state_equiv (extract nxE nxC (xs ++ ys))
              (combine_state (extract nxE nxC xs) (extract nxE nxC ys)).
Proof.
  apply (sem_equiv _ _ (map (fresh nxE nxC) (xs ++ ys))).
  - apply nodup_extract.
  - apply nodup_combine, nodup_extract.
  - apply sem_extract.
  - rewrite map_app. apply sem_combine_extract, sem_extract.
Qed.

(* ---- ledgers that agree on everything but the clock ---- *)


Lemma strip_exact L1 : forall L2,
  map strip L1 = map strip L2 -> Forall lexact L1 -> Forall lexact L2 -> L1 = L2.
Proof.
  induction L1 as [|x L1 IH]; intros [|y L2] E H1 H2; try discriminate; [reflexivity|].
  cbn [map] in E. injection E as Er Ee Ec EL.
  inversion H1 as [|? ? Hx H1']; inversion H2 as [|? ? Hy H2']; subst.
  f_equal; [|now apply IH].
  unfold lexact in Hx, Hy.
  destruct x, y; cbn in *. subst. reflexivity.
Qed.

Lemma floor_of_lok l : lok l -> floor_s (l_ts l) = floor_s (r_ts (l_rec l)).
Proof.
  intros ([H1 H2] & _).
  pose proof (floor_s_mono _ _ H1) as A. pose proof (floor_s_mono _ _ H2) as B.
  rewrite floor_s_idem in A. lia.
Qed.

Lemma strip_floor L1 : forall L2,
  map strip L1 = map strip L2 -> Forall lok L1 -> Forall lok L2 ->
  map floor_l L1 = map floor_l L2.
Proof.
  induction L1 as [|x L1 IH]; intros [|y L2] E H1 H2; try discriminate; [reflexivity|].
  cbn [map] in E. injection E as Er Ee Ec EL.
  inversion H1 as [|? ? Hx H1']; inversion H2 as [|? ? Hy H2']; subst.
  cbn [map]. f_equal; [|now apply IH].
  unfold floor_l. rewrite (floor_of_lok x Hx), (floor_of_lok y Hy).
  now rewrite Er, Ee, Ec.
Qed.

Lemma option_map_oplus_fl x y :
  option_map fl (oplus acomb x y) = oplus acomb (option_map fl x) (option_map fl y).
Proof. destruct x, y; cbn; try reflexivity. now rewrite fl_acomb. Qed.

Lemma fl_summary g : option_map fl (summary g) = summary (map floor_l g).
Proof.
  induction g as [|x g IH]; [reflexivity|].
  cbn [map]. rewrite !summary_cons, option_map_oplus_fl, IH. reflexivity.
Qed.

Lemma floor_omax l : option_map floor_s (omax l) = omax (map floor_s l).
Proof.
  induction l as [|x l IH]; [reflexivity|].
  cbn [map]. rewrite !omax_cons, <- IH.
  destruct (omax l); cbn; [|reflexivity]. now rewrite floor_s_max.
Qed.

Lemma filter_strip_length (q : rec * key * (str * key) -> bool) L1 L2 :
  map strip L1 = map strip L2 ->
  length (filter (fun l => q (strip l)) L1) = length (filter (fun l => q (strip l)) L2).
Proof.
  intros E.
  rewrite <- (map_length strip (filter _ L1)), <- (map_length strip (filter _ L2)).
  rewrite <- !filter_map_comm. now rewrite E.
Qed.

(* Batch invariance outside the finding: two runs whose ledgers file every
   record under the same keys end in the same state up to the on-disk time
   resolution, and in the very same state when neither restarted. *)
Lemma invariance bs1 bs2 :
  batches_ok bs1 -> batches_ok bs2 ->
  map strip (ledger bs1) = map strip (ledger bs2) ->
  state_equiv_fl (run bs1) (run bs2) /\
  (no_restart bs1 -> no_restart bs2 -> state_equiv (run bs1) (run bs2)).
Proof.
  intros H1 H2 E. split.
  - pose proof (strip_floor _ _ E (lok_ledger bs1) (lok_ledger bs2)) as EF.
    unfold state_equiv_fl. refine (conj _ (conj _ (conj _ (conj _ _)))); intros k.
    + rewrite (final_E bs1 H1), (final_E bs2 H2), !fl_summary.
      rewrite <- !(filter_map_comm floor_l (fun l => key_eqb (l_ekey l) k)). now rewrite EF.
    + destruct k as [k st]. rewrite (final_ES bs1 H1), (final_ES bs2 H2). f_equal.
      apply (filter_strip_length
               (fun t => key_eqb (snd (fst t)) k && (r_status (fst (fst t)) =? st))). exact E.
    + rewrite (final_C bs1 H1), (final_C bs2 H2), !fl_summary.
      rewrite <- !(filter_map_comm floor_l (fun l => ckey_eqb (l_ckey l) k)). now rewrite EF.
    + destruct k as [k st]. rewrite (final_CS bs1 H1), (final_CS bs2 H2). f_equal.
      apply (filter_strip_length
               (fun t => ckey_eqb (snd t) k && (r_status (fst (fst t)) =? st))). exact E.
    + rewrite (final_I bs1 H1), (final_I bs2 H2), !floor_omax.
      assert (M : forall L, map floor_s (map l_ts (filter (fun l => key_eqb (icpt_key (l_rec l)) k) L))
                  = map l_ts (filter (fun l => key_eqb (icpt_key (l_rec l)) k) (map floor_l L))).
      { intros L. rewrite (filter_map_comm floor_l (fun l => key_eqb (icpt_key (l_rec l)) k)).
        now rewrite !map_map. }
      rewrite !M. now rewrite EF.
  - intros N1 N2.
    pose proof (strip_exact _ _ E (lexact_ledger bs1 N1) (lexact_ledger bs2 N2)) as EL.
    apply (sem_equiv _ _ (ledger bs1)).
    + apply wf_nodup, wf_run; assumption.
    + apply wf_nodup, wf_run; assumption.
    + now apply refinement.
    + rewrite EL. now apply refinement.
Qed.

(* a normaliser that never changes: the batching is irrelevant, the result is
   the one-shot extraction of the whole stream *)
Lemma ledger_fixed f g bs : forall L,
  Forall (fun b => b_restart b = false /\ b_conv b = false /\
                   (forall u, b_nxE b u = f u) /\ (forall u, b_nxC b u = g u)) bs ->
  ledger_from L bs = L ++ map (fresh f g) (all_accepted bs).
Proof.
  unfold ledger_from, all_accepted.
  induction bs as [|b bs IH]; intros L H; cbn; [now rewrite app_nil_r|].
  inversion H as [|? ? (Hr & Hc & HE & HC) Hbs]; subst.
  rewrite IH by assumption. unfold lstep. rewrite Hr, Hc.
  assert (M : map (fresh (b_nxE b) (b_nxC b)) (accepted (b_recs b))
              = map (fresh f g) (accepted (b_recs b))).
  { apply map_ext. intros r. unfold fresh, ep. now rewrite HE, HC. }
  destruct (b_recs b) as [|r rs] eqn:Eb.
  - reflexivity.
  - rewrite M, map_app, app_assoc. reflexivity.
Qed.

Lemma invariance_fixed f g bs :
  batches_ok bs ->
  Forall (fun b => b_restart b = false /\ b_conv b = false /\
                   (forall u, b_nxE b u = f u) /\ (forall u, b_nxC b u = g u)) bs ->
  state_equiv (run bs) (extract f g (all_accepted bs)).
Proof.
  intros Hok H.
  apply (sem_equiv _ _ (ledger bs)).
  - now apply wf_nodup, wf_run.
  - apply nodup_extract.
  - now apply refinement.
  - unfold ledger. rewrite (ledger_fixed f g bs []) by assumption. apply sem_extract.
Qed.

(* ---------------------------------------------------------------------- *)
(* Part 11: what re-keying and the disk round trip preserve, stated on their own *)

Lemma rekey_state_preserves rkE rkC s :
  (* every new entry is the Combine of the old entries sent to its key *)
  (forall k', mfind key_eqb k' (sE (rekey_state rkE rkC s))
              = psum acomb (fun k => key_eqb (on_url rkE k) k') (sE s)) /\
  (* totals *)
  agg_total (sE (rekey_state rkE rkC s)) = agg_total (sE s) /\
  agg_total (sC (rekey_state rkE rkC s)) = agg_total (sC s) /\
  (forall st, sum_where (fun ks => snd ks =? st) (sES (rekey_state rkE rkC s))
              = sum_where (fun ks => snd ks =? st) (sES s)) /\
  (forall st, sum_where (fun ks => snd ks =? st) (sCS (rekey_state rkE rkC s))
              = sum_where (fun ks => snd ks =? st) (sCS s)) /\
  (* per method and per consumer tag *)
  (forall m, count_where (fun k => str_eqb (fst k) m) (sE (rekey_state rkE rkC s))
             = count_where (fun k => str_eqb (fst k) m) (sE s)) /\
  (forall t, count_where (fun ck => str_eqb (fst ck) t) (sC (rekey_state rkE rkC s))
             = count_where (fun ck => str_eqb (fst ck) t) (sC s)) /\
  sI (rekey_state rkE rkC s) = sI s.
Proof.
  unfold rekey_state; cbn [sE sES sC sCS sI].
  repeat apply conj.
  - intros k'. rewrite (mfind_psum key_eqb acomb eqdec_key) by (apply NoDup_rekey, eqdec_key).
    now rewrite (psum_rekey key_eqb acomb eqdec_key acomb_comm acomb_assoc).
  - unfold agg_total. now rewrite (psum_rekey key_eqb acomb eqdec_key acomb_comm acomb_assoc).
  - unfold agg_total. now rewrite (psum_rekey ckey_eqb acomb eqdec_ckey acomb_comm acomb_assoc).
  - intros st. rewrite !sum_where_psum.
    now rewrite (psum_rekey skey_eqb Z.add eqdec_skey Z.add_comm Zadd_assoc').
  - intros st. rewrite !sum_where_psum.
    now rewrite (psum_rekey cskey_eqb Z.add eqdec_cskey Z.add_comm Zadd_assoc').
  - intros m. rewrite !count_where_psum.
    now rewrite (psum_rekey key_eqb acomb eqdec_key acomb_comm acomb_assoc).
  - intros t. rewrite !count_where_psum.
    now rewrite (psum_rekey ckey_eqb acomb eqdec_ckey acomb_comm acomb_assoc).
  - reflexivity.
Qed.

Lemma fl_state_totals s :
  agg_total (sE (fl_state s)) = option_map fl (agg_total (sE s)) /\
  agg_total (sC (fl_state s)) = option_map fl (agg_total (sC s)) /\
  (forall k, mfind key_eqb k (sE (fl_state s)) = option_map fl (mfind key_eqb k (sE s))) /\
  (forall k, mfind ckey_eqb k (sC (fl_state s)) = option_map fl (mfind ckey_eqb k (sC s))) /\
  (forall k, mfind key_eqb k (sI (fl_state s)) = option_map floor_s (mfind key_eqb k (sI s))) /\
  sES (fl_state s) = sES s /\ sCS (fl_state s) = sCS s.
Proof.
  unfold fl_state; cbn [sE sES sC sCS sI]. unfold agg_total.
  assert (F : forall (K V : Type) (e : K -> K -> bool) (g : V -> V) k (m : list (K * V)),
             mfind e k (map (fun x => (fst x, g (snd x))) m) = option_map g (mfind e k m)).
  { intros K V e g k m. induction m as [|[k' v'] t IH]; cbn; [reflexivity|].
    destruct (e k' k); [reflexivity | exact IH]. }
  repeat apply conj; try reflexivity.
  - apply psum_map_val. exact fl_acomb.
  - apply psum_map_val. exact fl_acomb.
  - intros k. apply F.
  - intros k. apply F.
  - intros k. apply F.
Qed.


Lemma map_id_in {A : Type} (f : A -> A) (l : list A) :
  Forall (fun x => f x = x) l -> map f l = l.
Proof.
  induction l as [|a l IH]; intros H; cbn; [reflexivity|].
  inversion H; subst. now rewrite IH by assumption; f_equal.
Qed.

Lemma fl_state_aligned s : aligned_state s -> fl_state s = s.
Proof.
  intros (HE & HC & HI). unfold fl_state. destruct s as [E ES C CS I]; cbn in *. f_equal.
  - apply map_id_in. eapply Forall_impl; [|exact HE]. intros [k a] [H1 H2]; cbn in *.
    f_equal. unfold fl. rewrite (floor_s_aligned _ H1), (floor_s_aligned _ H2). now destruct a.
  - apply map_id_in. eapply Forall_impl; [|exact HC]. intros [k a] [H1 H2]; cbn in *.
    f_equal. unfold fl. rewrite (floor_s_aligned _ H1), (floor_s_aligned _ H2). now destruct a.
  - apply map_id_in. eapply Forall_impl; [|exact HI]. intros [k t] H; cbn in *.
    now rewrite (floor_s_aligned _ H).
Qed.
