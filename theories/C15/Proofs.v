(* C15 — proofs.  Part 1: algebra of aggregating association maps. *)
From Coq Require Import List ZArith Bool Lia Permutation.
From Verif Require Import C15.Model.
Import ListNotations.
Open Scope Z_scope.

(* ---------------------------------------------------------------------- *)
(* decidable equalities *)

Lemma str_eqb_refl s : str_eqb s s = true.
Proof. induction s as [|x s IH]; cbn; [reflexivity|]. now rewrite Z.eqb_refl, IH. Qed.

Lemma str_eqb_eq a : forall b, str_eqb a b = true -> a = b.
Proof.
  induction a as [|x a IH]; intros [|y b] H; cbn in H; try discriminate; [reflexivity|].
  apply andb_prop in H. destruct H as [H1 H2].
  apply Z.eqb_eq in H1. apply IH in H2. now subst.
Qed.

(* a boolean equality that decides Leibniz equality *)
Definition eqdec {A : Type} (e : A -> A -> bool) : Prop :=
  (forall a, e a a = true) /\ (forall a b, e a b = true -> a = b).

Lemma eqdec_str : eqdec str_eqb.
Proof. split; [exact str_eqb_refl | exact str_eqb_eq]. Qed.

Lemma eqdec_Z : eqdec Z.eqb.
Proof. split; [exact Z.eqb_refl | intros a b H; now apply Z.eqb_eq]. Qed.

Lemma eqdec_pair {A B : Type} (ea : A -> A -> bool) (eb : B -> B -> bool) :
  eqdec ea -> eqdec eb -> eqdec (pair_eqb ea eb).
Proof.
  intros [ra ea'] [rb eb']. split.
  - intros [a b]. unfold pair_eqb; cbn. now rewrite ra, rb.
  - intros [a b] [a' b'] H. unfold pair_eqb in H; cbn in H.
    apply andb_prop in H. destruct H as [H1 H2].
    apply ea' in H1. apply eb' in H2. now subst.
Qed.

Lemma eqdec_key : eqdec key_eqb.
Proof. apply eqdec_pair; apply eqdec_str. Qed.
Lemma eqdec_skey : eqdec skey_eqb.
Proof. apply eqdec_pair; [apply eqdec_key | apply eqdec_Z]. Qed.
Lemma eqdec_ckey : eqdec ckey_eqb.
Proof. apply eqdec_pair; [apply eqdec_str | apply eqdec_key]. Qed.
Lemma eqdec_cskey : eqdec cskey_eqb.
Proof. apply eqdec_pair; [apply eqdec_ckey | apply eqdec_Z]. Qed.
Lemma eqdec_sz : eqdec sz_eqb.
Proof. apply eqdec_pair; [apply eqdec_str | apply eqdec_Z]. Qed.

Lemma eqdec_false {A : Type} (e : A -> A -> bool) : eqdec e ->
  forall a b, e a b = false -> a <> b.
Proof. intros [r _] a b H E. subst. rewrite r in H. discriminate. Qed.

Lemma NoDup_snoc {A : Type} (l : list A) (k : A) :
  NoDup l -> ~ In k l -> NoDup (l ++ [k]).
Proof.
  induction l as [|x l IH]; intros H N; cbn.
  - constructor; [tauto | constructor].
  - inversion H as [|? ? Hx Hl]; subst. constructor.
    + rewrite in_app_iff. cbn. intros [H1 | [H1 | []]]; [tauto|]. subst. apply N. now left.
    + apply IH; [assumption|]. intros H1. apply N. now right.
Qed.

(* ---------------------------------------------------------------------- *)
(* option-lifted semigroup *)

Section Oplus.
  Context {V : Type}.
  Variable op : V -> V -> V.
  Hypothesis op_comm : forall a b, op a b = op b a.
  Hypothesis op_assoc : forall a b c, op a (op b c) = op (op a b) c.

  Definition oplus (x y : option V) : option V :=
    match x, y with
    | Some a, Some b => Some (op a b)
    | Some a, None => Some a
    | None, y => y
    end.

  Lemma oplus_None_r x : oplus x None = x.
  Proof. now destruct x. Qed.
  Lemma oplus_comm x y : oplus x y = oplus y x.
  Proof. destruct x, y; cbn; try reflexivity. now rewrite op_comm. Qed.
  Lemma oplus_assoc x y z : oplus x (oplus y z) = oplus (oplus x y) z.
  Proof. destruct x, y, z; cbn; try reflexivity. now rewrite op_assoc. Qed.
End Oplus.

(* ---------------------------------------------------------------------- *)
(* sums over the entries whose key satisfies a predicate *)

Section Facts.
  Context {K V : Type}.
  Variable keqb : K -> K -> bool.
  Variable op : V -> V -> V.
  Hypothesis keq : eqdec keqb.
  Hypothesis op_comm : forall a b, op a b = op b a.
  Hypothesis op_assoc : forall a b c, op a (op b c) = op (op a b) c.

  Notation "x (+) y" := (oplus op x y) (at level 50, left associativity).

  Definition pick (p : K -> bool) (k : K) (v : V) : option V :=
    if p k then Some v else None.

  (* the combination of all values filed under a key satisfying p *)
  Fixpoint psum (p : K -> bool) (l : list (K * V)) : option V :=
    match l with
    | [] => None
    | e :: t => pick p (fst e) (snd e) (+) psum p t
    end.

  Lemma psum_app p l1 l2 : psum p (l1 ++ l2) = psum p l1 (+) psum p l2.
  Proof.
    induction l1 as [|e l1 IH]; cbn; [reflexivity|].
    rewrite IH. apply oplus_assoc; assumption.
  Qed.

  Lemma psum_ins p k v m :
    psum p (ins keqb op k v m) = psum p m (+) pick p k v.
  Proof.
    induction m as [|[k' v'] t IH]; cbn.
    - now rewrite oplus_None_r.
    - destruct (keqb k' k) eqn:E; cbn.
      + apply (proj2 keq) in E. subst k'. unfold pick. destruct (p k); cbn.
        * destruct (psum p t); cbn; [|reflexivity].
          f_equal. rewrite <- !op_assoc. f_equal. apply op_comm.
        * now rewrite oplus_None_r.
      + rewrite IH. apply oplus_assoc; assumption.
  Qed.

  Lemma psum_ins_all p l : forall m,
    psum p (ins_all keqb op l m) = psum p m (+) psum p l.
  Proof.
    unfold ins_all.
    induction l as [|e l IH]; intros m; cbn.
    - now rewrite oplus_None_r.
    - rewrite IH, psum_ins. symmetry. apply oplus_assoc; assumption.
  Qed.

  Lemma psum_of_list p l : psum p (of_list keqb op l) = psum p l.
  Proof. unfold of_list. now rewrite psum_ins_all. Qed.

  Lemma psum_mcombine p a b :
    psum p (mcombine keqb op a b) = psum p a (+) psum p b.
  Proof. unfold mcombine. apply psum_ins_all. Qed.

  Lemma psum_map_key p (f : K -> K) l :
    psum p (map (fun e => (f (fst e), snd e)) l) = psum (fun k => p (f k)) l.
  Proof. induction l as [|e l IH]; cbn; [reflexivity|]. now rewrite IH. Qed.

  Lemma psum_rekey p f a :
    psum p (rekey keqb op f a) = psum (fun k => p (f k)) a.
  Proof. unfold rekey. now rewrite psum_of_list, psum_map_key. Qed.

  (* a map on values that commutes with the combination *)
  Lemma psum_map_val p (g : V -> V) l :
    (forall a b, g (op a b) = op (g a) (g b)) ->
    psum p (map (fun e => (fst e, g (snd e))) l) = option_map g (psum p l).
  Proof.
    intros Hg. induction l as [|e l IH]; cbn; [reflexivity|].
    rewrite IH. unfold pick. destruct (p (fst e)), (psum p l); cbn; try reflexivity.
    now rewrite Hg.
  Qed.

  Lemma psum_ext p q l :
    (forall k, In k (map fst l) -> p k = q k) -> psum p l = psum q l.
  Proof.
    induction l as [|e l IH]; intros H; cbn; [reflexivity|].
    rewrite IH by (intros k Hk; apply H; now right).
    unfold pick. rewrite (H (fst e)) by now left. reflexivity.
  Qed.

  Lemma psum_none p l :
    (forall k, In k (map fst l) -> p k = false) -> psum p l = None.
  Proof.
    induction l as [|e l IH]; intros H; cbn; [reflexivity|].
    rewrite IH by (intros k Hk; apply H; now right).
    unfold pick. now rewrite (H (fst e)) by now left.
  Qed.

  (* ---- keys ---- *)

  Lemma keys_ins k v m :
    map fst (ins keqb op k v m) = map fst m \/
    (map fst (ins keqb op k v m) = map fst m ++ [k] /\ ~ In k (map fst m)).
  Proof.
    induction m as [|[k' v'] t IH]; cbn.
    - right. split; [reflexivity | tauto].
    - destruct (keqb k' k) eqn:E; cbn.
      + now left.
      + destruct IH as [IH | [IH1 IH2]].
        * left. now rewrite IH.
        * right. split; [now rewrite IH1|].
          intros [H | H]; [|tauto]. subst. now rewrite (proj1 keq) in E.
  Qed.

  Lemma NoDup_ins k v m :
    NoDup (map fst m) -> NoDup (map fst (ins keqb op k v m)).
  Proof.
    intros H. destruct (keys_ins k v m) as [E | [E N]]; rewrite E; [assumption|].
    apply NoDup_snoc; assumption.
  Qed.

  Lemma Forall_keys_ins (P : K -> Prop) k v m :
    Forall P (map fst m) -> P k -> Forall P (map fst (ins keqb op k v m)).
  Proof.
    intros H Hk. destruct (keys_ins k v m) as [E | [E _]]; rewrite E; [assumption|].
    apply Forall_app. split; [assumption | now constructor].
  Qed.

  Lemma NoDup_ins_all l : forall m,
    NoDup (map fst m) -> NoDup (map fst (ins_all keqb op l m)).
  Proof.
    unfold ins_all. induction l as [|e l IH]; intros m H; cbn; [assumption|].
    apply IH. now apply NoDup_ins.
  Qed.

  Lemma Forall_keys_ins_all (P : K -> Prop) l : forall m,
    Forall P (map fst m) -> Forall P (map fst l) ->
    Forall P (map fst (ins_all keqb op l m)).
  Proof.
    unfold ins_all. induction l as [|e l IH]; intros m H Hl; cbn; [assumption|].
    inversion Hl; subst. apply IH; [|assumption]. now apply Forall_keys_ins.
  Qed.

  Lemma NoDup_of_list l : NoDup (map fst (of_list keqb op l)).
  Proof. unfold of_list. apply NoDup_ins_all. constructor. Qed.

  Lemma Forall_keys_of_list (P : K -> Prop) l :
    Forall P (map fst l) -> Forall P (map fst (of_list keqb op l)).
  Proof. unfold of_list. intros H. apply Forall_keys_ins_all; [constructor | assumption]. Qed.

  Lemma NoDup_mcombine a b :
    NoDup (map fst a) -> NoDup (map fst (mcombine keqb op a b)).
  Proof. unfold mcombine. apply NoDup_ins_all. Qed.

  Lemma Forall_keys_mcombine (P : K -> Prop) a b :
    Forall P (map fst a) -> Forall P (map fst b) ->
    Forall P (map fst (mcombine keqb op a b)).
  Proof. unfold mcombine. apply Forall_keys_ins_all. Qed.

  Lemma NoDup_rekey f a : NoDup (map fst (rekey keqb op f a)).
  Proof. unfold rekey. apply NoDup_of_list. Qed.

  Lemma Forall_keys_rekey (P : K -> Prop) f a :
    (forall k, P k -> P (f k)) -> Forall P (map fst a) ->
    Forall P (map fst (rekey keqb op f a)).
  Proof.
    intros Hf H. unfold rekey. apply Forall_keys_of_list.
    rewrite map_map. cbn. rewrite Forall_forall in *. intros k Hk.
    apply in_map_iff in Hk. destruct Hk as [e [<- He]].
    apply Hf, H. now apply in_map.
  Qed.

  (* with distinct keys, looking a key up = summing over that key *)
  Lemma mfind_psum k m :
    NoDup (map fst m) -> mfind keqb k m = psum (fun k' => keqb k' k) m.
  Proof.
    induction m as [|[k' v'] t IH]; intros H; cbn; [reflexivity|].
    inversion H as [|? ? Hk Ht]; subst. unfold pick. cbn.
    destruct (keqb k' k) eqn:E.
    - apply (proj2 keq) in E. subst k'.
      rewrite psum_none; [reflexivity|].
      intros x Hx. destruct (keqb x k) eqn:E; [|reflexivity].
      apply (proj2 keq) in E. now subst.
    - now rewrite IH.
  Qed.

  (* ---- overwriting assignment ---- *)

  Lemma put_fresh k v (m : list (K * V)) :
    ~ In k (map fst m) -> put keqb k v m = m ++ [(k, v)].
  Proof.
    induction m as [|[k' v'] t IH]; intros H; cbn; [reflexivity|].
    destruct (keqb k' k) eqn:E.
    - apply (proj2 keq) in E. subst. exfalso. apply H. now left.
    - rewrite IH; [reflexivity|]. intros H1. apply H. now right.
  Qed.

  Lemma put_all_fresh (l : list (K * V)) : forall m,
    NoDup (map fst l) -> (forall x, In x (map fst l) -> ~ In x (map fst m)) ->
    put_all keqb l m = m ++ l.
  Proof.
    unfold put_all. induction l as [|e l IH]; intros m H D; cbn.
    - now rewrite app_nil_r.
    - inversion H as [|? ? He Hl]; subst.
      rewrite put_fresh by (apply D; now left).
      rewrite IH; [now rewrite <- app_assoc; destruct e | assumption |].
      intros x Hx. rewrite map_app, in_app_iff. cbn.
      intros [H1 | [H1 | []]].
      + apply (D x); [now right | assumption].
      + subst. contradiction.
  Qed.
End Facts.

(* ---------------------------------------------------------------------- *)
(* Part 2: the three combinations used by the pipeline *)

Lemma acomb_comm a b : acomb a b = acomb b a.
Proof.
  unfold acomb. f_equal; try lia.
Qed.

Lemma acomb_assoc a b c : acomb a (acomb b c) = acomb (acomb a b) c.
Proof.
  unfold acomb; cbn. f_equal; try lia.
Qed.

Lemma Zadd_assoc' a b c : a + (b + c) = a + b + c.
Proof. lia. Qed.
Lemma Zmax_assoc' a b c : Z.max a (Z.max b c) = Z.max (Z.max a b) c.
Proof. lia. Qed.

(* flooring a millisecond stamp to its whole second *)
Definition floor_s (ms : Z) : Z := rtime (ptime ms).

Lemma floor_s_le ms : floor_s ms <= ms.
Proof. unfold floor_s, rtime, ptime. pose proof (Z.mul_div_le ms 1000). lia. Qed.

Lemma floor_s_gt ms : ms - 1000 < floor_s ms.
Proof.
  unfold floor_s, rtime, ptime.
  pose proof (Z.mod_pos_bound ms 1000). pose proof (Z.div_mod ms 1000). lia.
Qed.

Lemma floor_s_mono a b : a <= b -> floor_s a <= floor_s b.
Proof.
  intros H. unfold floor_s, rtime, ptime.
  pose proof (Z.div_le_mono a b 1000). lia.
Qed.

Lemma floor_s_idem a : floor_s (floor_s a) = floor_s a.
Proof. unfold floor_s, rtime, ptime. now rewrite Z.div_mul by lia. Qed.

Lemma floor_s_aligned a : a mod 1000 = 0 -> floor_s a = a.
Proof.
  intros H. unfold floor_s, rtime, ptime.
  pose proof (Z.div_mod a 1000). lia.
Qed.

Lemma floor_s_min a b : floor_s (Z.min a b) = Z.min (floor_s a) (floor_s b).
Proof.
  destruct (Z.le_ge_cases a b) as [H | H].
  - pose proof (floor_s_mono _ _ H). now rewrite !Z.min_l.
  - pose proof (floor_s_mono _ _ H). now rewrite !Z.min_r.
Qed.

Lemma floor_s_max a b : floor_s (Z.max a b) = Z.max (floor_s a) (floor_s b).
Proof.
  destruct (Z.le_ge_cases a b) as [H | H].
  - pose proof (floor_s_mono _ _ H). now rewrite !Z.max_r.
  - pose proof (floor_s_mono _ _ H). now rewrite !Z.max_l.
Qed.

(* what a disk round trip does to an aggregate *)
Definition fl (a : sagg) : sagg :=
  {| a_count := a_count a; a_min := floor_s (a_min a); a_max := floor_s (a_max a);
     a_dsum := a_dsum a; a_tsum := a_tsum a |}.

Lemma rval_pval a : rval (pval a) = fl a.
Proof. reflexivity. Qed.

Lemma fl_acomb a b : fl (acomb a b) = acomb (fl a) (fl b).
Proof. unfold fl, acomb; cbn. now rewrite floor_s_min, floor_s_max. Qed.

Lemma fl_single_at ts r : fl (single_at ts r) = single_at (floor_s ts) r.
Proof. reflexivity. Qed.

(* ---------------------------------------------------------------------- *)
(* Part 3: the persisted endpoint key *)

Definition nocolon (s : str) : Prop := Forall (fun c => c <> 58) s.

Lemma split_delim_pkey m u :
  nocolon m -> split_delim (m ++ delim ++ u) = Some (m, u).
Proof.
  induction m as [|x m IH]; intros H.
  - reflexivity.
  - inversion H as [|? ? Hx Hm]; subst.
    change ((x :: m) ++ delim ++ u) with (x :: (m ++ delim ++ u)).
    assert (S : starts_delim (x :: (m ++ delim ++ u)) = None).
    { unfold starts_delim. destruct (m ++ delim ++ u) as [|b [|c rest]]; try reflexivity.
      apply Z.eqb_neq in Hx. now rewrite Hx. }
    cbn [split_delim]. rewrite S. rewrite (IH Hm). reflexivity.
  Qed.

Lemma rkey_pkey k : nocolon (fst k) -> rkey (pkey k) = k.
Proof.
  intros H. unfold rkey, pkey. rewrite split_delim_pkey by assumption. now destruct k.
Qed.

(* ---------------------------------------------------------------------- *)
(* Part 4: well-formed states and the disk round trip *)

Lemma NoDup_map_inj_in {A B : Type} (f : A -> B) (l : list A) :
  (forall x y, In x l -> In y l -> f x = f y -> x = y) -> NoDup l -> NoDup (map f l).
Proof.
  induction l as [|a l IH]; intros Hf H; cbn; [constructor|].
  inversion H as [|? ? Ha Hl]; subst. constructor.
  - intros Hin. apply in_map_iff in Hin. destruct Hin as [y [E Hy]].
    assert (y = a) by (apply Hf; [now right | now left | assumption]). now subst.
  - apply IH; [|assumption]. intros x y Hx Hy. apply Hf; now right.
Qed.

Section RoundTrip.
  Context {K K' V V' : Type}.
  Variable keqb : K -> K -> bool.
  Variable keqb' : K' -> K' -> bool.
  Hypothesis keq : eqdec keqb.
  Hypothesis keq' : eqdec keqb'.
  Variable tr1 : K -> K'.
  Variable tr2 : K' -> K.
  Variable g1 : V -> V'.
  Variable g2 : V' -> V.

  Lemma roundtrip_gen (m : list (K * V)) :
    NoDup (map fst m) ->
    (forall k, In k (map fst m) -> tr2 (tr1 k) = k) ->
    put_all keqb
      (map (fun e => (tr2 (fst e), g2 (snd e)))
           (put_all keqb' (map (fun e => (tr1 (fst e), g1 (snd e))) m) [])) []
    = map (fun e => (fst e, g2 (g1 (snd e)))) m.
  Proof.
    intros ND Inv.
    assert (Inj : forall x y, In x (map fst m) -> In y (map fst m) -> tr1 x = tr1 y -> x = y).
    { intros x y Hx Hy E. rewrite <- (Inv x Hx), <- (Inv y Hy). now rewrite E. }
    rewrite (put_all_fresh keqb' keq').
    - cbn [app]. rewrite map_map. cbn [fst snd].
      rewrite (put_all_fresh keqb keq).
      + cbn [app]. apply map_ext_in. intros e He. cbn.
        rewrite Inv; [reflexivity | now apply in_map].
      + rewrite map_map. cbn [fst].
        replace (map (fun x => tr2 (tr1 (fst x))) m) with (map fst m); [assumption|].
        apply map_ext_in. intros e He. symmetry. apply Inv. now apply in_map.
      + intros x _ [].
    - rewrite map_map. cbn [fst].
      rewrite <- (map_map fst tr1). now apply NoDup_map_inj_in.
    - intros x _ [].
  Qed.
End RoundTrip.

Definition wfm {K V : Type} (P : K -> Prop) (m : list (K * V)) : Prop :=
  NoDup (map fst m) /\ Forall P (map fst m).

Definition kE_ok (k : key) : Prop := nocolon (fst k).
Definition kES_ok (ks : key * Z) : Prop := nocolon (fst (fst ks)).
Definition kC_ok (ck : str * key) : Prop := nocolon (fst (snd ck)).
Definition kCS_ok (cks : (str * key) * Z) : Prop := nocolon (fst (snd (fst cks))).

(* distinct keys everywhere, and no ':' in any method *)
Definition wf_state (s : state) : Prop :=
  wfm kE_ok (sE s) /\ wfm kES_ok (sES s) /\ wfm kC_ok (sC s) /\ wfm kCS_ok (sCS s)
  /\ NoDup (map fst (sI s)).

(* the effect of a disk round trip: the time fields lose their milliseconds *)
Definition fl_state (s : state) : state :=
  {| sE := map (fun e => (fst e, fl (snd e))) (sE s);
     sES := sES s;
     sC := map (fun e => (fst e, fl (snd e))) (sC s);
     sCS := sCS s;
     sI := map (fun e => (fst e, floor_s (snd e))) (sI s) |}.

Lemma map_id_ext {A : Type} (f : A -> A) (l : list A) :
  (forall x, f x = x) -> map f l = l.
Proof. intros H. rewrite <- (map_id l) at 2. now apply map_ext. Qed.

Lemma restore_persist s : wf_state s -> restore (persist s) = fl_state s.
Proof.
  intros (HE & HES & HC & HCS & HI).
  unfold restore, persist, fl_state. cbn [pE pES pC pCS pI]. f_equal.
  - apply (roundtrip_gen key_eqb str_eqb eqdec_key eqdec_str pkey rkey pval rval);
      [apply HE|].
    intros k Hk. apply rkey_pkey. destruct HE as [_ F].
    rewrite Forall_forall in F. now apply F.
  - rewrite (roundtrip_gen skey_eqb sz_eqb eqdec_skey eqdec_sz
               (fun ks => (pkey (fst ks), snd ks)) (fun ks => (rkey (fst ks), snd ks))
               (fun v : Z => v) (fun v : Z => v)); [| apply HES |].
    + apply map_id_ext. now intros [k v].
    + intros [k st] Hk. cbn. rewrite rkey_pkey; [reflexivity|].
      destruct HES as [_ F]. rewrite Forall_forall in F. now apply (F (k, st)).
  - apply (roundtrip_gen ckey_eqb key_eqb eqdec_ckey eqdec_key
             (fun ck => (fst ck, pkey (snd ck))) (fun ck => (fst ck, rkey (snd ck))) pval rval);
      [apply HC|].
    intros [c k] Hk. cbn. rewrite rkey_pkey; [reflexivity|].
    destruct HC as [_ F]. rewrite Forall_forall in F. now apply (F (c, k)).
  - rewrite (roundtrip_gen cskey_eqb skey_eqb eqdec_cskey eqdec_skey
               (fun cks => ((fst (fst cks), pkey (snd (fst cks))), snd cks))
               (fun cks => ((fst (fst cks), rkey (snd (fst cks))), snd cks))
               (fun v : Z => v) (fun v : Z => v)); [| apply HCS |].
    + apply map_id_ext. now intros [k v].
    + intros [[c k] st] Hk. cbn. rewrite rkey_pkey; [reflexivity|].
      destruct HCS as [_ F]. rewrite Forall_forall in F. now apply (F ((c, k), st)).
  - rewrite map_map. cbn [fst snd].
    rewrite (put_all_fresh key_eqb eqdec_key).
    + reflexivity.
    + rewrite map_map. cbn [fst]. assumption.
    + intros x _ [].
Qed.

(* ---- well-formedness is an invariant of the pipeline ---- *)

Section WfmFacts.
  Context {K V : Type}.
  Variable keqb : K -> K -> bool.
  Variable op : V -> V -> V.
  Hypothesis keq : eqdec keqb.
  Variable P : K -> Prop.

  Lemma wfm_of_list l : Forall P (map fst l) -> wfm P (of_list keqb op l).
  Proof.
    intros H. split; [now apply NoDup_of_list | now apply Forall_keys_of_list].
  Qed.

  Lemma wfm_mcombine a b :
    wfm P a -> Forall P (map fst b) -> wfm P (mcombine keqb op a b).
  Proof.
    intros [H1 H2] Hb. split; [now apply NoDup_mcombine | now apply Forall_keys_mcombine].
  Qed.

  Lemma wfm_rekey f a :
    (forall k, P k -> P (f k)) -> wfm P a -> wfm P (rekey keqb op f a).
  Proof.
    intros Hf [H1 H2]. split; [now apply NoDup_rekey | now apply Forall_keys_rekey].
  Qed.

  Lemma wfm_map_val (g : V -> V) (m : list (K * V)) :
    wfm P m -> wfm P (map (fun e => (fst e, g (snd e))) m).
  Proof. unfold wfm. rewrite map_map. cbn [fst]. tauto. Qed.
End WfmFacts.

Definition recs_ok (rs : list rec) : Prop := Forall (fun r => nocolon (r_method r)) rs.

Lemma recs_ok_accepted rs : recs_ok rs -> recs_ok (accepted rs).
Proof.
  unfold recs_ok, accepted. rewrite !Forall_forall. intros H r Hr.
  apply filter_In in Hr. now apply H.
Qed.

Lemma Forall_map_keys {A K V : Type} (P : K -> Prop) (f : A -> K * V) (l : list A) :
  (forall a, In a l -> P (fst (f a))) -> Forall P (map fst (map f l)).
Proof.
  intros H. rewrite map_map. rewrite Forall_forall. intros k Hk.
  apply in_map_iff in Hk. destruct Hk as [a [<- Ha]]. now apply H.
Qed.

Lemma wf_extract nxE nxC rs : recs_ok rs -> wf_state (extract nxE nxC rs).
Proof.
  intros H. unfold recs_ok in H. rewrite Forall_forall in H.
  unfold wf_state, extract; cbn [sE sES sC sCS sI].
  refine (conj _ (conj _ (conj _ (conj _ _)))).
  - apply wfm_of_list; [exact eqdec_key|].
    apply Forall_map_keys. intros r Hr. now apply H.
  - apply wfm_of_list; [exact eqdec_skey|].
    apply Forall_map_keys. intros r Hr. now apply H.
  - apply wfm_of_list; [exact eqdec_ckey|].
    apply Forall_map_keys. intros r Hr. now apply H.
  - apply wfm_of_list; [exact eqdec_cskey|].
    apply Forall_map_keys. intros r Hr. now apply H.
  - apply NoDup_of_list. exact eqdec_key.
Qed.

Lemma wf_empty : wf_state empty_state.
Proof. unfold wf_state, wfm; cbn. repeat split; constructor. Qed.

Lemma wf_rekey_state rkE rkC s : wf_state s -> wf_state (rekey_state rkE rkC s).
Proof.
  intros (HE & HES & HC & HCS & HI).
  unfold wf_state, rekey_state; cbn [sE sES sC sCS sI].
  refine (conj _ (conj _ (conj _ (conj _ _)))); try assumption.
  - apply wfm_rekey; [exact eqdec_key | now intros [m u] | assumption].
  - apply wfm_rekey; [exact eqdec_skey | now intros [[m u] st] | assumption].
  - apply wfm_rekey; [exact eqdec_ckey | now intros [c [m u]] | assumption].
  - apply wfm_rekey; [exact eqdec_cskey | now intros [[c [m u]] st] | assumption].
Qed.

Lemma wf_combine_state a b : wf_state a -> wf_state b -> wf_state (combine_state a b).
Proof.
  intros (HE & HES & HC & HCS & HI) (HE' & HES' & HC' & HCS' & HI').
  unfold wf_state, combine_state; cbn [sE sES sC sCS sI].
  refine (conj _ (conj _ (conj _ (conj _ _)))).
  - apply wfm_mcombine; [exact eqdec_key | assumption | apply HE'].
  - apply wfm_mcombine; [exact eqdec_skey | assumption | apply HES'].
  - apply wfm_mcombine; [exact eqdec_ckey | assumption | apply HC'].
  - apply wfm_mcombine; [exact eqdec_cskey | assumption | apply HCS'].
  - apply NoDup_mcombine; [exact eqdec_key | assumption].
Qed.

Lemma wf_fl_state s : wf_state s -> wf_state (fl_state s).
Proof.
  intros (HE & HES & HC & HCS & HI).
  unfold wf_state, fl_state; cbn [sE sES sC sCS sI].
  refine (conj _ (conj _ (conj _ (conj _ _)))); try assumption.
  - now apply wfm_map_val.
  - now apply wfm_map_val.
  - rewrite map_map. cbn [fst]. assumption.
Qed.

(* [step] with the disk round trip replaced by its effect *)
Definition step' (s : state) (b : batch) : state :=
  let s0 := if b_restart b then fl_state s else s in
  match b_recs b with
  | [] => s0
  | _ =>
      let s1 := if b_conv b then rekey_state (b_rkE b) (b_rkC b) s0 else s0 in
      combine_state s1 (extract (b_nxE b) (b_nxC b) (accepted (b_recs b)))
  end.

Lemma step_step' s b : wf_state s -> step s b = step' s b.
Proof.
  intros H. unfold step, step'. destruct (b_restart b); [|reflexivity].
  now rewrite restore_persist.
Qed.

Lemma wf_step' s b : wf_state s -> recs_ok (b_recs b) -> wf_state (step' s b).
Proof.
  intros H Hr. unfold step'.
  assert (H0 : wf_state (if b_restart b then fl_state s else s)).
  { destruct (b_restart b); [now apply wf_fl_state | assumption]. }
  destruct (b_recs b) as [|r rs] eqn:E; [assumption|].
  apply wf_combine_state.
  - destruct (b_conv b); [now apply wf_rekey_state | assumption].
  - apply wf_extract. now apply recs_ok_accepted.
Qed.

Definition batches_ok (bs : list batch) : Prop := Forall (fun b => recs_ok (b_recs b)) bs.

Lemma wf_run_from bs : forall s,
  wf_state s -> batches_ok bs -> wf_state (run_from s bs).
Proof.
  unfold run_from.
  induction bs as [|b bs IH]; intros s H Hb; cbn; [assumption|].
  inversion Hb; subst. apply IH; [|assumption].
  rewrite step_step' by assumption. now apply wf_step'.
Qed.
