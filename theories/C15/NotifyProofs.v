(* C15 — lemmas about the engine-notification step of discovery.Run (Notify.v). *)
From Coq Require Import List ZArith Bool Lia.
From Verif Require Import C15.Model C15.Spec C15.Proofs C15.Faults C15.FaultsProofs C15.Notify.
Import ListNotations.
Open Scope Z_scope.

(* ---------------------------------------------------------------------- *)
(* HEAD: the flush is the flush of Faults.v, whatever the notification did *)

Lemma aborts_false nb : aborts false nb = false.
Proof. reflexivity. Qed.

Lemma nstep_false y nb : nstep false y nb = fstep true y (nb_f nb).
Proof. reflexivity. Qed.

Lemma nrun_result_false nb : nrun_result false nb = nres_of (run_result (nb_f nb)).
Proof. reflexivity. Qed.

Lemma nstate_from_false nbs : forall y,
  nstate_from false y nbs = fstate_from true y (map nb_f nbs).
Proof.
  induction nbs as [|nb t IH]; intros y; [reflexivity|].
  change (nstate_from false y (nb :: t)) with (nstate_from false (nstep false y nb) t).
  rewrite IH. reflexivity.
Qed.

Lemma nstate_false nbs : nstate false nbs = fstate true (map nb_f nbs).
Proof. apply nstate_from_false. Qed.

Lemma ntrace_false nbs : forall y, ntrace false y nbs = ftrace true y (map nb_f nbs).
Proof.
  induction nbs as [|nb t IH]; intros y; [reflexivity|].
  cbn [ntrace ftrace map]. rewrite nstep_false, IH. reflexivity.
Qed.

Lemma nresults_false nbs :
  map (nrun_result false) nbs = map (fun fb => nres_of (run_result fb)) (map nb_f nbs).
Proof. rewrite map_map. apply map_ext. intros nb. apply nrun_result_false. Qed.

(* the frame: two histories that differ only in what the engine's admin port
   did (and in whether it is configured) are indistinguishable *)
Lemma frame nbs nbs' :
  map nb_f nbs = map nb_f nbs' ->
  nstate false nbs = nstate false nbs' /\
  ntrace false sys0 nbs = ntrace false sys0 nbs' /\
  map (nrun_result false) nbs = map (nrun_result false) nbs'.
Proof.
  intros E. rewrite !nstate_false, !ntrace_false, !nresults_false, E.
  repeat split; reflexivity.
Qed.

(* ---------------------------------------------------------------------- *)
(* both variants: the history of Faults.v the history amounts to *)

Lemma fstep_blank y fb :
  fstep true y (blank fb)
  = mkSys (if b_restart (fb_batch fb) then restore (disk y) else mem y) (disk y).
Proof. reflexivity. Qed.

Lemma nstep_effective v y nb : nstep v y nb = fstep true y (effective_flush v nb).
Proof.
  unfold nstep, effective_flush. destruct (aborts v nb); [|reflexivity].
  now rewrite fstep_blank.
Qed.

Lemma nstate_from_effective v nbs : forall y,
  nstate_from v y nbs = fstate_from true y (map (effective_flush v) nbs).
Proof.
  induction nbs as [|nb t IH]; intros y; [reflexivity|].
  change (nstate_from v y (nb :: t)) with (nstate_from v (nstep v y nb) t).
  rewrite IH, nstep_effective. reflexivity.
Qed.

Lemma nstate_effective v nbs : nstate v nbs = fstate true (map (effective_flush v) nbs).
Proof. apply nstate_from_effective. Qed.

Lemma effective_flush_false nb : effective_flush false nb = nb_f nb.
Proof. reflexivity. Qed.

Lemma effective_flush_unaborted v nb : aborts v nb = false -> effective_flush v nb = nb_f nb.
Proof. unfold effective_flush. now intros ->. Qed.

(* the variant behaves like HEAD as long as no report meets a transport failure *)
Lemma variant_agrees_without_transport_errors nbs :
  Forall (fun nb => aborts true nb = false) nbs -> nstate true nbs = nstate false nbs.
Proof.
  intros H. rewrite !nstate_effective. f_equal.
  induction H as [|nb t A _ IH]; [reflexivity|].
  cbn [map]. rewrite IH, (effective_flush_unaborted true nb A). reflexivity.
Qed.

(* when a flush aborts *)
Lemma aborts_iff v nb :
  aborts v nb = true <->
  v = true /\ nb_port nb = true /\
  (exists r, In r (b_recs (fb_batch (nb_f nb))) /\ failed_txn r = true) /\
  transport_error (nb_out nb) = true.
Proof.
  unfold aborts, reports. rewrite !andb_true_iff, existsb_exists. tauto.
Qed.

(* ---------------------------------------------------------------------- *)
(* no traffic is lost, whatever the notifications did (HEAD) *)

Lemma lose_no_traffic_notify nbs :
  let fbs := map nb_f nbs in
  batches_ok (map fb_batch fbs) -> no_restart (map fb_batch fbs) ->
  let y := nstate false nbs in
  count_where everywhere (sE (mem y)) = nrec (map fb_batch fbs) everywhere /\
  (forall pre w, nbs = pre ++ [w] -> writes (nb_f w) = true ->
     count_where everywhere (sE (restore (disk y))) = nrec (map fb_batch fbs) everywhere).
Proof.
  cbn zeta. intros Hok Hnr. rewrite nstate_false.
  destruct (lose_no_traffic_true (map nb_f nbs) Hok Hnr) as [M D].
  split; [exact M|].
  intros pre w E W. apply (D (map nb_f pre) (nb_f w)); [|exact W].
  rewrite E, map_app. reflexivity.
Qed.
