(* C15 — Discovery statistics are independent of batching and lose no traffic.
   Final statements only; the pipeline is Model.v, the vocabulary of the
   statements is Spec.v, the proofs are in Proofs.v.

   Quantification.  [bs : list batch] is a whole history: any records, any
   split into flushes, a restart (state written to disk and read back, fresh
   URL tree) before any flush, and for every flush ANY four URL normalisers and
   ANY convergence flag (the URL tree is an oracle; nothing is assumed of it).
   [batches_ok bs] only says that no HTTP method contains ':' (the persisted
   key is method:::url).  Durations are exact sums next to the count, so
   "mean = true mean" is "sum = sum of the durations"; float32 rounding of the
   means is outside these theorems (it is checked with a tolerance by the
   harness and the monitor). *)
From Coq Require Import List ZArith Bool Uint63.
From Verif Require Import C15.Model C15.Spec C15.Proofs C15.Witness C15.Faults C15.FaultsProofs.
From Verif Require Import C15.Keys C15.KeysProofs.
From Verif Require Import C15.Utf8 C15.Utf8Proofs C15.Entry C15.EntryProofs.
From Verif Require Import C15.Notify C15.NotifyProofs.
From Verif Require Import C15.Settle C15.SettleProofs C15.SettleCalls C15.SettleCallsProofs.
Import ListNotations.
Open Scope Z_scope.

(* ---------------------------------------------------------------------- *)
(* 1. Refinement: after any history, every entry of the final statistics is the
   direct summary (how many, extreme timestamps, duration sums / status counts /
   latest timestamp) of the ledger lines filed under its key.  The ledger
   [ledger bs] holds every non-internal record of the history exactly once, in
   order, with the method / consumer tag it arrived with, counting with its own
   timestamp (possibly floored to the second by later restarts). *)
Theorem C15_refinement : forall bs, batches_ok bs ->
  let s := run bs in let L := ledger bs in
  (forall k, mfind key_eqb k (sE s)
             = summary (filter (fun l => key_eqb (l_ekey l) k) L)) /\
  (forall k st, mfind skey_eqb (k, st) (sES s)
             = ocount (length (filter (fun l => key_eqb (l_ekey l) k
                                                && (r_status (l_rec l) =? st)) L))) /\
  (forall ck, mfind ckey_eqb ck (sC s)
             = summary (filter (fun l => ckey_eqb (l_ckey l) ck) L)) /\
  (forall ck st, mfind cskey_eqb (ck, st) (sCS s)
             = ocount (length (filter (fun l => ckey_eqb (l_ckey l) ck
                                                && (r_status (l_rec l) =? st)) L))) /\
  (forall i, mfind key_eqb i (sI s)
             = omax (map l_ts (filter (fun l => key_eqb (icpt_key (l_rec l)) i) L))) /\
  map l_rec L = all_accepted bs /\
  Forall lok L /\
  (no_restart bs -> Forall lexact L).
Proof.
  intros bs H. cbn zeta. repeat apply conj.
  - exact (final_E bs H).
  - exact (final_ES bs H).
  - exact (final_C bs H).
  - exact (final_CS bs H).
  - exact (final_I bs H).
  - exact (ledger_recs bs).
  - exact (lok_ledger bs).
  - exact (lexact_ledger bs).
Qed.
Print Assumptions C15_refinement.

(* ---------------------------------------------------------------------- *)
(* 2. Conservation, for every history and every family of normalisers. *)
Theorem C15_conservation : forall bs, batches_ok bs ->
  let s := run bs in
  (* the request counts add up to the number of non-internal records *)
  count_where everywhere (sE s) = nrec bs everywhere /\
  (forall m, count_where (fun k => str_eqb (fst k) m) (sE s)
             = nrec bs (fun r => str_eqb (r_method r) m)) /\
  (* per endpoint: request count = sum of its status-code counts *)
  (forall k, cnt_of (mfind key_eqb k (sE s))
             = sum_where (fun ks => key_eqb (fst ks) k) (sES s)) /\
  (* per status code: the counts over all endpoints = that status' records *)
  (forall st, sum_where (fun ks => snd ks =? st) (sES s)
              = nrec bs (fun r => r_status r =? st)) /\
  (* duration sums are the sums of the durations: mean = sum/count is exact *)
  dsum_where everywhere (sE s) = fold_right Z.add 0 (map r_dur (all_accepted bs)) /\
  tsum_where everywhere (sE s) = fold_right Z.add 0 (map r_tdur (all_accepted bs)) /\
  (* the same for the per-consumer statistics *)
  count_where everywhere (sC s) = nrec bs everywhere /\
  (forall t, count_where (fun ck => str_eqb (fst ck) t) (sC s)
             = nrec bs (fun r => str_eqb (cons_tag r) t)) /\
  (forall ck, cnt_of (mfind ckey_eqb ck (sC s))
              = sum_where (fun cks => ckey_eqb (fst cks) ck) (sCS s)) /\
  (forall st, sum_where (fun cks => snd cks =? st) (sCS s)
              = nrec bs (fun r => r_status r =? st)).
Proof.
  intros bs H. cbn zeta. repeat apply conj.
  - exact (conservation_count bs H).
  - exact (conservation_method bs H).
  - exact (count_is_status_sum bs H).
  - exact (conservation_status bs H).
  - exact (proj1 (conservation_durations bs H)).
  - exact (proj2 (conservation_durations bs H)).
  - exact (conservation_count_C bs H).
  - exact (conservation_tag bs H).
  - exact (count_is_status_sum_C bs H).
  - exact (conservation_status_C bs H).
Qed.
Print Assumptions C15_conservation.

(* Min/max times are the extreme timestamps: of all the records for the Combine
   of all endpoints ([agg_total]: least min, greatest max), of the records filed
   under it for each endpoint.  Exactly so without a restart; with restarts
   within the whole second of the true extreme (the on-disk resolution). *)
Theorem C15_extreme_times : forall bs, batches_ok bs ->
  let s := run bs in let L := ledger bs in
  agg_total (sE s) = summary L /\
  (forall g a, (g = L \/ exists k, g = filter (fun l => key_eqb (l_ekey l) k) L) ->
     summary g = Some a ->
     (forall l, In l g -> a_min a <= r_ts (l_rec l) /\ floor_s (r_ts (l_rec l)) <= a_max a) /\
     (exists l, In l g /\ floor_s (r_ts (l_rec l)) <= a_min a) /\
     (exists l, In l g /\ a_max a <= r_ts (l_rec l)) /\
     (no_restart bs ->
        (forall l, In l g -> a_min a <= r_ts (l_rec l) <= a_max a) /\
        (exists l, In l g /\ a_min a = r_ts (l_rec l)) /\
        (exists l, In l g /\ a_max a = r_ts (l_rec l)))).
Proof.
  intros bs H. cbn zeta. split; [exact (agg_total_E bs H)|].
  intros g a Hg Hs.
  assert (G1 : Forall lok g).
  { destruct Hg as [-> | [k ->]]; [|apply Forall_filter]; apply lok_ledger. }
  destruct (group_extremes g a G1 Hs) as (A & B & C).
  repeat apply conj; try assumption.
  intros N. apply group_extremes_exact; [|assumption].
  destruct Hg as [-> | [k ->]]; [|apply Forall_filter]; now apply lexact_ledger.
Qed.
Print Assumptions C15_extreme_times.

(* ---------------------------------------------------------------------- *)
(* 3. Re-keying after a convergence (any normaliser) and the disk round trip
   preserve the totals. *)
Theorem C15_rekey_preserves_totals : forall rkE rkC s,
  (forall k', mfind key_eqb k' (sE (rekey_state rkE rkC s))
              = psum acomb (fun k => key_eqb (on_url rkE k) k') (sE s)) /\
  agg_total (sE (rekey_state rkE rkC s)) = agg_total (sE s) /\
  agg_total (sC (rekey_state rkE rkC s)) = agg_total (sC s) /\
  (forall st, sum_where (fun ks => snd ks =? st) (sES (rekey_state rkE rkC s))
              = sum_where (fun ks => snd ks =? st) (sES s)) /\
  (forall st, sum_where (fun ks => snd ks =? st) (sCS (rekey_state rkE rkC s))
              = sum_where (fun ks => snd ks =? st) (sCS s)) /\
  (forall m, count_where (fun k => str_eqb (fst k) m) (sE (rekey_state rkE rkC s))
             = count_where (fun k => str_eqb (fst k) m) (sE s)) /\
  (forall t, count_where (fun ck => str_eqb (fst ck) t) (sC (rekey_state rkE rkC s))
             = count_where (fun ck => str_eqb (fst ck) t) (sC s)) /\
  sI (rekey_state rkE rkC s) = sI s.
Proof. exact rekey_state_preserves. Qed.
Print Assumptions C15_rekey_preserves_totals.

(* restore (persist s): every key, count, status count and duration sum comes
   back unchanged; the time fields come back floored to the second ([fl],
   [floor_s]); hence nothing at all changes when they are second-aligned.
   [wf_state]: distinct keys and no ':' in a method — an invariant of [run]. *)
Theorem C15_persist_roundtrip : forall s, wf_state s ->
  restore (persist s) = fl_state s /\
  (aligned_state s -> restore (persist s) = s) /\
  agg_total (sE (restore (persist s))) = option_map fl (agg_total (sE s)) /\
  agg_total (sC (restore (persist s))) = option_map fl (agg_total (sC s)) /\
  sES (restore (persist s)) = sES s /\ sCS (restore (persist s)) = sCS s.
Proof.
  intros s W. rewrite (restore_persist s W).
  destruct (fl_state_totals s) as (A & B & _ & _ & _ & C & D).
  repeat apply conj; try assumption; [reflexivity|].
  intros Al. now apply fl_state_aligned.
Qed.
Print Assumptions C15_persist_roundtrip.

Theorem C15_reachable_states_wellformed : forall bs, batches_ok bs -> wf_state (run bs).
Proof. exact wf_run. Qed.
Print Assumptions C15_reachable_states_wellformed.

(* ---------------------------------------------------------------------- *)
(* 4. Homomorphism: for a fixed normaliser, extracting a concatenation is
   combining the extractions (as finite maps: same entry under every key). *)
Theorem C15_homomorphism : forall nxE nxC xs ys,
  state_equiv (extract nxE nxC (xs ++ ys))
              (combine_state (extract nxE nxC xs) (extract nxE nxC ys)).
Proof. exact homomorphism. Qed.
Print Assumptions C15_homomorphism.

(* Hence: while the normaliser does not change, the batching is irrelevant —
   any batching ends with the one-shot extraction of the whole stream. *)
Theorem C15_batch_invariance_fixed_normaliser : forall f g bs,
  batches_ok bs ->
  Forall (fun b => b_restart b = false /\ b_conv b = false /\
                   (forall u, b_nxE b u = f u) /\ (forall u, b_nxC b u = g u)) bs ->
  state_equiv (run bs) (extract f g (all_accepted bs)).
Proof. exact invariance_fixed. Qed.
Print Assumptions C15_batch_invariance_fixed_normaliser.

(* ---------------------------------------------------------------------- *)
(* 5. Batch invariance in full: two histories over the same records, without
   restarts, end in the same statistics — whatever the URL tree answered. *)
Definition C15_batch_invariance_full : Prop :=
  forall bs1 bs2, batches_ok bs1 -> batches_ok bs2 ->
    no_restart bs1 -> no_restart bs2 ->
    all_accepted bs1 = all_accepted bs2 ->
    state_equiv (run bs1) (run bs2).

(* Refuted by the answers of the real URL tree (Witness.v): unsplit, the
   endpoint GET h.com/{_param_1}/a counts 2 requests; split after the third
   record it counts 1 (and GET h.com/{_param_1}/{_param_2} counts 4, not 3). *)
Theorem C15_batch_invariance_full_refuted : ~ C15_batch_invariance_full.
Proof.
  intros F.
  assert (O1 : batches_ok witness_unsplit) by (vm_compute; repeat constructor; discriminate).
  assert (O2 : batches_ok witness_split) by (vm_compute; repeat constructor; discriminate).
  assert (N1 : no_restart witness_unsplit) by (vm_compute; repeat constructor).
  assert (N2 : no_restart witness_split) by (vm_compute; repeat constructor).
  assert (A : all_accepted witness_unsplit = all_accepted witness_split)
    by (vm_compute; reflexivity).
  destruct (F _ _ O1 O2 N1 N2 A) as (HE & _).
  specialize (HE (w_get, w_u5)).          (* GET h.com/{_param_1}/a : 2 vs 1 *)
  vm_compute in HE. discriminate HE.
Qed.
Print Assumptions C15_batch_invariance_full_refuted.

(* What holds instead, outside the finding.  Side condition (decidable; the
   monitor's classifier computes it from the recorded tree answers): both
   histories finally file every record under the same endpoint key and the same
   consumer key — i.e. the normalisers are coherent: re-normalising what batch i
   produced gives what the other history produced (norm_final o norm_i =
   norm_final).  Then the statistics agree: exactly without restarts; with
   restarts all counts, status counts and duration sums agree and the time
   fields agree once floored to the second. *)
Theorem C15_batch_invariance_holds_outside_incoherent_normalisers : forall bs1 bs2,
  batches_ok bs1 -> batches_ok bs2 ->
  map strip (ledger bs1) = map strip (ledger bs2) ->
  state_equiv_fl (run bs1) (run bs2) /\
  (no_restart bs1 -> no_restart bs2 -> state_equiv (run bs1) (run bs2)).
Proof. exact invariance. Qed.
Print Assumptions C15_batch_invariance_holds_outside_incoherent_normalisers.

(* ---------------------------------------------------------------------- *)
(* Non-vacuity *)

(* the witness histories satisfy the hypotheses of every theorem above, contain
   a convergence with re-keying of a non-empty state, and differ exactly in the
   side condition of the last theorem *)
Example C15_witness_is_the_observed_one :
  run_witness witness_flat = None /\
  witness_observed = [witness_unsplit_z; witness_split_z].
Proof. vm_compute. split; reflexivity. Qed.

Example C15_witness_incoherent :
  map strip (ledger witness_unsplit) <> map strip (ledger witness_split)
  /\ map l_rec (ledger witness_unsplit) = map l_rec (ledger witness_split)
  /\ count_where everywhere (sE (run witness_unsplit)) = 5
  /\ count_where everywhere (sE (run witness_split)) = 5.
Proof.
  split; [|vm_compute; repeat split; reflexivity].
  intros E. apply (f_equal (map (fun t => snd (snd (fst t))))) in E.
  vm_compute in E. discriminate E.
Qed.

(* a history with a restart, a convergence, two consumers and unaligned stamps:
   the model runs it, the state is well-formed, restarts floor the time fields *)
Definition demo_rec (u : str) (st ts : Z) (tag : str) : rec :=
  mkRec [71; 69; 84] u st 10 12 ts tag [112; 121; 47; 49] false.
Definition demo : list batch :=
  [ mkBatch [demo_rec [97; 47; 49] 200 1700000000123 []; demo_rec [97; 47; 50] 500 1700000001456 [116]]
            false false (fun u => u) (fun u => u) (fun u => u) (fun u => u);
    mkBatch [demo_rec [97; 47; 51] 200 1700000002789 []]
            true true (fun _ => [97; 47; 42]) (fun _ => [97; 47; 42])
            (fun _ => [97; 47; 42]) (fun _ => [97; 47; 42]) ].

Example C15_demo :
  batches_ok demo /\
  sE (run demo) = [(([71; 69; 84], [97; 47; 42]),
                    mkAgg 3 1700000000000 1700000002789 30 36)] /\
  sES (run demo) = [((([71; 69; 84], [97; 47; 42]), 200), 2);
                    ((([71; 69; 84], [97; 47; 42]), 500), 1)] /\
  length (sC (run demo)) = 2%nat.
Proof.
  split; [repeat constructor; discriminate|]. vm_compute. repeat split; reflexivity.
Qed.

(* the hypothesis of the round-trip theorem is needed: with a ':' in a method
   two endpoints share one persisted key and one of them is lost *)
Example C15_colon_in_method_loses_an_endpoint :
  let s := mkState [(([65; 58], [58; 98]), mkAgg 1 0 0 0 0);
                    (([65], [58; 58; 98]), mkAgg 2 0 0 0 0)] [] [] [] [] in
  count_where everywhere (sE s) = 3 /\
  count_where everywhere (sE (restore (persist s))) = 2.
Proof. vm_compute. split; reflexivity. Qed.

(* ====================================================================== *)
(* 6. The state file can fail to be written (Faults.v).

   [fbs : list fbatch] is a whole history of the runner/state layer: every
   flush of sections 1-5 (records, restart-before flag, oracle) plus a flag
   "the write of the state file fails during this flush" — any stream, any
   batching, ANY set of failing writes, a restart before any flush.  The state
   is (memory, file); a restart reads the FILE back.  [fstate true] is the code
   as it is (State.UpdateAggregation assigns, then writes); [fstate false] the
   write-then-assign variant. *)

(* (a) Nothing is lost by a failed write.  After any history the memory is
   exactly what the fault-free pipeline of sections 1-5 ([run]) computes for the
   history [survivors fbs], and the file holds [run (durable fbs)]:
   [survivors]/[durable] (Faults.v, [eff_step]) are computed from the flags
   alone — a flush whose write failed stays in [survivors]; only a restart
   removes flushes, namely those not yet covered by a successful write.  So
   every theorem above (refinement, conservation, extreme times, invariance)
   holds for the memory with [bs := survivors fbs].  Without a restart
   [survivors fbs] is the whole history: the fault flags are irrelevant. *)
Theorem C15_failed_writes_lose_nothing : forall fbs,
  let y := fstate true fbs in
  mem y = run (survivors fbs) /\
  disk y = persist (run (durable fbs)) /\
  (no_restart (map fb_batch fbs) -> survivors fbs = map fb_batch fbs) /\
  (batches_ok (map fb_batch fbs) -> batches_ok (survivors fbs) /\ wf_state (mem y)).
Proof.
  intros fbs. cbn zeta. destruct (effective fbs) as [M D].
  split; [exact M|]. split; [exact D|]. split; [exact (survivors_no_restart fbs)|].
  intros H. split; [now apply survivors_ok | now apply wf_mem].
Qed.
Print Assumptions C15_failed_writes_lose_nothing.

(* spelled out: the in-memory request counts add up to the number of
   non-internal records of ALL surviving flushes (failed writes included), per
   endpoint the count is the sum of its status counts, the duration sums are
   the sums of the durations *)
Theorem C15_conservation_under_failed_writes : forall fbs,
  batches_ok (map fb_batch fbs) ->
  let s := mem (fstate true fbs) in let bs := survivors fbs in
  count_where everywhere (sE s) = nrec bs everywhere /\
  (forall k, cnt_of (mfind key_eqb k (sE s))
             = sum_where (fun ks => key_eqb (fst ks) k) (sES s)) /\
  (forall st, sum_where (fun ks => snd ks =? st) (sES s)
              = nrec bs (fun r => r_status r =? st)) /\
  dsum_where everywhere (sE s) = fold_right Z.add 0 (map r_dur (all_accepted bs)) /\
  count_where everywhere (sC s) = nrec bs everywhere /\
  (no_restart (map fb_batch fbs) -> bs = map fb_batch fbs).
Proof.
  intros fbs H. cbn zeta. rewrite (proj1 (effective fbs)).
  destruct (C15_conservation (survivors fbs) (survivors_ok fbs H))
    as (A & _ & B & C & D & _ & E & _).
  repeat apply conj; try assumption. exact (survivors_no_restart fbs).
Qed.
Print Assumptions C15_conservation_under_failed_writes.

(* What a flush does to the file and what Run returns: a flush that does not
   write (empty batch, or failing write) leaves the file as it was — in both
   variants; Run reports the dump error exactly for a non-empty batch whose
   write fails. *)
Theorem C15_failed_write_leaves_file_and_is_reported : forall v y fb,
  (writes fb = false -> disk (fstep v y fb) = disk y) /\
  (run_result fb = RunDumpError <-> b_recs (fb_batch fb) <> [] /\ fb_fail fb = true).
Proof.
  intros v y fb. split.
  - intros H. now rewrite disk_fstep, H.
  - unfold run_result, attempts_write.
    destruct (b_recs (fb_batch fb)); destruct (fb_fail fb); cbn;
      split; try discriminate; try (intros [A B]; congruence); intros _; split;
      try discriminate; reflexivity.
Qed.
Print Assumptions C15_failed_write_leaves_file_and_is_reported.

(* (b) Any later successful write brings the file up to date with the memory
   (which by (a) still contains the flushes whose writes failed): reading it
   back gives the memory with the time fields floored to the second — the
   statement of C15_persist_roundtrip. *)
Theorem C15_successful_write_resynchronises_file : forall pre w,
  batches_ok (map fb_batch (pre ++ [w])) -> writes w = true ->
  let y := fstate true (pre ++ [w]) in
  disk y = persist (mem y) /\
  restore (disk y) = fl_state (mem y) /\
  (aligned_state (mem y) -> restore (disk y) = mem y) /\
  agg_total (sE (restore (disk y))) = option_map fl (agg_total (sE (mem y))) /\
  agg_total (sC (restore (disk y))) = option_map fl (agg_total (sC (mem y))) /\
  sES (restore (disk y)) = sES (mem y) /\ sCS (restore (disk y)) = sCS (mem y).
Proof.
  intros pre w H W. cbn zeta.
  assert (D : disk (fstate true (pre ++ [w])) = persist (mem (fstate true (pre ++ [w])))).
  { unfold fstate. rewrite fstate_snoc. now apply written_is_memory. }
  split; [exact D|]. rewrite D. apply C15_persist_roundtrip. now apply wf_mem.
Qed.
Print Assumptions C15_successful_write_resynchronises_file.

(* (c) A restart loses exactly the flushes processed after the last successful
   write [w] — [mid], none of which wrote — and nothing else: the restarted
   flush [r] continues from the memory as it was right after [w] (which by (a)
   contains every earlier flush, failed writes included), read back from the
   file, i.e. Model.v's restart step applied to that memory.  With no
   successful write at all it continues from the empty aggregation. *)
Theorem C15_restart_loses_exactly_unwritten_flushes : forall mid r,
  Forall (fun fb => writes fb = false) mid ->
  b_restart (fb_batch r) = true ->
  (forall pre w, writes w = true ->
     mem (fstate true (pre ++ w :: mid ++ [r]))
     = step (mem (fstate true (pre ++ [w]))) (fb_batch r)) /\
  mem (fstate true (mid ++ [r])) = step empty_state (fb_batch r).
Proof.
  intros mid r Hmid R. split.
  - intros pre w W. now apply restart_after_write.
  - now apply restart_without_write.
Qed.
Print Assumptions C15_restart_loses_exactly_unwritten_flushes.

(* (d) "Lose no traffic" for a given order of assign/write, without restart:
   the memory counts every non-internal record of every flush, and so does the
   file read back after a final successful write. *)
Definition C15_lose_no_traffic_with (assign_first : bool) : Prop :=
  forall fbs, batches_ok (map fb_batch fbs) -> no_restart (map fb_batch fbs) ->
    let y := fstate assign_first fbs in
    count_where everywhere (sE (mem y)) = nrec (map fb_batch fbs) everywhere /\
    (forall pre w, fbs = pre ++ [w] -> writes w = true ->
       count_where everywhere (sE (restore (disk y))) = nrec (map fb_batch fbs) everywhere).

Theorem C15_lose_no_traffic_with_failed_writes : C15_lose_no_traffic_with true.
Proof. exact lose_no_traffic_true. Qed.
Print Assumptions C15_lose_no_traffic_with_failed_writes.

(* three flushes of GET a/1 (2, 3 and 1 records); the write of the second fails *)
Definition fw_flush (rs : list rec) (restart fail : bool) : fbatch :=
  mkFB (mkBatch rs restart false (fun u => u) (fun u => u) (fun u => u) (fun u => u)) fail.
Definition fw_witness : list fbatch :=
  [ fw_flush [demo_rec [97; 47; 49] 200 1700000000123 []; demo_rec [97; 47; 49] 200 1700000001123 []]
             false false;
    fw_flush [demo_rec [97; 47; 49] 200 1700000002123 []; demo_rec [97; 47; 49] 201 1700000003123 [];
              demo_rec [97; 47; 49] 404 1700000004123 []] false true;
    fw_flush [demo_rec [97; 47; 49] 500 1700000005123 []] false false ].

(* The write-then-assign variant loses the flush whose write failed: 3, not 6. *)
Theorem C15_lose_no_traffic_write_then_assign_refuted : ~ C15_lose_no_traffic_with false.
Proof.
  intros F.
  assert (O : batches_ok (map fb_batch fw_witness)) by (vm_compute; repeat constructor; discriminate).
  assert (N : no_restart (map fb_batch fw_witness)) by (vm_compute; repeat constructor).
  destruct (F fw_witness O N) as [M _].
  vm_compute in M. discriminate M.
Qed.
Print Assumptions C15_lose_no_traffic_write_then_assign_refuted.

(* Non-vacuity.  The witness under the code as it is: Run reports the failed
   dump, memory and the file read back count all 6 records with all their
   status codes; under the variant both count 3 and the 201/404 are gone. *)
Example C15_fw_witness_runs :
  map run_result fw_witness = [RunOk; RunDumpError; RunOk] /\
  count_where everywhere (sE (mem (fstate true fw_witness))) = 6 /\
  count_where everywhere (sE (restore (disk (fstate true fw_witness)))) = 6 /\
  map snd (sES (mem (fstate true fw_witness))) = [3; 1; 1; 1] /\
  count_where everywhere (sE (mem (fstate false fw_witness))) = 3 /\
  count_where everywhere (sE (restore (disk (fstate false fw_witness)))) = 3 /\
  map snd (sES (mem (fstate false fw_witness))) = [2; 1] /\
  writes (fw_flush [demo_rec [97] 500 1700000005123 []] false false) = true.
Proof. vm_compute. repeat split; reflexivity. Qed.

(* a restart right after the failed write: the second flush is lost (inherent:
   the file never held it), the first — written — and the third are counted;
   a restart after the third flush loses nothing although a write failed *)
Definition fw_restart_early : list fbatch :=
  [ nth 0 fw_witness (fw_flush [] false false); nth 1 fw_witness (fw_flush [] false false);
    fw_flush [demo_rec [97; 47; 49] 500 1700000005123 []] true false ].
Definition fw_restart_late : list fbatch :=
  fw_witness ++ [fw_flush [] true false].

Example C15_fw_restart :
  length (survivors fw_restart_early) = 2%nat /\
  count_where everywhere (sE (mem (fstate true fw_restart_early))) = 3 /\
  nrec (survivors fw_restart_early) everywhere = 3 /\
  length (survivors fw_restart_late) = 4%nat /\
  count_where everywhere (sE (mem (fstate true fw_restart_late))) = 6 /\
  Forall (fun fb => writes fb = false) [nth 1 fw_witness (fw_flush [] false false)] /\
  b_restart (fb_batch (fw_flush [demo_rec [97; 47; 49] 500 1700000005123 []] true false)) = true.
Proof. vm_compute. repeat split; try reflexivity. repeat constructor. Qed.

(* ====================================================================== *)
(* 7. The persisted key (Keys.v).

   Nothing between the access log and the state file normalises a key: method,
   URL and consumer tag are held in memory byte for byte ("get", "GET" and
   " GET" are three endpoints) and the entry of the state file is named
   Method ++ ":::" ++ URL, read back by splitting at the FIRST ":::".  The
   round trip of section 3 rests on that function being injective on the keys
   the memory holds; this is proved here, not assumed. *)

(* pkey is injective on keys whose method has no ':' — whatever the URL (it may
   contain ":::" itself, start or end with ':') — and rkey inverts it.  Every key
   of a reachable state is such a key, so the file written from a reachable
   state has exactly one entry per in-memory entry (endpoints, and endpoints
   under every consumer tag; the tag itself is a JSON object key, verbatim),
   under pairwise distinct names. *)
Theorem C15_persisted_key_injective :
  (forall k1 k2, nocolon (fst k1) -> nocolon (fst k2) -> pkey k1 = pkey k2 -> k1 = k2) /\
  (forall k, nocolon (fst k) -> rkey (pkey k) = k) /\
  (forall bs, batches_ok bs ->
     let s := run bs in
     (forall k, holds_key s k -> nocolon (fst k)) /\
     NoDup (map fst (pE (persist s))) /\ NoDup (map fst (pC (persist s))) /\
     length (pE (persist s)) = length (sE s) /\ length (pC (persist s)) = length (sC s)).
Proof.
  split; [exact pkey_inj|]. split; [exact rkey_pkey|].
  intros bs H. cbn zeta. pose proof (wf_run bs H) as W.
  destruct (persist_entries (run bs) W) as (PE & PC & NE & NC).
  split; [intros k Hk; exact (wf_holds_nocolon _ k W Hk)|].
  split; [exact NE|]. split; [exact NC|].
  rewrite PE, PC, !map_length. split; reflexivity.
Qed.
Print Assumptions C15_persisted_key_injective.

(* The round trip holds for ANY way of naming the entries of the file that can
   be undone on the keys the state holds (distinct keys in every map): all
   keys, counts, status counts and sums come back, the time fields floored to
   the second.  [persist] / [restore] are the instance pkey / rkey. *)
Theorem C15_persist_roundtrip_any_invertible_key : forall pk rk s,
  nodup_state s -> (forall k, holds_key s k -> rk (pk k) = k) ->
  restore_with rk (persist_with pk s) = fl_state s.
Proof. exact restore_persist_with. Qed.
Print Assumptions C15_persist_roundtrip_any_invertible_key.

Example C15_persist_is_the_pkey_instance : forall s,
  persist_with pkey s = persist s /\ forall p, restore_with rkey p = restore p.
Proof. intros s. split; [reflexivity | intros p; reflexivity]. Qed.

(* Conversely: ANY naming that gives two distinct in-memory endpoints one entry
   of the file loses an endpoint and — request counts being positive, as they
   are in every reachable state — requests, WHATEVER the reader does: after the
   restart the endpoint map has fewer entries and a smaller total.  The same
   for two endpoints under one consumer tag in the per-consumer statistics. *)
Theorem C15_colliding_persisted_keys_lose_traffic : forall pk rk s,
  counts_positive s ->
  (forall k1 k2, In k1 (map fst (sE s)) -> In k2 (map fst (sE s)) -> k1 <> k2 -> pk k1 = pk k2 ->
     count_where everywhere (sE (restore_with rk (persist_with pk s)))
       < count_where everywhere (sE s) /\
     (length (sE (restore_with rk (persist_with pk s))) < length (sE s))%nat) /\
  (forall c k1 k2, In (c, k1) (map fst (sC s)) -> In (c, k2) (map fst (sC s)) -> k1 <> k2 ->
     pk k1 = pk k2 ->
     count_where everywhere (sC (restore_with rk (persist_with pk s)))
       < count_where everywhere (sC s) /\
     (length (sC (restore_with rk (persist_with pk s))) < length (sC s))%nat).
Proof.
  intros pk rk s [PE PC]. split.
  - intros k1 k2. now apply collision_loses_E.
  - intros c k1 k2. now apply collision_loses_C.
Qed.
Print Assumptions C15_colliding_persisted_keys_lose_traffic.

Theorem C15_reachable_counts_positive : forall bs, batches_ok bs -> counts_positive (run bs).
Proof. exact counts_positive_run. Qed.
Print Assumptions C15_reachable_counts_positive.

(* "The totals survive the write/read round trip" for a given naming of the
   entries, over the reachable states. *)
Definition C15_totals_survive_restart_with (pk : key -> str) (rk : str -> key) : Prop :=
  forall bs, batches_ok bs ->
    let s := run bs in let s' := restore_with rk (persist_with pk s) in
    count_where everywhere (sE s') = count_where everywhere (sE s) /\
    count_where everywhere (sC s') = count_where everywhere (sC s) /\
    sES s' = sES s /\ sCS s' = sCS s.

(* the code as it is *)
Theorem C15_totals_survive_restart : C15_totals_survive_restart_with pkey rkey.
Proof.
  intros bs H. cbn zeta. pose proof (wf_run bs H) as W.
  change (restore_with rkey (persist_with pkey (run bs))) with (restore (persist (run bs))).
  rewrite (restore_persist _ W).
  destruct (fl_state_totals (run bs)) as (A & B & _).
  cbn [fl_state sES sCS]. repeat apply conj; try reflexivity.
  - rewrite !count_where_psum. unfold agg_total in A. rewrite A.
    now destruct (psum acomb everywhere (sE (run bs))).
  - rewrite !count_where_psum. unfold agg_total in B. rewrite B.
    now destruct (psum acomb everywhere (sC (run bs))).
Qed.
Print Assumptions C15_totals_survive_restart.

(* the variant that writes the method in upper case: one URL requested as
   "get" (2 records) and as "GET" (3 records) — 5 requests before the restart,
   3 after it (the list order of the model makes "GET" the survivor; in the
   code Go's map order decides, one of the two is lost either way) *)
Theorem C15_totals_survive_restart_uppercased_method_refuted :
  ~ C15_totals_survive_restart_with pkey_upper rkey.
Proof.
  intros F.
  assert (O : batches_ok mixed_case) by (vm_compute; repeat constructor; discriminate).
  destruct (F mixed_case O) as (A & _).
  vm_compute in A. discriminate A.
Qed.
Print Assumptions C15_totals_survive_restart_uppercased_method_refuted.

(* Non-vacuity: the mixed-case history is a reachable state that holds the two
   spellings as two endpoints (also under the consumer tag); the hypotheses of
   the collision theorem hold for the upper-casing variant and not for pkey;
   with pkey all 5 requests and both endpoints come back. *)
Example C15_mixed_case_methods :
  map fst (sE (run mixed_case)) = [(mc_get, [97; 47; 49]); (mc_GET, [97; 47; 49])] /\
  map (fun e => a_count (snd e)) (sE (run mixed_case)) = [2; 3] /\
  pkey_upper (mc_get, [97; 47; 49]) = pkey_upper (mc_GET, [97; 47; 49]) /\
  pkey (mc_get, [97; 47; 49]) <> pkey (mc_GET, [97; 47; 49]) /\
  count_where everywhere (sE (restore (persist (run mixed_case)))) = 5 /\
  length (sE (restore (persist (run mixed_case)))) = 2%nat /\
  count_where everywhere (sE (restore_with rkey (persist_with pkey_upper (run mixed_case)))) = 3 /\
  length (sE (restore_with rkey (persist_with pkey_upper (run mixed_case)))) = 1%nat /\
  count_where everywhere (sC (restore_with rkey (persist_with pkey_upper (run mixed_case)))) = 3.
Proof. vm_compute. repeat split; try reflexivity. discriminate. Qed.

(* a URL that contains, starts with or ends with the delimiter, next to a
   plain one: six endpoints before and after *)
Example C15_delimiter_in_urls_roundtrip :
  let u := [104; 47; 97] in
  let s := mkState [((mc_GET, u ++ delim ++ [98]), mkAgg 1 0 0 0 0);
                    ((mc_GET, u ++ delim ++ [66]), mkAgg 2 0 0 0 0);
                    ((mc_GET, delim ++ u), mkAgg 3 0 0 0 0);
                    ((mc_GET, u ++ delim), mkAgg 4 0 0 0 0);
                    ((mc_GET, 58 :: u), mkAgg 5 0 0 0 0);
                    ((mc_GET, u), mkAgg 6 0 0 0 0)] [] [] [] [] in
  restore (persist s) = s /\ length (sE s) = 6%nat.
Proof. vm_compute. split; reflexivity. Qed.

(* the variant that reads the entry name back with an unbounded split
   (seeded change C15-12: strings.Split, parts[0] / parts[1]) cuts a URL at the
   first ":::" it contains: "a:::b" (2 records) and "a:::c" (3 records) both
   come back as "a" — 5 requests before the restart, 3 after it (the list order
   of the model makes the later entry the survivor; Go's map order in the code) *)
Theorem C15_totals_survive_restart_unbounded_split_refuted :
  ~ C15_totals_survive_restart_with pkey rkey_all.
Proof.
  intros F.
  assert (O : batches_ok delim_in_urls) by (vm_compute; repeat constructor; discriminate).
  destruct (F delim_in_urls O) as (A & _).
  vm_compute in A. discriminate A.
Qed.
Print Assumptions C15_totals_survive_restart_unbounded_split_refuted.

(* Non-vacuity: the history is a reachable state holding the two URLs as two
   endpoints; the code's reader brings back both and all 5 requests; the
   variant's reader agrees with the code's on names whose URL has no ":::" . *)
Example C15_delimiter_in_urls_history :
  map fst (sE (run delim_in_urls)) = [(mc_GET, dl_ab); (mc_GET, dl_ac)] /\
  map (fun e => a_count (snd e)) (sE (run delim_in_urls)) = [2; 3] /\
  restore (persist (run delim_in_urls)) = fl_state (run delim_in_urls) /\
  count_where everywhere (sE (restore (persist (run delim_in_urls)))) = 5 /\
  rkey_all (pkey (mc_GET, dl_ab)) = (mc_GET, [97]) /\
  rkey_all (pkey (mc_GET, dl_ac)) = (mc_GET, [97]) /\
  map fst (sE (restore_with rkey_all (persist_with pkey (run delim_in_urls)))) = [(mc_GET, [97])] /\
  count_where everywhere (sE (restore_with rkey_all (persist_with pkey (run delim_in_urls)))) = 3 /\
  restore_with rkey_all (persist_with pkey (run mixed_case)) = restore (persist (run mixed_case)).
Proof. vm_compute. repeat split; reflexivity. Qed.

(* ====================================================================== *)
(* 8. Keys that are not valid UTF-8 (Utf8.v, Entry.v).

   HAProxy logs header values raw, so method, URL, consumer tag and interceptor
   of a record as logged are arbitrary byte strings; the state file is JSON,
   which writes a byte that is not valid UTF-8 as U+FFFD.  The code (with
   patches/C15/fix-F-C15e.patch) therefore makes these four fields valid UTF-8
   where records enter discovery.Run ([sanitize] = strings.ToValidUTF8 with
   replacement U+FFFD), before the URL tree or any map sees them:
   [run_entry bs = run (map sanitize_batch bs)].  Every theorem of sections 1-7
   is about [run] on an arbitrary history, hence holds for the history
   [map sanitize_batch bs] of any logged history [bs] (its hypothesis
   [batches_ok] is inherited, below): statistics are those of the records with
   their keys read as text, and two spellings that read the same are COMBINED. *)

(* to_valid_utf8: the result is well-formed UTF-8; well-formed input is left
   alone (so it is idempotent, and decides well-formedness); no ':' appears. *)
Theorem C15_to_valid_utf8 : forall s,
  valid_utf8 (to_valid_utf8 s) /\
  (valid_utf8 s -> to_valid_utf8 s = s) /\
  to_valid_utf8 (to_valid_utf8 s) = to_valid_utf8 s /\
  (valid_utf8b s = true <-> valid_utf8 s) /\
  (nocolon s -> nocolon (to_valid_utf8 s)).
Proof.
  intros s. split; [apply to_valid_utf8_valid|]. split; [apply to_valid_utf8_id|].
  split; [apply to_valid_utf8_idem|]. split; [apply valid_utf8_iff | apply nocolon_to_valid].
Qed.
Print Assumptions C15_to_valid_utf8.

(* what Go's strings.ToValidUTF8(s, "�") gives (the same values come out of
   the real function on every run of the harness: corpus of suite stream):
   Latin-1 e-acute; a run of two invalid bytes -> ONE replacement; a truncated
   3-byte sequence; an overlong '/'; a surrogate (3 invalid bytes, one run);
   beyond U+10FFFF; two runs separated by a valid character; well-formed 2-,
   3-, 4-byte characters and U+FFFD itself are kept *)
Example C15_to_valid_utf8_examples :
  to_valid_utf8 [99; 97; 102; 233] = [99; 97; 102; 239; 191; 189] /\
  to_valid_utf8 [255; 254; 97] = [239; 191; 189; 97] /\
  to_valid_utf8 [97; 226; 130] = [97; 239; 191; 189] /\
  to_valid_utf8 [192; 175; 98] = [239; 191; 189; 98] /\
  to_valid_utf8 [237; 160; 128] = [239; 191; 189] /\
  to_valid_utf8 [244; 144; 128; 128; 47] = [239; 191; 189; 47] /\
  to_valid_utf8 [233; 97; 232] = [239; 191; 189; 97; 239; 191; 189] /\
  to_valid_utf8 [195; 169; 226; 130; 172; 240; 159; 152; 128; 239; 191; 189]
    = [195; 169; 226; 130; 172; 240; 159; 152; 128; 239; 191; 189] /\
  to_valid_utf8 [226; 130; 226; 130; 172] = [239; 191; 189; 226; 130; 172].
Proof. vm_compute. repeat split; reflexivity. Qed.

(* Sanitising touches nothing but keys that are not well-formed: a history whose
   key fields are all valid UTF-8 is processed exactly as before.  In general
   the sanitised history has well-formed key fields and still no ':' in a method. *)
Theorem C15_sanitising_changes_only_invalid_keys : forall bs,
  (recs_valid bs -> map sanitize_batch bs = bs /\ run_entry bs = run bs) /\
  recs_valid (map sanitize_batch bs) /\
  (batches_ok bs -> batches_ok (map sanitize_batch bs)) /\
  (oracle_valid bs -> oracle_valid (map sanitize_batch bs)).
Proof.
  intros bs. split.
  - intros H. pose proof (sanitize_batches_id bs H) as E. split; [exact E|].
    unfold run_entry. now rewrite E.
  - split; [apply recs_valid_sanitized|]. split; [apply batches_ok_sanitized|].
    apply oracle_valid_sanitized.
Qed.
Print Assumptions C15_sanitising_changes_only_invalid_keys.

(* Every string that names an entry of a reachable state (method, URL, consumer
   tag, interceptor type and version, in all five maps) is valid UTF-8 —
   provided the URL tree answers well-formed text for well-formed text
   ([oracle_valid]: its answers are made of parts of the URLs it was given). *)
Theorem C15_entry_keys_valid_utf8 : forall bs, batches_ok bs -> oracle_valid bs ->
  state_valid (run_entry bs) /\ wf_state (run_entry bs).
Proof.
  intros bs Ok O. split; [now apply state_valid_run_entry|].
  apply wf_run. now apply batches_ok_sanitized.
Qed.
Print Assumptions C15_entry_keys_valid_utf8.

(* Hence the JSON writer, whatever it does to ill-formed strings, leaves the
   file of a reachable state exactly as [persist] describes it, and the round
   trip of section 3 holds through it: every key, count, status count and sum
   comes back, the time fields floored to the second. *)
Theorem C15_roundtrip_through_json : forall js bs,
  json_ok js -> batches_ok bs -> oracle_valid bs ->
  let s := run_entry bs in
  json_p js (persist s) = persist s /\
  restore (json_p js (persist s)) = fl_state s /\
  count_where everywhere (sE (restore (json_p js (persist s)))) = count_where everywhere (sE s) /\
  count_where everywhere (sC (restore (json_p js (persist s)))) = count_where everywhere (sC s) /\
  sES (restore (json_p js (persist s))) = sES s /\ sCS (restore (json_p js (persist s))) = sCS s.
Proof.
  intros js bs J Ok O. cbn zeta.
  destruct (C15_entry_keys_valid_utf8 bs Ok O) as [V W].
  rewrite (json_persist js _ J V). split; [reflexivity|]. split; [now apply restore_persist|].
  exact (C15_totals_survive_restart (map sanitize_batch bs) (batches_ok_sanitized bs Ok)).
Qed.
Print Assumptions C15_roundtrip_through_json.

(* "The totals survive the round trip through the JSON file" for a pipeline
   [entry] and a JSON string function [js]. *)
Definition C15_totals_survive_json (entry : list batch -> state) (js : str -> str) : Prop :=
  forall bs, batches_ok bs -> oracle_valid bs ->
    count_where everywhere (sE (restore (json_p js (persist (entry bs)))))
    = count_where everywhere (sE (entry bs)).

Theorem C15_totals_survive_json_with_sanitising : forall js, json_ok js ->
  C15_totals_survive_json run_entry js.
Proof.
  intros js J bs Ok O.
  destruct (C15_roundtrip_through_json js bs J Ok O) as (_ & _ & A & _). exact A.
Qed.
Print Assumptions C15_totals_survive_json_with_sanitising.

(* Without sanitising (the code before fix-F-C15e) it fails for a JSON writer
   that replaces ill-formed bytes — [to_valid_utf8] is such a [json_ok]
   function: the URLs h/\xff (2 records) and h/\xfe (3 records) are two
   endpoints in memory and one entry "GET:::h/�" of the file: 5 requests
   before the restart, 3 after it. *)
Theorem C15_totals_survive_json_without_sanitising_refuted :
  json_ok to_valid_utf8 /\ ~ C15_totals_survive_json run to_valid_utf8.
Proof.
  split; [exact to_valid_utf8_id|]. intros F.
  assert (Ok : batches_ok non_utf8) by (vm_compute; repeat constructor; discriminate).
  assert (O : oracle_valid non_utf8).
  { constructor; [|constructor]. cbn. repeat split; intros u H; exact H. }
  specialize (F non_utf8 Ok O). vm_compute in F. discriminate F.
Qed.
Print Assumptions C15_totals_survive_json_without_sanitising_refuted.

(* Non-vacuity: as logged the history holds two URLs and a consumer tag that
   are not UTF-8; sanitised, the two URLs read the same and are one endpoint
   with all 5 requests and all 4 status codes, before and after the round trip
   through the replacing writer; the hypotheses of the theorems above hold. *)
Example C15_non_utf8_history :
  batches_ok non_utf8 /\
  valid_utf8b nu_a = false /\ valid_utf8b nu_b = false /\
  map (fun e => (fst e, a_count (snd e))) (sE (run non_utf8))
    = [(([71; 69; 84], nu_a), 2); (([71; 69; 84], nu_b), 3)] /\
  map (fun e => (fst e, a_count (snd e))) (sE (run_entry non_utf8))
    = [(([71; 69; 84], [104; 47; 239; 191; 189]), 5)] /\
  map (fun e => fst (fst e)) (sC (run_entry non_utf8)) = [[116; 239; 191; 189]] /\
  count_where everywhere (sE (restore (json_p to_valid_utf8 (persist (run_entry non_utf8))))) = 5 /\
  map snd (sES (restore (json_p to_valid_utf8 (persist (run_entry non_utf8))))) = [2; 1; 1; 1] /\
  count_where everywhere (sE (restore (json_p to_valid_utf8 (persist (run non_utf8))))) = 3.
Proof.
  split; [vm_compute; repeat constructor; discriminate|]. vm_compute. repeat split; reflexivity.
Qed.

(* ====================================================================== *)
(* 9. The engine-notification step of discovery.Run (Notify.v).

   Before it aggregates a batch, Run tells the engine (PUT /on_haproxy_error on
   127.0.0.1:ENGINE_ADMIN_PORT) which transactions of the batch HAProxy answered
   itself (non-internal records with a status of HaproxyInternalErrors).  The
   request is an effect on the outside world whose outcome the environment
   chooses: [nbs : list nbatch] is a history of section 6 (any stream, any
   batching, any set of failing writes, a restart before any flush, any oracle)
   in which every flush also carries "ENGINE_ADMIN_PORT is set" and an outcome
   [nout]: answered 200 / answered something else / connection refused /
   connection lost before the reply.  [nstate false] is the code as it is (a
   failed notification is logged); [nstate true] the variant that returns the
   transport error from Run before aggregating. *)

(* (a) Frame.  The outcome of the notification — and whether the admin port is
   configured at all — never changes the statistics: the (memory, file) state
   after every flush and what Run returns are those of section 6 for the same
   flushes, hence two histories that differ only in the notification dimension
   are indistinguishable, flush by flush. *)
Theorem C15_notification_outcome_never_changes_the_statistics : forall nbs,
  nstate false nbs = fstate true (map nb_f nbs) /\
  ntrace false sys0 nbs = ftrace true sys0 (map nb_f nbs) /\
  map (nrun_result false) nbs = map (fun fb => nres_of (run_result fb)) (map nb_f nbs) /\
  (forall nbs', map nb_f nbs = map nb_f nbs' ->
     nstate false nbs = nstate false nbs' /\
     ntrace false sys0 nbs = ntrace false sys0 nbs' /\
     map (nrun_result false) nbs = map (nrun_result false) nbs').
Proof.
  intros nbs. split; [exact (nstate_false nbs)|]. split; [exact (ntrace_false nbs sys0)|].
  split; [exact (nresults_false nbs)|]. exact (frame nbs).
Qed.
Print Assumptions C15_notification_outcome_never_changes_the_statistics.

(* spelled out: whatever the engine's admin port did, the in-memory request
   counts add up to the number of non-internal records of all surviving flushes
   (section 6: only a restart drops flushes, those not yet written), per
   endpoint the count is the sum of its status counts, per status the counts add
   up to the records with that status, the duration sums are the sums of the
   durations, the per-consumer counts add up too; memory is [run] of the
   surviving flushes, so every theorem of sections 1-5 applies to it *)
Theorem C15_conservation_under_notification_outcomes : forall nbs,
  let fbs := map nb_f nbs in
  batches_ok (map fb_batch fbs) ->
  let s := mem (nstate false nbs) in let bs := survivors fbs in
  s = run bs /\
  disk (nstate false nbs) = persist (run (durable fbs)) /\
  count_where everywhere (sE s) = nrec bs everywhere /\
  (forall k, cnt_of (mfind key_eqb k (sE s))
             = sum_where (fun ks => key_eqb (fst ks) k) (sES s)) /\
  (forall st, sum_where (fun ks => snd ks =? st) (sES s)
              = nrec bs (fun r => r_status r =? st)) /\
  dsum_where everywhere (sE s) = fold_right Z.add 0 (map r_dur (all_accepted bs)) /\
  count_where everywhere (sC s) = nrec bs everywhere /\
  (no_restart (map fb_batch fbs) -> bs = map fb_batch fbs).
Proof.
  intros nbs. cbn zeta. intros H. rewrite (nstate_false nbs).
  destruct (effective (map nb_f nbs)) as [M D].
  split; [exact M|]. split; [exact D|].
  exact (C15_conservation_under_failed_writes (map nb_f nbs) H).
Qed.
Print Assumptions C15_conservation_under_notification_outcomes.

(* (b) When the request is made, and what each variant does with its outcome:
   a report is sent exactly when the port is set and the batch holds a
   non-internal record with an HAProxy-internal status; the code as it is never
   aborts and returns what section 6 says; the variant aborts exactly when such a
   report meets a transport failure, and then leaves memory and file as the
   (possible) restart left them. *)
Theorem C15_notification_step : forall v y nb,
  (reports nb = true <->
     nb_port nb = true /\
     exists r, In r (b_recs (fb_batch (nb_f nb))) /\ r_internal r = false /\
               In (r_status r) haproxy_internal_errors) /\
  aborts false nb = false /\
  nrun_result false nb = nres_of (run_result (nb_f nb)) /\
  (aborts v nb = true <-> v = true /\ reports nb = true /\ transport_error (nb_out nb) = true) /\
  (aborts v nb = true ->
     nrun_result v nb = NRunNotifyError /\
     disk (nstep v y nb) = disk y /\
     mem (nstep v y nb) = (if b_restart (fb_batch (nb_f nb)) then restore (disk y) else mem y)) /\
  (aborts v nb = false -> nstep v y nb = fstep true y (nb_f nb)).
Proof.
  intros v y nb. split.
  { unfold reports. rewrite andb_true_iff, existsb_exists. split.
    - intros [P [r [I F]]]. split; [exact P|]. exists r. split; [exact I|].
      unfold failed_txn in F. apply andb_true_iff in F. destruct F as [F1 F2].
      split; [now apply negb_true_iff in F1|].
      apply existsb_exists in F2. destruct F2 as [c [Ic Ec]].
      apply Z.eqb_eq in Ec. now rewrite Ec.
    - intros [P [r [I [N S]]]]. split; [exact P|]. exists r. split; [exact I|].
      unfold failed_txn. rewrite N. cbn [negb andb]. apply existsb_exists.
      exists (r_status r). split; [exact S | apply Z.eqb_refl]. }
  split; [reflexivity|]. split; [reflexivity|]. split.
  { unfold aborts. rewrite !andb_true_iff. tauto. }
  split.
  - intros A. unfold nrun_result, nstep. rewrite A. repeat split; reflexivity.
  - intros A. unfold nstep. now rewrite A.
Qed.
Print Assumptions C15_notification_step.

(* (c) The variant, for every history: it is the code as it is run on the
   history in which every aborted flush has lost its records ([effective_flush],
   [blank]) — it loses exactly the batches whose report met a transport failure,
   ordinary traffic flushed with them included — and it agrees with the code as
   it is on every history without such a flush. *)
Theorem C15_abort_variant_loses_exactly_the_aborted_batches : forall v nbs,
  nstate v nbs = fstate true (map (effective_flush v) nbs) /\
  (forall nb, effective_flush v nb = (if aborts v nb then blank (nb_f nb) else nb_f nb)) /\
  (forall fb, b_recs (fb_batch (blank fb)) = [] /\
              b_restart (fb_batch (blank fb)) = b_restart (fb_batch fb)) /\
  (Forall (fun nb => aborts true nb = false) nbs -> nstate true nbs = nstate false nbs).
Proof.
  intros v nbs. split; [exact (nstate_effective v nbs)|].
  split; [reflexivity|]. split; [intros fb; split; reflexivity|].
  exact (variant_agrees_without_transport_errors nbs).
Qed.
Print Assumptions C15_abort_variant_loses_exactly_the_aborted_batches.

(* (d) "Lose no traffic" in the presence of the notification step, without
   restart: whatever the admin port did during whichever flush, the memory
   counts every non-internal record of every flush and so does the file read
   back after a final successful write. *)
Definition C15_lose_no_traffic_with_notification (abort : bool) : Prop :=
  forall nbs, let fbs := map nb_f nbs in
    batches_ok (map fb_batch fbs) -> no_restart (map fb_batch fbs) ->
    let y := nstate abort nbs in
    count_where everywhere (sE (mem y)) = nrec (map fb_batch fbs) everywhere /\
    (forall pre w, nbs = pre ++ [w] -> writes (nb_f w) = true ->
       count_where everywhere (sE (restore (disk y))) = nrec (map fb_batch fbs) everywhere).

Theorem C15_lose_no_traffic_whatever_the_notification_does :
  C15_lose_no_traffic_with_notification false.
Proof. exact lose_no_traffic_notify. Qed.
Print Assumptions C15_lose_no_traffic_whatever_the_notification_does.

(* three flushes while ENGINE_ADMIN_PORT is set: GET a/1 200, 503, 201 with the
   engine up; 200, 502, 200 while nothing listens on the admin port; 200, 404
   with the engine up again (nothing to report in the last one) *)
Definition nw_flush (rs : list rec) (port : bool) (o : nout) : nbatch :=
  mkNB (fw_flush rs false false) port o.
Definition nw_recs2 : list rec :=
  [demo_rec [97; 47; 49] 200 1700000004123 []; demo_rec [97; 47; 49] 502 1700000005123 [116];
   demo_rec [97; 47; 50] 200 1700000006123 [116]].
Definition nw_witness_with (port : bool) (o : nout) : list nbatch :=
  [ nw_flush [demo_rec [97; 47; 49] 200 1700000001123 []; demo_rec [97; 47; 49] 503 1700000002123 [];
              demo_rec [97; 47; 49] 201 1700000003123 []] port NDelivered;
    nw_flush nw_recs2 port o;
    nw_flush [demo_rec [97; 47; 50] 200 1700000007123 []; demo_rec [97; 47; 49] 404 1700000008123 []]
             port NDelivered ].
Definition nw_witness : list nbatch := nw_witness_with true NUnreachable.

(* The variant loses the whole second batch (the 502 and the two ordinary
   records flushed with it): 5, not 8. *)
Theorem C15_lose_no_traffic_abort_on_failed_notification_refuted :
  ~ C15_lose_no_traffic_with_notification true.
Proof.
  intros F.
  assert (O : batches_ok (map fb_batch (map nb_f nw_witness)))
    by (vm_compute; repeat constructor; discriminate).
  assert (N : no_restart (map fb_batch (map nb_f nw_witness))) by (vm_compute; repeat constructor).
  destruct (F nw_witness O N) as [M _].
  vm_compute in M. discriminate M.
Qed.
Print Assumptions C15_lose_no_traffic_abort_on_failed_notification_refuted.

(* Non-vacuity.  Under the code as it is the witness keeps all 8 records in
   memory and in the file read back, Run returns nil three times and a report is
   made during the first two flushes; under the variant Run fails in the second
   flush, memory and file count 5 and the 502 is gone.  The variant is harmless
   when the engine answers (200 or 404), when the connection is lost in a flush
   with nothing to report, or when the port is not configured; a lost connection
   is as bad as a refused one.  With a restart after the aborted flush the loss
   survives it. *)
Example C15_nw_witness_runs :
  map reports nw_witness = [true; true; false] /\
  map (fun nb => length (reported nb)) nw_witness = [1; 1; 0]%nat /\
  map (nrun_result false) nw_witness = [NRunOk; NRunOk; NRunOk] /\
  count_where everywhere (sE (mem (nstate false nw_witness))) = 8 /\
  count_where everywhere (sE (restore (disk (nstate false nw_witness)))) = 8 /\
  map (nrun_result true) nw_witness = [NRunOk; NRunNotifyError; NRunOk] /\
  count_where everywhere (sE (mem (nstate true nw_witness))) = 5 /\
  count_where everywhere (sE (restore (disk (nstate true nw_witness)))) = 5 /\
  count_where everywhere (sE (mem (nstate true (nw_witness_with true NRejected)))) = 8 /\
  count_where everywhere (sE (mem (nstate true (nw_witness_with true NDelivered)))) = 8 /\
  count_where everywhere (sE (mem (nstate true (nw_witness_with false NUnreachable)))) = 8 /\
  count_where everywhere (sE (mem (nstate true (nw_witness_with true NBroken)))) = 5 /\
  count_where everywhere
    (sE (mem (nstate true (nw_witness ++ [nw_flush [] true NBroken])))) = 5 /\
  count_where everywhere
    (sE (mem (nstate true (nw_witness ++ [mkNB (fw_flush [] true false) true NDelivered])))) = 5 /\
  count_where everywhere
    (sE (mem (nstate false (nw_witness ++ [mkNB (fw_flush [] true false) true NDelivered])))) = 8 /\
  Forall (fun nb => aborts true nb = false) (nw_witness_with true NRejected) /\
  map (aborts true) nw_witness = [false; true; false].
Proof. vm_compute. repeat split; try reflexivity; repeat constructor. Qed.

Example C15_nw_witness_status_counts :
  map (fun e => (snd (fst e), snd e)) (sES (mem (nstate false nw_witness)))
    = [(200, 2); (503, 1); (201, 1); (502, 1); (200, 2); (404, 1)] /\
  map (fun e => (snd (fst e), snd e)) (sES (mem (nstate true nw_witness)))
    = [(200, 1); (503, 1); (201, 1); (200, 1); (404, 1)].
Proof. vm_compute. split; reflexivity. Qed.

(* ====================================================================== *)
(* 10. Which tree groups the records of a flush (Settle.v).

   ConvergeAggregation first inserts EVERY URL of the batch into the URL tree
   (common.NormalizeTree) — whatever the aggregation holds, also when it is
   empty — and only then are the records grouped (NormalizeURL = Insert, then
   Lookup, record by record).  For every tree that keeps what it holds (a URL
   just inserted is held, stays held, and inserting a held URL changes nothing),
   every aggregation, every list of stored keys that is re-normalised in
   between and every batch: every record of the flush is filed under the key the
   tree gives its URL at the END of that flush.  So within one flush no record
   is grouped by a tree that has not yet seen the rest of the batch; the
   batch-dependent keys of finding F-C15 come only from re-keying aggregates
   filed by EARLIER flushes (and from a tree that does not keep what it holds:
   the real tree is observed to meet the conclusion on every flush without a
   re-keying pass, and to miss it in about 2 of 10 000 flushes with one — the
   pass inserts already-normalised keys as if they were URLs; see Settle.v).
   The harness observes the conclusion on every flush (suite "settle"), and the
   monitor's classifier separates a flush that grouped before the tree had
   been given the whole batch and is not settled (signature
   batch-dependence:flush-grouped-before-tree-settled) from F-C15. *)
(* READ THIS WITH THE STATEMENT.  The three premises about the tree ([stable]:
   a URL just inserted is held / stays held / re-inserting it returns the same
   tree) are hypotheses INSIDE [C15_grouping_settled_with]; they are discharged
   for the toy tree of Settle.v only ([C15_toy_tree_flushes]).  The real
   urltree is not modelled and the premises are not verified for it (props
   `assumptions`).  The statement quantifies over every [olds]; for the real
   tree the case [olds <> []] (a flush with a re-keying pass) is the one where
   the conclusion is observed to FAIL (about 2 flushes in 10 000), so there a
   premise is false for the real tree ([C15_tree_that_moves_on_reinsert_is_not_settled]
   shows what a failing third premise does).  What suite "settle" demands of
   the code is the case [olds = []]: [C15_grouping_settled_without_rekeying].
   The suite compares the number of leading inserts ([pre_normalised]) and an
   observed count of unsettled look-ups, and (Extension 3, below:
   [C15_accepted_settle_case_is_settled]) evaluates [flush_tree] / [settled]
   over the recorded end-of-flush oracle against the recorded tree calls of
   every flush in which the tree reported no convergence. *)
Theorem C15_grouping_settled : C15_grouping_settled_with false.
Proof. exact grouping_settled_head. Qed.
Print Assumptions C15_grouping_settled.

(* The case the suite matches: a flush without a re-keying pass. *)
Theorem C15_grouping_settled_without_rekeying : C15_grouping_settled_no_rekeying_with false.
Proof.
  intros tree insert lookup stable H1 H2 H3 e t urls urlsC Hincl.
  exact (C15_grouping_settled tree insert lookup stable H1 H2 H3 e t [] urls urlsC Hincl).
Qed.
Print Assumptions C15_grouping_settled_without_rekeying.

(* the seeded variant is refuted in that case already (the witness has no
   re-keying pass) *)
Theorem C15_grouping_settled_without_rekeying_skip_on_empty_refuted :
  ~ C15_grouping_settled_no_rekeying_with true.
Proof.
  intros H.
  specialize (H toy toy_insert toy_lookup toy_stable toy_stable_insert toy_stable_mono
                toy_stable_noop true [] toy_urls toy_urls (incl_refl _)).
  vm_compute in H. destruct H as [ H _ ]. discriminate H.
Qed.
Print Assumptions C15_grouping_settled_without_rekeying_skip_on_empty_refuted.

(* The seeded variant "the convergence step is skipped while nothing has been
   aggregated yet" groups the first batch by a tree that converges in the middle
   of the grouping. *)
Theorem C15_grouping_settled_skip_on_empty_refuted : ~ C15_grouping_settled_with true.
Proof. exact grouping_settled_skip_refuted. Qed.
Print Assumptions C15_grouping_settled_skip_on_empty_refuted.

(* ... and it differs from the code only on a flush that meets an empty
   aggregation: any other flush makes the same tree calls. *)
Theorem C15_skip_on_empty_differs_only_on_empty_state :
  forall tree insert lookup t olds urls urlsC,
    flush_tree tree insert lookup true false t olds urls urlsC
    = flush_tree tree insert lookup false false t olds urls urlsC.
Proof. exact skip_only_on_empty. Qed.
Print Assumptions C15_skip_on_empty_differs_only_on_empty_state.

(* Non-vacuity: the toy tree (set of inserted URLs; three of them make every URL
   read as one parameter) meets the three hypotheses; one flush of three sibling
   URLs on an empty aggregation: the code files all three under the parameter,
   the variant files the first two under their raw URLs although the tree, when
   the flush ends, gives the parameter for them. *)
Example C15_toy_tree_flushes :
  (forall t u, toy_stable (toy_insert t u) u) /\
  (forall t u v, toy_stable t u -> toy_stable (toy_insert t v) u) /\
  (forall t u, toy_stable t u -> toy_insert t u = t) /\
  flush_tree toy toy_insert toy_lookup false true [] [] toy_urls toy_urls
    = (toy_urls, [toy_param; toy_param; toy_param], [toy_param; toy_param; toy_param]) /\
  flush_tree toy toy_insert toy_lookup true true [] [] toy_urls toy_urls
    = (toy_urls, [[49]; [50]; toy_param], [toy_param; toy_param; toy_param]).
Proof.
  split; [ exact toy_stable_insert | ].
  split; [ exact toy_stable_mono | ].
  split; [ exact toy_stable_noop | ].
  split; apply toy_flushes.
Qed.

(* The third premise is needed, also without a re-keying pass: a tree that
   remembers every insert (also of a URL it has) and whose look-up depends on
   the number of inserts meets the first two premises, not the third, and one
   flush of ONE URL on it is not settled (grouped as "1" by endpoint; the tree
   answers the parameter for it when the flush ends). *)
Example C15_tree_that_moves_on_reinsert_is_not_settled :
  (forall t u, bump_stable (bump_insert t u) u) /\
  (forall t u v, bump_stable t u -> bump_stable (bump_insert t v) u) /\
  ~ (forall t u, bump_stable t u -> bump_insert t u = t) /\
  flush_tree toy bump_insert toy_lookup false true [] [] [[49]] [[49]]
    = ([[49]; [49]; [49]], [[49]], [toy_param]) /\
  ~ settled toy toy_lookup [[49]] [[49]]
      (flush_tree toy bump_insert toy_lookup false true [] [] [[49]] [[49]]).
Proof.
  unfold bump_stable, bump_insert.
  split; [ intros t u; apply in_or_app; right; left; reflexivity | ].
  split; [ intros t u v Hs; apply in_or_app; left; exact Hs | ].
  split; [ intros H; specialize (H [[49]] [49] (or_introl eq_refl)); cbn in H; discriminate H | ].
  split; [ reflexivity | ].
  vm_compute. intros [ H _ ]. discriminate H.
Qed.

(* Suite "settle", Extension 3 (SettleCalls.v): for every flush WITHOUT a
   re-keying pass the harness records the calls the real code made on the URL
   tree one by one (InsertWithConvergenceIndication u / Insert u / Lookup u with
   the key it got) and, for every URL of those calls, the key the real tree
   gives once discovery.Run has returned (the recorded oracle).  [run_settle_calls]
   evaluates [flush_tree] and its call-by-call reading [flush_calls] on the same
   batch (URLs and consumer tags recomputed from the records as logged) over the
   ORACLE TREE (look-up = the recorded oracle, no insert moves it) and accepts
   the flush when (a) the recorded calls are exactly the model's — kinds, URLs,
   order and every look-up answer — and (b) [settled] holds of the keys the real
   look-ups returned.  An accepted case therefore satisfies, flush by flush, the
   conclusion of [C15_grouping_settled_without_rekeying] for the recorded
   oracle, and the real code grouped every record under the key its URL has at
   the end of the flush.  (Stated over the decoded case: [run_settle_calls k] is
   [first_bad_drun runs 0] for [decode_settle k = Some runs], by definition; the
   wire-level form is Lemma [accepted_settle_case] — the decoder works on
   primitive 63-bit integers, which Print Assumptions lists.)  The premises of
   that theorem hold of the oracle tree
   trivially ([oracle_tree_premises]); what the suite adds is that the real
   tree, seen through its calls, behaved like the oracle tree in that flush.
   Still not covered: flushes with a re-keying pass (finding F-C15), and the
   real urltree itself is not modelled. *)
Theorem C15_accepted_settle_case_is_settled : forall runs : list (list dflush),
  first_bad_drun runs 0 = None ->
  forall r, In r runs -> forall f, In f r -> df_rekeyed f = false ->
    let urls := df_urls f in
    let urlsC := df_urlsC f in
    let r := flush_tree otree oinsert olookup false (df_empty f) (df_oracle f) [] urls urlsC in
    incl urlsC urls /\
    df_calls f = flush_calls otree oinsert olookup false (df_empty f) (df_oracle f) [] urls urlsC /\
    (df_labE f = snd (fst r) /\ df_labC f = snd r) /\
    settled otree olookup urls urlsC r /\
    settled otree olookup urls urlsC (fst (fst r), df_labE f, df_labC f).
Proof.
  intros runs H r Hr f Hf Hrk.
  apply (accepted_flush_settled C15_grouping_settled_without_rekeying); [ | exact Hrk ].
  exact (first_bad_drun_none _ _ H r Hr f Hf).
Qed.
Print Assumptions C15_accepted_settle_case_is_settled.

(* [flush_calls] is [flush_tree] read call by call, for every tree: the keys its
   look-ups return are the labels of [flush_tree] (after those of the re-keying
   pass), and the URLs it hands to the tree, folded into the start tree, give
   the final tree of [flush_tree] *)
Theorem C15_flush_calls_read_flush_tree :
  forall (tree : Type) (insert : tree -> str -> tree) (lookup : tree -> str -> str)
         (sk e : bool) (t : tree) (olds urls urlsC : list str),
    let r := flush_tree tree insert lookup sk e t olds urls urlsC in
    let cs := flush_calls tree insert lookup sk e t olds urls urlsC in
    keys_of cs = snd (normalize_pass tree insert lookup
                        (normalize_tree tree insert t (pre_normalised sk e urls)) olds)
                 ++ snd (fst r) ++ snd r /\
    inserted_of cs = pre_normalised sk e urls ++ olds ++ urls ++ urlsC /\
    fst (fst r) = fold_left insert (inserted_of cs) t.
Proof.
  intros tree insert lookup sk e t olds urls urlsC. cbn zeta.
  split; [ apply flush_calls_keys | ]. split; [ apply flush_calls_inserted | apply flush_tree_final ].
Qed.
Print Assumptions C15_flush_calls_read_flush_tree.

(* A case of the suite in its wire format: records GET a (no tag), b (tag t)
   and an internal one; one flush on the empty aggregation; the tree was given a
   and b first, then grouped a, b by endpoint and b, a by consumer (tag t met
   first), every look-up answering p, which is what it answers when the flush
   ends: accepted.  The same flush with the first look-up answering the raw URL
   a (grouped before the tree had settled), with the leading inserts missing
   (seeded change C15-9), or with a consumer order that is not the one seen:
   rejected. *)
Example C15_settle_case_accepted_and_rejected :
  let head := [6; 1;97; 1;98; 1;112; 0; 3;78;47;65; 1;116;  3; 0;3;0; 1;5;0; 0;5;1;  1; 1]%uint63 in
  let oracle_hint h := ([2; 2097152; 2097153; 2] ++ h)%uint63 in
  let good := (head ++ [3;1;0;2;0; 10; 0;4; 1;8388610;5;8388614; 5;8388614;1;8388610]
                    ++ oracle_hint [5; 4])%uint63 in
  let early := (head ++ [3;1;0;2;0; 10; 0;4; 1;2;5;8388614; 5;8388614;1;8388610]
                     ++ oracle_hint [5; 4])%uint63 in
  let skipped := (head ++ [3;1;0;0;0; 8; 1;8388610;5;8388614; 5;8388614;1;8388610]
                       ++ oracle_hint [5; 4])%uint63 in
  let order := (head ++ [3;1;0;2;0; 10; 0;4; 1;8388610;5;8388614; 5;8388614;1;8388610]
                     ++ oracle_hint [4; 5])%uint63 in
  run_settle_calls good = None /\
  (exists f, decode_settle good = Some [[f]] /\ df_rekeyed f = false /\
             df_urls f = [[97]; [98]] /\ df_urlsC f = [[98]; [97]] /\
             df_labE f = [[112]; [112]] /\ df_labC f = [[112]; [112]]) /\
  run_settle_calls early <> None /\
  run_settle_calls skipped <> None /\
  run_settle_calls order <> None.
Proof.
  vm_compute. split; [ reflexivity | ]. split.
  - eexists. repeat split; reflexivity.
  - repeat split; discriminate.
Qed.

(* Status codes are used as logged: a record with HAProxy's placeholder -1 (or
   0, 99, 600, 999) is counted under that value like any other, so the request
   count of an endpoint is the sum of its status counts for such records too
   (this is an instance of C15_conservation, which quantifies over all Z). *)
Example C15_non_http_status_values_are_counted :
  let r st := mkRec [71] [104] st 1 2 5 [] [] false in
  let s := run [mkBatch [r 200; r (-1); r 0; r (-1); r 999; r 600; r 99] false false
                        (fun u => u) (fun u => u) (fun u => u) (fun u => u)] in
  map (fun e => a_count (snd e)) (sE s) = [7] /\
  map (fun e => (snd (fst e), snd e)) (sES s)
    = [(200, 1); (-1, 2); (0, 1); (999, 1); (600, 1); (99, 1)] /\
  map (fun e => (snd (fst e), snd e)) (sES (restore (persist s)))
    = [(200, 1); (-1, 2); (0, 1); (999, 1); (600, 1); (99, 1)] /\
  map (fun z => zst (Uint63.of_Z z)) [200; 0; 999; 2305843009213693953] = [200; 0; 999; -1].
Proof. vm_compute. repeat split. Qed.

(* "request count = sum of the status counts, and every status value is
   accounted for" for the pipeline followed by [post] (the identity = the code) *)
Definition C15_count_is_status_sum_with (post : state -> state) : Prop :=
  forall bs, batches_ok bs ->
    let s := post (run bs) in
    (forall k, cnt_of (mfind key_eqb k (sE s))
               = sum_where (fun ks => key_eqb (fst ks) k) (sES s)) /\
    (forall st, sum_where (fun ks => snd ks =? st) (sES s)
                = nrec bs (fun r => r_status r =? st)).

Theorem C15_count_is_status_sum : C15_count_is_status_sum_with (fun s => s).
Proof.
  intros bs H. cbn zeta.
  destruct (C15_conservation bs H) as (_ & _ & A & B & _). split; [ exact A | exact B ].
Qed.
Print Assumptions C15_count_is_status_sum.

(* the variant that leaves status values outside 100..599 out of the status
   counts (seeded change C15-10; [drop_non_http], Keys.v): 7 requests, status
   counts adding up to 1 *)
Theorem C15_count_is_status_sum_non_http_left_out_refuted :
  ~ C15_count_is_status_sum_with drop_non_http.
Proof.
  intros F.
  assert (O : batches_ok odd_statuses) by (vm_compute; repeat constructor; discriminate).
  destruct (F odd_statuses O) as (A & _).
  specialize (A ([71], [104])). vm_compute in A. discriminate A.
Qed.
Print Assumptions C15_count_is_status_sum_non_http_left_out_refuted.

Example C15_odd_statuses_history :
  map (fun e => a_count (snd e)) (sE (run odd_statuses)) = [7] /\
  map (fun e => (snd (fst e), snd e)) (sES (run odd_statuses))
    = [(200, 1); (-1, 2); (0, 1); (999, 1); (600, 1); (99, 1)] /\
  map (fun e => a_count (snd e)) (sE (drop_non_http (run odd_statuses))) = [7] /\
  map (fun e => (snd (fst e), snd e)) (sES (drop_non_http (run odd_statuses))) = [(200, 1)] /\
  drop_non_http (run demo) = run demo.
Proof. vm_compute. repeat split; reflexivity. Qed.
