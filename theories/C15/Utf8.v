(* C15 — strings.ToValidUTF8(s, "�") on byte lists (definitions only).

   Where records enter discovery.Run (filterOutInternalRecords,
   withValidUTF8Keys — patches/C15/fix-F-C15e.patch) the four fields that name
   an aggregate (method, URL, consumer tag, interceptor) are made valid UTF-8:
   the state file is JSON, and a byte that is not valid UTF-8 cannot be written
   to it as itself.

   Go, strings.ToValidUTF8 (main loop; the first loop only finds the valid
   prefix, which the main loop would copy unchanged):
     at each position: a byte < 0x80 is copied; otherwise
     utf8.DecodeRuneInString — a well-formed sequence of 2, 3 or 4 bytes
     (tables first[] / acceptRanges[] of unicode/utf8: lead byte C2..DF, E0..EF,
     F0..F4, second byte in the range the lead byte accepts, further bytes
     80..BF; enough bytes left) is copied; anything else is ONE invalid byte
     (width 1), and a maximal run of invalid bytes is replaced by ONE
     replacement string EF BF BD. *)
From Coq Require Import List ZArith Bool.
Import ListNotations.
Open Scope Z_scope.

Definition inr (lo hi c : Z) : bool := (lo <=? c) && (c <=? hi).
Definition cont (c : Z) : bool := inr 128 191 c.                    (* locb..hicb *)

(* lead byte s1 (C2..DF), accept range 0 *)
Definition is2 (c c2 : Z) : bool := inr 194 223 c && cont c2.

(* E0: s2 (A0..BF); E1..EC, EE, EF: s3 (80..BF); ED: s4 (80..9F) *)
Definition is3 (c c2 c3 : Z) : bool :=
  ((c =? 224) && inr 160 191 c2
   || (inr 225 236 c || inr 238 239 c) && cont c2
   || (c =? 237) && inr 128 159 c2)
  && cont c3.

(* F0: s5 (90..BF); F1..F3: s6 (80..BF); F4: s7 (80..8F) *)
Definition is4 (c c2 c3 c4 : Z) : bool :=
  ((c =? 240) && inr 144 191 c2
   || inr 241 243 c && cont c2
   || (c =? 244) && inr 128 143 c2)
  && cont c3 && cont c4.

Definition repl : list Z := [239; 191; 189].                        (* U+FFFD *)

(* [inv]: the previous byte belonged to an invalid sequence (its replacement
   has been written already) *)
Fixpoint tv (inv : bool) (s : list Z) : list Z :=
  match s with
  | [] => []
  | c :: t =>
      if c <? 128 then c :: tv false t
      else
        let bad := (if inv then [] else repl) ++ tv true t in
        match t with
        | c2 :: t2 =>
            if is2 c c2 then c :: c2 :: tv false t2
            else
              match t2 with
              | c3 :: t3 =>
                  if is3 c c2 c3 then c :: c2 :: c3 :: tv false t3
                  else
                    match t3 with
                    | c4 :: t4 =>
                        if is4 c c2 c3 c4 then c :: c2 :: c3 :: c4 :: tv false t4 else bad
                    | [] => bad
                    end
              | [] => bad
              end
        | [] => bad
        end
  end.

Definition to_valid_utf8 (s : list Z) : list Z := tv false s.

(* well-formed UTF-8: a concatenation of one-byte characters and well-formed
   sequences of 2, 3, 4 bytes *)
Inductive valid_utf8 : list Z -> Prop :=
| v_nil : valid_utf8 []
| v_1 c s : c <? 128 = true -> valid_utf8 s -> valid_utf8 (c :: s)
| v_2 c c2 s : is2 c c2 = true -> valid_utf8 s -> valid_utf8 (c :: c2 :: s)
| v_3 c c2 c3 s : is3 c c2 c3 = true -> valid_utf8 s -> valid_utf8 (c :: c2 :: c3 :: s)
| v_4 c c2 c3 c4 s : is4 c c2 c3 c4 = true -> valid_utf8 s -> valid_utf8 (c :: c2 :: c3 :: c4 :: s).

(* decided by: sanitising changes nothing (Utf8Proofs.v, valid_utf8_iff) *)
Fixpoint bytes_eqb (a b : list Z) : bool :=
  match a, b with
  | [], [] => true
  | x :: a', y :: b' => (x =? y) && bytes_eqb a' b'
  | _, _ => false
  end.
Definition valid_utf8b (s : list Z) : bool := bytes_eqb (to_valid_utf8 s) s.
