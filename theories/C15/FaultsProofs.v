(* C15 — lemmas about the runner/state layer with failing writes (Faults.v). *)
From Coq Require Import List ZArith Bool Lia.
From Verif Require Import C15.Model C15.Spec C15.Proofs C15.Faults.
Import ListNotations.
Open Scope Z_scope.

Lemma run_snoc bs b : run (bs ++ [b]) = step (run bs) b.
Proof. unfold run, run_from. now rewrite fold_left_app. Qed.

Lemma fstate_snoc v y fbs fb :
  fstate_from v y (fbs ++ [fb]) = fstep v (fstate_from v y fbs) fb.
Proof. unfold fstate_from. now rewrite fold_left_app. Qed.

Lemma fstate_app v y a b :
  fstate_from v y (a ++ b) = fstate_from v (fstate_from v y a) b.
Proof. unfold fstate_from. now rewrite fold_left_app. Qed.

(* Model.v's flush = its restart (restore (persist s)), then the flush itself *)
Lemma step_norestart s b :
  step s b = step (if b_restart b then restore (persist s) else s) (norestart b).
Proof. destruct b as [rs rst cv f1 f2 f3 f4]. unfold step, norestart. cbn. reflexivity. Qed.

Lemma step_norestart_false s b : b_restart b = false -> step s (norestart b) = step s b.
Proof. intros H. rewrite (step_norestart s b), H. reflexivity. Qed.

(* HEAD order: memory always moves on by the flush, whatever the write does *)
Lemma mem_fstep_true y fb :
  mem (fstep true y fb)
  = step (if b_restart (fb_batch fb) then restore (disk y) else mem y) (norestart (fb_batch fb)).
Proof.
  unfold fstep. set (m0 := if b_restart (fb_batch fb) then _ else _).
  destruct (b_recs (fb_batch fb)) as [|r rs] eqn:E.
  - cbn [mem]. unfold step, norestart. cbn. rewrite E. reflexivity.
  - destruct (fb_fail fb); reflexivity.
Qed.

Lemma disk_fstep v y fb :
  disk (fstep v y fb) = if writes fb then persist (mem (fstep v y fb)) else disk y.
Proof.
  unfold fstep, writes, attempts_write.
  destruct (b_recs (fb_batch fb)) as [|r rs]; [reflexivity|].
  destruct (fb_fail fb); reflexivity.
Qed.

Lemma disk_unwritten v mid : forall y,
  Forall (fun fb => writes fb = false) mid -> disk (fstate_from v y mid) = disk y.
Proof.
  induction mid as [|fb t IH]; intros y H; [reflexivity|].
  inversion H as [|? ? H1 H2]; subst.
  change (fstate_from v y (fb :: t)) with (fstate_from v (fstep v y fb) t).
  rewrite (IH _ H2), disk_fstep, H1. reflexivity.
Qed.

(* ---------------------------------------------------------------------- *)
(* the invariant tying a faulty history to its fault-free equivalent *)

Definition inv (y : sys) (cp : list batch * list batch) : Prop :=
  disk y = persist (run (fst cp)) /\ mem y = run (fst cp ++ snd cp).

Lemma inv_step y cp fb : inv y cp -> inv (fstep true y fb) (eff_step cp fb).
Proof.
  destruct cp as [C P]. intros [HD HM]. cbn [fst snd] in *.
  assert (M : mem (fstep true y fb)
              = run ((C ++ (if b_restart (fb_batch fb) then [] else P)) ++ [fb_batch fb])).
  { rewrite mem_fstep_true, run_snoc.
    destruct (b_restart (fb_batch fb)) eqn:R.
    - rewrite app_nil_r, HD, (step_norestart (run C)), R. reflexivity.
    - rewrite HM. now apply step_norestart_false. }
  unfold inv, eff_step. cbn [fst snd].
  rewrite disk_fstep. destruct (writes fb); cbn [fst snd].
  - rewrite app_nil_r, M, app_assoc. split; reflexivity.
  - rewrite M, app_assoc. split; [exact HD | reflexivity].
Qed.

Lemma inv_fold fbs : forall y cp,
  inv y cp -> inv (fstate_from true y fbs) (fold_left eff_step fbs cp).
Proof.
  induction fbs as [|fb t IH]; intros y cp H; [exact H|].
  change (fstate_from true y (fb :: t)) with (fstate_from true (fstep true y fb) t).
  cbn [fold_left]. apply IH. now apply inv_step.
Qed.

Lemma inv0 : inv sys0 ([], []).
Proof. split; reflexivity. Qed.

Lemma effective fbs :
  mem (fstate true fbs) = run (survivors fbs) /\
  disk (fstate true fbs) = persist (run (durable fbs)).
Proof.
  destruct (inv_fold fbs sys0 ([], []) inv0) as [HD HM]. split; assumption.
Qed.

(* without a restart nothing is forgotten *)
Lemma eff_no_restart fbs : forall cp,
  no_restart (map fb_batch fbs) ->
  fst (fold_left eff_step fbs cp) ++ snd (fold_left eff_step fbs cp)
  = fst cp ++ snd cp ++ map fb_batch fbs.
Proof.
  induction fbs as [|fb t IH]; intros [C P] H; cbn [map fold_left fst snd].
  - now rewrite app_nil_r.
  - inversion H as [|? ? H1 H2]; subst. rewrite (IH _ H2).
    unfold eff_step. cbn [fst snd]. rewrite H1.
    destruct (writes fb); cbn [fst snd app]; rewrite <- ?app_assoc; reflexivity.
Qed.

Lemma survivors_no_restart fbs :
  no_restart (map fb_batch fbs) -> survivors fbs = map fb_batch fbs.
Proof. intros H. unfold survivors, eff. now rewrite (eff_no_restart fbs ([], []) H). Qed.

(* the effective history only contains flushes of the history *)
Lemma eff_ok fbs : forall cp,
  batches_ok (fst cp) -> batches_ok (snd cp) -> batches_ok (map fb_batch fbs) ->
  batches_ok (fst (fold_left eff_step fbs cp)) /\ batches_ok (snd (fold_left eff_step fbs cp)).
Proof.
  unfold batches_ok.
  induction fbs as [|fb t IH]; intros [C P] HC HP H; cbn [map fold_left fst snd] in *.
  - split; assumption.
  - inversion H as [|? ? H1 H2]; subst.
    assert (HP0 : Forall (fun b => recs_ok (b_recs b))
                         (if b_restart (fb_batch fb) then [] else P))
      by (destruct (b_restart (fb_batch fb)); [constructor | assumption]).
    apply IH; [| |assumption]; unfold eff_step; cbn [fst snd]; destruct (writes fb); cbn [fst snd];
      repeat (apply Forall_app; split); try assumption; repeat constructor; assumption.
Qed.

Lemma survivors_ok fbs : batches_ok (map fb_batch fbs) -> batches_ok (survivors fbs).
Proof.
  intros H. destruct (eff_ok fbs ([], []) (Forall_nil _) (Forall_nil _) H) as [A B].
  unfold survivors, batches_ok. apply Forall_app. split; assumption.
Qed.

Lemma wf_mem fbs : batches_ok (map fb_batch fbs) -> wf_state (mem (fstate true fbs)).
Proof.
  intros H. rewrite (proj1 (effective fbs)). apply wf_run. now apply survivors_ok.
Qed.

(* ---------------------------------------------------------------------- *)
(* a successful write brings the file up to date with memory *)

Lemma written_is_memory v y fb :
  writes fb = true -> disk (fstep v y fb) = persist (mem (fstep v y fb)).
Proof. intros H. now rewrite disk_fstep, H. Qed.

Lemma count_where_fl {K : Type} (p : K -> bool) (m : list (K * sagg)) :
  count_where p (map (fun e => (fst e, fl (snd e))) m) = count_where p m.
Proof.
  induction m as [|[k a] t IH]; [reflexivity|].
  unfold count_where in *. cbn [map fold_right fst snd]. rewrite IH. reflexivity.
Qed.

(* ---------------------------------------------------------------------- *)
(* restart: exactly the flushes after the last successful write are lost *)

Lemma restart_after_write pre w mid r :
  writes w = true ->
  Forall (fun fb => writes fb = false) mid ->
  b_restart (fb_batch r) = true ->
  mem (fstate true (pre ++ w :: mid ++ [r]))
  = step (mem (fstate true (pre ++ [w]))) (fb_batch r).
Proof.
  intros W Hmid R. unfold fstate.
  replace (pre ++ w :: mid ++ [r]) with (((pre ++ [w]) ++ mid) ++ [r])
    by (rewrite <- !app_assoc; reflexivity).
  rewrite fstate_snoc, mem_fstep_true, R, fstate_app, (disk_unwritten _ _ _ Hmid).
  rewrite fstate_snoc, (written_is_memory _ _ _ W), <- fstate_snoc.
  rewrite (step_norestart _ (fb_batch r)), R. reflexivity.
Qed.

Lemma restart_without_write mid r :
  Forall (fun fb => writes fb = false) mid ->
  b_restart (fb_batch r) = true ->
  mem (fstate true (mid ++ [r])) = step empty_state (fb_batch r).
Proof.
  intros Hmid R. unfold fstate.
  rewrite fstate_snoc, mem_fstep_true, R, (disk_unwritten _ _ _ Hmid).
  rewrite (step_norestart empty_state (fb_batch r)), R. reflexivity.
Qed.

(* ---------------------------------------------------------------------- *)
(* no traffic is lost by a failed write (HEAD order) *)

Lemma lose_no_traffic_true fbs :
  batches_ok (map fb_batch fbs) -> no_restart (map fb_batch fbs) ->
  let y := fstate true fbs in
  count_where everywhere (sE (mem y)) = nrec (map fb_batch fbs) everywhere /\
  (forall pre w, fbs = pre ++ [w] -> writes w = true ->
     count_where everywhere (sE (restore (disk y))) = nrec (map fb_batch fbs) everywhere).
Proof.
  intros Hok Hnr. cbn zeta.
  assert (M : count_where everywhere (sE (mem (fstate true fbs)))
              = nrec (map fb_batch fbs) everywhere).
  { rewrite (proj1 (effective fbs)), (survivors_no_restart fbs Hnr).
    now apply conservation_count. }
  split; [exact M|].
  intros pre w E W. rewrite <- M.
  assert (D : disk (fstate true fbs) = persist (mem (fstate true fbs))).
  { rewrite E. unfold fstate. rewrite fstate_snoc. now apply written_is_memory. }
  rewrite D, restore_persist by now apply wf_mem.
  unfold fl_state. cbn [sE]. apply count_where_fl.
Qed.
