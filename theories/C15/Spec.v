(* C15 — specification vocabulary: the definitions the statements of Property.v
   are written with (no proofs here).  Model.v defines the pipeline itself. *)
From Coq Require Import List ZArith Bool.
From Verif Require Import C15.Model.
Import ListNotations.
Open Scope Z_scope.

(* a boolean equality that decides Leibniz equality *)
Definition eqdec {A : Type} (e : A -> A -> bool) : Prop :=
  (forall a, e a a = true) /\ (forall a b, e a b = true -> a = b).

(* option-lifted combination *)
Definition oplus {V : Type} (op : V -> V -> V) (x y : option V) : option V :=
  match x, y with
  | Some a, Some b => Some (op a b)
  | Some a, None => Some a
  | None, y => y
  end.

Definition pick {K V : Type} (p : K -> bool) (k : K) (v : V) : option V :=
  if p k then Some v else None.

(* the combination (by op) of all values filed under a key satisfying p;
   None when there is none *)
Fixpoint psum {K V : Type} (op : V -> V -> V) (p : K -> bool) (l : list (K * V)) : option V :=
  match l with
  | [] => None
  | e :: t => oplus op (pick p (fst e) (snd e)) (psum op p t)
  end.

(* flooring a millisecond stamp to its whole second *)
Definition floor_s (ms : Z) : Z := rtime (ptime ms).

(* what a disk round trip does to an aggregate *)
Definition fl (a : sagg) : sagg :=
  {| a_count := a_count a; a_min := floor_s (a_min a); a_max := floor_s (a_max a);
     a_dsum := a_dsum a; a_tsum := a_tsum a |}.

Definition nocolon (s : str) : Prop := Forall (fun c => c <> 58) s.

Definition wfm {K V : Type} (P : K -> Prop) (m : list (K * V)) : Prop :=
  NoDup (map fst m) /\ Forall P (map fst m).

Definition kE_ok (k : key) : Prop := nocolon (fst k).
Definition kES_ok (ks : key * Z) : Prop := nocolon (fst (fst ks)).
Definition kC_ok (ck : str * key) : Prop := nocolon (fst (snd ck)).
Definition kCS_ok (cks : (str * key) * Z) : Prop := nocolon (fst (snd (fst cks))).

(* distinct keys everywhere, and no ':' in any method *)
Definition wf_state (s : state) : Prop :=
  wfm kE_ok (sE s) /\ wfm kES_ok (sES s) /\ wfm kC_ok (sC s) /\ wfm kCS_ok (sCS s)
  /\ NoDup (map fst (sI s)).

(* the effect of a disk round trip: the time fields lose their milliseconds *)
Definition fl_state (s : state) : state :=
  {| sE := map (fun e => (fst e, fl (snd e))) (sE s);
     sES := sES s;
     sC := map (fun e => (fst e, fl (snd e))) (sC s);
     sCS := sCS s;
     sI := map (fun e => (fst e, floor_s (snd e))) (sI s) |}.

Definition recs_ok (rs : list rec) : Prop := Forall (fun r => nocolon (r_method r)) rs.

Definition batches_ok (bs : list batch) : Prop := Forall (fun b => recs_ok (b_recs b)) bs.

(* ---------------------------------------------------------------------- *)
(* The ledger — the simple specification the pipeline refines.

   The ledger keeps every accepted record un-aggregated, together with the key
   it is currently filed under (endpoint key, consumer key) and the timestamp it
   currently counts with (its own, floored to the second by every restart that
   happened after it was recorded). *)

Record lrec := mkL { l_rec : rec; l_ekey : key; l_ckey : str * key; l_ts : Z }.

Definition fresh (nxE nxC : str -> str) (r : rec) : lrec :=
  mkL r (ep nxE r) (cons_tag r, ep nxC r) (r_ts r).
Definition relabel (rkE rkC : str -> str) (l : lrec) : lrec :=
  mkL (l_rec l) (on_url rkE (l_ekey l)) (fst (l_ckey l), on_url rkC (snd (l_ckey l))) (l_ts l).
Definition floor_l (l : lrec) : lrec :=
  mkL (l_rec l) (l_ekey l) (l_ckey l) (floor_s (l_ts l)).

Definition lstep (L : list lrec) (b : batch) : list lrec :=
  let L0 := if b_restart b then map floor_l L else L in
  match b_recs b with
  | [] => L0
  | _ =>
      let L1 := if b_conv b then map (relabel (b_rkE b) (b_rkC b)) L0 else L0 in
      L1 ++ map (fresh (b_nxE b) (b_nxC b)) (accepted (b_recs b))
  end.

Definition ledger_from (L : list lrec) (bs : list batch) : list lrec := fold_left lstep bs L.
Definition ledger (bs : list batch) : list lrec := ledger_from [] bs.

(* what a ledger line contributes to each of the five maps *)
Definition viewE (l : lrec) : key * sagg := (l_ekey l, single_at (l_ts l) (l_rec l)).
Definition viewES (l : lrec) : (key * Z) * Z := ((l_ekey l, r_status (l_rec l)), 1).
Definition viewC (l : lrec) : (str * key) * sagg := (l_ckey l, single_at (l_ts l) (l_rec l)).
Definition viewCS (l : lrec) : ((str * key) * Z) * Z := ((l_ckey l, r_status (l_rec l)), 1).
Definition viewI (l : lrec) : (str * str) * Z := (icpt_key (l_rec l), l_ts l).

Definition all_accepted (bs : list batch) : list rec :=
  flat_map (fun b => accepted (b_recs b)) bs.

(* every line keeps the method and consumer tag of its record, and counts with
   a timestamp between its record's and that one's whole second *)
Definition lok (l : lrec) : Prop :=
  floor_s (r_ts (l_rec l)) <= l_ts l <= r_ts (l_rec l) /\
  fst (l_ekey l) = r_method (l_rec l) /\
  fst (l_ckey l) = cons_tag (l_rec l) /\
  fst (snd (l_ckey l)) = r_method (l_rec l).

(* without a restart every line counts with its record's own timestamp *)
Definition no_restart (bs : list batch) : Prop := Forall (fun b => b_restart b = false) bs.
Definition lexact (l : lrec) : Prop := l_ts l = r_ts (l_rec l).

(* the statistics of a group, computed directly: how many, the extreme
   timestamps, the sums of the durations *)
Definition summary (g : list lrec) : option sagg :=
  match g with
  | [] => None
  | x :: t =>
      Some {| a_count := Z.of_nat (length g);
              a_min := fold_right Z.min (l_ts x) (map l_ts t);
              a_max := fold_right Z.max (l_ts x) (map l_ts t);
              a_dsum := fold_right Z.add 0 (map (fun l => r_dur (l_rec l)) g);
              a_tsum := fold_right Z.add 0 (map (fun l => r_tdur (l_rec l)) g) |}
  end.

Definition ocount (n : nat) : option Z :=
  match n with O => None | S _ => Some (Z.of_nat n) end.

Definition omax (l : list Z) : option Z :=
  match l with [] => None | x :: t => Some (fold_right Z.max x t) end.

(* sums over the entries of a map, written out *)
Definition count_where {K : Type} (p : K -> bool) (m : list (K * sagg)) : Z :=
  fold_right (fun e acc => if p (fst e) then a_count (snd e) + acc else acc) 0 m.
Definition dsum_where {K : Type} (p : K -> bool) (m : list (K * sagg)) : Z :=
  fold_right (fun e acc => if p (fst e) then a_dsum (snd e) + acc else acc) 0 m.
Definition tsum_where {K : Type} (p : K -> bool) (m : list (K * sagg)) : Z :=
  fold_right (fun e acc => if p (fst e) then a_tsum (snd e) + acc else acc) 0 m.
Definition sum_where {K : Type} (p : K -> bool) (m : list (K * Z)) : Z :=
  fold_right (fun e acc => if p (fst e) then snd e + acc else acc) 0 m.
Definition everywhere {K : Type} (_ : K) : bool := true.

(* the Combine of all the entries of a map: count = sum of the counts,
   min = least min, max = greatest max, sums = sums *)
Definition agg_total {K : Type} (m : list (K * sagg)) : option sagg :=
  psum acomb everywhere m.

Definition cnt_of (o : option sagg) : Z := match o with Some a => a_count a | None => 0 end.
Definition dsum_of (o : option sagg) : Z := match o with Some a => a_dsum a | None => 0 end.
Definition tsum_of (o : option sagg) : Z := match o with Some a => a_tsum a | None => 0 end.
Definition zof (o : option Z) : Z := match o with Some z => z | None => 0 end.

(* number of accepted records of a history with a property *)
Definition nrec (bs : list batch) (q : rec -> bool) : Z :=
  Z.of_nat (length (filter q (all_accepted bs))).

(* the same finite maps: every key has the same entry in both states *)
Definition state_equiv (s1 s2 : state) : Prop :=
  (forall k, mfind key_eqb k (sE s1) = mfind key_eqb k (sE s2)) /\
  (forall k, mfind skey_eqb k (sES s1) = mfind skey_eqb k (sES s2)) /\
  (forall k, mfind ckey_eqb k (sC s1) = mfind ckey_eqb k (sC s2)) /\
  (forall k, mfind cskey_eqb k (sCS s1) = mfind cskey_eqb k (sCS s2)) /\
  (forall k, mfind key_eqb k (sI s1) = mfind key_eqb k (sI s2)).

(* the same up to the resolution of the on-disk format: all counts, status
   counts and duration sums equal, time fields equal once floored to the second *)
Definition state_equiv_fl (s1 s2 : state) : Prop :=
  (forall k, option_map fl (mfind key_eqb k (sE s1)) = option_map fl (mfind key_eqb k (sE s2))) /\
  (forall k, mfind skey_eqb k (sES s1) = mfind skey_eqb k (sES s2)) /\
  (forall k, option_map fl (mfind ckey_eqb k (sC s1)) = option_map fl (mfind ckey_eqb k (sC s2))) /\
  (forall k, mfind cskey_eqb k (sCS s1) = mfind cskey_eqb k (sCS s2)) /\
  (forall k, option_map floor_s (mfind key_eqb k (sI s1))
             = option_map floor_s (mfind key_eqb k (sI s2))).

Definition strip (l : lrec) : rec * key * (str * key) := (l_rec l, l_ekey l, l_ckey l).

(* second-aligned time fields *)
Definition aligned_state (s : state) : Prop :=
  Forall (fun e => a_min (snd e) mod 1000 = 0 /\ a_max (snd e) mod 1000 = 0) (sE s) /\
  Forall (fun e => a_min (snd e) mod 1000 = 0 /\ a_max (snd e) mod 1000 = 0) (sC s) /\
  Forall (fun e => snd e mod 1000 = 0) (sI s).
