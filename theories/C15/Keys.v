(* C15 — the persisted endpoint key as a parameter (definitions only).

   Model.v's [persist] / [restore] fix the key function of the code as it is:
   dumpEndpoint = Method ++ ":::" ++ URL, nothing normalised, read back by
   SplitN at the first ":::".  What the round trip needs from that function is
   stated here over ANY key function [pk : key -> str] and ANY reader
   [rk : str -> key]: [persist_with pk] / [restore_with rk] are [persist] /
   [restore] with the key function abstracted ([persist_with_pkey],
   KeysProofs.v: they coincide for pkey / rkey by computation).

   Under a collision only the endpoint maps sE / sC of [restore_with] are
   meaningful (an entry is overwritten as a whole): the status counts, flat in
   this model, live inside the overwritten entry in the code, so nothing is
   claimed about sES / sCS of a colliding round trip.

   [pkey_upper] is the variant "methods are written in their canonical
   upper-case form" (strings.ToUpper on the method, ASCII): two in-memory
   endpoints that differ in the spelling of the method share one entry of the
   state file. *)
From Coq Require Import List ZArith Bool.
From Verif Require Import C15.Model C15.Spec.
Import ListNotations.
Open Scope Z_scope.

Definition persist_with (pk : key -> str) (s : state) : pstate :=
  {| pE := put_all str_eqb (map (fun e => (pk (fst e), pval (snd e))) (sE s)) [];
     pES := put_all sz_eqb (map (fun e => ((pk (fst (fst e)), snd (fst e)), snd e)) (sES s)) [];
     pC := put_all key_eqb
             (map (fun e => ((fst (fst e), pk (snd (fst e))), pval (snd e))) (sC s)) [];
     pCS := put_all skey_eqb
              (map (fun e => (((fst (fst (fst e)), pk (snd (fst (fst e)))), snd (fst e)), snd e))
                   (sCS s)) [];
     pI := map (fun e => (fst e, ptime (snd e))) (sI s) |}.

Definition restore_with (rk : str -> key) (p : pstate) : state :=
  {| sE := put_all key_eqb (map (fun e => (rk (fst e), rval (snd e))) (pE p)) [];
     sES := put_all skey_eqb (map (fun e => ((rk (fst (fst e)), snd (fst e)), snd e)) (pES p)) [];
     sC := put_all ckey_eqb
             (map (fun e => ((fst (fst e), rk (snd (fst e))), rval (snd e))) (pC p)) [];
     sCS := put_all cskey_eqb
              (map (fun e => (((fst (fst (fst e)), rk (snd (fst (fst e)))), snd (fst e)), snd e))
                   (pCS p)) [];
     sI := put_all key_eqb (map (fun e => (fst e, rtime (snd e))) (pI p)) [] |}.

(* strings.ToUpper on ASCII bytes *)
Definition upper_byte (c : Z) : Z := if (97 <=? c) && (c <=? 122) then c - 32 else c.
Definition upper (s : str) : str := map upper_byte s.

(* dumpEndpoint with the method upper-cased *)
Definition pkey_upper (k : key) : str := upper (fst k) ++ delim ++ snd k.

(* the keys a state holds, in all four keyed maps *)
Definition holds_key (s : state) (k : key) : Prop :=
  In k (map fst (sE s)) \/ In k (map (fun e => fst (fst e)) (sES s)) \/
  In k (map (fun e => snd (fst e)) (sC s)) \/ In k (map (fun e => snd (fst (fst e))) (sCS s)).

(* distinct keys in every map (wf_state without the condition on methods) *)
Definition nodup_state (s : state) : Prop :=
  NoDup (map fst (sE s)) /\ NoDup (map fst (sES s)) /\ NoDup (map fst (sC s)) /\
  NoDup (map fst (sCS s)) /\ NoDup (map fst (sI s)).

Definition counts_positive (s : state) : Prop :=
  Forall (fun e => 0 < a_count (snd e)) (sE s) /\ Forall (fun e => 0 < a_count (snd e)) (sC s).

(* one URL requested as "get" (2 records) and as "GET" (3 records), one flush *)
Definition mc_rec (m : str) (st ts : Z) : rec :=
  mkRec m [97; 47; 49] st 10 12 ts [116] [112; 121; 47; 49] false.
Definition mc_get : str := [103; 101; 116].
Definition mc_GET : str := [71; 69; 84].
Definition mixed_case : list batch :=
  [ mkBatch [mc_rec mc_get 200 1700000000123; mc_rec mc_GET 200 1700000001123;
             mc_rec mc_get 500 1700000002123; mc_rec mc_GET 404 1700000003123;
             mc_rec mc_GET 201 1700000004123]
            false false (fun u => u) (fun u => u) (fun u => u) (fun u => u) ].

(* The variant "the entry name is read back with an unbounded split"
   (strings.Split instead of strings.SplitN(..., 2); Endpoint{parts[0],
   parts[1]}): the URL is cut at the SECOND ":::" of the name, i.e. at the first
   one the URL itself contains.  (With fewer than two parts the variant skips
   the entry; a name written by [persist] always has two, the default below is
   not reached from it.) *)
Definition rkey_all (s : str) : key :=
  match split_delim s with
  | Some (m, rest) =>
      match split_delim rest with
      | Some (u, _) => (m, u)
      | None => (m, rest)
      end
  | None => (s, [])
  end.

(* two URLs that contain the delimiter and differ only after it ("a:::b" 2
   records, "a:::c" 3 records), one flush *)
Definition dl_rec (u : str) (st ts : Z) : rec :=
  mkRec mc_GET u st 10 12 ts [116] [112; 121; 47; 49] false.
Definition dl_ab : str := [97] ++ delim ++ [98].
Definition dl_ac : str := [97] ++ delim ++ [99].
Definition delim_in_urls : list batch :=
  [ mkBatch [dl_rec dl_ab 200 1700000000123; dl_rec dl_ac 200 1700000001123;
             dl_rec dl_ab 500 1700000002123; dl_rec dl_ac 404 1700000003123;
             dl_rec dl_ac 201 1700000004123]
            false false (fun u => u) (fun u => u) (fun u => u) (fun u => u) ].

(* The variant "status values outside 100..599 are left out of the status
   counts" (countStatusCodes skips such a record; the request count still has
   it).  countStatusCodes is the only producer of status entries and every
   later step (Combine, re-keying, persist / restore) handles status entries
   one status value at a time, so the variant's state is the state of the code
   with the entries of those status values removed — it is modelled as this
   filter on the state, not as a switch inside [run]. *)
Definition is_http_status (st : Z) : bool := (100 <=? st) && (st <=? 599).
Definition drop_non_http (s : state) : state :=
  {| sE := sE s;
     sES := filter (fun e => is_http_status (snd (fst e))) (sES s);
     sC := sC s;
     sCS := filter (fun e => is_http_status (snd (fst e))) (sCS s);
     sI := sI s |}.

Definition st_rec (st : Z) : rec := mkRec [71] [104] st 1 2 5 [] [] false.
Definition odd_statuses : list batch :=
  [ mkBatch [st_rec 200; st_rec (-1); st_rec 0; st_rec (-1); st_rec 999; st_rec 600; st_rec 99]
            false false (fun u => u) (fun u => u) (fun u => u) (fun u => u) ].
