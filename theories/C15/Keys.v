(* C15 — the persisted endpoint key as a parameter (definitions only).

   Model.v's [persist] / [restore] fix the key function of the code as it is:
   dumpEndpoint = Method ++ ":::" ++ URL, nothing normalised, read back by
   SplitN at the first ":::".  What the round trip needs from that function is
   stated here over ANY key function [pk : key -> str] and ANY reader
   [rk : str -> key]: [persist_with pk] / [restore_with rk] are [persist] /
   [restore] with the key function abstracted ([persist_with_pkey],
   KeysProofs.v: they coincide for pkey / rkey by computation).

   Under a collision only the endpoint maps sE / sC of [restore_with] are
   meaningful (an entry is overwritten as a whole): the status counts, flat in
   this model, live inside the overwritten entry in the code, so nothing is
   claimed about sES / sCS of a colliding round trip.

   [pkey_upper] is the variant "methods are written in their canonical
   upper-case form" (strings.ToUpper on the method, ASCII): two in-memory
   endpoints that differ in the spelling of the method share one entry of the
   state file. *)
From Coq Require Import List ZArith Bool.
From Verif Require Import C15.Model C15.Spec.
Import ListNotations.
Open Scope Z_scope.

Definition persist_with (pk : key -> str) (s : state) : pstate :=
  {| pE := put_all str_eqb (map (fun e => (pk (fst e), pval (snd e))) (sE s)) [];
     pES := put_all sz_eqb (map (fun e => ((pk (fst (fst e)), snd (fst e)), snd e)) (sES s)) [];
     pC := put_all key_eqb
             (map (fun e => ((fst (fst e), pk (snd (fst e))), pval (snd e))) (sC s)) [];
     pCS := put_all skey_eqb
              (map (fun e => (((fst (fst (fst e)), pk (snd (fst (fst e)))), snd (fst e)), snd e))
                   (sCS s)) [];
     pI := map (fun e => (fst e, ptime (snd e))) (sI s) |}.

Definition restore_with (rk : str -> key) (p : pstate) : state :=
  {| sE := put_all key_eqb (map (fun e => (rk (fst e), rval (snd e))) (pE p)) [];
     sES := put_all skey_eqb (map (fun e => ((rk (fst (fst e)), snd (fst e)), snd e)) (pES p)) [];
     sC := put_all ckey_eqb
             (map (fun e => ((fst (fst e), rk (snd (fst e))), rval (snd e))) (pC p)) [];
     sCS := put_all cskey_eqb
              (map (fun e => (((fst (fst (fst e)), rk (snd (fst (fst e)))), snd (fst e)), snd e))
                   (pCS p)) [];
     sI := put_all key_eqb (map (fun e => (fst e, rtime (snd e))) (pI p)) [] |}.

(* strings.ToUpper on ASCII bytes *)
Definition upper_byte (c : Z) : Z := if (97 <=? c) && (c <=? 122) then c - 32 else c.
Definition upper (s : str) : str := map upper_byte s.

(* dumpEndpoint with the method upper-cased *)
Definition pkey_upper (k : key) : str := upper (fst k) ++ delim ++ snd k.

(* the keys a state holds, in all four keyed maps *)
Definition holds_key (s : state) (k : key) : Prop :=
  In k (map fst (sE s)) \/ In k (map (fun e => fst (fst e)) (sES s)) \/
  In k (map (fun e => snd (fst e)) (sC s)) \/ In k (map (fun e => snd (fst (fst e))) (sCS s)).

(* distinct keys in every map (wf_state without the condition on methods) *)
Definition nodup_state (s : state) : Prop :=
  NoDup (map fst (sE s)) /\ NoDup (map fst (sES s)) /\ NoDup (map fst (sC s)) /\
  NoDup (map fst (sCS s)) /\ NoDup (map fst (sI s)).

Definition counts_positive (s : state) : Prop :=
  Forall (fun e => 0 < a_count (snd e)) (sE s) /\ Forall (fun e => 0 < a_count (snd e)) (sC s).

(* one URL requested as "get" (2 records) and as "GET" (3 records), one flush *)
Definition mc_rec (m : str) (st ts : Z) : rec :=
  mkRec m [97; 47; 49] st 10 12 ts [116] [112; 121; 47; 49] false.
Definition mc_get : str := [103; 101; 116].
Definition mc_GET : str := [71; 69; 84].
Definition mixed_case : list batch :=
  [ mkBatch [mc_rec mc_get 200 1700000000123; mc_rec mc_GET 200 1700000001123;
             mc_rec mc_get 500 1700000002123; mc_rec mc_GET 404 1700000003123;
             mc_rec mc_GET 201 1700000004123]
            false false (fun u => u) (fun u => u) (fun u => u) (fun u => u) ].
