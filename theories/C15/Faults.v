(* C15 — the runner/state layer of the discovery aggregation with a state file
   whose write can FAIL (aggregation-output-plugin/discovery/runner.go [Run],
   state.go [State.UpdateAggregation], [State.InitializeState]; the plugin's
   FLBPluginFlushCtx calls discovery.Run once per flush and answers FLB_ERROR
   when it returns an error: Fluent Bit does not deliver that chunk again).

   As coded at HEAD, one flush with a non-empty batch:
     combined := CombineAggregation(Converge(state.aggregation), Extract(batch))
     state.aggregation = combined                 -- UpdateAggregation, FIRST
     os.WriteFile(state file, persisted combined) -- THEN; may fail
     write failed  => Run returns errors.Join(ErrCouldNotDumpCombinedAgg, err);
                      memory already holds [combined], the file is untouched
     write worked  => Run returns nil; file = persisted [combined]
   An empty batch returns at once (nothing combined, nothing written).
   Restart = a new State whose InitializeState reads the file back:
   memory := restore(file) — NOT restore(persist(memory)): what the last
   successful write stored.

   Model.v's [step] is the fault-free special case (there the file always
   equals persist(memory), so its restart is restore (persist s)).  Here the
   file is a component of the state and every flush carries an explicit fault
   flag [fb_fail] = "the write of this flush fails".

   [assign_first] selects the order of the two effects of UpdateAggregation:
   true = HEAD (assign, then write); false = the write-then-assign variant
   (memory is only swapped after a successful write), kept to show that the
   statements of Property.v tell the two apart.

   Modelled, not verified: a failing os.WriteFile leaves the file as it was (the
   failure is at open(2): directory missing / path not writable — the faults the
   harness injects; a write that fails after O_TRUNC, e.g. disk full, may leave a
   truncated file and is outside this model). *)
From Coq Require Import List ZArith Bool Uint63.
From Verif Require Import C15.Model.
Import ListNotations.
Open Scope Z_scope.

Record sys := mkSys {
  mem : state;          (* State.aggregation *)
  disk : pstate         (* content of the file at State.DiscoverFilepath *)
}.

(* first start: InitializeState finds no file, holds the empty aggregation and
   writes it *)
Definition sys0 : sys := mkSys empty_state (persist empty_state).

Record fbatch := mkFB {
  fb_batch : batch;     (* records, restart-before flag, oracle (Model.v) *)
  fb_fail : bool        (* the write of the state file fails during this flush *)
}.

(* the same flush without its restart *)
Definition norestart (b : batch) : batch :=
  mkBatch (b_recs b) false (b_conv b) (b_rkE b) (b_rkC b) (b_nxE b) (b_nxC b).

(* Run reaches UpdateAggregation only with a non-empty batch *)
Definition attempts_write (fb : fbatch) : bool :=
  match b_recs (fb_batch fb) with [] => false | _ => true end.
Definition writes (fb : fbatch) : bool := attempts_write fb && negb (fb_fail fb).

(* what Run returns: nil, or ErrCouldNotDumpCombinedAgg joined with the cause *)
Inductive outcome := RunOk | RunDumpError.
Definition run_result (fb : fbatch) : outcome :=
  if attempts_write fb && fb_fail fb then RunDumpError else RunOk.

Definition fstep (assign_first : bool) (y : sys) (fb : fbatch) : sys :=
  let b := fb_batch fb in
  let m0 := if b_restart b then restore (disk y) else mem y in
  match b_recs b with
  | [] => mkSys m0 (disk y)                       (* Run returns at once *)
  | _ =>
      let m1 := step m0 (norestart b) in           (* GetUpdatedAggregations *)
      if fb_fail fb
      then mkSys (if assign_first then m1 else m0) (disk y)
      else mkSys m1 (persist m1)
  end.

Definition fstate_from (v : bool) (y : sys) (fbs : list fbatch) : sys :=
  fold_left (fstep v) fbs y.
Definition fstate (v : bool) (fbs : list fbatch) : sys := fstate_from v sys0 fbs.

(* the states after every flush, in order *)
Fixpoint ftrace (v : bool) (y : sys) (fbs : list fbatch) : list sys :=
  match fbs with
  | [] => []
  | fb :: t => let y1 := fstep v y fb in y1 :: ftrace v y1 t
  end.

(* ---------------------------------------------------------------------- *)
(* Specification vocabulary: the fault-free history (of Model.v's [run]) that a
   history with failing writes and restarts amounts to.

   (C, P): C = the flushes the FILE accounts for (everything up to the last
   successful write that a restart has not thrown away), P = the flushes
   processed since, held in memory only.  A restart forgets P — and nothing
   else; a flush whose write fails, or an empty one, joins P; a successful
   write moves P and the flush itself into C. *)
Definition eff_step (cp : list batch * list batch) (fb : fbatch)
  : list batch * list batch :=
  let b := fb_batch fb in
  let P0 := if b_restart b then [] else snd cp in
  if writes fb then (fst cp ++ P0 ++ [b], []) else (fst cp, P0 ++ [b]).

Definition eff (fbs : list fbatch) : list batch * list batch :=
  fold_left eff_step fbs ([], []).

Definition durable (fbs : list fbatch) : list batch := fst (eff fbs).
Definition survivors (fbs : list fbatch) : list batch := fst (eff fbs) ++ snd (eff fbs).

(* ---------------------------------------------------------------------- *)
(* Correspondence entry point (suite "faults").

   case = (records, runs); run = list of flushes, each with what the
   implementation showed after it:
     flush = (cbatch of Model.v, write fault injected, error class Run
              returned, in-memory aggregate, re-read state file)
     error class: 0 = nil, 1 = ErrCouldNotDumpCombinedAgg, 2 = anything else
     aggregates as in Model.v ([cobs]); the state file is observed as parsed
     by the harness' own JSON reader (key split at the first ":::", whole
     seconds -> milliseconds), i.e. it is compared with [restore (disk y)]. *)

Definition cfbatch := (cbatch * bool * int * cobs * cobs)%type.
Definition fcase_t := (list crec * list (list cfbatch))%type.

Fixpoint fbatches_of (rs : list rec) (bs : list cfbatch) : list fbatch :=
  match bs with
  | [] => []
  | ((n, rst, cv, rkE, rkC, nxE, nxC), fl, _, _, _) :: bs' =>
      let k := Z.to_nat (zi n) in
      mkFB (mkBatch (firstn k rs) rst cv
                    (tbl_get (ztbl rkE)) (tbl_get (ztbl rkC))
                    (tbl_get (ztbl nxE)) (tbl_get (ztbl nxC))) fl
      :: fbatches_of (skipn k rs) bs'
  end.

Definition err_class (o : outcome) : Z :=
  match o with RunOk => 0 | RunDumpError => 1 end.

(* what disagreed: 0 = the error class, 1 = memory, 2 = the state file *)
Fixpoint first_bad_flush (fbs : list fbatch) (ys : list sys) (os : list cfbatch) (j : Z)
  : option (Z * Z * state) :=
  match fbs, ys, os with
  | fb :: fbs', y :: ys', (_, _, e, om, od) :: os' =>
      if negb (err_class (run_result fb) =? zi e) then Some (j, 0, mem y)
      else if negb (agrees (mem y) om) then Some (j, 1, mem y)
      else if negb (agrees (restore (disk y)) od) then Some (j, 2, restore (disk y))
      else first_bad_flush fbs' ys' os' (j + 1)
  | [], [], [] => None
  | _, _, _ => Some (-1, -1, empty_state)
  end.

Fixpoint first_bad_frun (rs : list rec) (runs : list (list cfbatch)) (i : Z)
  : option (Z * (Z * Z * state)) :=
  match runs with
  | [] => None
  | r :: rest =>
      let fbs := fbatches_of rs r in
      match first_bad_flush fbs (ftrace true sys0 fbs) r 0 with
      | None => first_bad_frun rs rest (i + 1)
      | Some w => Some (i, w)
      end
  end.

(* None = the model (HEAD order: assign, then write) agrees with the
   implementation after every flush of every run of the case; otherwise
   (run, (flush, what, the model's aggregate)) *)
Definition run_fcase (k : fcase_t) : option (Z * (Z * Z * state)) :=
  first_bad_frun (map rec_of (fst k)) (snd k) 0.

(* wire format: Model.v's sections strings / tables / aggs / finals / records,
   then  runs  n, then per run: flushes (n, then size restarted converged
   rekeyE rekeyC extractE extractC fault error-class memory-final file-final) *)
Definition pfbatch (tbls : list itbl) (fins : list cobs) : P cfbatch :=
  pbind (pbatch tbls) (fun b =>
  pbind pbool (fun fl =>
  pbind pint (fun e =>
  pbind (pref fins) (fun om =>
  pbind (pref fins) (fun od => pret (b, fl, e, om, od)))))).

Definition pfcase : P fcase_t :=
  pbind (plist (plist pint)) (fun strs =>
  pbind (plist (plist (pbind (pref strs) (fun a => pbind (pref strs) (fun b => pret (a, b)))))) (fun tbls =>
  pbind (plist pagg) (fun aggs =>
  pbind (plist (pfinal strs aggs)) (fun fins =>
  pbind (plist (prec strs)) (fun recs =>
  pbind (plist (plist (pfbatch tbls fins))) (fun runs => pret (recs, runs))))))).

Definition run_faults (k : fcase) : option (Z * (Z * Z * state)) :=
  match pfcase k with
  | Some (c, []) => run_fcase c
  | _ => Some (-1, (-1, -1, empty_state))
  end.
