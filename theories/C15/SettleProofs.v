(* C15 — lemmas about the order of the URL-tree calls within a flush (Settle.v) *)
From Coq Require Import List ZArith Bool Lia.
From Verif Require Import C15.Model C15.Proofs C15.Settle.
Import ListNotations.
Open Scope Z_scope.

Section TreeFacts.
  Variable tree : Type.
  Variable insert : tree -> str -> tree.
  Variable lookup : tree -> str -> str.
  Variable stable : tree -> str -> Prop.
  Hypothesis stable_insert : forall t u, stable (insert t u) u.
  Hypothesis stable_mono : forall t u v, stable t u -> stable (insert t v) u.
  Hypothesis stable_noop : forall t u, stable t u -> insert t u = t.

  Lemma normalize_tree_stable urls : forall t u,
    stable t u \/ In u urls -> stable (normalize_tree tree insert t urls) u.
  Proof.
    induction urls as [ | v rest IH ]; intros t u [ Hs | Hin ]; cbn.
    - exact Hs.
    - destruct Hin.
    - apply IH. left. apply stable_mono. exact Hs.
    - apply IH. destruct Hin as [ -> | Hin ].
      + left. apply stable_insert.
      + right. exact Hin.
  Qed.

  Lemma normalize_pass_mono us : forall t u,
    stable t u -> stable (fst (normalize_pass tree insert lookup t us)) u.
  Proof.
    induction us as [ | v rest IH ]; intros t u Hs; cbn.
    - exact Hs.
    - specialize (IH (insert t v) u (stable_mono _ _ _ Hs)).
      destruct (normalize_pass tree insert lookup (insert t v) rest) as [ t2 ls ]. exact IH.
  Qed.

  (* a pass over URLs the tree already holds leaves the tree alone and answers
     with its look-up function *)
  Lemma normalize_pass_stable us : forall t,
    (forall u, In u us -> stable t u) ->
    normalize_pass tree insert lookup t us = (t, map (lookup t) us).
  Proof.
    induction us as [ | v rest IH ]; intros t Hall; cbn.
    - reflexivity.
    - rewrite (stable_noop t v) by (apply Hall; left; reflexivity).
      rewrite IH by (intros u Hu; apply Hall; right; exact Hu).
      reflexivity.
  Qed.

  Lemma flush_settled_head state_empty t olds urls urlsC :
    incl urlsC urls ->
    settled tree lookup urls urlsC
      (flush_tree tree insert lookup false state_empty t olds urls urlsC).
  Proof.
    intros Hincl. unfold flush_tree, pre_normalised. cbn [andb].
    set (t1 := normalize_tree tree insert t urls).
    assert (H1 : forall u, In u urls -> stable t1 u).
    { intros u Hu. apply normalize_tree_stable. right. exact Hu. }
    pose proof (fun u Hu => normalize_pass_mono olds t1 u (H1 u Hu)) as H2.
    destruct (normalize_pass tree insert lookup t1 olds) as [ t2 lo ]. cbn [fst] in H2.
    rewrite (normalize_pass_stable urls t2 H2).
    rewrite (normalize_pass_stable urlsC t2) by (intros u Hu; apply H2, Hincl, Hu).
    split; reflexivity.
  Qed.
End TreeFacts.

Lemma grouping_settled_head : C15_grouping_settled_with false.
Proof.
  intros tree insert lookup stable H1 H2 H3 e t olds urls urlsC Hincl.
  exact (flush_settled_head tree insert lookup stable H1 H2 H3 e t olds urls urlsC Hincl).
Qed.

(* the toy tree keeps what it holds *)
Lemma existsb_app_str u a b :
  existsb (str_eqb u) (a ++ b) = existsb (str_eqb u) a || existsb (str_eqb u) b.
Proof. apply existsb_app. Qed.

Lemma toy_stable_insert t u : toy_stable (toy_insert t u) u.
Proof.
  unfold toy_stable, toy_insert. destruct (existsb (str_eqb u) t) eqn:E.
  - exact E.
  - rewrite existsb_app_str. cbn. rewrite str_eqb_refl. rewrite orb_true_r. reflexivity.
Qed.

Lemma toy_stable_mono t u v : toy_stable t u -> toy_stable (toy_insert t v) u.
Proof.
  unfold toy_stable, toy_insert. intros H. destruct (existsb (str_eqb v) t).
  - exact H.
  - rewrite existsb_app_str, H. reflexivity.
Qed.

Lemma toy_stable_noop t u : toy_stable t u -> toy_insert t u = t.
Proof. unfold toy_stable, toy_insert. intros ->. reflexivity. Qed.

Lemma grouping_settled_skip_refuted : ~ C15_grouping_settled_with true.
Proof.
  intros H.
  specialize (H toy toy_insert toy_lookup toy_stable toy_stable_insert toy_stable_mono
                toy_stable_noop true [] [] toy_urls toy_urls (incl_refl _)).
  vm_compute in H. destruct H as [ H _ ]. discriminate H.
Qed.

(* the same toy flush under both variants, and the seeded one on an aggregation
   that is not empty (it then behaves like HEAD) *)
Lemma toy_flushes :
  flush_tree toy toy_insert toy_lookup false true [] [] toy_urls toy_urls
    = (toy_urls, [toy_param; toy_param; toy_param], [toy_param; toy_param; toy_param]) /\
  flush_tree toy toy_insert toy_lookup true true [] [] toy_urls toy_urls
    = (toy_urls, [[49]; [50]; toy_param], [toy_param; toy_param; toy_param]) /\
  flush_tree toy toy_insert toy_lookup true false [] [] toy_urls toy_urls
    = flush_tree toy toy_insert toy_lookup false false [] [] toy_urls toy_urls.
Proof. vm_compute. repeat split. Qed.

(* the seeded variant differs from HEAD only on a flush that meets an empty
   aggregation *)
Lemma skip_only_on_empty tree insert lookup t olds urls urlsC :
  flush_tree tree insert lookup true false t olds urls urlsC
  = flush_tree tree insert lookup false false t olds urls urlsC.
Proof. reflexivity. Qed.
