(* C15 — the engine-notification step of discovery.Run
   (aggregation-output-plugin/discovery/runner.go: [Run], [notifyErrorRecord],
   [filterOutInternalRecords]; shared-model/discovery/on_error.model.go:
   [HaproxyInternalErrors], [OnError.RecordErrorTransactionIfNeeds]).

   As coded at HEAD, one flush with a non-empty batch:
     filtered := filterOutInternalRecords(records)
        -- AccessLogs: the non-internal records
        -- OnError:    the request ids of the non-internal records whose status is
        --             one of HaproxyInternalErrors (a set)
     notifyErrorRecord(filtered.OnError)              -- BEFORE the aggregation
        -- nothing to report               -> return
        -- ENGINE_ADMIN_PORT unset         -> return
        -- PUT http://127.0.0.1:<port>/on_haproxy_error, body = the set
        --   client.Do fails (nothing listens, connection lost)  -> logged, return
        --   reply other than 200                                  -> logged, return
        --   reply 200                                             -> return
     GetUpdatedAggregations ; State.UpdateAggregation  -- Faults.v, [fstep true]
   notifyErrorRecord returns nothing: whatever the engine's admin port does, the
   aggregation and the state file are those of Faults.v.

   The step is modelled as an EFFECT with an outcome chosen by the environment
   ([nb_out], per flush), on top of the (memory, file) layer of Faults.v; every
   flush also says whether ENGINE_ADMIN_PORT is set ([nb_port]).

   [abort] selects what Run does with a transport failure of the notification:
   false = HEAD (logged, the batch is aggregated regardless); true = the
   "stop swallowing errors" variant (notifyErrorRecord returns the client.Do
   error and Run returns it joined to a new ErrCouldNotNotifyEngine BEFORE
   GetUpdatedAggregations: the whole batch leaves no trace), kept to show that
   the statements of Property.v tell the two apart. *)
From Coq Require Import List ZArith Bool Uint63.
From Verif Require Import C15.Model C15.Faults.
Import ListNotations.
Open Scope Z_scope.

(* shareddiscovery.HaproxyInternalErrors *)
Definition haproxy_internal_errors : list Z :=
  [400; 403; 408; 409; 413; 417; 500; 502; 503; 504].

(* RecordErrorTransactionIfNeeds is called for the non-internal records only *)
Definition failed_txn (r : rec) : bool :=
  negb (r_internal r) && existsb (Z.eqb (r_status r)) haproxy_internal_errors.

(* what becomes of the PUT /on_haproxy_error *)
Inductive nout :=
| NDelivered      (* the engine answered 200 *)
| NRejected       (* the engine answered something else (404: route not registered) *)
| NUnreachable    (* nothing listens on the admin port: connection refused *)
| NBroken.        (* the connection was lost before a reply arrived *)

(* client.Do returned an error *)
Definition transport_error (o : nout) : bool :=
  match o with NUnreachable | NBroken => true | _ => false end.

Record nbatch := mkNB {
  nb_f : fbatch;        (* the flush of Faults.v: records, restart, oracle, write fault *)
  nb_port : bool;       (* ENGINE_ADMIN_PORT is set *)
  nb_out : nout         (* outcome of the request, should one be made *)
}.

(* the transactions of this flush reported to the engine (their request ids are
   the body of the PUT) *)
Definition reported (nb : nbatch) : list rec :=
  filter failed_txn (b_recs (fb_batch (nb_f nb))).

(* Run issues the request during this flush (an empty batch returns before) *)
Definition reports (nb : nbatch) : bool :=
  nb_port nb && existsb failed_txn (b_recs (fb_batch (nb_f nb))).

(* the variant returns before the aggregation *)
Definition aborts (abort : bool) (nb : nbatch) : bool :=
  abort && reports nb && transport_error (nb_out nb).

Inductive nresult := NRunOk | NRunDumpError | NRunNotifyError.

Definition nres_of (o : outcome) : nresult :=
  match o with RunOk => NRunOk | RunDumpError => NRunDumpError end.

(* what Run returns *)
Definition nrun_result (abort : bool) (nb : nbatch) : nresult :=
  if aborts abort nb then NRunNotifyError else nres_of (run_result (nb_f nb)).

(* one flush: the restart (a new State reading the file) happens before Run
   whatever Run does; an aborted Run touches neither memory nor file *)
Definition nstep (abort : bool) (y : sys) (nb : nbatch) : sys :=
  if aborts abort nb
  then mkSys (if b_restart (fb_batch (nb_f nb)) then restore (disk y) else mem y) (disk y)
  else fstep true y (nb_f nb).

Definition nstate_from (v : bool) (y : sys) (nbs : list nbatch) : sys :=
  fold_left (nstep v) nbs y.
Definition nstate (v : bool) (nbs : list nbatch) : sys := nstate_from v sys0 nbs.

(* the states after every flush, in order *)
Fixpoint ntrace (v : bool) (y : sys) (nbs : list nbatch) : list sys :=
  match nbs with
  | [] => []
  | nb :: t => let y1 := nstep v y nb in y1 :: ntrace v y1 t
  end.

(* the same flush with its records taken away: what an aborted flush amounts to
   (Run on an empty batch returns at once; the restart flag is kept) *)
Definition blank (fb : fbatch) : fbatch :=
  let b := fb_batch fb in
  mkFB (mkBatch [] (b_restart b) (b_conv b) (b_rkE b) (b_rkC b) (b_nxE b) (b_nxC b)) (fb_fail fb).

(* the history of Faults.v a history with notification outcomes amounts to *)
Definition effective_flush (abort : bool) (nb : nbatch) : fbatch :=
  if aborts abort nb then blank (nb_f nb) else nb_f nb.

(* ---------------------------------------------------------------------- *)
(* Correspondence entry point (suite "notify").

   case = (records, runs); run = list of flushes:
     flush = (cfbatch of Faults.v: batch with oracle, write fault injected, error
              class Run returned, in-memory aggregate, re-read state file;
              ENGINE_ADMIN_PORT set;
              what the harness' listener on that port did during the flush:
                0 answered 200, 1 answered another status, 2 refused the
                connection (nothing listening), 3 closed the connection after
                reading the request;
              what the listener saw: 0 no request, 1 a PUT /on_haproxy_error,
                2 not observable (nothing was listening))
     error class: 0 = nil, 1 = ErrCouldNotDumpCombinedAgg, 2 = anything else *)

Definition cnbatch := (cfbatch * bool * int * int)%type.
Definition ncase_t := (list crec * list (list cnbatch))%type.

Definition nout_of (c : Z) : nout :=
  if c =? 0 then NDelivered else if c =? 1 then NRejected
  else if c =? 2 then NUnreachable else NBroken.

Definition nbatches_of (rs : list rec) (bs : list cnbatch) : list nbatch :=
  map (fun p : fbatch * cnbatch =>
         let '(fb, (_, port, o, _)) := p in mkNB fb port (nout_of (zi o)))
      (combine (fbatches_of rs (map (fun b : cnbatch => let '(cf, _, _, _) := b in cf) bs)) bs).

Definition nerr_class (o : nresult) : Z :=
  match o with NRunOk => 0 | NRunDumpError => 1 | NRunNotifyError => 2 end.

(* what disagreed: 0 = the error class, 1 = memory, 2 = the state file,
   3 = whether the engine was sent a report *)
Fixpoint first_bad_nflush (nbs : list nbatch) (ys : list sys) (os : list cnbatch) (j : Z)
  : option (Z * Z * state) :=
  match nbs, ys, os with
  | nb :: nbs', y :: ys', ((_, _, e, om, od), _, _, seen) :: os' =>
      if negb (nerr_class (nrun_result false nb) =? zi e) then Some (j, 0, mem y)
      else if negb (agrees (mem y) om) then Some (j, 1, mem y)
      else if negb (agrees (restore (disk y)) od) then Some (j, 2, restore (disk y))
      else if negb ((zi seen =? 2) || Bool.eqb (reports nb) (zi seen =? 1)) then Some (j, 3, mem y)
      else first_bad_nflush nbs' ys' os' (j + 1)
  | [], [], [] => None
  | _, _, _ => Some (-1, -1, empty_state)
  end.

Fixpoint first_bad_nrun (rs : list rec) (runs : list (list cnbatch)) (i : Z)
  : option (Z * (Z * Z * state)) :=
  match runs with
  | [] => None
  | r :: rest =>
      let nbs := nbatches_of rs r in
      match first_bad_nflush nbs (ntrace false sys0 nbs) r 0 with
      | None => first_bad_nrun rs rest (i + 1)
      | Some w => Some (i, w)
      end
  end.

(* None = the model (HEAD: a failed notification is only logged) agrees with the
   implementation after every flush of every run of the case; otherwise
   (run, (flush, what, the model's aggregate)) *)
Definition run_ncase (k : ncase_t) : option (Z * (Z * Z * state)) :=
  first_bad_nrun (map rec_of (fst k)) (snd k) 0.

(* wire format: as Faults.v ([pfcase]); every flush is followed by
   port-set listener-behaviour request-seen *)
Definition pnbatch (tbls : list itbl) (fins : list cobs) : P cnbatch :=
  pbind (pfbatch tbls fins) (fun fb =>
  pbind pbool (fun port =>
  pbind pint (fun o =>
  pbind pint (fun seen => pret (fb, port, o, seen))))).

Definition pncase : P ncase_t :=
  pbind (plist (plist pint)) (fun strs =>
  pbind (plist (plist (pbind (pref strs) (fun a => pbind (pref strs) (fun b => pret (a, b)))))) (fun tbls =>
  pbind (plist pagg) (fun aggs =>
  pbind (plist (pfinal strs aggs)) (fun fins =>
  pbind (plist (prec strs)) (fun recs =>
  pbind (plist (plist (pnbatch tbls fins))) (fun runs => pret (recs, runs))))))).

Definition run_notify (k : fcase) : option (Z * (Z * Z * state)) :=
  match pncase k with
  | Some (c, []) => run_ncase c
  | _ => Some (-1, (-1, -1, empty_state))
  end.
