(* C15 — suite "settle", second half: the tree calls of a flush, one by one
   (Extension 3).  Definitions only; lemmas in SettleCallsProofs.v.

   Settle.v says in which order one flush calls the URL tree ([flush_tree]) and
   what "grouped by the settled tree" means ([settled]); until now the suite
   compared only the NUMBER of leading inserts.  Here the harness hands over,
   for every flush WITHOUT a re-keying pass (the tree reported no convergence),
     - the records of the batch as logged (URL, consumer tag, internal flag);
     - the calls the real code made on the tree during discovery.Run, in order,
       as the recording wrapper saw them: InsertWithConvergenceIndication u /
       Insert u / Lookup u with the key common.NormalizeURL makes of the answer;
     - the recorded oracle: for every URL of those calls the key the real tree
       gives once discovery.Run has returned (one more Lookup on the wrapped
       tree, not recorded);
     - a hint: the order in which the per-consumer grouping met the consumer
       tags (Go map order; untrusted — it must be an arrangement of the tags
       of the batch, each once).
   Coq evaluates [flush_tree] and its call-by-call reading [flush_calls] on the
   same batch over the ORACLE TREE — the tree whose look-up function is the
   recorded oracle and which no insert changes — and demands
     (a) the recorded calls are exactly [flush_calls] (kinds, URLs, order, and
         for every look-up the key it returned);
     (b) [settled]: the keys the real look-ups returned, by endpoint and by
         consumer, are the keys of the final tree for the URLs of the batch.
   The oracle tree meets the three premises of [C15_grouping_settled_with]
   trivially (no insert moves it); the content of an accepted case is that the
   REAL tree, observed through its calls, behaved like it during that flush.
   Flushes with a re-keying pass stay out (finding F-C15), as before: "rekeyed"
   is "the tree reported a convergence during NormalizeTree", whether or not
   the aggregation held keys to re-normalise.  (Measured, thorough tier: of
   ~33 000 flushes with a convergence reported on an EMPTY aggregation 4 were
   not settled, of ~37 000 with stored keys 40; of ~120 000 without a reported
   convergence none.) *)
From Coq Require Import List ZArith Bool Uint63.
From Verif Require Import C15.Model C15.Settle.
Import ListNotations.
Open Scope Z_scope.

(* one call of the URL tree as the recording wrapper sees it *)
Inductive tcall :=
| CConv (u : str)            (* InsertWithConvergenceIndication u  (common.NormalizeTree) *)
| CIns (u : str)             (* Insert u                           (common.NormalizeURL)  *)
| CLook (u k : str).         (* Lookup u, normalised answer k      (common.NormalizeURL)  *)

Definition tcall_eqb (a b : tcall) : bool :=
  match a, b with
  | CConv u, CConv v => str_eqb u v
  | CIns u, CIns v => str_eqb u v
  | CLook u k, CLook v l => str_eqb u v && str_eqb k l
  | _, _ => false
  end.

Fixpoint list_eqb {A : Type} (e : A -> A -> bool) (a b : list A) : bool :=
  match a, b with
  | [], [] => true
  | x :: a', y :: b' => e x y && list_eqb e a' b'
  | _, _ => false
  end.

Section Calls.
  Variable tree : Type.
  Variable insert : tree -> str -> tree.
  Variable lookup : tree -> str -> str.

  (* the calls of a pass of common.NormalizeURL ([normalize_pass]) *)
  Fixpoint pass_calls (t : tree) (urls : list str) : list tcall :=
    match urls with
    | [] => []
    | u :: rest =>
        let t1 := insert t u in
        CIns u :: CLook u (lookup t1 u) :: pass_calls t1 rest
    end.

  (* the calls of one flush ([flush_tree], read call by call) *)
  Definition flush_calls (skip_on_empty state_empty : bool) (t : tree) (olds urls urlsC : list str)
    : list tcall :=
    let pre := pre_normalised skip_on_empty state_empty urls in
    let t1 := normalize_tree tree insert t pre in
    let t2 := fst (normalize_pass tree insert lookup t1 olds) in
    let t3 := fst (normalize_pass tree insert lookup t2 urls) in
    map CConv pre ++ pass_calls t1 olds ++ pass_calls t2 urls ++ pass_calls t3 urlsC.

  (* [settled] as a test *)
  Definition settledb (urls urlsC : list str) (r : tree * list str * list str) : bool :=
    let '(t, labE, labC) := r in
    list_eqb str_eqb labE (map (lookup t) urls) && list_eqb str_eqb labC (map (lookup t) urlsC).
End Calls.

(* the URLs handed to the tree / the keys the look-ups returned, in order *)
Definition call_inserted (c : tcall) : list str :=
  match c with CConv u => [u] | CIns u => [u] | CLook _ _ => [] end.
Definition call_key (c : tcall) : list str :=
  match c with CLook _ k => [k] | _ => [] end.
Definition inserted_of (cs : list tcall) : list str := flat_map call_inserted cs.
Definition keys_of (cs : list tcall) : list str := flat_map call_key cs.

(* ---------------------------------------------------------------------- *)
(* The oracle tree: the recorded url -> key table of the END of the flush;
   inserting changes nothing, the look-up reads the table (a URL without an
   entry reads as itself, like common.NormalizeURL without a match). *)
Definition otree := tbl.
Definition oinsert (t : otree) (_ : str) : otree := t.
Definition olookup (t : otree) (u : str) : str := tbl_get t u.

(* ---------------------------------------------------------------------- *)
(* One flush of a case, decoded. *)
Record dflush := mkDflush {
  df_size : Z;                          (* records in the batch, internal ones included *)
  df_recs : list (str * str * bool);    (* URL, consumer tag as logged; internal *)
  df_empty : bool;                      (* Endpoints and Consumers empty when the flush began *)
  df_rekeyed : bool;                    (* a convergence was reported *)
  df_pre : Z;                           (* leading InsertWithConvergenceIndication calls *)
  df_unsettled : Z;                     (* look-ups the harness found unsettled *)
  df_calls : list tcall;                (* the recorded calls (none when rekeyed) *)
  df_oracle : tbl;                      (* url -> key once Run has returned *)
  df_hint : list str                    (* consumer tags in the order the grouping met them *)
}.

(* (URL, consumer tag) of the records that reach GetUpdatedAggregations: the
   internal ones are dropped, the others pass [sanitize] (withValidUTF8Keys),
   an empty tag reads "N/A" ([cons_tag]) *)
Definition accepted_of (recs : list (str * str * bool)) : list (str * str) :=
  flat_map (fun x : str * str * bool =>
              let '(u, tg, it) := x in
              if it then []
              else let r := sanitize (mkRec [] u 0 0 0 0 tg [] it) in [(r_url r, cons_tag r)]) recs.

Definition df_acc (f : dflush) : list (str * str) := accepted_of (df_recs f).
Definition df_urls (f : dflush) : list str := map fst (df_acc f).

(* the consumer pass: tag by tag in the order [hint], inside a tag in batch order
   (lo.GroupBy by tag, then lo.MapValues over that Go map) *)
Definition consumer_urls (hint : list str) (acc : list (str * str)) : list str :=
  flat_map (fun tg => map fst (filter (fun p : str * str => str_eqb (snd p) tg) acc)) hint.
Definition df_urlsC (f : dflush) : list str := consumer_urls (df_hint f) (df_acc f).

Fixpoint nodupb (l : list str) : bool :=
  match l with
  | [] => true
  | x :: r => negb (existsb (str_eqb x) r) && nodupb r
  end.

(* the hint arranges the consumer tags of the batch, each once *)
Definition hint_ok (hint : list str) (acc : list (str * str)) : bool :=
  nodupb hint
  && forallb (fun p : str * str => existsb (str_eqb (snd p)) hint) acc
  && forallb (fun tg => existsb (fun p : str * str => str_eqb (snd p) tg) acc) hint.

(* what the real look-ups returned: the first [accepted] of them belong to the
   endpoint pass, the others to the consumer pass *)
Definition df_labE (f : dflush) : list str := firstn (length (df_urls f)) (keys_of (df_calls f)).
Definition df_labC (f : dflush) : list str := skipn (length (df_urls f)) (keys_of (df_calls f)).

Definition model_calls (f : dflush) : list tcall :=
  flush_calls otree oinsert olookup false (df_empty f) (df_oracle f) [] (df_urls f) (df_urlsC f).
Definition model_flush (f : dflush) : otree * list str * list str :=
  flush_tree otree oinsert olookup false (df_empty f) (df_oracle f) [] (df_urls f) (df_urlsC f).

(* the older demands of the suite (Settle.v): the number of leading inserts, no
   unsettled look-up without a re-keying pass — the number of accepted records
   is now the model's *)
Definition counts_ok (f : dflush) : bool :=
  sflush_ok false (df_size f, Z.of_nat (length (df_urls f)), df_empty f, df_rekeyed f,
                   df_pre f, df_unsettled f).

Definition calls_ok (f : dflush) : bool :=
  hint_ok (df_hint f) (df_acc f)
  && list_eqb tcall_eqb (df_calls f) (model_calls f)                                  (* (a) *)
  && settledb otree olookup (df_urls f) (df_urlsC f)
       (fst (fst (model_flush f)), df_labE f, df_labC f).                             (* (b) *)

Definition dflush_ok (f : dflush) : bool :=
  (Z.of_nat (length (df_recs f)) =? df_size f)
  && counts_ok f
  && (df_rekeyed f || calls_ok f).

(* ---------------------------------------------------------------------- *)
(* Wire:  strs  n, then per string: n, bytes
          recs  n, then per record: url tag internal      (positions in strs)
          runs  n, then per run: flushes n, then per flush
                size state_empty rekeyed pre unsettled
                calls  n, then per call ONE number  kind + 4*url + 2^22*key
                       (kind 0 conv-insert, 1 insert, 2 look-up; key = 0 unless look-up)
                oracle n, then per entry ONE number url + 2^20*key
                hint   n, then positions in strs
   The batches of a run are consecutive slices of [recs] of the given sizes. *)
Definition wflush := (Z * bool * bool * Z * Z * list tcall * tbl * list str)%type.

Definition m20 : int := 1048575%uint63.
Definition pick (strs : list istr) (i : int) : option str :=
  match nth_error strs (Z.to_nat (zi i)) with Some s => Some (zs s) | None => None end.

Definition pcall (strs : list istr) : P tcall :=
  pbind pint (fun c => fun l =>
    let kind := zi (c land 3)%uint63 in
    match pick strs (((c >> 2) land m20)%uint63), pick strs ((c >> 22)%uint63) with
    | Some u, Some k =>
        if kind =? 0 then Some (CConv u, l)
        else if kind =? 1 then Some (CIns u, l)
        else if kind =? 2 then Some (CLook u k, l)
        else None
    | _, _ => None
    end).

Definition ppair (strs : list istr) : P (str * str) :=
  pbind pint (fun c => fun l =>
    match pick strs ((c land m20)%uint63), pick strs ((c >> 20)%uint63) with
    | Some u, Some k => Some ((u, k), l)
    | _, _ => None
    end).

Definition pstrref (strs : list istr) : P str := pbind (pref strs) (fun s => pret (zs s)).

Definition pwflush (strs : list istr) : P wflush :=
  sz <- pint ;; e <- pbool ;; k <- pbool ;; pre <- pint ;; uns <- pint ;;
  cs <- plist (pcall strs) ;; orc <- plist (ppair strs) ;; h <- plist (pstrref strs) ;;
  pret (zi sz, e, k, zi pre, zi uns, cs, orc, h).

Definition prawrec (strs : list istr) : P (str * str * bool) :=
  u <- pstrref strs ;; tg <- pstrref strs ;; it <- pbool ;; pret (u, tg, it).

(* hand the flushes of a run their slices of the records *)
Fixpoint slice_flushes (recs : list (str * str * bool)) (ws : list wflush) : list dflush :=
  match ws with
  | [] => []
  | (sz, e, k, pre, uns, cs, orc, h) :: rest =>
      let n := Z.to_nat sz in
      mkDflush sz (firstn n recs) e k pre uns cs orc h :: slice_flushes (skipn n recs) rest
  end.

Definition psettle : P (list (list dflush)) :=
  strs <- plist (plist pint) ;;
  recs <- plist (prawrec strs) ;;
  runs <- plist (plist (pwflush strs)) ;;
  pret (map (slice_flushes recs) runs).

Definition decode_settle (k : fcase) : option (list (list dflush)) :=
  match psettle k with
  | Some (runs, []) => Some runs
  | _ => None
  end.

(* what the model says of a flush the suite rejects: leading inserts, calls *)
Definition model_says (f : dflush) : Z * list tcall :=
  (expected_pre false (df_size f, Z.of_nat (length (df_urls f)), df_empty f, df_rekeyed f,
                       df_pre f, df_unsettled f),
   if df_rekeyed f then [] else model_calls f).

Fixpoint first_bad_dflush (fs : list dflush) (i : Z) : option (Z * (Z * list tcall)) :=
  match fs with
  | [] => None
  | f :: rest => if dflush_ok f then first_bad_dflush rest (i + 1) else Some (i, model_says f)
  end.

Fixpoint first_bad_drun (runs : list (list dflush)) (i : Z) : option (Z * (Z * (Z * list tcall))) :=
  match runs with
  | [] => None
  | r :: rest =>
      match first_bad_dflush r 0 with
      | None => first_bad_drun rest (i + 1)
      | Some w => Some (i, w)
      end
  end.

(* None = every flush of every run made exactly the tree calls of [flush_calls]
   over its recorded oracle and grouped by the settled tree (flushes with a
   re-keying pass: the number of leading inserts only); otherwise
   (run, (flush, (leading inserts the model expects, calls the model expects))) *)
Definition run_settle_calls (k : fcase) : option (Z * (Z * (Z * list tcall))) :=
  match decode_settle k with
  | Some runs => first_bad_drun runs 0
  | None => Some (-1, (-1, (-1, [])))
  end.
