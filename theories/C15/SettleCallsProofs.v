(* C15 — lemmas about the call-by-call reading of a flush (SettleCalls.v) *)
From Coq Require Import List ZArith Bool Lia.
From Verif Require Import C15.Model C15.Proofs C15.Settle C15.SettleProofs C15.SettleCalls.
Import ListNotations.
Open Scope Z_scope.

Lemma list_eqb_eq {A : Type} (e : A -> A -> bool) :
  (forall x y, e x y = true -> x = y) ->
  forall a b, list_eqb e a b = true -> a = b.
Proof.
  intros He. induction a as [ | x a IH ]; intros [ | y b ] H; cbn in H; try discriminate.
  - reflexivity.
  - apply andb_prop in H. destruct H as [ H1 H2 ]. f_equal; [ apply He, H1 | apply IH, H2 ].
Qed.

Lemma tcall_eqb_eq a b : tcall_eqb a b = true -> a = b.
Proof.
  destruct a as [ u | u | u k ], b as [ v | v | v l ]; cbn; intros H; try discriminate.
  - f_equal. apply str_eqb_eq, H.
  - f_equal. apply str_eqb_eq, H.
  - apply andb_prop in H. destruct H as [ H1 H2 ]. f_equal; apply str_eqb_eq; assumption.
Qed.

Lemma keys_of_app a b : keys_of (a ++ b) = keys_of a ++ keys_of b.
Proof. apply flat_map_app. Qed.

Lemma inserted_of_app a b : inserted_of (a ++ b) = inserted_of a ++ inserted_of b.
Proof. apply flat_map_app. Qed.

Lemma keys_of_conv us : keys_of (map CConv us) = [].
Proof. induction us as [ | u us IH ]; cbn; [ reflexivity | exact IH ]. Qed.

Lemma inserted_of_conv us : inserted_of (map CConv us) = us.
Proof. induction us as [ | u us IH ]; cbn; [ reflexivity | f_equal; exact IH ]. Qed.

Section CallFacts.
  Variable tree : Type.
  Variable insert : tree -> str -> tree.
  Variable lookup : tree -> str -> str.

  Lemma settledb_settled urls urlsC r :
    settledb tree lookup urls urlsC r = true -> settled tree lookup urls urlsC r.
  Proof.
    destruct r as [ [ t labE ] labC ]. cbn. intros H. apply andb_prop in H. destruct H as [ H1 H2 ].
    split; apply (list_eqb_eq str_eqb str_eqb_eq); assumption.
  Qed.

  (* the look-ups of a pass return its labels; it inserts its URLs in order *)
  Lemma pass_calls_keys us : forall t,
    keys_of (pass_calls tree insert lookup t us) = snd (normalize_pass tree insert lookup t us).
  Proof.
    induction us as [ | u us IH ]; intros t; cbn.
    - reflexivity.
    - specialize (IH (insert t u)).
      destruct (normalize_pass tree insert lookup (insert t u) us) as [ t2 ls ]. cbn in *.
      f_equal. exact IH.
  Qed.

  Lemma pass_calls_inserted us : forall t,
    inserted_of (pass_calls tree insert lookup t us) = us.
  Proof. induction us as [ | u us IH ]; intros t; cbn; [ reflexivity | f_equal; apply IH ]. Qed.

  Lemma normalize_pass_tree us : forall t,
    fst (normalize_pass tree insert lookup t us) = fold_left insert us t.
  Proof.
    induction us as [ | u us IH ]; intros t; cbn.
    - reflexivity.
    - specialize (IH (insert t u)).
      destruct (normalize_pass tree insert lookup (insert t u) us) as [ t2 ls ]. exact IH.
  Qed.

  Lemma normalize_pass_length us : forall t,
    length (snd (normalize_pass tree insert lookup t us)) = length us.
  Proof.
    induction us as [ | u us IH ]; intros t; cbn.
    - reflexivity.
    - specialize (IH (insert t u)).
      destruct (normalize_pass tree insert lookup (insert t u) us) as [ t2 ls ]. cbn in *.
      f_equal. exact IH.
  Qed.

  (* [flush_tree] by projections *)
  Lemma flush_tree_proj sk e t olds urls urlsC :
    let t1 := normalize_tree tree insert t (pre_normalised sk e urls) in
    let t2 := fst (normalize_pass tree insert lookup t1 olds) in
    let pE := normalize_pass tree insert lookup t2 urls in
    let pC := normalize_pass tree insert lookup (fst pE) urlsC in
    flush_tree tree insert lookup sk e t olds urls urlsC = (fst pC, snd pE, snd pC).
  Proof.
    cbn zeta. unfold flush_tree.
    destruct (normalize_pass tree insert lookup
                (normalize_tree tree insert t (pre_normalised sk e urls)) olds) as [ t2 lo ].
    cbn [fst].
    destruct (normalize_pass tree insert lookup t2 urls) as [ t3 labE ]. cbn [fst snd].
    destruct (normalize_pass tree insert lookup t3 urlsC) as [ t4 labC ]. reflexivity.
  Qed.

  (* the keys returned by the look-ups of [flush_calls] are the labels of
     [flush_tree], after those of the re-keying pass *)
  Lemma flush_calls_keys sk e t olds urls urlsC :
    keys_of (flush_calls tree insert lookup sk e t olds urls urlsC)
    = snd (normalize_pass tree insert lookup
             (normalize_tree tree insert t (pre_normalised sk e urls)) olds)
      ++ snd (fst (flush_tree tree insert lookup sk e t olds urls urlsC))
      ++ snd (flush_tree tree insert lookup sk e t olds urls urlsC).
  Proof.
    rewrite flush_tree_proj. cbn [fst snd]. unfold flush_calls.
    rewrite !keys_of_app, keys_of_conv, !pass_calls_keys. reflexivity.
  Qed.

  (* the URLs [flush_calls] hands to the tree, in order, and the tree they make *)
  Lemma flush_calls_inserted sk e t olds urls urlsC :
    inserted_of (flush_calls tree insert lookup sk e t olds urls urlsC)
    = pre_normalised sk e urls ++ olds ++ urls ++ urlsC.
  Proof.
    unfold flush_calls. rewrite !inserted_of_app, inserted_of_conv, !pass_calls_inserted. reflexivity.
  Qed.

  Lemma flush_tree_final sk e t olds urls urlsC :
    fst (fst (flush_tree tree insert lookup sk e t olds urls urlsC))
    = fold_left insert (inserted_of (flush_calls tree insert lookup sk e t olds urls urlsC)) t.
  Proof.
    rewrite flush_calls_inserted, flush_tree_proj. cbn [fst].
    rewrite !normalize_pass_tree. unfold normalize_tree. rewrite !fold_left_app. reflexivity.
  Qed.

  Lemma flush_tree_labE_length sk e t olds urls urlsC :
    length (snd (fst (flush_tree tree insert lookup sk e t olds urls urlsC))) = length urls.
  Proof. rewrite flush_tree_proj. cbn [fst snd]. apply normalize_pass_length. Qed.
End CallFacts.

(* the consumer pass groups records of the batch only *)
Lemma consumer_urls_incl hint acc : incl (consumer_urls hint acc) (map fst acc).
Proof.
  intros u Hu. unfold consumer_urls in Hu. apply in_flat_map in Hu.
  destruct Hu as [ tg [ _ Hu ] ]. apply in_map_iff in Hu. destruct Hu as [ p [ <- Hp ] ].
  apply filter_In in Hp. apply in_map. exact (proj1 Hp).
Qed.

(* the oracle tree keeps what it holds: no insert moves it *)
Lemma oracle_tree_premises :
  (forall (t : otree) (u : str), (fun _ _ => True) (oinsert t u) u) /\
  (forall (t : otree) (u v : str), (fun (_ : otree) (_ : str) => True) t u -> (fun _ _ => True) (oinsert t v) u) /\
  (forall (t : otree) (u : str), (fun (_ : otree) (_ : str) => True) t u -> oinsert t u = t).
Proof. repeat split. Qed.

(* What an accepted flush without a re-keying pass says. *)
Definition settle_flush_conclusion (f : dflush) : Prop :=
  let urls := df_urls f in
  let urlsC := df_urlsC f in
  let r := flush_tree otree oinsert olookup false (df_empty f) (df_oracle f) [] urls urlsC in
  (* the consumer pass meets records of the batch *)
  incl urlsC urls /\
  (* (a) the recorded calls are the model's, look-up answers included *)
  df_calls f = flush_calls otree oinsert olookup false (df_empty f) (df_oracle f) [] urls urlsC /\
  (* the keys the real look-ups returned are the labels of [flush_tree] *)
  (df_labE f = snd (fst r) /\ df_labC f = snd r) /\
  (* the conclusion of C15_grouping_settled_without_rekeying, for the recorded oracle *)
  settled otree olookup urls urlsC r /\
  (* (b) the same for what the real code grouped under *)
  settled otree olookup urls urlsC (fst (fst r), df_labE f, df_labC f).

Lemma accepted_flush_settled
  (Hgen : C15_grouping_settled_no_rekeying_with false) (f : dflush) :
  dflush_ok f = true -> df_rekeyed f = false -> settle_flush_conclusion f.
Proof.
  intros Hok Hrk. unfold dflush_ok in Hok. rewrite Hrk in Hok. cbn [orb] in Hok.
  apply andb_prop in Hok. destruct Hok as [ _ Hc ]. unfold calls_ok in Hc.
  apply andb_prop in Hc. destruct Hc as [ Hc Hs ]. apply andb_prop in Hc. destruct Hc as [ _ Ha ].
  apply (list_eqb_eq tcall_eqb tcall_eqb_eq) in Ha. apply settledb_settled in Hs.
  unfold model_calls in Ha. unfold model_flush in Hs.
  assert (Hincl : incl (df_urlsC f) (df_urls f)) by apply consumer_urls_incl.
  pose proof (flush_calls_keys otree oinsert olookup false (df_empty f) (df_oracle f) []
                (df_urls f) (df_urlsC f)) as Hk.
  rewrite <- Ha in Hk. cbn [normalize_pass snd app] in Hk.
  pose proof (flush_tree_labE_length otree oinsert olookup false (df_empty f) (df_oracle f) []
                (df_urls f) (df_urlsC f)) as Hlen.
  unfold settle_flush_conclusion. cbn zeta.
  split; [ exact Hincl | ]. split; [ exact Ha | ]. split; [ | split ].
  - unfold df_labE, df_labC. rewrite Hk, <- Hlen. split.
    + rewrite firstn_app, Nat.sub_diag, firstn_all. cbn. apply app_nil_r.
    + rewrite skipn_app, Nat.sub_diag, skipn_all. reflexivity.
  - destruct oracle_tree_premises as [ P1 [ P2 P3 ] ].
    exact (Hgen otree oinsert olookup (fun _ _ => True) P1 P2 P3 (df_empty f) (df_oracle f)
             (df_urls f) (df_urlsC f) Hincl).
  - exact Hs.
Qed.

Lemma first_bad_dflush_none fs : forall i,
  first_bad_dflush fs i = None -> forall f, In f fs -> dflush_ok f = true.
Proof.
  induction fs as [ | g fs IH ]; intros i H f Hin; [ destruct Hin | ].
  cbn in H. destruct (dflush_ok g) eqn:Eg; [ | discriminate ].
  destruct Hin as [ <- | Hin ]; [ exact Eg | exact (IH _ H f Hin) ].
Qed.

Lemma first_bad_drun_none runs : forall i,
  first_bad_drun runs i = None -> forall r, In r runs -> forall f, In f r -> dflush_ok f = true.
Proof.
  induction runs as [ | q runs IH ]; intros i H r Hr f Hf; [ destruct Hr | ].
  cbn in H. destruct (first_bad_dflush q 0) eqn:Eq; [ discriminate | ].
  destruct Hr as [ <- | Hr ]; [ exact (first_bad_dflush_none _ _ Eq f Hf) | exact (IH _ H r Hr f Hf) ].
Qed.

Lemma accepted_settle_case
  (Hgen : C15_grouping_settled_no_rekeying_with false) (k : fcase) :
  run_settle_calls k = None ->
  exists runs, decode_settle k = Some runs /\
    forall r, In r runs -> forall f, In f r -> df_rekeyed f = false -> settle_flush_conclusion f.
Proof.
  unfold run_settle_calls. destruct (decode_settle k) as [ runs | ]; [ | discriminate ].
  intros H. exists runs. split; [ reflexivity | ].
  intros r Hr f Hf Hrk. apply (accepted_flush_settled Hgen); [ | exact Hrk ].
  exact (first_bad_drun_none _ _ H r Hr f Hf).
Qed.
