(* C15 — proofs about sanitised records and the JSON state file
   (definitions: Entry.v). *)
From Coq Require Import List ZArith Bool Lia.
From Verif Require Import C15.Utf8 C15.Utf8Proofs C15.Model C15.Spec C15.Proofs C15.Keys C15.KeysProofs C15.Entry.
Import ListNotations.
Open Scope Z_scope.

(* ---------------------------------------------------------------------- *)
(* sanitising *)

Lemma sanitize_valid r : rec_valid (sanitize r).
Proof. unfold rec_valid, sanitize; cbn. repeat split; apply to_valid_utf8_valid. Qed.

Lemma sanitize_id r : rec_valid r -> sanitize r = r.
Proof.
  intros (A & B & C & D). destruct r; unfold sanitize; cbn in *.
  now rewrite !to_valid_utf8_id by assumption.
Qed.

Lemma recs_valid_sanitized bs : recs_valid (map sanitize_batch bs).
Proof.
  unfold recs_valid. rewrite Forall_forall. intros b Hb.
  apply in_map_iff in Hb. destruct Hb as [b0 [<- _]]. cbn.
  rewrite Forall_forall. intros r Hr. apply in_map_iff in Hr. destruct Hr as [r0 [<- _]].
  apply sanitize_valid.
Qed.

Lemma map_id_in {A : Type} (f : A -> A) (l : list A) :
  (forall x, In x l -> f x = x) -> map f l = l.
Proof.
  induction l as [|a l IH]; intros H; cbn; [reflexivity|].
  rewrite H by now left. rewrite IH; [reflexivity|]. intros x Hx. apply H. now right.
Qed.

Lemma sanitize_batches_id bs : recs_valid bs -> map sanitize_batch bs = bs.
Proof.
  unfold recs_valid. rewrite Forall_forall. intros H. apply map_id_in. intros b Hb.
  specialize (H b Hb). rewrite Forall_forall in H.
  destruct b; unfold sanitize_batch; cbn in *. f_equal.
  apply map_id_in. intros r Hr. apply sanitize_id. now apply H.
Qed.

Lemma nocolon_to_valid s : nocolon s -> nocolon (to_valid_utf8 s).
Proof.
  intros H. apply to_valid_utf8_Forall; [|exact H].
  unfold repl. repeat constructor; discriminate.
Qed.

Lemma batches_ok_sanitized bs : batches_ok bs -> batches_ok (map sanitize_batch bs).
Proof.
  unfold batches_ok, recs_ok. rewrite !Forall_forall. intros H b Hb.
  apply in_map_iff in Hb. destruct Hb as [b0 [<- Hb0]]. cbn.
  specialize (H b0 Hb0). rewrite Forall_forall in *. intros r Hr.
  apply in_map_iff in Hr. destruct Hr as [r0 [<- Hr0]]. cbn.
  apply nocolon_to_valid. now apply H.
Qed.

Lemma oracle_valid_sanitized bs : oracle_valid bs -> oracle_valid (map sanitize_batch bs).
Proof.
  unfold oracle_valid. rewrite !Forall_forall. intros H b Hb.
  apply in_map_iff in Hb. destruct Hb as [b0 [<- Hb0]]. cbn. now apply H.
Qed.

(* ---------------------------------------------------------------------- *)
(* splitting the interceptor header at '/' *)

Lemma split_on_cons c s : exists h r, split_on c s = h :: r.
Proof.
  induction s as [|x s [h [r IH]]]; cbn; [now exists [], []|].
  destruct (x =? c); [now exists [], (split_on c s)|]. rewrite IH. now exists (x :: h), r.
Qed.

Lemma split_on_ne c x s h r : (x =? c) = false -> split_on c s = h :: r ->
  split_on c (x :: s) = (x :: h) :: r.
Proof. intros E H. cbn. now rewrite E, H. Qed.

Lemma ne47 x : 128 <= x -> (x =? 47) = false.
Proof. intros H. apply Z.eqb_neq. lia. Qed.

Lemma valid_split s : valid_utf8 s -> Forall valid_utf8 (split_on 47 s).
Proof.
  induction 1 as [|c s H1 V IH|c c2 s H2 V IH|c c2 c3 s H3 V IH|c c2 c3 c4 s H4 V IH].
  - cbn. repeat constructor.
  - destruct (split_on_cons 47 s) as [h [r E]]. rewrite E in IH.
    inversion IH as [|? ? Vh Vr]; subst. cbn. destruct (c =? 47).
    + constructor; [constructor | now rewrite E].
    + rewrite E. constructor; [now apply v_1 | assumption].
  - destruct (split_on_cons 47 s) as [h [r E]]. rewrite E in IH.
    inversion IH as [|? ? Vh Vr]; subst. destruct (is2_lead _ _ H2) as (A & B).
    rewrite (split_on_ne 47 c (c2 :: s) (c2 :: h) r); [|apply ne47; lia|].
    + constructor; [now apply v_2 | assumption].
    + apply split_on_ne; [apply ne47; lia | assumption].
  - destruct (split_on_cons 47 s) as [h [r E]]. rewrite E in IH.
    inversion IH as [|? ? Vh Vr]; subst. destruct (is3_lead _ _ _ H3) as (A & B & C).
    rewrite (split_on_ne 47 c (c2 :: c3 :: s) (c2 :: c3 :: h) r); [|apply ne47; lia|].
    + constructor; [now apply v_3 | assumption].
    + apply split_on_ne; [apply ne47; lia|]. apply split_on_ne; [apply ne47; lia | assumption].
  - destruct (split_on_cons 47 s) as [h [r E]]. rewrite E in IH.
    inversion IH as [|? ? Vh Vr]; subst. destruct (is4_lead _ _ _ _ H4) as (A & B & C & D).
    rewrite (split_on_ne 47 c (c2 :: c3 :: c4 :: s) (c2 :: c3 :: c4 :: h) r); [|apply ne47; lia|].
    + constructor; [now apply v_4 | assumption].
    + apply split_on_ne; [apply ne47; lia|]. apply split_on_ne; [apply ne47; lia|].
      apply split_on_ne; [apply ne47; lia | assumption].
Qed.

Lemma valid_unknown : valid_utf8 unknown.
Proof. apply valid_ascii. unfold unknown. repeat constructor. Qed.
Lemma valid_NA : valid_utf8 NA.
Proof. apply valid_ascii. unfold NA. repeat constructor. Qed.
Lemma valid_delim : valid_utf8 delim.
Proof. apply valid_ascii. unfold delim. repeat constructor. Qed.

Lemma icpt_key_valid r : valid_utf8 (r_icpt r) -> kvalid (icpt_key r).
Proof.
  intros H. apply valid_split in H. unfold icpt_key, kvalid.
  destruct (split_on 47 (r_icpt r)) as [|a [|b [|c l]]]; cbn; try (split; apply valid_unknown).
  inversion H as [|? ? Va H']; subst. inversion H' as [|? ? Vb _]; subst. now split.
Qed.

Lemma cons_tag_valid r : valid_utf8 (r_cons r) -> valid_utf8 (cons_tag r).
Proof. unfold cons_tag. destruct (r_cons r); intros H; [apply valid_NA | exact H]. Qed.

Lemma pkey_valid k : kvalid k -> valid_utf8 (pkey k).
Proof.
  intros [A B]. unfold pkey. apply valid_app; [assumption|]. apply valid_app; [apply valid_delim | assumption].
Qed.

(* ---------------------------------------------------------------------- *)
(* every line of the ledger is filed under well-formed keys *)

Definition lvalid (l : lrec) : Prop :=
  rec_valid (l_rec l) /\ kvalid (l_ekey l) /\ valid_utf8 (fst (l_ckey l)) /\ kvalid (snd (l_ckey l)).

Definition bvalid (b : batch) : Prop :=
  Forall rec_valid (b_recs b) /\
  keeps_valid (b_rkE b) /\ keeps_valid (b_rkC b) /\ keeps_valid (b_nxE b) /\ keeps_valid (b_nxC b).

Lemma lvalid_lstep L b : bvalid b -> Forall lvalid L -> Forall lvalid (lstep L b).
Proof.
  intros (R & KE & KC & NE & NC) H. unfold lstep.
  assert (H0 : Forall lvalid (if b_restart b then map floor_l L else L)).
  { destruct (b_restart b); [|assumption].
    apply Forall_map_in. rewrite Forall_forall in H. intros a Ha. exact (H a Ha). }
  destruct (b_recs b) as [|r rs] eqn:E; [assumption|]. rewrite <- E.
  apply Forall_app. split.
  - destruct (b_conv b); [|assumption].
    apply Forall_map_in. rewrite Forall_forall in H0. intros a Ha.
    destruct (H0 a Ha) as ((A1 & A2 & A3 & A4) & [B1 B2] & C & [D1 D2]).
    unfold lvalid, relabel, kvalid, on_url; cbn. repeat split; auto.
  - apply Forall_map_in. intros a Ha. unfold accepted in Ha. apply filter_In in Ha. destruct Ha as [Ha _].
    rewrite E in Ha. rewrite Forall_forall in R. specialize (R a Ha). destruct R as (A & B & C & D).
    unfold lvalid, fresh, ep, kvalid; cbn. repeat split; auto. now apply cons_tag_valid.
Qed.

Lemma lvalid_ledger_from bs : Forall bvalid bs -> forall L,
  Forall lvalid L -> Forall lvalid (ledger_from L bs).
Proof.
  unfold ledger_from. induction 1 as [|b bs Hb Hbs IH]; intros L H; cbn; [assumption|].
  now apply IH, lvalid_lstep.
Qed.

Lemma bvalid_all bs : recs_valid bs -> oracle_valid bs -> Forall bvalid bs.
Proof.
  unfold recs_valid, oracle_valid. rewrite !Forall_forall. intros R O b Hb.
  split; [now apply R | now apply O].
Qed.

Lemma filter_ex {A : Type} (p : A -> bool) (l : list A) :
  filter p l <> [] -> exists a, In a l /\ p a = true.
Proof.
  destruct (filter p l) as [|a g] eqn:E; [congruence|]. intros _.
  exists a. apply filter_In. rewrite E. now left.
Qed.

Lemma summary_some_ne g a : summary g = Some a -> g <> [].
Proof. destruct g; [discriminate | discriminate]. Qed.

Lemma ocount_some_ne {A : Type} (g : list A) n : ocount (length g) = Some n -> g <> [].
Proof. destruct g; [discriminate | discriminate]. Qed.

Lemma omax_some_ne {A : Type} (f : A -> Z) (g : list A) n : omax (map f g) = Some n -> g <> [].
Proof. destruct g; [discriminate | discriminate]. Qed.

Lemma state_valid_run bs :
  batches_ok bs -> recs_valid bs -> oracle_valid bs -> state_valid (run bs).
Proof.
  intros Ok R O.
  assert (LV : Forall lvalid (ledger bs)).
  { apply lvalid_ledger_from; [now apply bvalid_all | constructor]. }
  rewrite Forall_forall in LV.
  destruct (wf_run bs Ok) as ([NE _] & [NES _] & [NC _] & [NCS _] & NI).
  unfold state_valid. repeat apply conj; rewrite Forall_forall; intros e He; cbn beta.
  - pose proof (mfind_in key_eqb eqdec_key _ e NE He) as M. rewrite (final_E bs Ok) in M.
    destruct (filter_ex _ _ (summary_some_ne _ _ M)) as [l [Hl P]].
    apply (proj2 eqdec_key) in P. destruct (LV l Hl) as (_ & K & _). rewrite P in K. exact K.
  - pose proof (mfind_in skey_eqb eqdec_skey _ e NES He) as M.
    destruct e as [[k st] n]. cbn [fst snd] in *. rewrite (final_ES bs Ok) in M.
    destruct (filter_ex _ _ (ocount_some_ne _ _ M)) as [l [Hl P]].
    apply andb_prop in P. destruct P as [P _].
    apply (proj2 eqdec_key) in P. destruct (LV l Hl) as (_ & K & _). rewrite P in K. exact K.
  - pose proof (mfind_in ckey_eqb eqdec_ckey _ e NC He) as M. rewrite (final_C bs Ok) in M.
    destruct (filter_ex _ _ (summary_some_ne _ _ M)) as [l [Hl P]].
    apply (proj2 eqdec_ckey) in P. destruct (LV l Hl) as (_ & _ & C & D).
    rewrite P in C, D. split; [exact C | exact D].
  - pose proof (mfind_in cskey_eqb eqdec_cskey _ e NCS He) as M.
    destruct e as [[ck st] n]. cbn [fst snd] in *. rewrite (final_CS bs Ok) in M.
    destruct (filter_ex _ _ (ocount_some_ne _ _ M)) as [l [Hl P]].
    apply andb_prop in P. destruct P as [P _].
    apply (proj2 eqdec_ckey) in P. destruct (LV l Hl) as (_ & _ & C & D).
    rewrite P in C, D. split; [exact C | exact D].
  - pose proof (mfind_in key_eqb eqdec_key _ e NI He) as M. rewrite (final_I bs Ok) in M.
    destruct (filter_ex _ _ (omax_some_ne _ _ _ M)) as [l [Hl P]].
    apply (proj2 eqdec_key) in P.
    destruct (LV l Hl) as ((_ & _ & _ & D) & _). apply icpt_key_valid in D. rewrite P in D. exact D.
Qed.

Lemma state_valid_run_entry bs :
  batches_ok bs -> oracle_valid bs -> state_valid (run_entry bs).
Proof.
  intros Ok O. unfold run_entry. apply state_valid_run.
  - now apply batches_ok_sanitized.
  - apply recs_valid_sanitized.
  - now apply oracle_valid_sanitized.
Qed.

(* ---------------------------------------------------------------------- *)
(* the JSON writer leaves the file of a well-formed state alone *)

Lemma put_keys_Forall {K V : Type} (keqb : K -> K -> bool) (Q : K -> Prop) k v (m : list (K * V)) :
  Q k -> Forall (fun e => Q (fst e)) m -> Forall (fun e => Q (fst e)) (put keqb k v m).
Proof.
  intros Hk. induction m as [|[k' v'] t IH]; intros H; cbn.
  - constructor; [exact Hk | constructor].
  - inversion H as [|? ? H1 H2]; subst. destruct (keqb k' k).
    + constructor; assumption.
    + constructor; [assumption | now apply IH].
Qed.

Lemma put_all_keys_Forall {K V : Type} (keqb : K -> K -> bool) (Q : K -> Prop) (l : list (K * V)) :
  forall m, Forall (fun e => Q (fst e)) l -> Forall (fun e => Q (fst e)) m ->
  Forall (fun e => Q (fst e)) (put_all keqb l m).
Proof.
  unfold put_all. induction l as [|e l IH]; intros m Hl Hm; cbn; [assumption|].
  inversion Hl as [|? ? H1 H2]; subst. apply IH; [assumption|]. now apply put_keys_Forall.
Qed.

Lemma map_onk_id {K V : Type} (g : K -> K) (l : list (K * V)) :
  Forall (fun e => g (fst e) = fst e) l -> map (onk g) l = l.
Proof.
  intros H. apply map_id_in. rewrite Forall_forall in H. intros [k v] He.
  unfold onk. pose proof (H _ He) as E. cbn in *. now rewrite E.
Qed.

Lemma Forall_map_fst {A B : Type} (Q : B -> Prop) (f : A -> B) (l : list A) :
  Forall (fun a => Q (f a)) l -> Forall Q (map f l).
Proof. intros H. apply Forall_map_in. rewrite Forall_forall in H. intros a Ha. now apply H. Qed.

Lemma json_persist js s : json_ok js -> state_valid s -> json_p js (persist s) = persist s.
Proof.
  intros J (VE & VES & VC & VCS & VI).
  unfold json_p, persist. cbn [pE pES pC pCS pI].
  rewrite Forall_forall in VE, VES, VC, VCS, VI. f_equal; apply map_onk_id.
  - apply (put_all_keys_Forall str_eqb (fun k : str => js k = k)); [|constructor].
    apply Forall_map_in. intros e He. cbn. apply J, pkey_valid, (VE e He).
  - apply (put_all_keys_Forall sz_eqb (fun ks : str * Z => (js (fst ks), snd ks) = ks)); [|constructor].
    apply Forall_map_in. intros e He. cbn. f_equal. apply J, pkey_valid, (VES e He).
  - apply (put_all_keys_Forall key_eqb (fun ck : str * str => (js (fst ck), js (snd ck)) = ck));
      [|constructor].
    apply Forall_map_in. intros e He. cbn. destruct (VC e He) as [H1 H2].
    repeat f_equal; try (apply J; exact H1); apply J, pkey_valid; exact H2.
  - apply (put_all_keys_Forall skey_eqb
             (fun cks : (str * str) * Z => ((js (fst (fst cks)), js (snd (fst cks))), snd cks) = cks));
      [|constructor].
    apply Forall_map_in. intros e He. cbn. destruct (VCS e He) as [H1 H2].
    repeat f_equal; try (apply J; exact H1); apply J, pkey_valid; exact H2.
  - apply Forall_map_in. intros e He. cbn. destruct (VI e He) as [H1 H2].
    destruct (fst e) as [t v]; cbn in *. f_equal; apply J; assumption.
Qed.
