(* C15 — the order of the URL-tree calls within one flush (discovery.Run ->
   GetUpdatedAggregations): which tree groups the records of a flush.

   Code as read at HEAD (aggregation_combine.go, aggregation_converge.go,
   aggregation.go, common/url_tree.go):

     ConvergeAggregation   common.NormalizeTree(tree, urls of the batch): EVERY
                           URL of the batch is inserted first
                           (InsertWithConvergenceIndication), whatever the
                           aggregation holds — also when it is empty;
                           if a convergence was reported: every stored key is
                           re-normalised (common.NormalizeURL = Insert, then
                           Lookup) — [olds] below;
     ExtractAggs           lo.GroupBy(records, accessLogToEndpoint(tree)):
                           NormalizeURL (Insert, then Lookup) record by record,
                           once for Endpoints, once more per consumer tag.

   The tree is abstract here: a type with [insert] and [lookup] and a
   predicate [stable t u] ("u is held by t") about which three things are
   assumed (the real tree is observed to meet the conclusion on every flush
   without a re-keying pass; see the end of this file for the others):
     - a URL just inserted is held;
     - further insertions never un-hold a URL;
     - inserting a URL that is held does not change the tree.
   STATUS OF THESE PREMISES.  They are proved for the toy tree below only.  The
   real urltree is not modelled, so they are never discharged for it; for a
   flush WITH a re-keying pass ([olds] <> []) the real tree is known NOT to meet
   the conclusion in about 2 flushes of 10 000 (hence at least one premise is
   false for it there).  What suite "settle" demands of the code is the case
   [olds = []] ([C15_grouping_settled_no_rekeying_with]).  Since Extension 3
   (SettleCalls.v, [run_settle_calls]) the suite evaluates [flush_tree],
   [normalize_pass] and [settled] for every flush in which the tree reported no
   convergence: over the tree whose look-up is the recorded end-of-flush
   oracle, against the tree calls the real code made, one by one.  [run_settle]
   at the end of this file (numbers only: leading inserts, a counter of
   unsettled look-ups) is kept; its demands are part of [run_settle_calls].
   The sentence below that the oracles of Model.v "stand for" this look-up is
   prose, not a lemma.
   Because of the first step the grouping pass works on a tree that already
   holds every URL of the batch, so it does not move while it groups: every
   record of a flush is filed under the key the tree gives its URL at the END of
   that flush ("settled").  This is the part of the pipeline the oracle functions
   of Model.v ([b_nxE], [b_nxC]) stand for: at HEAD they are the look-up
   function of ONE tree per flush.

   Variant switch [skip_on_empty]: the seeded change "skip the convergence step
   while nothing has been aggregated yet" (early return of ConvergeAggregation
   when Endpoints and Consumers are empty) — the first step is left out exactly
   for a flush that meets an empty aggregation; the grouping pass then inserts
   while it groups and the convergence happens in the middle of it. *)
From Coq Require Import List ZArith Bool Uint63.
From Verif Require Import C15.Model.
Import ListNotations.
Open Scope Z_scope.

Section Tree.
  Variable tree : Type.
  Variable insert : tree -> str -> tree.
  Variable lookup : tree -> str -> str.

  (* common.NormalizeTree: the tree after inserting the URLs in order *)
  Definition normalize_tree (t : tree) (urls : list str) : tree := fold_left insert urls t.

  (* a pass of common.NormalizeURL calls: Insert, then Lookup in what results *)
  Fixpoint normalize_pass (t : tree) (urls : list str) : tree * list str :=
    match urls with
    | [] => (t, [])
    | u :: rest =>
        let t1 := insert t u in
        let '(t2, ls) := normalize_pass t1 rest in
        (t2, lookup t1 u :: ls)
    end.

  (* the URLs ConvergeAggregation hands to NormalizeTree *)
  Definition pre_normalised (skip_on_empty state_empty : bool) (urls : list str) : list str :=
    if skip_on_empty && state_empty then [] else urls.

  (* One flush.  [urls]: the URLs of the accepted records in order; [olds]: the
     stored keys re-normalised after a reported convergence (none otherwise; any
     list here); [urlsC]: the order in which the per-consumer grouping meets the
     URLs (Go map order over the tags).  Result: the tree at the end of the
     flush, the keys the records were grouped under by endpoint / by consumer. *)
  Definition flush_tree (skip_on_empty state_empty : bool) (t : tree) (olds urls urlsC : list str)
    : tree * list str * list str :=
    let t1 := normalize_tree t (pre_normalised skip_on_empty state_empty urls) in
    let '(t2, _) := normalize_pass t1 olds in
    let '(t3, labE) := normalize_pass t2 urls in
    let '(t4, labC) := normalize_pass t3 urlsC in
    (t4, labE, labC).

  (* every record of the flush is filed under the key the tree gives its URL
     at the end of the flush *)
  Definition settled (urls urlsC : list str) (r : tree * list str * list str) : Prop :=
    let '(t, labE, labC) := r in
    labE = map (lookup t) urls /\ labC = map (lookup t) urlsC.
End Tree.

(* "every flush groups by the settled tree", for every tree that keeps what it
   holds, every aggregation (empty or not), every list of stored keys and batch *)
Definition C15_grouping_settled_with (skip_on_empty : bool) : Prop :=
  forall (tree : Type) (insert : tree -> str -> tree) (lookup : tree -> str -> str)
         (stable : tree -> str -> Prop),
    (forall t u, stable (insert t u) u) ->
    (forall t u v, stable t u -> stable (insert t v) u) ->
    (forall t u, stable t u -> insert t u = t) ->
    forall (state_empty : bool) (t : tree) (olds urls urlsC : list str),
      incl urlsC urls ->
      settled tree lookup urls urlsC
        (flush_tree tree insert lookup skip_on_empty state_empty t olds urls urlsC).

(* the same for the flushes WITHOUT a re-keying pass ([olds = []]): the case
   suite "settle" demands of the real code (rekeyed = false) *)
Definition C15_grouping_settled_no_rekeying_with (skip_on_empty : bool) : Prop :=
  forall (tree : Type) (insert : tree -> str -> tree) (lookup : tree -> str -> str)
         (stable : tree -> str -> Prop),
    (forall t u, stable (insert t u) u) ->
    (forall t u v, stable t u -> stable (insert t v) u) ->
    (forall t u, stable t u -> insert t u = t) ->
    forall (state_empty : bool) (t : tree) (urls urlsC : list str),
      incl urlsC urls ->
      settled tree lookup urls urlsC
        (flush_tree tree insert lookup skip_on_empty state_empty t [] urls urlsC).

(* ---------------------------------------------------------------------- *)
(* A toy tree for the refutation: the set of inserted URLs; once it holds
   three of them every URL reads as one parameterised key. *)
Definition toy := list str.
Definition toy_insert (t : toy) (u : str) : toy :=
  if existsb (str_eqb u) t then t else t ++ [u].
Definition toy_param : str := [123; 125].                              (* "{}" *)
Definition toy_lookup (t : toy) (u : str) : str :=
  if (3 <=? Z.of_nat (length t)) then toy_param else u.
Definition toy_stable (t : toy) (u : str) : Prop := existsb (str_eqb u) t = true.

Definition toy_urls : list str := [[49]; [50]; [51]].                  (* "1" "2" "3" *)

(* A tree that does NOT keep what it holds: every insert is remembered, also
   that of a URL it already has (a counter), and the look-up depends on the
   number of inserts.  It meets the first two premises and fails the third
   ([insert t u = t] for a held [u]) — the premise a tree that "converges
   further at a later re-insert" fails. *)
Definition bump_insert (t : toy) (u : str) : toy := t ++ [u].
Definition bump_stable (t : toy) (u : str) : Prop := In u t.

(* ---------------------------------------------------------------------- *)
(* Correspondence, suite "settle".  Per flush the harness reports
     size          records in the batch (internal ones included)
     accepted      non-internal records
     state_empty   Endpoints and Consumers were empty when the flush began
     rekeyed       a convergence was reported: the stored keys were re-normalised
     pre           InsertWithConvergenceIndication calls seen before anything else
     unsettled     grouping look-ups (both passes) whose answer differs from the
                   answer the tree gives for the same URL when Run has returned
   The model: an empty batch touches nothing; otherwise NormalizeTree is given
   [pre_normalised false state_empty urls] (all accepted URLs) — demanded of
   every flush.  No look-up is unsettled ([C15_grouping_settled]) — demanded of
   the flushes WITHOUT a re-keying pass: the real tree meets the three
   hypotheses there (observed on every such flush), but the re-keying pass
   inserts already-normalised keys ("h.com/p/{_param_1}") as if they were URLs,
   after which the real tree sometimes converges further at a later re-insert
   (about 2 flushes in 10 000; that is the tree heuristic of finding F-C15), so
   for those flushes the number is only recorded. *)
Definition sflush := (Z * Z * bool * bool * Z * Z)%type.

Definition expected_pre (skip_on_empty : bool) (f : sflush) : Z :=
  let '(size, accepted, state_empty, _, _, _) := f in
  if size =? 0 then 0
  else Z.of_nat (length (pre_normalised skip_on_empty state_empty (repeat ([] : str) (Z.to_nat accepted)))).

Definition sflush_ok (skip_on_empty : bool) (f : sflush) : bool :=
  let '(_, _, _, rekeyed, pre, unsettled) := f in
  (pre =? expected_pre skip_on_empty f) && (skip_on_empty || rekeyed || (unsettled =? 0)).

Fixpoint first_bad_sflush (skip_on_empty : bool) (fs : list sflush) (i : Z) : option (Z * Z) :=
  match fs with
  | [] => None
  | f :: rest =>
      if sflush_ok skip_on_empty f then first_bad_sflush skip_on_empty rest (i + 1)
      else Some (i, expected_pre skip_on_empty f)
  end.

Fixpoint first_bad_srun (runs : list (list sflush)) (i : Z) : option (Z * (Z * Z)) :=
  match runs with
  | [] => None
  | r :: rest =>
      match first_bad_sflush false r 0 with
      | None => first_bad_srun rest (i + 1)
      | Some w => Some (i, w)
      end
  end.

(* wire: runs n, then per run: flushes n, then size accepted state_empty rekeyed pre unsettled *)
Definition psflush : P sflush :=
  pbind pint (fun a => pbind pint (fun b => pbind pbool (fun e => pbind pbool (fun k =>
  pbind pint (fun c => pbind pint (fun d => pret (zi a, zi b, e, k, zi c, zi d))))))).

(* None = every flush of every run made the tree calls of HEAD's order and
   (without a re-keying pass) grouped by the settled tree; otherwise (run,
   (flush, NormalizeTree inserts the model expects)) *)
Definition run_settle (k : fcase) : option (Z * (Z * Z)) :=
  match plist (plist psflush) k with
  | Some (runs, []) => first_bad_srun runs 0
  | _ => Some (-1, (-1, -1))
  end.
