(* C07 — what the source translator /verif/gotocoq is TOLD (gotocoq/C07.json; trusted, listed
   in props/C07.json) about code outside the package it reads.  Definitions only.

   RemedyReqRunResult / RemedyRespRunResult: the two iota enums of
   libs/shared-model/actions (request_actions.model.go, response_actions.model.go): distinct
   tokens, in the order of their const blocks.

   merge_headers: utils.MergeHeaders(first, second) (utils/headers_transformations.go: two
   `range` loops over Go maps, not translated): every entry of [first] whose key [second]
   does not have, then every entry of [second] — second wins.  A Go map has no order; header
   maps are association lists here and are compared up to order by everything that observes
   them. *)
From Coq Require Import List ZArith Bool.
From Verif Require Import Lib.GoSem.
Import ListNotations.
Open Scope Z_scope.

Inductive RemedyReqRunResult :=
| ReqNoOp | ReqObtainedResponse | ReqModifiedRequest | ReqModifiedHeaders | ReqGenerateRequest.

Definition RemedyReqRunResult_eqb (a b : RemedyReqRunResult) : bool :=
  match a, b with
  | ReqNoOp, ReqNoOp | ReqObtainedResponse, ReqObtainedResponse
  | ReqModifiedRequest, ReqModifiedRequest | ReqModifiedHeaders, ReqModifiedHeaders
  | ReqGenerateRequest, ReqGenerateRequest => true
  | _, _ => false
  end.

Inductive RemedyRespRunResult := RespNoOp | RespModifiedResponse | RespRetryRequest.

Definition RemedyRespRunResult_eqb (a b : RemedyRespRunResult) : bool :=
  match a, b with
  | RespNoOp, RespNoOp | RespModifiedResponse, RespModifiedResponse
  | RespRetryRequest, RespRetryRequest => true
  | _, _ => false
  end.

Definition merge_headers (first second : smap gostring) : smap gostring :=
  filter (fun kv => match smap_get second (fst kv) with Some _ => false | None => true end) first
  ++ second.
