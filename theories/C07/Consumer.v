(* C07 — the reader on the proxy's side.

   Hand-written model of  parse_headers  in
   proxy/rootfs/etc/haproxy/lua/lunar.lua:21-29, the function HAProxy's Lua
   actions use to read the header dumps (request_headers, response_headers,
   retry_headers):

     for header in string.gmatch(headers, "([^\n]+)") do
         local key_value = string.gmatch(header, "[^:]+")
         parsed_headers[key_value(0)] = key_value(1)
     end

   NOT tied to the Lua code by execution (no Lua interpreter in the harness):
   modelled, not verified.  It is outside the property (which ends at "the
   encoding handed to the proxy"); it is here to say precisely for which
   header maps the consumer reads back what the engine encoded.

   The Lua table is modelled by the list of its assignments in line order
   (distinct names under the hypotheses of the statements).  Definitions and
   lemmas; statements in Property.v. *)
From Coq Require Import List ZArith Bool Lia.
From Verif Require Import C07.Model C07.Spec C07.Proofs.
Import ListNotations.
Open Scope Z_scope.

Definition nonempty (s : list Z) : bool := negb (is_empty s).

(* string.gmatch(s, "[^c]+"): the maximal non-empty runs of bytes other than c *)
Definition lua_runs (c : Z) (s : list Z) : list (list Z) := filter nonempty (split_on c s).

(* key_value(0) / key_value(1) are the first and the second run of the line
   (the argument of the iterator is ignored).  t[k] = nil stores nothing (a
   line with one run: an empty value is dropped); t[nil] = v raises a Lua
   error (a line made of ':' only): [None]. *)
Definition lua_parse_line (l : list Z) : option hdrs :=
  match lua_runs 58 l with
  | [] => None
  | [_] => Some []
  | k :: v :: _ => Some [(k, v)]
  end.

Fixpoint lua_collect (ls : list (list Z)) : option hdrs :=
  match ls with
  | [] => Some []
  | l :: r =>
      match lua_parse_line l, lua_collect r with
      | Some a, Some b => Some (a ++ b)
      | _, _ => None
      end
  end.

Definition lua_parse_headers (d : list Z) : option hdrs := lua_collect (lua_runs 10 d).

(* the header maps this reader reads back: names and values non-empty and
   without ':' / newline *)
Definition hdrs_lua_ok (h : hdrs) : Prop :=
  Forall (fun kv => fst kv <> [] /\ snd kv <> [] /\
                    ~ In 58 (fst kv) /\ ~ In 10 (fst kv) /\
                    ~ In 58 (snd kv) /\ ~ In 10 (snd kv)) h.

Definition hdrs_lua_okb (h : hdrs) : bool :=
  forallb (fun kv => nonempty (fst kv) && nonempty (snd kv)
                     && negb (memZ 58 (fst kv)) && negb (memZ 10 (fst kv))
                     && negb (memZ 58 (snd kv)) && negb (memZ 10 (snd kv))) h.

(* ------------------------------------------------------------------ lemmas *)

Lemma split_on_none : forall c s, ~ In c s -> split_on c s = [s].
Proof.
  intros c s. induction s as [|x s IH]; intro H; simpl; [reflexivity|].
  destruct (x =? c) eqn:E.
  - apply Z.eqb_eq in E. exfalso. apply H. left. exact E.
  - rewrite IH; [reflexivity|]. intro Hin. apply H. right. exact Hin.
Qed.

Lemma nonempty_true : forall s, s <> [] -> nonempty s = true.
Proof. intros s H. destruct s; [contradiction H; reflexivity|reflexivity]. Qed.

Lemma lua_parse_hline : forall kv,
  fst kv <> [] -> snd kv <> [] -> ~ In 58 (fst kv) -> ~ In 58 (snd kv) ->
  lua_parse_line (hline kv) = Some [kv].
Proof.
  intros [k v] Hk Hv Nk Nv. simpl in *. unfold lua_parse_line, lua_runs, hline. simpl fst. simpl snd.
  rewrite split_on_app_sep by exact Nk. rewrite split_on_none by exact Nv.
  simpl. rewrite (nonempty_true k Hk), (nonempty_true v Hv). reflexivity.
Qed.

Lemma hline_nonempty : forall kv, nonempty (hline kv) = true.
Proof. intros [k v]. unfold hline. simpl. destruct k; reflexivity. Qed.

Lemma filter_nonempty_hlines : forall h,
  filter nonempty (map hline h ++ [[]]) = map hline h.
Proof.
  induction h as [|kv h IH]; [reflexivity|].
  cbn [map app filter]. rewrite hline_nonempty, IH. reflexivity.
Qed.

Lemma lua_collect_hlines : forall h,
  hdrs_lua_ok h -> lua_collect (map hline h) = Some h.
Proof.
  induction h as [|kv h IH]; intro H; [reflexivity|].
  inversion H as [|x y Hkv Hh]; subst. destruct Hkv as [A [B [C [_ [D _]]]]].
  cbn [map lua_collect]. rewrite (lua_parse_hline kv A B C D), (IH Hh). reflexivity.
Qed.

Lemma lua_reads_dump : forall h, hdrs_lua_ok h -> lua_parse_headers (dump h) = Some h.
Proof.
  intros h H. destruct h as [|kv h]; [reflexivity|].
  unfold lua_parse_headers, lua_runs, dump.
  rewrite join_concat by discriminate.
  rewrite split_concat_lines.
  - rewrite filter_nonempty_hlines. apply lua_collect_hlines. exact H.
  - apply Forall_forall. intros l Hl. apply in_map_iff in Hl.
    destruct Hl as [x [E Hx]]. subst l.
    unfold hdrs_lua_ok in H. rewrite Forall_forall in H.
    destruct (H x Hx) as [_ [_ [_ [A [_ B]]]]].
    apply hline_no_nl; assumption.
Qed.

Lemma hdrs_lua_okb_ok : forall h, hdrs_lua_okb h = true -> hdrs_lua_ok h.
Proof.
  intros h H. unfold hdrs_lua_okb in H. rewrite forallb_forall in H.
  apply Forall_forall. intros kv Hkv. specialize (H kv Hkv).
  repeat (apply andb_true_iff in H; let H' := fresh "Q" in destruct H as [H H']).
  assert (M : forall c s, negb (memZ c s) = true -> ~ In c s).
  { intros c s Hn Hin. apply negb_true_iff in Hn. unfold memZ in Hn.
    assert (existsb (Z.eqb c) s = true)
      by (apply existsb_exists; exists c; split; [exact Hin|apply Z.eqb_refl]).
    congruence. }
  assert (E : forall s, nonempty s = true -> s <> []).
  { intros s Hs Es. subst s. discriminate. }
  repeat split; auto.
Qed.
