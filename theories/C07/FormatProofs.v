(* C07 — lemmas about the bytes of a header dump and the seeded formatter
   variant (Format.v).  Final statements are in Property.v. *)
From Coq Require Import List ZArith Bool Lia.
From Verif Require Import C07.Model C07.Spec C07.Proofs C07.Format.
Import ListNotations.
Open Scope Z_scope.

(* ------------------------------------------------------------------ the dump, byte by byte *)

Lemma dump_is_lines : forall h, dump h = dump_lines h.
Proof.
  intro h. destruct h as [|kv h]; [reflexivity|].
  unfold dump, dump_lines. rewrite join_concat by discriminate.
  rewrite map_map. rewrite <- flat_map_concat_map.
  apply flat_map_ext. intro a. unfold hline, line_nl.
  rewrite <- app_assoc. reflexivity.
Qed.

Fixpoint total_len (h : hdrs) : nat :=
  match h with
  | [] => 0
  | kv :: r => (length (fst kv) + length (snd kv) + 2 + total_len r)%nat
  end.

Lemma flat_lines_length : forall h, length (flat_map line_nl h) = total_len h.
Proof.
  induction h as [|kv h IH]; [reflexivity|].
  cbn [flat_map total_len]. rewrite app_length, IH. unfold line_nl.
  rewrite app_length. cbn [length]. rewrite app_length. cbn [length]. lia.
Qed.

Lemma dump_length : forall h, h <> [] -> length (dump h) = total_len h.
Proof.
  intros h H. rewrite dump_is_lines. destruct h as [|kv h]; [congruence|].
  apply flat_lines_length.
Qed.

(* every entry's text is a contiguous piece of the dump *)
Lemma dump_contains_line : forall h kv,
  In kv h -> exists pre post, dump h = pre ++ line_nl kv ++ post.
Proof.
  intros h kv Hin. rewrite dump_is_lines.
  destruct h as [|x h]; [contradiction|]. unfold dump_lines.
  apply in_split in Hin. destruct Hin as [l1 [l2 E]]. rewrite E.
  exists (flat_map line_nl l1), (flat_map line_nl l2).
  rewrite flat_map_app. reflexivity.
Qed.

(* ------------------------------------------------------------------ the formatter *)

Lemma fmt_go_no_percent : forall s, ~ In 37 s -> fmt_go FLit s = s.
Proof.
  induction s as [|c r IH]; intro H; [reflexivity|].
  cbn [fmt_go]. destruct (c =? 37) eqn:E.
  - exfalso. apply H. left. apply Z.eqb_eq in E. auto.
  - rewrite IH; [reflexivity|]. intro Hin. apply H. right. exact Hin.
Qed.

Lemma line_no_percent : forall kv,
  ~ In 37 (fst kv) -> ~ In 37 (snd kv) -> ~ In 37 (line_nl kv).
Proof.
  intros kv H1 H2 Hin. unfold line_nl in Hin.
  apply in_app_or in Hin. destruct Hin as [Hin|Hin]; [auto|].
  destruct Hin as [Hin|Hin]; [discriminate|].
  apply in_app_or in Hin. destruct Hin as [Hin|Hin]; [auto|].
  destruct Hin as [Hin|Hin]; [discriminate|contradiction].
Qed.

Lemma dump_v_same : forall h, percent_free h -> dump_v DumpAsFormat h = dump h.
Proof.
  intros h H. rewrite dump_is_lines. destruct h as [|kv h]; [reflexivity|].
  unfold dump_v, dump_lines. revert H. generalize (kv :: h). clear kv h.
  induction l as [|x l IH]; intro H; [reflexivity|].
  inversion H as [|y ys [Hk Hv] Hr]; subst. cbn [flat_map].
  rewrite IH by exact Hr. unfold fmt_noargs.
  rewrite fmt_go_no_percent by (apply line_no_percent; assumption). reflexivity.
Qed.

Lemma percent_freeb_spec : forall h, percent_freeb h = true <-> percent_free h.
Proof.
  assert (M : forall s, existsb (Z.eqb 37) s = false <-> ~ In 37 s).
  { intro s. split.
    - intros E Hin. assert (X : existsb (Z.eqb 37) s = true).
      { apply existsb_exists. exists 37. split; [exact Hin|apply Z.eqb_refl]. }
      congruence.
    - intro Hn. destruct (existsb (Z.eqb 37) s) eqn:E; [|reflexivity].
      apply existsb_exists in E. destruct E as [x [Hx Ex]].
      apply Z.eqb_eq in Ex. subst. contradiction. }
  intro h. unfold percent_freeb, percent_free. rewrite forallb_forall, Forall_forall.
  split; intros H kv Hin; specialize (H kv Hin).
  - apply andb_true_iff in H. destruct H as [A B].
    apply negb_true_iff in A, B. split; apply M; assumption.
  - destruct H as [A B]. apply andb_true_iff.
    split; apply negb_true_iff; apply M; assumption.
Qed.

(* the witness: one well-formed entry  x-ratio: 100%  *)
Definition w_ratio : hdrs :=
  [([120; 45; 114; 97; 116; 105; 111], [49; 48; 48; 37])].
(* URL-encoded value  location: /a%2Fb  and a doubled percent  p: 5%%  *)
Definition w_url : hdrs :=
  [([108; 111; 99], [47; 97; 37; 50; 70; 98]); ([112], [53; 37; 37])].

Lemma dump_v_refuted :
  hdrs_wf w_ratio /\
  dump_v DumpAsFormat w_ratio <> dump w_ratio /\
  parse_dump (dump_v DumpAsFormat w_ratio) <> w_ratio /\
  hdrs_wf w_url /\ parse_dump (dump_v DumpAsFormat w_url) <> w_url.
Proof.
  split.
  { constructor; [|constructor]. cbn. repeat split; intro H;
      repeat (destruct H as [H|H]; [discriminate|]); contradiction. }
  split; [vm_compute; discriminate|].
  split; [vm_compute; discriminate|].
  split.
  { constructor; [|constructor; [|constructor]]; cbn; repeat split; intro H;
      repeat (destruct H as [H|H]; [discriminate|]); contradiction. }
  vm_compute; discriminate.
Qed.
