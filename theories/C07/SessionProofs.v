(* C07 — lemmas about sessions (several transactions over long-lived
   producers).  Final statements are in Property.v. *)
From Coq Require Import List ZArith Bool Lia.
From Verif Require Import C07.Model C07.Spec C07.Proofs.
Import ListNotations.
Open Scope Z_scope.

(* ------------------------------------------------------------------ value semantics *)

Lemma session_req_spec : forall ts st,
  session_req st ts = (map (fun t => fold_req (resolve_req st t)) ts, st).
Proof.
  induction ts as [|t ts IH]; intro st; simpl; [reflexivity|].
  rewrite IH. reflexivity.
Qed.

Lemma session_resp_spec : forall ts st,
  session_resp st ts = (map (fun t => fold_resp (resolve_resp st t)) ts, st).
Proof.
  induction ts as [|t ts IH]; intro st; simpl; [reflexivity|].
  rewrite IH. reflexivity.
Qed.

Lemma nth_error_map_some : forall (A B : Type) (f : A -> B) l k x,
  nth_error l k = Some x -> nth_error (map f l) k = Some (f x).
Proof.
  intros A B f l k x H. rewrite nth_error_map, H. reflexivity.
Qed.

(* ------------------------------------------------------------------ struct reuse *)

(* the resulting action of a fold is the value-level fold, whatever struct the
   accumulator happens to be *)
Lemma run_ip_result : forall l a own w,
  fst (run_ip l a own w) = fold_left prio_req (map snd l) a.
Proof.
  induction l as [|[j o] l IH]; intros a own w; simpl; [reflexivity|].
  destruct a, o; simpl; apply IH.
Qed.

Definition settled (a : req_action) (own : option nat) : Prop :=
  (own = None /\ a <> RNoOp) \/ is_early a = true.

(* once the accumulator is a struct of the fold's own (or an early response),
   no producer's struct is written any more *)
Lemma run_ip_settled : forall l a own w,
  settled a own -> snd (run_ip l a own w) = w.
Proof.
  induction l as [|[j o] l IH]; intros a own w S; simpl; [reflexivity|].
  destruct S as [[E N]|E].
  - subst own.
    destruct a; try (contradiction N; reflexivity);
      destruct o; simpl;
      try (apply IH; left; split; [reflexivity|discriminate]);
      try (apply IH; right; reflexivity).
  - destruct a; try discriminate. destruct o; apply IH; right; reflexivity.
Qed.

(* accumulator = ModifyHeaders or GenerateRequest (a producer's struct or
   not): every merge allocates *)
Lemma run_ip_modh_gen : forall l a own w,
  (match a with RModHeaders _ | RGenRequest _ _ _ => True | _ => False end) ->
  snd (run_ip l a own w) = w.
Proof.
  induction l as [|[j o] l IH]; intros a own w K; simpl; [reflexivity|].
  destruct a; try contradiction; destruct o; simpl;
    try (apply IH; exact I);
    try (apply run_ip_settled; right; reflexivity);
    try (apply run_ip_settled; left; split; [reflexivity|discriminate]).
Qed.

Definition next_is_modh (l : list req_action) : bool :=
  match filter (fun a => negb (is_req_noop a)) l with
  | RModHeaders _ :: _ => true
  | _ => false
  end.

(* accumulator = ModifyRequest: written only if the next action that is not a
   no-op is a ModifyHeaders *)
Lemma run_ip_modreq : forall l h ho p q b own w,
  next_is_modh (map snd l) = false ->
  snd (run_ip l (RModRequest h ho p q b) own w) = w.
Proof.
  induction l as [|[j o] l IH]; intros h ho p q b own w K; simpl; [reflexivity|].
  destruct o; simpl.
  - apply IH. exact K.
  - unfold next_is_modh in K. simpl in K. discriminate.
  - apply run_ip_settled. left. split; [reflexivity|discriminate].
  - apply run_ip_settled. left. split; [reflexivity|discriminate].
  - apply run_ip_settled. right. reflexivity.
Qed.

Lemma run_ip_noop : forall l own w,
  inplace_fires (map snd l) = false ->
  snd (run_ip l RNoOp own w) = w.
Proof.
  induction l as [|[j o] l IH]; intros own w K; simpl; [reflexivity|].
  destruct o.
  - apply IH. exact K.
  - apply run_ip_modh_gen. exact I.
  - apply run_ip_modreq. unfold inplace_fires in K. simpl in K.
    unfold next_is_modh.
    destruct (filter (fun a => negb (is_req_noop a)) (map snd l)) as [|x r]; [reflexivity|].
    destruct x; try reflexivity. discriminate.
  - apply run_ip_modh_gen. exact I.
  - apply run_ip_settled. right. reflexivity.
Qed.

Lemma map_snd_combine_map : forall (A B : Type) (f : A -> B) (l : list A),
  map snd (combine l (map f l)) = map f l.
Proof.
  induction l as [|x l IH]; simpl; [reflexivity|]. rewrite IH. reflexivity.
Qed.

Lemma txn_req_ip_result : forall st ids,
  fst (txn_req_ip st ids) = fold_req (resolve_req st ids).
Proof.
  intros st ids. unfold txn_req_ip.
  pose proof (run_ip_result (combine ids (resolve_req st ids)) RNoOp None []) as R.
  destruct (run_ip (combine ids (resolve_req st ids)) RNoOp None []) as [res w].
  simpl in *. rewrite R. unfold resolve_req. rewrite map_snd_combine_map. reflexivity.
Qed.

Lemma txn_req_ip_pure : forall st ids,
  inplace_fires (resolve_req st ids) = false ->
  txn_req_ip st ids = txn_req st ids.
Proof.
  intros st ids K. unfold txn_req_ip, txn_req.
  pose proof (run_ip_result (combine ids (resolve_req st ids)) RNoOp None []) as R.
  pose proof (run_ip_noop (combine ids (resolve_req st ids)) None []) as W.
  destruct (run_ip (combine ids (resolve_req st ids)) RNoOp None []) as [res w].
  simpl in *. unfold resolve_req in *. rewrite map_snd_combine_map in *.
  rewrite (W K), R. reflexivity.
Qed.

Lemma session_req_ip_pure : forall ts st,
  Forall (fun t => inplace_fires (resolve_req st t) = false) ts ->
  session_req_ip st ts = session_req st ts.
Proof.
  induction ts as [|t ts IH]; intros st F; simpl; [reflexivity|].
  inversion F as [|x y Ht Hts]; subst.
  rewrite (txn_req_ip_pure st t Ht). unfold txn_req. simpl.
  rewrite (IH st Hts). reflexivity.
Qed.
