(* C07 — the bytes of a header dump, and the variant of DumpHeaders that was
   seeded into the tree (C07-10), kept behind a variant switch (definitions
   only; lemmas are in FormatProofs.v, statements in Property.v).

   utils.DumpHeaders passes header names and values as OPERANDS of a formatter
   ("%s:%s"), never as its format: every byte of a name / value reaches the
   dump verbatim, whatever it means to a formatter ('%' = 37), to the dump
   itself (':' = 58 inside a VALUE) or to nobody (tab, bytes >= 128 of a
   UTF-8 sequence).  [dump_lines] says so literally: the dump is the
   concatenation of  name ':' value '\n'  ("\n" alone for the empty map).

   The seeded variant writes  name ++ ":" ++ value ++ "\n"  as the FORMAT of
   fmt.Fprintf with no operands.  [fmt_noargs] is a hand model of what
   doPrintf of package fmt does with a format and no operand:
     literal bytes are copied;
     '%' starts a directive: flags (# 0 + - space), width and precision digits
     and '.' are skipped; then
        end of the format       -> "%!(NOVERB)"
        '%'                     -> "%"
        any other verb byte c   -> "%!c(MISSING)"
   Not modelled ('*' width, "[n]" argument indexes, a verb that is a
   multi-byte rune): the variant is used only for the two statements
   C07_dump_format_variant_same_without_percent / _refuted and is not tied to
   any code by execution. *)
From Coq Require Import List ZArith Bool.
From Verif Require Import C07.Model.
Import ListNotations.
Open Scope Z_scope.

(* name ':' value '\n' *)
Definition line_nl (kv : list Z * list Z) : list Z := fst kv ++ 58 :: snd kv ++ [10].

Definition dump_lines (h : hdrs) : list Z :=
  match h with [] => [10] | _ :: _ => flat_map line_nl h end.

(* ------------------------------------------------------------------ the formatter *)

Inductive fstate := FLit | FSpec.

(* '#' '0' '+' '-' ' ', digits, '.' *)
Definition is_spec_byte (c : Z) : bool :=
  (c =? 35) || (c =? 43) || (c =? 45) || (c =? 32) || (c =? 46)
  || ((48 <=? c) && (c <=? 57)).

Definition s_noverb : list Z := [37; 33; 40; 78; 79; 86; 69; 82; 66; 41].      (* %!(NOVERB) *)
Definition s_missing : list Z := [40; 77; 73; 83; 83; 73; 78; 71; 41].         (* (MISSING) *)

Fixpoint fmt_go (st : fstate) (s : list Z) : list Z :=
  match s with
  | [] => match st with FLit => [] | FSpec => s_noverb end
  | c :: r =>
      match st with
      | FLit => if c =? 37 then fmt_go FSpec r else c :: fmt_go FLit r
      | FSpec =>
          if is_spec_byte c then fmt_go FSpec r
          else if c =? 37 then 37 :: fmt_go FLit r
          else 37 :: 33 :: c :: s_missing ++ fmt_go FLit r
      end
  end.

Definition fmt_noargs (format : list Z) : list Z := fmt_go FLit format.

(* ------------------------------------------------------------------ variant switch *)

Inductive dump_variant :=
| DumpOperands    (* HEAD: names and values are operands of "%s:%s" *)
| DumpAsFormat.   (* seed C07-10: the header text is the format *)

Definition dump_v (v : dump_variant) (h : hdrs) : list Z :=
  match v with
  | DumpOperands => dump h
  | DumpAsFormat =>
      match h with
      | [] => [10]
      | _ :: _ => flat_map (fun kv => fmt_noargs (line_nl kv)) h
      end
  end.

(* no '%' in any name or value *)
Definition percent_free (h : hdrs) : Prop :=
  Forall (fun kv => ~ In 37 (fst kv) /\ ~ In 37 (snd kv)) h.
Definition percent_freeb (h : hdrs) : bool :=
  forallb (fun kv => negb (existsb (Z.eqb 37) (fst kv)) && negb (existsb (Z.eqb 37) (snd kv))) h.
