(* C07 — lemmas.  Final statements are in Property.v. *)
From Coq Require Import String Ascii.
From Coq Require Import List ZArith Bool Lia.
From Verif Require Import C07.Model C07.Spec.
Import ListNotations.
Open Scope Z_scope.

(* ------------------------------------------------------------------ strings *)

Lemma str_eqb_eq : forall a b, str_eqb a b = true <-> a = b.
Proof.
  induction a as [|x a IH]; destruct b as [|y b]; simpl; split; intro H;
    try reflexivity; try discriminate.
  - apply andb_true_iff in H. destruct H as [H1 H2].
    apply Z.eqb_eq in H1. apply IH in H2. subst. reflexivity.
  - inversion H; subst. rewrite Z.eqb_refl. simpl. apply IH. reflexivity.
Qed.

Lemma str_eqb_refl : forall a, str_eqb a a = true.
Proof. intro a. apply str_eqb_eq. reflexivity. Qed.

Lemma str_eqb_neq : forall a b, str_eqb a b = false <-> a <> b.
Proof.
  intros a b. split.
  - intros H E. apply str_eqb_eq in E. congruence.
  - intro H. destruct (str_eqb a b) eqn:E; [|reflexivity].
    apply str_eqb_eq in E. contradiction.
Qed.

(* ------------------------------------------------------------------ look-ups *)

Lemma lookup_app : forall k a b,
  lookup k (a ++ b) = match lookup k a with Some v => Some v | None => lookup k b end.
Proof.
  intros k a b. induction a as [|kv a IH]; simpl; [reflexivity|].
  destruct (str_eqb k (fst kv)); [reflexivity|exact IH].
Qed.

Lemma lookup_filter_key : forall (p : list Z -> bool) k h,
  lookup k (filter (fun kv => p (fst kv)) h) = if p k then lookup k h else None.
Proof.
  intros p k h. induction h as [|kv h IH]; simpl.
  - destruct (p k); reflexivity.
  - destruct (p (fst kv)) eqn:Ep; simpl.
    + destruct (str_eqb k (fst kv)) eqn:E; [|exact IH].
      apply str_eqb_eq in E. subst k. rewrite Ep. reflexivity.
    + destruct (str_eqb k (fst kv)) eqn:E; [|exact IH].
      apply str_eqb_eq in E. subst k. rewrite Ep in *. exact IH.
Qed.

Lemma lookup_merge : forall k f s,
  lookup k (merge f s) =
  match lookup k s with Some v => Some v | None => lookup k f end.
Proof.
  intros k f s. unfold merge. rewrite lookup_app.
  rewrite (lookup_filter_key (fun k0 => negb (has_key k0 s))).
  unfold has_key. destruct (lookup k s); simpl; [reflexivity|].
  destruct (lookup k f); reflexivity.
Qed.

Lemma merge_nil_l : forall h, merge [] h = h.
Proof. reflexivity. Qed.

Lemma merge_nil_r : forall h, merge h [] = h.
Proof.
  intro h. unfold merge. rewrite app_nil_r.
  induction h as [|kv h IH]; simpl; [reflexivity|]. f_equal. exact IH.
Qed.

Lemma lookup_in_keys : forall k h, lookup k h <> None <-> In k (keys h).
Proof.
  intros k h. induction h as [|kv h IH]; simpl.
  - split; [congruence|tauto].
  - destruct (str_eqb k (fst kv)) eqn:E.
    + apply str_eqb_eq in E. split; [intros _; left; congruence|congruence].
    + apply str_eqb_neq in E. rewrite IH. split; [tauto|].
      intros [H|H]; [congruence|exact H].
Qed.

Lemma has_key_in : forall k h, has_key k h = true <-> In k (keys h).
Proof.
  intros k h. rewrite <- lookup_in_keys. unfold has_key.
  destruct (lookup k h); split; congruence.
Qed.

Lemma NoDup_app_disjoint : forall (A : Type) (a b : list A),
  NoDup a -> NoDup b -> (forall x, In x a -> ~ In x b) -> NoDup (a ++ b).
Proof.
  intros A a b Ha Hb Hd. induction Ha as [|x a Hx Ha IH]; simpl; [exact Hb|].
  constructor.
  - rewrite in_app_iff. intros [H|H]; [contradiction|].
    apply (Hd x); [left; reflexivity|exact H].
  - apply IH. intros y Hy. apply Hd. right. exact Hy.
Qed.

Lemma keys_filter_in : forall (p : (list Z * list Z) -> bool) h k,
  In k (keys (filter p h)) -> In k (keys h).
Proof.
  intros p h k. unfold keys. induction h as [|kv h IH]; simpl; [tauto|].
  destruct (p kv); simpl; tauto.
Qed.

Lemma is_map_filter : forall (p : (list Z * list Z) -> bool) h,
  is_map h -> is_map (filter p h).
Proof.
  intros p h. unfold is_map. induction h as [|kv h IH]; simpl; intro H; [constructor|].
  inversion H as [|x l Hx Hl]; subst.
  destruct (p kv); simpl; [|apply IH; exact Hl].
  constructor; [|apply IH; exact Hl].
  intro Hin. apply Hx. exact (keys_filter_in p h _ Hin).
Qed.

Lemma is_map_merge : forall f s, is_map f -> is_map s -> is_map (merge f s).
Proof.
  intros f s Hf Hs. unfold is_map, keys, merge. rewrite map_app.
  apply NoDup_app_disjoint.
  - apply (is_map_filter _ f Hf).
  - exact Hs.
  - intros k Hk Hk2. apply has_key_in in Hk2.
    change (In k (keys (filter (fun kv => negb (has_key (fst kv) s)) f))) in Hk.
    unfold keys in Hk. apply in_map_iff in Hk. destruct Hk as [kv [E Hin]].
    apply filter_In in Hin. destruct Hin as [_ Hn]. subst k.
    rewrite Hk2 in Hn. discriminate.
Qed.

(* ------------------------------------------------------------------ later-wins union *)

Lemma last_edit_nil_head : forall k r, last_edit k ([] :: r) = last_edit k r.
Proof. intros k r. simpl. destruct (last_edit k r); reflexivity. Qed.

Lemma last_edit_merge : forall k h h2 r,
  last_edit k (merge h h2 :: r) = last_edit k (h :: h2 :: r).
Proof.
  intros k h h2 r. simpl. rewrite lookup_merge.
  destruct (last_edit k r); [reflexivity|].
  destruct (lookup k h2); reflexivity.
Qed.

Lemma lookup_fold_merge : forall k hs h0,
  lookup k (fold_left merge hs h0) = last_edit k (h0 :: hs).
Proof.
  intros k hs. induction hs as [|h r IH]; intro h0.
  - reflexivity.
  - cbn [fold_left]. rewrite IH. apply last_edit_merge.
Qed.

Lemma last_edit_app : forall k a b,
  last_edit k (a ++ b) =
  match last_edit k b with Some v => Some v | None => last_edit k a end.
Proof.
  intros k a b. induction a as [|h a IH]; simpl.
  - destruct (last_edit k b); reflexivity.
  - rewrite IH. destruct (last_edit k b); reflexivity.
Qed.

Lemma last_edit_none : forall k hs,
  last_edit k hs = None <-> Forall (fun h => lookup k h = None) hs.
Proof.
  intros k hs. induction hs as [|h r IH]; simpl.
  - split; [constructor|reflexivity].
  - destruct (last_edit k r) eqn:E.
    + split; [discriminate|]. intro H. inversion H; subst.
      destruct IH as [_ IH]. specialize (IH H3). discriminate.
    + split.
      * intro H. constructor; [exact H|]. apply IH. reflexivity.
      * intro H. inversion H; subst. assumption.
Qed.

(* the value is the one of the last map that mentions the key *)
Lemma last_edit_some : forall k hs v,
  last_edit k hs = Some v <->
  exists pre h post, hs = pre ++ h :: post /\ lookup k h = Some v /\
                     Forall (fun h' => lookup k h' = None) post.
Proof.
  intros k hs v. induction hs as [|h r IH]; simpl.
  - split; [discriminate|]. intros [pre [h [post [E _]]]].
    destruct pre; discriminate.
  - destruct (last_edit k r) eqn:E.
    + split.
      * intro H. apply IH in H. destruct H as [pre [h' [post [E1 [E2 E3]]]]].
        exists (h :: pre), h', post. subst r. auto.
      * intros [pre [h' [post [E1 [E2 E3]]]]].
        destruct pre as [|p pre]; simpl in E1; inversion E1; subst.
        -- apply last_edit_none in E3. congruence.
        -- apply IH. exists pre, h', post. auto.
    + split.
      * intro H. exists [], h, r. split; [reflexivity|]. split; [exact H|].
        apply last_edit_none. exact E.
      * intros [pre [h' [post [E1 [E2 E3]]]]].
        destruct pre as [|p pre]; simpl in E1; inversion E1; subst.
        -- exact E2.
        -- rewrite last_edit_app in E. simpl in E.
           destruct (last_edit k post); [discriminate|]. rewrite E2 in E. discriminate.
Qed.

(* ------------------------------------------------------------------ request fold *)

Lemma prio_req_early_l : forall a b, is_early a = true -> prio_req a b = a.
Proof. intros a b H. destruct a; try discriminate. reflexivity. Qed.

Lemma prio_req_early_r : forall a b,
  is_early a = false -> is_early b = true -> prio_req a b = b.
Proof.
  intros a b Ha Hb. destruct b; try discriminate.
  destruct a; try discriminate; reflexivity.
Qed.

Lemma prio_req_nonearly : forall a b,
  is_early a = false -> is_early b = false -> is_early (prio_req a b) = false.
Proof. intros a b Ha Hb. destruct a, b; try discriminate; reflexivity. Qed.

Lemma prio_req_edits : forall a b,
  is_early a = false -> is_early b = false ->
  req_edits (prio_req a b) = merge (req_edits a) (req_edits b).
Proof.
  intros a b Ha Hb.
  destruct a, b; try discriminate; simpl; rewrite ?merge_nil_r; reflexivity.
Qed.

Lemma prio_req_noop : forall a b, prio_req a b = RNoOp -> a = RNoOp /\ b = RNoOp.
Proof.
  intros a b H. destruct a; simpl in H.
  - split; [reflexivity|exact H].
  - destruct b; discriminate.
  - destruct b; discriminate.
  - destruct b; discriminate.
  - discriminate.
Qed.

Lemma fold_req_early_absorbs : forall l a,
  is_early a = true -> fold_left prio_req l a = a.
Proof.
  induction l as [|b l IH]; intros a Ha; simpl; [reflexivity|].
  rewrite (prio_req_early_l a b Ha). apply IH. exact Ha.
Qed.

Lemma early_wins_from : forall l acc e,
  is_early acc = false -> first_early l = Some e -> fold_left prio_req l acc = e.
Proof.
  induction l as [|a l IH]; intros acc e Hacc H; simpl in *; [discriminate|].
  destruct (is_early a) eqn:Ea.
  - inversion H; subst e. rewrite (prio_req_early_r acc a Hacc Ea).
    apply fold_req_early_absorbs. exact Ea.
  - apply IH; [|exact H]. apply prio_req_nonearly; assumption.
Qed.

Lemma first_early_is_early : forall l e, first_early l = Some e -> is_early e = true /\ In e l.
Proof.
  induction l as [|a l IH]; intros e H; simpl in *; [discriminate|].
  destruct (is_early a) eqn:Ea.
  - inversion H; subst. auto.
  - destruct (IH e H). auto.
Qed.

Lemma first_early_none : forall l,
  first_early l = None <-> Forall (fun a => is_early a = false) l.
Proof.
  induction l as [|a l IH]; simpl.
  - split; [constructor|reflexivity].
  - destruct (is_early a) eqn:Ea.
    + split; [discriminate|]. intro H. inversion H; subst. congruence.
    + rewrite IH. split.
      * intro H. constructor; assumption.
      * intro H. inversion H; assumption.
Qed.

(* where the first early response sits *)
Lemma first_early_split : forall l e,
  first_early l = Some e <->
  exists pre post, l = pre ++ e :: post /\ is_early e = true /\
                   Forall (fun a => is_early a = false) pre.
Proof.
  induction l as [|a l IH]; intro e; simpl.
  - split; [discriminate|]. intros [pre [post [E _]]]. destruct pre; discriminate.
  - destruct (is_early a) eqn:Ea.
    + split.
      * intro H. inversion H; subst. exists [], l. auto.
      * intros [pre [post [E [He Hp]]]]. destruct pre as [|p pre]; simpl in E; inversion E; subst.
        -- reflexivity.
        -- inversion Hp; subst. congruence.
    + rewrite IH. split.
      * intros [pre [post [E [He Hp]]]]. exists (a :: pre), post. subst l. auto.
      * intros [pre [post [E [He Hp]]]]. destruct pre as [|p pre]; simpl in E; inversion E; subst.
        -- congruence.
        -- inversion Hp; subst. exists pre, post. auto.
Qed.

Lemma no_early_fold : forall l acc,
  first_early l = None -> is_early acc = false ->
  is_early (fold_left prio_req l acc) = false.
Proof.
  induction l as [|a l IH]; intros acc H Hacc; simpl in *; [exact Hacc|].
  destruct (is_early a) eqn:Ea; [discriminate|].
  apply IH; [exact H|]. apply prio_req_nonearly; assumption.
Qed.

Lemma edits_fold : forall l acc,
  first_early l = None -> is_early acc = false ->
  req_edits (fold_left prio_req l acc) =
  fold_left merge (map req_edits l) (req_edits acc).
Proof.
  induction l as [|a l IH]; intros acc H Hacc; simpl in *; [reflexivity|].
  destruct (is_early a) eqn:Ea; [discriminate|].
  rewrite IH; [|exact H|apply prio_req_nonearly; assumption].
  rewrite prio_req_edits by assumption. reflexivity.
Qed.

Lemma fold_req_noop_from : forall l acc,
  fold_left prio_req l acc = RNoOp <-> acc = RNoOp /\ Forall (fun a => a = RNoOp) l.
Proof.
  induction l as [|a l IH]; intro acc; simpl.
  - split; [intro H; split; [exact H|constructor]|tauto].
  - rewrite IH. split.
    + intros [H1 H2]. apply prio_req_noop in H1. destruct H1; subst. auto.
    + intros [H1 H2]. inversion H2; subst. auto.
Qed.

Lemma fold_req_is_map_from : forall l acc,
  Forall (fun a => is_map (req_hdrs a)) l -> is_map (req_hdrs acc) ->
  is_map (req_hdrs (fold_left prio_req l acc)).
Proof.
  induction l as [|a l IH]; intros acc Hl Hacc; simpl; [exact Hacc|].
  inversion Hl as [|x y Ha Hl']; subst. apply IH; [exact Hl'|].
  destruct acc, a; simpl in *; try assumption; try (apply is_map_merge; assumption).
Qed.

(* ------------------------------------------------------------------ response fold *)

Lemma prio_resp_noop_r : forall a, prio_resp a PNoOp = a.
Proof. destruct a; reflexivity. Qed.

Lemma prio_resp_noop : forall a b, prio_resp a b = PNoOp -> a = PNoOp /\ b = PNoOp.
Proof.
  intros a b H. destruct a; simpl in H.
  - auto.
  - destruct b; discriminate.
  - destruct b; discriminate.
Qed.

Lemma fold_resp_noop_from : forall l acc,
  fold_left prio_resp l acc = PNoOp <-> acc = PNoOp /\ Forall (fun a => a = PNoOp) l.
Proof.
  induction l as [|a l IH]; intro acc; simpl.
  - split; [intro H; split; [exact H|constructor]|tauto].
  - rewrite IH. split.
    + intros [H1 H2]. apply prio_resp_noop in H1. destruct H1; subst. auto.
    + intros [H1 H2]. inversion H2; subst. auto.
Qed.

Lemma fold_resp_drop_noop : forall l1 l2 acc,
  fold_left prio_resp (l1 ++ PNoOp :: l2) acc = fold_left prio_resp (l1 ++ l2) acc.
Proof.
  intros l1 l2 acc. rewrite !fold_left_app. simpl.
  rewrite prio_resp_noop_r. reflexivity.
Qed.

Lemma fold_resp_filter_from : forall l acc,
  fold_left prio_resp l acc =
  fold_left prio_resp (filter (fun a => negb (is_resp_noop a)) l) acc.
Proof.
  induction l as [|a l IH]; intro acc; simpl; [reflexivity|].
  destruct a; simpl; try apply IH.
  rewrite prio_resp_noop_r. apply IH.
Qed.

Lemma prio_resp_kind : forall a b,
  resp_kind (prio_resp a b) = if is_resp_noop b then resp_kind a else resp_kind b.
Proof. destruct a, b; reflexivity. Qed.

Lemma fold_resp_kind_from : forall l acc,
  resp_kind (fold_left prio_resp l acc) = last_kind l (resp_kind acc).
Proof.
  induction l as [|a l IH]; intro acc; simpl; [reflexivity|].
  rewrite IH. rewrite prio_resp_kind. reflexivity.
Qed.

(* a run of modifications (and no-ops) continuing an accumulated modification *)
Lemma mod_run_from_mod : forall l h b s,
  Forall (fun a => is_retry a = false) l ->
  exists h', fold_left prio_resp l (PModResp h b s) = PModResp h' b s /\
             h' = fold_left merge (map resp_edits l) h.
Proof.
  induction l as [|a l IH]; intros h b s Hl; simpl.
  - exists h. auto.
  - inversion Hl as [|x y Ha Hl']; subst. destruct a; simpl in *.
    + destruct (IH h b s Hl') as [h' [E1 E2]]. exists h'. split; [exact E1|].
      rewrite merge_nil_r. exact E2.
    + destruct (IH (merge h h0) b s Hl') as [h' [E1 E2]]. exists h'. auto.
    + discriminate.
Qed.

Lemma mod_run_from_other : forall l acc b s,
  is_mod_resp acc = false ->
  Forall (fun a => is_retry a = false) l ->
  first_mod l = Some (b, s) ->
  exists h', fold_left prio_resp l acc = PModResp h' b s /\
             forall k, lookup k h' = last_edit k (map resp_edits l).
Proof.
  induction l as [|a l IH]; intros acc b s Hacc Hl Hf; simpl in *; [discriminate|].
  inversion Hl as [|x y Ha Hl']; subst. destruct a; simpl in *.
  - rewrite prio_resp_noop_r. destruct (IH acc b s Hacc Hl' Hf) as [h' [E1 E2]].
    exists h'. split; [exact E1|]. intro k. rewrite E2.
    destruct (last_edit k (map resp_edits l)); reflexivity.
  - inversion Hf; subst.
    assert (E : prio_resp acc (PModResp h b s) = PModResp h b s)
      by (destruct acc; try discriminate; reflexivity).
    rewrite E. destruct (mod_run_from_mod l h b s Hl') as [h' [E1 E2]].
    exists h'. split; [exact E1|]. intro k. subst h'.
    rewrite lookup_fold_merge. reflexivity.
  - discriminate.
Qed.

(* the same for retries *)
Lemma retry_run_from_retry : forall l h,
  Forall (fun a => is_mod_resp a = false) l ->
  exists h', fold_left prio_resp l (PRetry h) = PRetry h' /\
             h' = fold_left merge (map resp_edits l) h.
Proof.
  induction l as [|a l IH]; intros h Hl; simpl.
  - exists h. auto.
  - inversion Hl as [|x y Ha Hl']; subst. destruct a; simpl in *.
    + destruct (IH h Hl') as [h' [E1 E2]]. exists h'. split; [exact E1|].
      rewrite merge_nil_r. exact E2.
    + discriminate.
    + destruct (IH (merge h h0) Hl') as [h' [E1 E2]]. exists h'. auto.
Qed.

Lemma retry_run_from_other : forall l acc,
  is_retry acc = false ->
  Forall (fun a => is_mod_resp a = false) l ->
  has_retry l = true ->
  exists h', fold_left prio_resp l acc = PRetry h' /\
             forall k, lookup k h' = last_edit k (map resp_edits l).
Proof.
  induction l as [|a l IH]; intros acc Hacc Hl Hf; simpl in *; [discriminate|].
  inversion Hl as [|x y Ha Hl']; subst. destruct a; simpl in *.
  - rewrite prio_resp_noop_r. destruct (IH acc Hacc Hl' Hf) as [h' [E1 E2]].
    exists h'. split; [exact E1|]. intro k. rewrite E2.
    destruct (last_edit k (map resp_edits l)); reflexivity.
  - discriminate.
  - assert (E : prio_resp acc (PRetry h) = PRetry h)
      by (destruct acc; try discriminate; reflexivity).
    rewrite E. destruct (retry_run_from_retry l h Hl') as [h' [E1 E2]].
    exists h'. split; [exact E1|]. intro k. subst h'.
    rewrite lookup_fold_merge. reflexivity.
Qed.

Lemma fold_resp_is_map_from : forall l acc,
  Forall (fun a => is_map (resp_edits a)) l -> is_map (resp_edits acc) ->
  is_map (resp_edits (fold_left prio_resp l acc)).
Proof.
  induction l as [|a l IH]; intros acc Hl Hacc; simpl; [exact Hacc|].
  inversion Hl as [|x y Ha Hl']; subst. apply IH; [exact Hl'|].
  destruct acc, a; simpl in *; try assumption; try (apply is_map_merge; assumption).
Qed.

(* ------------------------------------------------------------------ header dump *)

Lemma split_on_app_sep : forall c s t,
  ~ In c s -> split_on c (s ++ c :: t) = s :: split_on c t.
Proof.
  intros c s t. induction s as [|x s IH]; intro H; simpl.
  - rewrite Z.eqb_refl. reflexivity.
  - destruct (x =? c) eqn:E.
    + apply Z.eqb_eq in E. exfalso. apply H. left. exact E.
    + rewrite IH; [reflexivity|]. intro Hin. apply H. right. exact Hin.
Qed.

Lemma split_concat_lines : forall ls,
  Forall (fun l => ~ In 10 l) ls ->
  split_on 10 (concat (map (fun l => l ++ [10]) ls)) = ls ++ [[]].
Proof.
  induction ls as [|l ls IH]; intro H; [reflexivity|].
  inversion H as [|x y Hl Hls]; subst. cbn [map concat app].
  rewrite <- app_assoc. cbn [app].
  rewrite split_on_app_sep by exact Hl. rewrite IH by exact Hls. reflexivity.
Qed.

Lemma join_concat : forall ls,
  ls <> [] -> join_nl ls ++ [10] = concat (map (fun l => l ++ [10]) ls).
Proof.
  induction ls as [|x ls IH]; intro H; [congruence|].
  destruct ls as [|y r].
  - simpl. rewrite app_nil_r. reflexivity.
  - change (join_nl (x :: y :: r)) with (x ++ 10 :: join_nl (y :: r)).
    change (concat (map (fun l => l ++ [10]) (x :: y :: r)))
      with ((x ++ [10]) ++ concat (map (fun l => l ++ [10]) (y :: r))).
    rewrite <- IH by discriminate.
    rewrite <- !app_assoc. reflexivity.
Qed.

Lemma break_at_line : forall c k v,
  ~ In c k -> break_at c (k ++ c :: v) = Some (k, v).
Proof.
  intros c k v. induction k as [|x k IH]; intro H; simpl.
  - rewrite Z.eqb_refl. reflexivity.
  - destruct (x =? c) eqn:E.
    + apply Z.eqb_eq in E. exfalso. apply H. left. exact E.
    + rewrite IH; [reflexivity|]. intro Hin. apply H. right. exact Hin.
Qed.

Lemma parse_lines : forall h,
  Forall (fun kv => ~ In 58 (fst kv)) h -> flat_map parse_line (map hline h) = h.
Proof.
  induction h as [|kv h IH]; intro H; [reflexivity|].
  inversion H as [|x y Hk Hh]; subst. cbn [map flat_map].
  rewrite IH by exact Hh. unfold parse_line, hline.
  rewrite break_at_line by exact Hk. destruct kv; reflexivity.
Qed.

Lemma hline_no_nl : forall kv,
  ~ In 10 (fst kv) -> ~ In 10 (snd kv) -> ~ In 10 (hline kv).
Proof.
  intros kv H1 H2 H. unfold hline in H. apply in_app_iff in H.
  destruct H as [H|[H|H]]; [contradiction|discriminate|contradiction].
Qed.

Lemma parse_dump_dump : forall h, hdrs_wf h -> parse_dump (dump h) = h.
Proof.
  intros h H. destruct h as [|kv h]; [reflexivity|].
  unfold parse_dump, dump.
  rewrite join_concat by discriminate.
  rewrite split_concat_lines.
  - rewrite removelast_app by discriminate. cbn [removelast]. rewrite app_nil_r.
    apply parse_lines. unfold hdrs_wf in H.
    eapply Forall_impl; [|exact H]. simpl. tauto.
  - apply Forall_forall. intros l Hl. apply in_map_iff in Hl.
    destruct Hl as [x [E Hx]]. subst l.
    unfold hdrs_wf in H. rewrite Forall_forall in H. destruct (H x Hx) as [_ [A B]].
    apply hline_no_nl; assumption.
Qed.

Lemma dump_injective : forall h1 h2,
  hdrs_wf h1 -> hdrs_wf h2 -> dump h1 = dump h2 -> h1 = h2.
Proof.
  intros h1 h2 H1 H2 E.
  rewrite <- (parse_dump_dump h1 H1), <- (parse_dump_dump h2 H2), E. reflexivity.
Qed.

Lemma hdrs_wfb_ok : forall h, hdrs_wfb h = true -> hdrs_wf h.
Proof.
  intros h H. unfold hdrs_wfb in H. rewrite forallb_forall in H.
  apply Forall_forall. intros kv Hkv. specialize (H kv Hkv).
  apply andb_true_iff in H. destruct H as [H H3].
  apply andb_true_iff in H. destruct H as [H1 H2].
  assert (M : forall c s, negb (memZ c s) = true -> ~ In c s).
  { intros c s Hn Hin. apply negb_true_iff in Hn. unfold memZ in Hn.
    assert (existsb (Z.eqb c) s = true)
      by (apply existsb_exists; exists c; split; [exact Hin|apply Z.eqb_refl]).
    congruence. }
  auto.
Qed.

(* merging preserves the side condition *)
Lemma hdrs_wf_merge : forall f s, hdrs_wf f -> hdrs_wf s -> hdrs_wf (merge f s).
Proof.
  intros f s Hf Hs. unfold hdrs_wf, merge in *. apply Forall_app. split; [|exact Hs].
  apply Forall_forall. intros kv Hkv. apply filter_In in Hkv.
  rewrite Forall_forall in Hf. apply Hf. tauto.
Qed.

Lemma fold_req_wf_from : forall l acc,
  Forall (fun a => hdrs_wf (req_hdrs a)) l -> hdrs_wf (req_hdrs acc) ->
  hdrs_wf (req_hdrs (fold_left prio_req l acc)).
Proof.
  induction l as [|a l IH]; intros acc Hl Hacc; simpl; [exact Hacc|].
  inversion Hl as [|x y Ha Hl']; subst. apply IH; [exact Hl'|].
  destruct acc, a; simpl in *; try assumption; try (apply hdrs_wf_merge; assumption).
Qed.

Lemma fold_resp_wf_from : forall l acc,
  Forall (fun a => hdrs_wf (resp_edits a)) l -> hdrs_wf (resp_edits acc) ->
  hdrs_wf (resp_edits (fold_left prio_resp l acc)).
Proof.
  induction l as [|a l IH]; intros acc Hl Hacc; simpl; [exact Hacc|].
  inversion Hl as [|x y Ha Hl']; subst. apply IH; [exact Hl'|].
  destruct acc, a; simpl in *; try assumption; try (apply hdrs_wf_merge; assumption).
Qed.

(* ------------------------------------------------------------------ decode . encode *)

Local Opaque dump parse_dump.

Lemma decode_encode_req : forall a,
  hdrs_wf (req_hdrs a) -> decode_req (encode_req a) = Some (erase_rm a).
Proof.
  intros a H. destruct a as [|h|h host path query body|h rm body|st body h]; simpl in H.
  - reflexivity.
  - unfold decode_req, encode_req. simpl. rewrite parse_dump_dump by exact H. reflexivity.
  - unfold decode_req, encode_req, opt_var.
    destruct host, path, query, body; simpl; rewrite parse_dump_dump by exact H; reflexivity.
  - unfold decode_req, encode_req. simpl. rewrite parse_dump_dump by exact H. reflexivity.
  - unfold decode_req, encode_req. simpl. rewrite parse_dump_dump by exact H. reflexivity.
Qed.

Lemma decode_encode_resp : forall a,
  hdrs_wf (resp_edits a) -> decode_resp (encode_resp a) = Some a.
Proof.
  intros a H. destruct a as [|h body st|h]; simpl in H.
  - reflexivity.
  - unfold decode_resp, encode_resp. simpl. rewrite parse_dump_dump by exact H. reflexivity.
  - unfold decode_resp, encode_resp. simpl. rewrite parse_dump_dump by exact H. reflexivity.
Qed.
