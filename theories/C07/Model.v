(* C07 — model of the combination of remedy / processor actions.

   Code modelled (lunar-engine):
     actions/request_action_prioritize.go    ReqPrioritize  (5 x 5 table)
     actions/response_action_prioritize.go   RespPrioritize (3 x 3 table)
     actions/*_action_transformers.go        ReqToSpoeActions / RespToSpoeActions
     utils/headers_transformations.go        MergeHeaders, DumpHeaders
     routing/messages_handler.go             getSPOEReqActions / getSPOERespActions
     runner/plugin_runner.go                 runOnRequest / runOnResponse
   The last two are the same loop:  acc := NoOp; for a in l { acc = acc.Prioritize(a) }.

   Byte strings are [list Z] of byte codes.  A header map is an association
   list with pairwise distinct keys (Go map); its order is irrelevant and is
   never compared (look-ups, or sorted lines of the dump).

   Executable definitions only; lemmas are in Proofs.v. *)
From Coq Require Import String Ascii.
From Coq Require Import List ZArith Bool.
Import ListNotations.
Open Scope Z_scope.

Notation str := (list Z) (only parsing).
Notation hdrs := (list (list Z * list Z)) (only parsing).

(* ------------------------------------------------------------------ strings *)

Fixpoint str_eqb (a b : str) : bool :=
  match a, b with
  | [], [] => true
  | x :: a', y :: b' => (x =? y) && str_eqb a' b'
  | _, _ => false
  end.

Definition is_empty (s : str) : bool := match s with [] => true | _ => false end.

(* byte codes of a Coq string literal (variable names) *)
Definition bytes_of (s : string) : str :=
  map (fun a => Z.of_N (N_of_ascii a)) (list_ascii_of_string s).

(* ------------------------------------------------------------------ header maps *)

Fixpoint lookup (k : str) (h : hdrs) : option (list Z) :=
  match h with
  | [] => None
  | kv :: r => if str_eqb k (fst kv) then Some (snd kv) else lookup k r
  end.

Definition has_key (k : str) (h : hdrs) : bool :=
  match lookup k h with Some _ => true | None => false end.

(* utils.MergeHeaders(first, second): every entry of [first] whose key is not
   in [second], then every entry of [second]  (second wins). *)
Definition merge (first second : hdrs) : hdrs :=
  filter (fun kv => negb (has_key (fst kv) second)) first ++ second.

(* ------------------------------------------------------------------ request actions *)

Inductive req_action :=
| RNoOp
| RModHeaders (h : hdrs)
| RModRequest (h : hdrs) (host path query body : list Z)
| RGenRequest (h : hdrs) (rm : list (list Z)) (body : list Z)
| REarly (status : Z) (body : list Z) (h : hdrs).

Definition is_early (a : req_action) : bool :=
  match a with REarly _ _ _ => true | _ => false end.

Definition is_req_noop (a : req_action) : bool :=
  match a with RNoOp => true | _ => false end.

(* the header edits an action asks for (HeadersToSet); the headers of an early
   response are response headers, not edits of the request *)
Definition req_edits (a : req_action) : hdrs :=
  match a with
  | RNoOp => []
  | RModHeaders h => h
  | RModRequest h _ _ _ _ => h
  | RGenRequest h _ _ => h
  | REarly _ _ _ => []
  end.

(* action.ReqPrioritize(other), cell by cell.
   ModifyRequest cells: the result is a fresh ModifyRequestAction whose Path,
   QueryParams, Host, Body are copied from [other] when non-empty and are ""
   otherwise, i.e. they are other's fields verbatim (the accumulated action's
   own path/host/query/body are dropped), except ModifyRequest x ModifyHeaders
   which updates the accumulated action in place and keeps its fields.
   GenerateRequest x ModifyHeaders yields a ModifyHeadersAction (body and
   HeadersToRemove dropped). *)
Definition prio_req (action other : req_action) : req_action :=
  match action with
  | RNoOp => other
  | RModHeaders h =>
      match other with
      | REarly _ _ _ => other
      | RNoOp => action
      | RModHeaders h2 => RModHeaders (merge h h2)
      | RModRequest h2 host path query body =>
          RModRequest (merge h h2) host path query body
      | RGenRequest h2 rm body => RGenRequest (merge h h2) rm body
      end
  | RModRequest h host path query body =>
      match other with
      | REarly _ _ _ => other
      | RNoOp => action
      | RModHeaders h2 => RModRequest (merge h h2) host path query body
      | RModRequest h2 host2 path2 query2 body2 =>
          RModRequest (merge h h2) host2 path2 query2 body2
      | RGenRequest h2 rm body2 => RGenRequest (merge h h2) rm body2
      end
  | RGenRequest h rm body =>
      match other with
      | REarly _ _ _ => other
      | RNoOp => action
      | RModHeaders h2 => RModHeaders (merge h h2)
      | RModRequest h2 host2 path2 query2 body2 =>
          RModRequest (merge h h2) host2 path2 query2 body2
      | RGenRequest h2 rm2 body2 => RGenRequest (merge h h2) (rm ++ rm2) body2
      end
  | REarly _ _ _ => action
  end.

Definition fold_req (l : list req_action) : req_action :=
  fold_left prio_req l RNoOp.

(* ------------------------------------------------------------------ response actions *)

Inductive resp_action :=
| PNoOp
| PModResp (h : hdrs) (body : list Z) (status : Z)
| PRetry (h : hdrs).

Definition is_resp_noop (a : resp_action) : bool :=
  match a with PNoOp => true | _ => false end.
Definition is_mod_resp (a : resp_action) : bool :=
  match a with PModResp _ _ _ => true | _ => false end.
Definition is_retry (a : resp_action) : bool :=
  match a with PRetry _ => true | _ => false end.

Definition resp_edits (a : resp_action) : hdrs :=
  match a with
  | PNoOp => []
  | PModResp h _ _ => h
  | PRetry h => h
  end.

(* action.RespPrioritize(other).  ModifyResponse x ModifyResponse keeps the
   Body and Status of the accumulated (earlier) action and merges the headers
   (later wins).  ModifyResponse x Retry and Retry x ModifyResponse return
   [other] (the later of the two kinds, nothing merged). *)
Definition prio_resp (action other : resp_action) : resp_action :=
  match action with
  | PNoOp => other
  | PModResp h body status =>
      match other with
      | PNoOp => action
      | PModResp h2 _ _ => PModResp (merge h h2) body status
      | PRetry _ => other
      end
  | PRetry h =>
      match other with
      | PNoOp => action
      | PModResp _ _ _ => other
      | PRetry h2 => PRetry (merge h h2)
      end
  end.

Definition fold_resp (l : list resp_action) : resp_action :=
  fold_left prio_resp l PNoOp.

(* ------------------------------------------------------------------ sessions
   A session = the producers (processors / remedies) with the action VALUE each
   of them stands for when the session starts (the store), and a sequence of
   transactions, each naming the producers that fire, in order.  Producers keep
   objects across transactions (the API-key plugin caches one header map per
   endpoint and hands that map out in a fresh ModifyRequestAction every time).

   Value semantics (what the property demands): a fold READS the producers'
   values and never writes them, so a transaction's result is a function of
   that transaction's action values.  [txn_req] returns the store untouched:
   in this model aliasing cannot occur; the harness checks the implementation
   against exactly this (shared header maps / remove lists in fresh structs). *)

Definition resolve_req (st : list req_action) (ids : list nat) : list req_action :=
  map (fun i => nth i st RNoOp) ids.
Definition resolve_resp (st : list resp_action) (ids : list nat) : list resp_action :=
  map (fun i => nth i st PNoOp) ids.

Definition txn_req (st : list req_action) (ids : list nat) : req_action * list req_action :=
  (fold_req (resolve_req st ids), st).
Definition txn_resp (st : list resp_action) (ids : list nat) : resp_action * list resp_action :=
  (fold_resp (resolve_resp st ids), st).

(* results of the transactions in order, and the store at the end *)
Fixpoint session_req (st : list req_action) (ts : list (list nat))
  : list req_action * list req_action :=
  match ts with
  | [] => ([], st)
  | t :: r =>
      let '(res, st1) := txn_req st t in
      let '(rs, st2) := session_req st1 r in
      (res :: rs, st2)
  end.

Fixpoint session_resp (st : list resp_action) (ts : list (list nat))
  : list resp_action * list resp_action :=
  match ts with
  | [] => ([], st)
  | t :: r =>
      let '(res, st1) := txn_resp st t in
      let '(rs, st2) := session_resp st1 r in
      (res :: rs, st2)
  end.

(* Struct reuse (a producer handing the very same action STRUCT to several
   transactions; no producer of the tree does, every one builds a new struct
   per call).  VARIANT SWITCH: with patches/C07/fix-F-C07c.patch every merge
   cell builds a new action, no fold assigns a field of a struct it was
   handed, and struct reuse IS the value semantics above ([session_req];
   this is what [run_sess_req] evaluates for both reuse modes, duplicates of a
   producer inside one transaction included).  [run_ip] / [session_req_ip]
   below model the UNFIXED code (kept for C07_struct_reuse_unfixed_refuted
   and C07_struct_reuse_independent_outside_inplace):
   there the code is not a function of values: the
   accumulator of the fold IS the first non-no-op input struct
   (NoOp.ReqPrioritize(other) returns other) until a merge allocates a new
   one, and ModifyRequest x ModifyHeaders assigns the accumulated struct's
   HeadersToSet (the merged map is new; the struct is updated in place).
   [run_ip] is the fold over (producer id, value) pairs that also tracks which
   producer's struct the accumulator is ([own]) and the writes to producers'
   structs, in order.  The values are read when the fold starts: a struct
   occurring twice in ONE sequence is not modelled (the harness never does).
   The response table has no in-place cell. *)
Fixpoint run_ip (l : list (nat * req_action)) (a : req_action) (own : option nat)
                (w : list (nat * req_action)) : req_action * list (nat * req_action) :=
  match l with
  | [] => (a, w)
  | (j, o) :: r =>
      match a, o with
      | RNoOp, _ => run_ip r o (Some j) w
      | REarly _ _ _, _ => run_ip r a own w
      | _, RNoOp => run_ip r a own w
      | _, REarly _ _ _ => run_ip r o (Some j) w
      | RModRequest _ _ _ _ _, RModHeaders _ =>
          let a' := prio_req a o in
          run_ip r a' own (match own with Some i => w ++ [(i, a')] | None => w end)
      | _, _ => run_ip r (prio_req a o) None w
      end
  end.

Fixpoint set_nth {A : Type} (i : nat) (v : A) (l : list A) : list A :=
  match l, i with
  | [], _ => []
  | _ :: r, O => v :: r
  | x :: r, S i' => x :: set_nth i' v r
  end.

Definition apply_writes (w : list (nat * req_action)) (st : list req_action) : list req_action :=
  fold_left (fun s iv => set_nth (fst iv) (snd iv) s) w st.

Definition txn_req_ip (st : list req_action) (ids : list nat) : req_action * list req_action :=
  let '(res, w) := run_ip (combine ids (resolve_req st ids)) RNoOp None [] in
  (res, apply_writes w st).

Fixpoint session_req_ip (st : list req_action) (ts : list (list nat))
  : list req_action * list req_action :=
  match ts with
  | [] => ([], st)
  | t :: r =>
      let '(res, st1) := txn_req_ip st t in
      let '(rs, st2) := session_req_ip st1 r in
      (res :: rs, st2)
  end.

(* the one situation in which a fold writes a struct it was given: dropping
   the no-ops, the sequence starts ModifyRequest, ModifyHeaders *)
Definition inplace_fires (l : list req_action) : bool :=
  match filter (fun a => negb (is_req_noop a)) l with
  | RModRequest _ _ _ _ _ :: RModHeaders _ :: _ => true
  | _ => false
  end.

(* ------------------------------------------------------------------ SPOE encoding *)

Inductive scope := ScProcess | ScSession | ScTxn | ScReq | ScRes.

(* Go dynamic type of the value handed to SetVar: bool, int, string, []byte.
   [VOther]: anything else (never produced by the model). *)
Inductive value :=
| VBool (b : bool)
| VInt (z : Z)
| VStr (s : list Z)
| VBytes (s : list Z)
| VOther.

Definition var := (scope * list Z * value)%type.

(* strings.Join(l, "\n") *)
Fixpoint join_nl (l : list (list Z)) : list Z :=
  match l with
  | [] => []
  | x :: r => match r with [] => x | _ :: _ => x ++ 10 :: join_nl r end
  end.

(* fmt.Sprintf("%s:%s", k, v) *)
Definition hline (kv : list Z * list Z) : list Z := fst kv ++ 58 :: snd kv.

(* utils.DumpHeaders: Join(pairs, "\n") + "\n"  (the empty map dumps as "\n") *)
Definition dump (h : hdrs) : list Z := join_nl (map hline h) ++ [10].

Definition n_return_early_response := Eval vm_compute in bytes_of "return_early_response".
Definition n_status_code := Eval vm_compute in bytes_of "status_code".
Definition n_response_body := Eval vm_compute in bytes_of "response_body".
Definition n_response_headers := Eval vm_compute in bytes_of "response_headers".
Definition n_modify_request := Eval vm_compute in bytes_of "modify_request".
Definition n_generate_request := Eval vm_compute in bytes_of "generate_request".
Definition n_request_headers := Eval vm_compute in bytes_of "request_headers".
Definition n_request_body := Eval vm_compute in bytes_of "request_body".
Definition n_request_path := Eval vm_compute in bytes_of "request_path".
Definition n_request_host := Eval vm_compute in bytes_of "request_host".
Definition n_request_query_params := Eval vm_compute in bytes_of "request_query_params".
Definition n_modify_response := Eval vm_compute in bytes_of "modify_response".
Definition n_retry_request := Eval vm_compute in bytes_of "retry_request".
Definition n_retry_headers := Eval vm_compute in bytes_of "retry_headers".

(* SetVar only when the field is not "" *)
Definition opt_var (sc : scope) (n : list Z) (mk : list Z -> value) (s : list Z) : list var :=
  if is_empty s then [] else [(sc, n, mk s)].

(* ReqToSpoeActions.  GenerateRequest: HeadersToRemove is not encoded. *)
Definition encode_req (a : req_action) : list var :=
  match a with
  | RNoOp => []
  | REarly status body h =>
      [ (ScTxn, n_return_early_response, VBool true);
        (ScTxn, n_status_code, VInt status);
        (ScTxn, n_response_body, VBytes body);
        (ScTxn, n_response_headers, VStr (dump h)) ]
  | RModRequest h host path query body =>
      [ (ScReq, n_modify_request, VBool true);
        (ScReq, n_request_headers, VStr (dump h)) ]
      ++ opt_var ScReq n_request_path VStr path
      ++ opt_var ScReq n_request_query_params VStr query
      ++ opt_var ScReq n_request_host VStr host
      ++ opt_var ScReq n_request_body VBytes body
  | RModHeaders h =>
      [ (ScReq, n_request_headers, VStr (dump h)) ]
  | RGenRequest h _ body =>
      [ (ScReq, n_generate_request, VBool true);
        (ScReq, n_request_headers, VStr (dump h));
        (ScReq, n_request_body, VBytes body) ]
  end.

(* RespToSpoeActions  (the response body is handed over as a string) *)
Definition encode_resp (a : resp_action) : list var :=
  match a with
  | PNoOp => []
  | PModResp h body status =>
      [ (ScRes, n_modify_response, VBool true);
        (ScRes, n_response_headers, VStr (dump h));
        (ScRes, n_response_body, VStr body);
        (ScRes, n_status_code, VInt status) ]
  | PRetry h =>
      [ (ScRes, n_retry_request, VBool true);
        (ScRes, n_retry_headers, VStr (dump h)) ]
  end.

(* what getSPOEReqActions / getSPOERespActions hand to the proxy *)
Definition spoe_req (l : list req_action) : list var := encode_req (fold_req l).
Definition spoe_resp (l : list resp_action) : list var := encode_resp (fold_resp l).

(* ------------------------------------------------------------------ decoding
   (the reader's side, used to state that the encoding carries the action) *)

(* strings.Split(s, c): n separators give n+1 pieces *)
Fixpoint split_on (c : Z) (s : list Z) : list (list Z) :=
  match s with
  | [] => [[]]
  | x :: r =>
      if x =? c then [] :: split_on c r
      else match split_on c r with
           | [] => [[x]]
           | p :: ps => (x :: p) :: ps
           end
  end.

(* cut at the first occurrence of c *)
Fixpoint break_at (c : Z) (s : list Z) : option (list Z * list Z) :=
  match s with
  | [] => None
  | x :: r =>
      if x =? c then Some ([], r)
      else match break_at c r with
           | Some (a, b) => Some (x :: a, b)
           | None => None
           end
  end.

Definition parse_line (l : list Z) : hdrs :=
  match break_at 58 l with Some kv => [kv] | None => [] end.

(* lines of the dump without the piece after the final "\n"; a line without
   ':' (the single empty line of the empty map) carries no header *)
Definition parse_dump (d : list Z) : hdrs :=
  flat_map parse_line (removelast (split_on 10 d)).

Definition scope_eqb (a b : scope) : bool :=
  match a, b with
  | ScProcess, ScProcess | ScSession, ScSession | ScTxn, ScTxn
  | ScReq, ScReq | ScRes, ScRes => true
  | _, _ => false
  end.

Fixpoint get_var (sc : scope) (n : list Z) (vs : list var) : option value :=
  match vs with
  | [] => None
  | v :: r =>
      if scope_eqb sc (fst (fst v)) && str_eqb n (snd (fst v)) then Some (snd v)
      else get_var sc n r
  end.

Definition get_str (sc : scope) (n : list Z) (vs : list var) : option (list Z) :=
  match get_var sc n vs with
  | Some (VStr s) => Some s
  | None => Some []            (* variable not set: the field was "" *)
  | _ => None
  end.
Definition get_bytes (sc : scope) (n : list Z) (vs : list var) : option (list Z) :=
  match get_var sc n vs with
  | Some (VBytes s) => Some s
  | None => Some []
  | _ => None
  end.
Definition is_true (o : option value) : bool :=
  match o with Some (VBool true) => true | _ => false end.

(* HeadersToRemove is not part of the encoding *)
Definition erase_rm (a : req_action) : req_action :=
  match a with RGenRequest h _ body => RGenRequest h [] body | _ => a end.

Definition decode_req (vs : list var) : option req_action :=
  if is_true (get_var ScTxn n_return_early_response vs) then
    match get_var ScTxn n_status_code vs, get_var ScTxn n_response_body vs,
          get_var ScTxn n_response_headers vs with
    | Some (VInt st), Some (VBytes b), Some (VStr d) => Some (REarly st b (parse_dump d))
    | _, _, _ => None
    end
  else if is_true (get_var ScReq n_modify_request vs) then
    match get_var ScReq n_request_headers vs,
          get_str ScReq n_request_host vs, get_str ScReq n_request_path vs,
          get_str ScReq n_request_query_params vs, get_bytes ScReq n_request_body vs with
    | Some (VStr d), Some host, Some path, Some query, Some body =>
        Some (RModRequest (parse_dump d) host path query body)
    | _, _, _, _, _ => None
    end
  else if is_true (get_var ScReq n_generate_request vs) then
    match get_var ScReq n_request_headers vs, get_var ScReq n_request_body vs with
    | Some (VStr d), Some (VBytes b) => Some (RGenRequest (parse_dump d) [] b)
    | _, _ => None
    end
  else
    match get_var ScReq n_request_headers vs with
    | Some (VStr d) => Some (RModHeaders (parse_dump d))
    | Some _ => None
    | None => match vs with [] => Some RNoOp | _ :: _ => None end
    end.

Definition decode_resp (vs : list var) : option resp_action :=
  if is_true (get_var ScRes n_modify_response vs) then
    match get_var ScRes n_response_headers vs, get_var ScRes n_response_body vs,
          get_var ScRes n_status_code vs with
    | Some (VStr d), Some (VStr b), Some (VInt st) => Some (PModResp (parse_dump d) b st)
    | _, _, _ => None
    end
  else if is_true (get_var ScRes n_retry_request vs) then
    match get_var ScRes n_retry_headers vs with
    | Some (VStr d) => Some (PRetry (parse_dump d))
    | _ => None
    end
  else match vs with [] => Some PNoOp | _ :: _ => None end.

(* ------------------------------------------------------------------ correspondence
   Observables compared (canonicalised): the resulting action (kind, status,
   bodies, path/host/query, HeadersToRemove in order, header map as a map)
   and the SPOE variables as a set, a header dump being compared as the sorted
   list of its "\n"-separated lines (Go map iteration order is random). *)

Definition opt_str_eqb (a b : option (list Z)) : bool :=
  match a, b with
  | Some x, Some y => str_eqb x y
  | None, None => true
  | _, _ => false
  end.

Definition hdrs_eqb (a b : hdrs) : bool :=
  (Nat.eqb (List.length a) (List.length b))
  && forallb (fun kv => opt_str_eqb (lookup (fst kv) b) (Some (snd kv))) a
  && forallb (fun kv => opt_str_eqb (lookup (fst kv) a) (Some (snd kv))) b.

Fixpoint strs_eqb (a b : list (list Z)) : bool :=
  match a, b with
  | [], [] => true
  | x :: a', y :: b' => str_eqb x y && strs_eqb a' b'
  | _, _ => false
  end.

Definition req_eqb (a b : req_action) : bool :=
  match a, b with
  | RNoOp, RNoOp => true
  | RModHeaders h, RModHeaders h' => hdrs_eqb h h'
  | RModRequest h ho p q b, RModRequest h' ho' p' q' b' =>
      hdrs_eqb h h' && str_eqb ho ho' && str_eqb p p' && str_eqb q q' && str_eqb b b'
  | RGenRequest h rm b, RGenRequest h' rm' b' =>
      hdrs_eqb h h' && strs_eqb rm rm' && str_eqb b b'
  | REarly s b h, REarly s' b' h' => (s =? s') && str_eqb b b' && hdrs_eqb h h'
  | _, _ => false
  end.

Definition resp_eqb (a b : resp_action) : bool :=
  match a, b with
  | PNoOp, PNoOp => true
  | PModResp h b s, PModResp h' b' s' => hdrs_eqb h h' && str_eqb b b' && (s =? s')
  | PRetry h, PRetry h' => hdrs_eqb h h'
  | _, _ => false
  end.

Fixpoint str_leb (a b : list Z) : bool :=
  match a, b with
  | [], _ => true
  | _ :: _, [] => false
  | x :: a', y :: b' => if x <? y then true else if y <? x then false else str_leb a' b'
  end.

Fixpoint insert_line (x : list Z) (l : list (list Z)) : list (list Z) :=
  match l with
  | [] => [x]
  | y :: r => if str_leb x y then x :: l else y :: insert_line x r
  end.

Definition sort_lines (l : list (list Z)) : list (list Z) := fold_right insert_line [] l.

Definition is_header_var (n : list Z) : bool :=
  str_eqb n n_request_headers || str_eqb n n_response_headers || str_eqb n n_retry_headers.

(* two header dumps: byte-exact up to the order of their "\n"-terminated lines
   (the piece after the last "\n" - empty in a dump - is compared on its own, so
   a dump that misplaces or lacks the final terminator differs) *)
Definition dump_eqb (x y : list Z) : bool :=
  let px := split_on 10 x in
  let py := split_on 10 y in
  str_eqb (last px []) (last py [])
  && strs_eqb (sort_lines (removelast px)) (sort_lines (removelast py)).

Definition value_eqb (hdr : bool) (a b : value) : bool :=
  match a, b with
  | VBool x, VBool y => Bool.eqb x y
  | VInt x, VInt y => x =? y
  | VStr x, VStr y =>
      if hdr then dump_eqb x y
      else str_eqb x y
  | VBytes x, VBytes y => str_eqb x y
  | _, _ => false
  end.

Definition var_eqb (a b : var) : bool :=
  scope_eqb (fst (fst a)) (fst (fst b))
  && str_eqb (snd (fst a)) (snd (fst b))
  && value_eqb (is_header_var (snd (fst a))) (snd a) (snd b).

Definition vars_eqb (a b : list var) : bool :=
  Nat.eqb (List.length a) (List.length b)
  && forallb (fun x => existsb (var_eqb x) b) a
  && forallb (fun y => existsb (fun x => var_eqb x y) a) b.

(* (input actions, resulting action observed, SPOE variables observed) *)
Definition case_req := (list req_action * req_action * list var)%type.
Definition case_resp := (list resp_action * resp_action * list var)%type.

Definition run_req (k : case_req) : option (req_action * list var) :=
  let '(l, oa, ov) := k in
  let m := fold_req l in
  if req_eqb m oa && vars_eqb (encode_req m) ov then None
  else Some (m, encode_req m).

Definition run_resp (k : case_resp) : option (resp_action * list var) :=
  let '(l, oa, ov) := k in
  let m := fold_resp l in
  if resp_eqb m oa && vars_eqb (encode_resp m) ov then None
  else Some (m, encode_resp m).

(* legacy (policies) mode: runner.DispatchOnRequest / DispatchOnResponse, i.e.
   the fold of runner.runOnRequest / runOnResponse over the actions the remedy
   plugins returned (the harness obtains those actions from the plugins
   themselves); only the variables are observable there. *)
Definition case_legacy_req := (list req_action * list var)%type.
Definition case_legacy_resp := (list resp_action * list var)%type.

Definition run_legacy_req (k : case_legacy_req) : option (list var) :=
  let '(l, ov) := k in
  if vars_eqb (spoe_req l) ov then None else Some (spoe_req l).

Definition run_legacy_resp (k : case_legacy_resp) : option (list var) :=
  let '(l, ov) := k in
  if vars_eqb (spoe_resp l) ov then None else Some (spoe_resp l).

(* sessions (suites sess_req / sess_resp).  A case: struct reuse (true) or
   header maps / remove lists shared between fresh structs (false) - both are
   compared with the value semantics (fixed code, see the variant switch at
   [run_ip]); the store
   when the session starts; per transaction the producers that fire, the
   resulting action when it was observed (fold over the public methods) and
   the variables observed (of the real routing fold, or the resulting action's
   own encoding); the producers' values read back through the very objects
   they hold when the session ends. *)
Definition sess_txn_req := (list nat * option req_action * list var)%type.
Definition sess_txn_resp := (list nat * option resp_action * list var)%type.
Definition case_sess_req := (bool * list req_action * list sess_txn_req * list req_action)%type.
Definition case_sess_resp := (bool * list resp_action * list sess_txn_resp * list resp_action)%type.

Fixpoint list_eqb {A : Type} (eqb : A -> A -> bool) (a b : list A) : bool :=
  match a, b with
  | [], [] => true
  | x :: a', y :: b' => eqb x y && list_eqb eqb a' b'
  | _, _ => false
  end.

Definition txn_req_ok (t : sess_txn_req) (m : req_action) : bool :=
  let '(_, oa, ov) := t in
  match oa with Some a => req_eqb m a | None => true end && vars_eqb (encode_req m) ov.
Definition txn_resp_ok (t : sess_txn_resp) (m : resp_action) : bool :=
  let '(_, oa, ov) := t in
  match oa with Some a => resp_eqb m a | None => true end && vars_eqb (encode_resp m) ov.

Fixpoint all2 {A B : Type} (f : A -> B -> bool) (a : list A) (b : list B) : bool :=
  match a, b with
  | [], [] => true
  | x :: a', y :: b' => f x y && all2 f a' b'
  | _, _ => false
  end.

Definition run_sess_req (k : case_sess_req)
  : option (list (req_action * list var) * list req_action) :=
  let '(_, st, ts, fin) := k in
  let ids := map (fun t => fst (fst t)) ts in
  let '(rs, st') := session_req st ids in
  if all2 txn_req_ok ts rs && list_eqb req_eqb st' fin then None
  else Some (map (fun m => (m, encode_req m)) rs, st').

Definition run_sess_resp (k : case_sess_resp)
  : option (list (resp_action * list var) * list resp_action) :=
  let '(_, st, ts, fin) := k in
  let ids := map (fun t => fst (fst t)) ts in
  let '(rs, st') := session_resp st ids in
  if all2 txn_resp_ok ts rs && list_eqb resp_eqb st' fin then None
  else Some (map (fun m => (m, encode_resp m)) rs, st').
