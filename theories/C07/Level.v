(* C07 — the log level as a dimension of the encoding path, and the variant of
   the trace line that was seeded into the tree (C07-12), kept behind a variant
   switch (definitions only; lemmas are in LevelProofs.v, statements in
   Property.v).

   routing.getSPOEReqActions / getSPOERespActions fold the actions, write one
   trace line "Prioritized OnRequest/OnResponse action: <type>" and encode the
   prioritized action.  The level of the process logger is configuration
   (LOG_LEVEL; trace is legal, the default is error).  The line READS the
   action (its type); whether it is rendered or not, the action that is encoded
   is the fold's result: the level is a field with no effect ([LogReadsOnly]).

   The seeded variant renders the whole action when trace is enabled and masks
   the credential headers "on a copy" - a copy of the struct, not of the header
   map it points to: the values of authorization, proxy-authorization,
   x-api-key, cookie, set-cookie (name compared case-insensitively) are
   overwritten with "*****" in the very map that is encoded next
   ([LogMasksInPlace]; what the variant does to the producers' own maps -
   aliasing - is outside the value-based model and checked by execution only,
   monitor signatures input-mutated).  The variant is used only for the statements
   C07_log_mask_variant_*; it is not tied to any code by execution. *)
From Coq Require Import List ZArith Bool.
From Verif Require Import C07.Model C07.Spec.
Import ListNotations.
Open Scope Z_scope.

(* zerolog's levels that LOG_LEVEL can name *)
Inductive log_level := LvTrace | LvDebug | LvInfo | LvWarn | LvError | LvDisabled.

Definition trace_enabled (lv : log_level) : bool :=
  match lv with LvTrace => true | _ => false end.

(* ------------------------------------------------------------------ the credential family *)

Definition n_authorization : str :=
  [97; 117; 116; 104; 111; 114; 105; 122; 97; 116; 105; 111; 110].
Definition n_proxy_authorization : str :=
  [112; 114; 111; 120; 121; 45] ++ n_authorization.
Definition n_x_api_key : str := [120; 45; 97; 112; 105; 45; 107; 101; 121].
Definition n_cookie : str := [99; 111; 111; 107; 105; 101].
Definition n_set_cookie : str := [115; 101; 116; 45] ++ n_cookie.

Definition cred_names : list str :=
  [n_authorization; n_proxy_authorization; n_x_api_key; n_cookie; n_set_cookie].

(* strings.ToLower(name) is in the list *)
Definition is_cred (k : str) : bool := existsb (str_eqb (lower_str k)) cred_names.

Definition mask : str := [42; 42; 42; 42; 42].

Definition mask_entry (kv : str * list Z) : str * list Z :=
  if is_cred (fst kv) then (fst kv, mask) else kv.
Definition mask_creds (h : hdrs) : hdrs := map mask_entry h.

(* no credential header among the names (decidable) *)
Definition cred_free (h : hdrs) : Prop := Forall (fun kv => is_cred (fst kv) = false) h.
Definition cred_freeb (h : hdrs) : bool := forallb (fun kv => negb (is_cred (fst kv))) h.

Definition mask_req (a : req_action) : req_action :=
  match a with
  | RNoOp => RNoOp
  | RModHeaders h => RModHeaders (mask_creds h)
  | RModRequest h host path query body => RModRequest (mask_creds h) host path query body
  | RGenRequest h rm body => RGenRequest (mask_creds h) rm body
  | REarly st body h => REarly st body (mask_creds h)
  end.

Definition mask_resp (a : resp_action) : resp_action :=
  match a with
  | PNoOp => PNoOp
  | PModResp h body st => PModResp (mask_creds h) body st
  | PRetry h => PRetry (mask_creds h)
  end.

(* ------------------------------------------------------------------ variant switch *)

Inductive log_variant :=
| LogReadsOnly      (* HEAD: the trace line prints the type of the action *)
| LogMasksInPlace.  (* seed C07-12: the rendering masks credentials in the action's own map *)

(* the prioritized action after the trace line, before it is encoded *)
Definition logged_req (v : log_variant) (lv : log_level) (a : req_action) : req_action :=
  match v with
  | LogReadsOnly => a
  | LogMasksInPlace => if trace_enabled lv then mask_req a else a
  end.

Definition logged_resp (v : log_variant) (lv : log_level) (a : resp_action) : resp_action :=
  match v with
  | LogReadsOnly => a
  | LogMasksInPlace => if trace_enabled lv then mask_resp a else a
  end.

(* getSPOEReqActions / getSPOERespActions at a log level *)
Definition spoe_req_at (v : log_variant) (lv : log_level) (l : list req_action) : list var :=
  encode_req (logged_req v lv (fold_req l)).
Definition spoe_resp_at (v : log_variant) (lv : log_level) (l : list resp_action) : list var :=
  encode_resp (logged_resp v lv (fold_resp l)).

(* ------------------------------------------------------------------ correspondence
   suites req / resp: the case carries the level of the process logger under
   which the implementation was run; the model is evaluated at that level. *)

Definition case_req_lv := (log_level * case_req)%type.
Definition case_resp_lv := (log_level * case_resp)%type.

Definition run_req_lv (k : case_req_lv) : option (req_action * list var) :=
  let '(lv, (l, oa, ov)) := k in
  let m := fold_req l in
  let e := spoe_req_at LogReadsOnly lv l in
  if req_eqb m oa && vars_eqb e ov then None else Some (m, e).

Definition run_resp_lv (k : case_resp_lv) : option (resp_action * list var) :=
  let '(lv, (l, oa, ov)) := k in
  let m := fold_resp l in
  let e := spoe_resp_at LogReadsOnly lv l in
  if resp_eqb m oa && vars_eqb e ov then None else Some (m, e).
