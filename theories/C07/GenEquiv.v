(* C07 — the definitions GENERATED from the actions package (C07/Gen.v, regenerated from the
   tree under check on every run by /verif/gotocoq) are the pairwise priority tables of the
   hand model C07/Model.v, cell by cell, for all actions.

   Translated: ReqPrioritize of the five request action types and RespPrioritize of the
   three response action types (request_action_prioritize.go, response_action_prioritize.go)
   with their `switch other.ReqRunResult()`, the type assertions other.( *T), the stores
   through prioritizedAction.( *ModifyRequestAction); the ReqRunResult / RespRunResult
   methods; the interface types ReqLunarAction / RespLunarAction as closed sums with
   generated dynamic dispatch.  NOT translated (intrinsic of C07/GenSem.v, trusted):
   utils.MergeHeaders.  The fold itself (routing.getSPOEReqActions / runner.runOnRequest: a
   range loop in other packages) is restated here by hand ([gen_fold_req]) — what is proved
   about it is that folding the GENERATED dispatcher is Model.fold_req; that the loops of
   the two callers are this fold stays with the differential suites.

   [inj_req] / [inj_resp] embed the model's actions into the generated sums (a bijection
   onto the non-nil values: [inj_proj_req], [inj_proj_resp]); header maps, strings and
   status codes are the same Coq values on both sides. *)
From Coq Require Import List ZArith Bool Lia.
From Verif Require Import Lib.GoSem C07.Model C07.GenSem C07.Gen.
Import ListNotations.
Open Scope Z_scope.

(* ---------------- strings and header maps ---------------- *)

Lemma gostring_eqb_str_eqb a : forall b, gostring_eqb a b = str_eqb a b.
Proof. intros b. reflexivity. Qed.   (* the two fixpoints are the same term *)

Lemma smap_get_lookup (m : smap gostring) k : smap_get m k = lookup k m.
Proof.
  unfold smap_get. induction m as [|[k' v] m IH]; cbn; [reflexivity|].
  rewrite gostring_eqb_str_eqb. destruct (str_eqb k k'); [reflexivity|exact IH].
Qed.

Lemma merge_headers_merge a b : merge_headers a b = merge a b.
Proof.
  unfold merge_headers, merge. f_equal. apply filter_ext. intros kv.
  unfold has_key. rewrite smap_get_lookup. unfold smap, gostring in *.
  destruct (lookup (fst kv) b); reflexivity.
Qed.

(* ---------------- the embeddings ---------------- *)

Definition inj_req (a : req_action) : ReqAction :=
  match a with
  | RNoOp => ReqAction_NoOpAction mk_NoOpAction
  | RModHeaders h => ReqAction_ModifyHeadersAction (mk_ModifyHeadersAction h)
  | RModRequest h host path query body =>
      ReqAction_ModifyRequestAction (mk_ModifyRequestAction h host path query body)
  | RGenRequest h rm body => ReqAction_GenerateRequestAction (mk_GenerateRequestAction h rm body)
  | REarly status body h => ReqAction_EarlyResponseAction (mk_EarlyResponseAction status body h)
  end.

Definition proj_req (x : ReqAction) : req_action :=
  match x with
  | ReqAction_nil => RNoOp
  | ReqAction_NoOpAction _ => RNoOp
  | ReqAction_ModifyHeadersAction v => RModHeaders (ModifyHeadersAction_HeadersToSet v)
  | ReqAction_ModifyRequestAction v =>
      RModRequest (ModifyRequestAction_HeadersToSet v) (ModifyRequestAction_Host v)
                  (ModifyRequestAction_Path v) (ModifyRequestAction_QueryParams v)
                  (ModifyRequestAction_Body v)
  | ReqAction_GenerateRequestAction v =>
      RGenRequest (GenerateRequestAction_HeadersToSet v) (GenerateRequestAction_HeadersToRemove v)
                  (GenerateRequestAction_Body v)
  | ReqAction_EarlyResponseAction v =>
      REarly (EarlyResponseAction_Status v) (EarlyResponseAction_Body v) (EarlyResponseAction_Headers v)
  end.

Definition inj_resp (a : resp_action) : RespAction :=
  match a with
  | PNoOp => RespAction_NoOpAction mk_NoOpAction
  | PModResp h body status => RespAction_ModifyResponseAction (mk_ModifyResponseAction h body status)
  | PRetry h => RespAction_RetryRequestAction (mk_RetryRequestAction h)
  end.

Definition proj_resp (x : RespAction) : resp_action :=
  match x with
  | RespAction_nil => PNoOp
  | RespAction_NoOpAction _ => PNoOp
  | RespAction_ModifyResponseAction v =>
      PModResp (ModifyResponseAction_HeadersToSet v) (ModifyResponseAction_Body v)
               (ModifyResponseAction_Status v)
  | RespAction_RetryRequestAction v => PRetry (RetryRequestAction_HeadersToSet v)
  end.

Lemma proj_inj_req a : proj_req (inj_req a) = a.
Proof. destruct a; reflexivity. Qed.
Lemma inj_proj_req x : x <> ReqAction_nil -> inj_req (proj_req x) = x.
Proof. destruct x as [|v|v|v|v|v]; intros H; try contradiction; destruct v; reflexivity. Qed.
Lemma proj_inj_resp a : proj_resp (inj_resp a) = a.
Proof. destruct a; reflexivity. Qed.
Lemma inj_proj_resp x : x <> RespAction_nil -> inj_resp (proj_resp x) = x.
Proof. destruct x as [|v|v|v]; intros H; try contradiction; destruct v; reflexivity. Qed.

(* ---------------- the tables ---------------- *)

(* action.ReqPrioritize(other), dispatched on the dynamic type of [action], for all pairs of
   (non-nil) actions: no panic, and the result is the model's cell *)
Theorem C07_gen_ReqPrioritize : forall a b,
  Gen.ReqPrioritize (inj_req a) (inj_req b) = Normal tt (inj_req (prio_req a b)).
Proof.
  intros a b.
  destruct a as [|h|h host path query body|h rm body|status body h];
  destruct b as [|h2|h2 host2 path2 query2 body2|h2 rm2 body2|status2 body2 h2];
    cbn -[merge_headers merge]; rewrite ?merge_headers_merge; try reflexivity;
    destruct host2, path2, query2, body2; reflexivity.
Qed.

Theorem C07_gen_RespPrioritize : forall a b,
  Gen.RespPrioritize (inj_resp a) (inj_resp b) = Normal tt (inj_resp (prio_resp a b)).
Proof.
  intros a b.
  destruct a as [|h body status|h]; destruct b as [|h2 body2 status2|h2];
    cbn -[merge_headers merge]; rewrite ?merge_headers_merge; reflexivity.
Qed.

(* the same, stated over the generated values: every non-nil pair *)
Corollary C07_gen_ReqPrioritize_all x y :
  x <> ReqAction_nil -> y <> ReqAction_nil ->
  Gen.ReqPrioritize x y = Normal tt (inj_req (prio_req (proj_req x) (proj_req y))).
Proof.
  intros Hx Hy. rewrite <- (inj_proj_req x Hx), <- (inj_proj_req y Hy) at 1.
  apply C07_gen_ReqPrioritize.
Qed.

Corollary C07_gen_RespPrioritize_all x y :
  x <> RespAction_nil -> y <> RespAction_nil ->
  Gen.RespPrioritize x y = Normal tt (inj_resp (prio_resp (proj_resp x) (proj_resp y))).
Proof.
  intros Hx Hy. rewrite <- (inj_proj_resp x Hx), <- (inj_proj_resp y Hy) at 1.
  apply C07_gen_RespPrioritize.
Qed.

(* the classification the switches branch on *)
Theorem C07_gen_RunResult :
  (forall a, Gen.ReqRunResult (inj_req a) =
             match a with
             | RNoOp => ReqNoOp | RModHeaders _ => ReqModifiedHeaders
             | RModRequest _ _ _ _ _ => ReqModifiedRequest
             | RGenRequest _ _ _ => ReqGenerateRequest | REarly _ _ _ => ReqObtainedResponse
             end) /\
  (forall a, Gen.RespRunResult (inj_resp a) =
             match a with
             | PNoOp => RespNoOp | PModResp _ _ _ => RespModifiedResponse
             | PRetry _ => RespRetryRequest
             end).
Proof. split; intros a; destruct a; reflexivity. Qed.

(* ---------------- the fold ---------------- *)

(* `acc = &NoOpAction{}; for _, x := range l { acc = acc.ReqPrioritize(x) }`, written by hand
   over the GENERATED dispatcher *)
Fixpoint gen_fold_req (acc : ReqAction) (l : list ReqAction) : outcome unit ReqAction :=
  match l with
  | [] => Normal tt acc
  | x :: r => match Gen.ReqPrioritize acc x with
              | Normal _ acc' => gen_fold_req acc' r
              | Panicked _ => Panicked tt
              end
  end.

Fixpoint gen_fold_resp (acc : RespAction) (l : list RespAction) : outcome unit RespAction :=
  match l with
  | [] => Normal tt acc
  | x :: r => match Gen.RespPrioritize acc x with
              | Normal _ acc' => gen_fold_resp acc' r
              | Panicked _ => Panicked tt
              end
  end.

Lemma gen_fold_req_from l : forall a,
  gen_fold_req (inj_req a) (map inj_req l) = Normal tt (inj_req (fold_left prio_req l a)).
Proof.
  induction l as [|x l IH]; intros a; cbn [gen_fold_req map fold_left]; [reflexivity|].
  rewrite C07_gen_ReqPrioritize. apply IH.
Qed.

Lemma gen_fold_resp_from l : forall a,
  gen_fold_resp (inj_resp a) (map inj_resp l) = Normal tt (inj_resp (fold_left prio_resp l a)).
Proof.
  induction l as [|x l IH]; intros a; cbn [gen_fold_resp map fold_left]; [reflexivity|].
  rewrite C07_gen_RespPrioritize. apply IH.
Qed.

Theorem C07_gen_fold_req l :
  gen_fold_req (ReqAction_NoOpAction mk_NoOpAction) (map inj_req l) = Normal tt (inj_req (fold_req l)).
Proof. exact (gen_fold_req_from l RNoOp). Qed.

Theorem C07_gen_fold_resp l :
  gen_fold_resp (RespAction_NoOpAction mk_NoOpAction) (map inj_resp l) = Normal tt (inj_resp (fold_resp l)).
Proof. exact (gen_fold_resp_from l PNoOp). Qed.

Print Assumptions C07_gen_ReqPrioritize.
Print Assumptions C07_gen_RespPrioritize.
Print Assumptions C07_gen_ReqPrioritize_all.
Print Assumptions C07_gen_RespPrioritize_all.
Print Assumptions C07_gen_RunResult.
Print Assumptions C07_gen_fold_req.
Print Assumptions C07_gen_fold_resp.
