(* C07 — Combined actions: early response wins, header edits merge
   last-writer-wins.  Final statements only; proofs are in Proofs.v.

   [fold_req l] / [fold_resp l] is the single action kept for the sequence [l]
   of actions the processors / remedies produced (left fold of the pairwise
   table from NoOp); [spoe_req l] / [spoe_resp l] are the SPOE variables handed
   to the proxy for it.  Every statement is over all finite sequences. *)
From Coq Require Import String Ascii.
From Coq Require Import List ZArith Bool.
From Verif Require Import C07.Model C07.Spec C07.Proofs C07.SessionProofs C07.Findings C07.Consumer.
From Verif Require Import C07.Held C07.HeldProofs C07.Format C07.FormatProofs.
From Verif Require Import C07.Level C07.LevelProofs.
Import ListNotations.
Open Scope Z_scope.

(* ------------------------------------------------------------------ request side *)

(* If some action is an early response, the result is the FIRST one, unchanged
   (same status, body, headers), whatever surrounds it; and that is what is
   encoded for the proxy. *)
Theorem C07_early_wins : forall pre e post,
  Forall (fun a => is_early a = false) pre -> is_early e = true ->
  fold_req (pre ++ e :: post) = e /\
  spoe_req (pre ++ e :: post) = encode_req e.
Proof.
  intros pre e post Hpre He.
  assert (E : fold_req (pre ++ e :: post) = e).
  { apply early_wins_from; [reflexivity|].
    apply first_early_split. exists pre, post. auto. }
  split; [exact E|]. unfold spoe_req. rewrite E. reflexivity.
Qed.
Print Assumptions C07_early_wins.

(* the same, through the search function *)
Theorem C07_early_wins_first : forall l e,
  first_early l = Some e -> fold_req l = e /\ is_early e = true /\ In e l.
Proof.
  intros l e H. split; [apply early_wins_from; [reflexivity|exact H]|].
  apply first_early_is_early. exact H.
Qed.
Print Assumptions C07_early_wins_first.

(* Without an early response the result is not an early response and its
   header edits are the union of all header edits, the later edit winning:
   per key, the value set by the last action of the sequence that sets it
   (none if no action sets it); the result is a proper map when the inputs are. *)
Theorem C07_headers_union : forall l,
  Forall (fun a => is_early a = false) l ->
  is_early (fold_req l) = false /\
  (forall k, lookup k (req_edits (fold_req l)) = last_edit k (map req_edits l)) /\
  (Forall (fun a => is_map (req_hdrs a)) l -> is_map (req_edits (fold_req l))).
Proof.
  intros l H. apply first_early_none in H.
  assert (N : is_early (fold_req l) = false) by (apply no_early_fold; [exact H|reflexivity]).
  split; [exact N|]. split.
  - intro k. unfold fold_req. rewrite edits_fold by (try exact H; reflexivity).
    rewrite lookup_fold_merge. apply last_edit_nil_head.
  - intro M. pose proof (fold_req_is_map_from l RNoOp M) as P.
    unfold fold_req in *. destruct (fold_left prio_req l RNoOp); simpl in *;
      try (apply P; constructor); try discriminate.
Qed.
Print Assumptions C07_headers_union.

(* "later edit wins", spelled out: the result sets k to v exactly when some
   action sets k to v and no later action of the sequence mentions k *)
Theorem C07_headers_later_wins : forall l k v,
  Forall (fun a => is_early a = false) l ->
  (lookup k (req_edits (fold_req l)) = Some v <->
   exists pre a post, l = pre ++ a :: post /\ lookup k (req_edits a) = Some v /\
                      Forall (fun a' => lookup k (req_edits a') = None) post).
Proof.
  intros l k v H. destruct (C07_headers_union l H) as [_ [U _]]. rewrite U.
  rewrite last_edit_some. split.
  - intros [hp [h [hq [E [L F]]]]].
    apply map_eq_app in E. destruct E as [pre [rest [E1 [E2 E3]]]].
    apply map_eq_cons in E3. destruct E3 as [a [post [E4 [E5 E6]]]].
    subst. exists pre, a, post. split; [reflexivity|]. split; [exact L|].
    rewrite Forall_map in F. exact F.
  - intros [pre [a [post [E [L F]]]]]. subst l.
    exists (map req_edits pre), (req_edits a), (map req_edits post).
    rewrite map_app. simpl. split; [reflexivity|]. split; [exact L|].
    rewrite Forall_map. exact F.
Qed.
Print Assumptions C07_headers_later_wins.

(* the union also as the literal left fold of MergeHeaders *)
Theorem C07_headers_fold : forall l,
  Forall (fun a => is_early a = false) l ->
  req_edits (fold_req l) = fold_left merge (map req_edits l) [].
Proof.
  intros l H. apply first_early_none in H. unfold fold_req.
  rewrite edits_fold by (try exact H; reflexivity). reflexivity.
Qed.
Print Assumptions C07_headers_fold.

(* The result is a no-op exactly when every action was a no-op ... *)
Theorem C07_noop_iff : forall l,
  fold_req l = RNoOp <-> Forall (fun a => a = RNoOp) l.
Proof.
  intro l. unfold fold_req. rewrite fold_req_noop_from. tauto.
Qed.
Print Assumptions C07_noop_iff.

(* ... so without an early response and with at least one action that is not a
   no-op the result is a request modification. *)
Theorem C07_modification : forall l,
  Forall (fun a => is_early a = false) l -> ~ Forall (fun a => a = RNoOp) l ->
  is_modification (fold_req l) = true.
Proof.
  intros l H N. destruct (C07_headers_union l H) as [E _].
  rewrite <- C07_noop_iff in N. destruct (fold_req l); try reflexivity;
    [contradiction N; reflexivity|discriminate].
Qed.
Print Assumptions C07_modification.

(* ------------------------------------------------------------------ response side *)

(* (1) a no-op anywhere in the sequence changes nothing, so it never displaces
       a modification or a retry; the result is a no-op iff all were;
   (2) the kind of the result is the kind of the last action that is not a no-op;
   (3) response modifications not separated by a retry merge their header
       edits, the later edit winning, whatever was accumulated before the run
       [pre]; body and status are those of the first modification of the run;
   (4) the same for retries. *)
Theorem C07_resp :
  (forall l1 l2, fold_resp (l1 ++ PNoOp :: l2) = fold_resp (l1 ++ l2)) /\
  (forall l, fold_resp l = fold_resp (filter (fun a => negb (is_resp_noop a)) l)) /\
  (forall l, fold_resp l = PNoOp <-> Forall (fun a => a = PNoOp) l) /\
  (forall l, resp_kind (fold_resp l) = last_kind l KNoOp) /\
  (forall pre run, Forall (fun a => is_retry a = false) run ->
     match fold_resp pre with
     | PModResp h b s =>
         exists h', fold_resp (pre ++ run) = PModResp h' b s /\
                    forall k, lookup k h' = last_edit k (h :: map resp_edits run)
     | _ =>
         forall b s, first_mod run = Some (b, s) ->
         exists h', fold_resp (pre ++ run) = PModResp h' b s /\
                    forall k, lookup k h' = last_edit k (map resp_edits run)
     end) /\
  (forall pre run, Forall (fun a => is_mod_resp a = false) run ->
     match fold_resp pre with
     | PRetry h =>
         exists h', fold_resp (pre ++ run) = PRetry h' /\
                    forall k, lookup k h' = last_edit k (h :: map resp_edits run)
     | _ =>
         has_retry run = true ->
         exists h', fold_resp (pre ++ run) = PRetry h' /\
                    forall k, lookup k h' = last_edit k (map resp_edits run)
     end).
Proof.
  split; [intros; apply fold_resp_drop_noop|].
  split; [intro; apply fold_resp_filter_from|].
  split; [intro l; unfold fold_resp; rewrite fold_resp_noop_from; tauto|].
  split; [intro l; apply fold_resp_kind_from|].
  split.
  - intros pre run H. unfold fold_resp. rewrite fold_left_app.
    destruct (fold_left prio_resp pre PNoOp) eqn:E.
    + intros b s F. apply mod_run_from_other; auto.
    + destruct (mod_run_from_mod run h body status H) as [h' [E1 E2]].
      exists h'. split; [exact E1|]. intro k. subst h'. apply lookup_fold_merge.
    + intros b s F. apply mod_run_from_other; auto.
  - intros pre run H. unfold fold_resp. rewrite fold_left_app.
    destruct (fold_left prio_resp pre PNoOp) eqn:E.
    + intro F. apply retry_run_from_other; auto.
    + intro F. apply retry_run_from_other; auto.
    + destruct (retry_run_from_retry run h H) as [h' [E1 E2]].
      exists h'. split; [exact E1|]. intro k. subst h'. apply lookup_fold_merge.
Qed.
Print Assumptions C07_resp.

(* the reading used by the monitor: a sequence without retries and with at
   least one modification yields a modification whose header edits are the
   later-wins union of all header edits (a proper map when the inputs are) *)
Theorem C07_resp_mods_merge : forall l b s,
  Forall (fun a => is_retry a = false) l -> first_mod l = Some (b, s) ->
  exists h, fold_resp l = PModResp h b s /\
            (forall k, lookup k h = last_edit k (map resp_edits l)) /\
            (Forall (fun a => is_map (resp_edits a)) l -> is_map h).
Proof.
  intros l b s H F.
  destruct C07_resp as [_ [_ [_ [_ [R _]]]]]. specialize (R [] l H). simpl in R.
  destruct (R b s F) as [h [E1 E2]]. exists h. split; [exact E1|]. split; [exact E2|].
  intro M. pose proof (fold_resp_is_map_from l PNoOp M) as P.
  unfold fold_resp in *. rewrite E1 in P. apply P. constructor.
Qed.
Print Assumptions C07_resp_mods_merge.

(* ------------------------------------------------------------------ encoding *)

(* The variables handed to the proxy carry exactly the resulting action: a
   reader that knows the variable names recovers kind, status, body,
   path/host/query and the header map (HeadersToRemove of a generated request
   is the one field that is not encoded).  Side condition (decidable,
   [hdrs_wfb]): no ':' or '\n' in a header name, no '\n' in a value; it is
   preserved by the combination, so it is asked of the inputs only.  Under it
   the header dump is injective. *)
Theorem C07_encoding :
  (forall l, Forall (fun a => hdrs_wf (req_hdrs a)) l ->
     decode_req (spoe_req l) = Some (erase_rm (fold_req l))) /\
  (forall l, Forall (fun a => hdrs_wf (resp_edits a)) l ->
     decode_resp (spoe_resp l) = Some (fold_resp l)) /\
  (forall h, hdrs_wf h -> parse_dump (dump h) = h) /\
  (forall h1 h2, hdrs_wf h1 -> hdrs_wf h2 -> dump h1 = dump h2 -> h1 = h2).
Proof.
  split.
  { intros l H. unfold spoe_req. apply decode_encode_req.
    apply fold_req_wf_from; [exact H|constructor]. }
  split.
  { intros l H. unfold spoe_resp. apply decode_encode_resp.
    apply fold_resp_wf_from; [exact H|constructor]. }
  split; [exact parse_dump_dump|exact dump_injective].
Qed.
Print Assumptions C07_encoding.

(* what is encoded, variable by variable, for the two kinds that carry a status *)
Theorem C07_encoding_fields : forall st body h,
  encode_req (REarly st body h) =
    [ (ScTxn, n_return_early_response, VBool true); (ScTxn, n_status_code, VInt st);
      (ScTxn, n_response_body, VBytes body); (ScTxn, n_response_headers, VStr (dump h)) ] /\
  encode_resp (PModResp h body st) =
    [ (ScRes, n_modify_response, VBool true); (ScRes, n_response_headers, VStr (dump h));
      (ScRes, n_response_body, VStr body); (ScRes, n_status_code, VInt st) ].
Proof. intros. split; reflexivity. Qed.
Print Assumptions C07_encoding_fields.

(* ------------------------------------------------------------------ sessions *)

(* Producers (processors, remedies, authentication plugins) keep objects across
   transactions: the store [st] gives the action value each producer stands for
   when the session starts, a transaction names the producers that fire.
   The combination is a function of the VALUES of one transaction's actions:
   it reads the producers and never writes them.  In this model that is true
   by construction (Gallina values cannot alias; [txn_req] returns the store
   it was given), so the two statements below are trivial.  They are stated
   because they are the specification the session suites (sess_req,
   sess_resp) check against the implementation, where it is NOT automatic: a
   fold that merges into a map it was handed (the accumulator is the first
   producer's own action) satisfies every statement above on fresh inputs and
   breaks this one. *)
Theorem C07_fold_is_a_function_of_values :
  (forall st st' ids, resolve_req st ids = resolve_req st' ids ->
     fst (txn_req st ids) = fst (txn_req st' ids)) /\
  (forall st ids, fst (txn_req st ids) = fold_req (resolve_req st ids) /\
                  snd (txn_req st ids) = st) /\
  (forall st st' ids, resolve_resp st ids = resolve_resp st' ids ->
     fst (txn_resp st ids) = fst (txn_resp st' ids)) /\
  (forall st ids, fst (txn_resp st ids) = fold_resp (resolve_resp st ids) /\
                  snd (txn_resp st ids) = st).
Proof.
  repeat split; intros; unfold txn_req, txn_resp; simpl; congruence.
Qed.
Print Assumptions C07_fold_is_a_function_of_values.

(* the result of the k-th transaction of any session is the fold of that
   transaction's action values as they were when the session started, whatever
   transactions came before (and after); the producers' values are unchanged
   at the end *)
Theorem C07_sessions_independent :
  (forall st pre t post,
     nth_error (fst (session_req st (pre ++ t :: post))) (length pre)
       = Some (fold_req (resolve_req st t)) /\
     snd (session_req st (pre ++ t :: post)) = st) /\
  (forall st pre t post,
     nth_error (fst (session_resp st (pre ++ t :: post))) (length pre)
       = Some (fold_resp (resolve_resp st t)) /\
     snd (session_resp st (pre ++ t :: post)) = st).
Proof.
  split; intros st pre t post.
  - rewrite session_req_spec. simpl. split; [|reflexivity].
    apply (nth_error_map_some _ _ (fun t0 => fold_req (resolve_req st t0))). rewrite nth_error_app2 by apply le_n.
    rewrite Nat.sub_diag. reflexivity.
  - rewrite session_resp_spec. simpl. split; [|reflexivity].
    apply (nth_error_map_some _ _ (fun t0 => fold_resp (resolve_resp st t0))). rewrite nth_error_app2 by apply le_n.
    rewrite Nat.sub_diag. reflexivity.
Qed.
Print Assumptions C07_sessions_independent.

(* Reuse of an action STRUCT (not only of its header map) across transactions:
   [session_req_ip] models the code as it is, where the accumulator of the fold
   is the first producer's struct and ModifyRequest x ModifyHeaders assigns its
   HeadersToSet.  (1) the result of a single fold is still the value-level
   fold; (2) a session in which no fold starts (no-ops dropped) with
   ModifyRequest, ModifyHeaders behaves as the value semantics: every result is
   the fold of the transaction's start values and the producers are unchanged.
   The side condition is decidable ([inplace_fires], what the harness counts as
   "struct-updated-in-place"); without it independence fails for a reused
   struct (example below).  No producer of the tree hands the same struct to
   two transactions, every construction site builds one per call; the response
   table has no such cell, there struct reuse is the value semantics.
   This statement is about the UNFIXED code (finding F-C07c; the side condition
   is that finding's classifier).  With patches/C07/fix-F-C07c.patch the cell
   builds a new action like the other eight merge cells, struct reuse is the
   value semantics of C07_sessions_independent for every session (producers
   repeated inside one transaction included - [session_req_ip] reads the values
   when a fold starts and is not a model of the unfixed code for a struct that
   occurs twice in ONE sequence), and that is what the suite sess_req checks;
   C07_struct_reuse_unfixed_refuted below is the refutation for this variant. *)
Theorem C07_struct_reuse_independent_outside_inplace :
  (forall st ids, fst (txn_req_ip st ids) = fold_req (resolve_req st ids)) /\
  (forall st ts,
     Forall (fun t => inplace_fires (resolve_req st t) = false) ts ->
     session_req_ip st ts = session_req st ts).
Proof.
  split; [exact txn_req_ip_result|].
  intros st ts F. apply session_req_ip_pure. exact F.
Qed.
Print Assumptions C07_struct_reuse_independent_outside_inplace.

(* ------------------------------------------------------------------ held encodings *)

(* The encoding handed out for a transaction is read when its ack frame is
   written, after other transactions (request or response side, any number,
   before and after it) were combined and encoded.  [held_read ts] = the
   encodings of the history [ts] as read once all of it was encoded.
   (1) whatever the history, the encoding of transaction [t] reads as
       [encode_held t] = the variables of the fold of t's own actions;
   (2) one encoding per transaction;
   (3)/(4) under the side condition of C07_encoding it still DENOTES t's
       combined action (kind, status, body, path/host/query, header map).
   In this model an encoding is a value, so (1) is true by construction; it is
   stated because it is the specification the suite "held" checks against the
   implementation, where it is not automatic: variables built over recycled
   storage satisfy every statement above (each reads its encoding at once) and
   break this one ([C07_held_pooled_variant_refuted] below). *)
Theorem C07_held_encodings_are_values :
  (forall pre t post,
     nth_error (held_read (pre ++ t :: post)) (length pre) = Some (encode_held t)) /\
  (forall ts, length (held_read ts) = length ts) /\
  (forall pre l post, Forall (fun a => hdrs_wf (req_hdrs a)) l ->
     exists vs, nth_error (held_read (pre ++ HReq l :: post)) (length pre) = Some vs /\
                decode_req vs = Some (erase_rm (fold_req l))) /\
  (forall pre l post, Forall (fun a => hdrs_wf (resp_edits a)) l ->
     exists vs, nth_error (held_read (pre ++ HResp l :: post)) (length pre) = Some vs /\
                decode_resp vs = Some (fold_resp l)).
Proof.
  split; [exact held_read_nth|]. split; [exact held_read_length|]. split.
  - intros pre l post W. exists (spoe_req l). split; [exact (held_read_nth pre (HReq l) post)|].
    exact (proj1 C07_encoding l W).
  - intros pre l post W. exists (spoe_resp l). split; [exact (held_read_nth pre (HResp l) post)|].
    exact (proj1 (proj2 C07_encoding) l W).
Qed.
Print Assumptions C07_held_encodings_are_values.

(* VARIANT (seeded change C07-8): the body bytes of an early response are a
   view of one recycled buffer.  A single transaction reads back what it wrote
   (why every check that looks at the variables at once passes) ... *)
Theorem C07_held_pooled_variant_invisible_at_once : forall t,
  held_read_pooled [t] = held_read [t].
Proof. exact held_pooled_single. Qed.
Print Assumptions C07_held_pooled_variant_invisible_at_once.

(* ... and the variant is not the value semantics: an early response held
   while a second one is encoded is sent with the second one's bytes *)
Theorem C07_held_pooled_variant_refuted :
  ~ (forall ts, held_read_pooled ts = held_read ts).
Proof.
  intro H.
  specialize (H [HReq [REarly 200 [97; 97; 97; 97] []]; HReq [RNoOp; REarly 429 [98; 98] []]]).
  vm_compute in H. discriminate.
Qed.
Print Assumptions C07_held_pooled_variant_refuted.

(* ------------------------------------------------------------------ header names *)

(* VARIANT (seeded change C07-7): ModifyResponse x ModifyResponse sets the
   body-describing headers back to the first modification's values.  The
   statements above are about ARBITRARY names; the variant violates
   C07_resp_mods_merge for the names content-type / content-length /
   content-encoding ... *)
Theorem C07_resp_pinned_variant_refuted :
  ~ (forall l b s,
       Forall (fun a => is_retry a = false) l -> first_mod l = Some (b, s) ->
       exists h, fold_resp_pinned l = PModResp h b s /\
                 forall k, lookup k h = last_edit k (map resp_edits l)).
Proof.
  intro H.
  specialize (H [PModResp [(n_content_type, [49])] [120] 200; PNoOp;
                 PModResp [(n_content_type, [50])] [] 500] [120] 200).
  destruct H as [h [E U]]; [repeat constructor|reflexivity|].
  vm_compute in E. inversion E; subst h. specialize (U n_content_type).
  vm_compute in U. discriminate.
Qed.
Print Assumptions C07_resp_pinned_variant_refuted.

(* ... and only for them: on sequences that never name one of the three
   (what a generator confined to abstract names produces) the variant IS the
   code, for every sequence - which is why the header pools of the harness
   carry the names that real processors and proxies treat specially *)
Theorem C07_resp_pinned_variant_same_on_other_names : forall l,
  Forall (fun a => no_body_bound (resp_edits a) = true) l ->
  fold_resp_pinned l = fold_resp l.
Proof.
  intros l F. unfold fold_resp_pinned, fold_resp.
  apply fold_resp_pinned_same_from; [reflexivity|exact F].
Qed.
Print Assumptions C07_resp_pinned_variant_same_on_other_names.

(* ------------------------------------------------------------------ non-vacuity *)

Definition kA : list Z := [97].            (* "a" *)
Definition kB : list Z := [98].            (* "b" *)
Definition v1 : list Z := [49].
Definition v2 : list Z := [50].
Definition v3 : list Z := [51].

(* modification, early 429, modification, early 503: the 429 is returned *)
Example C07_early_example :
  let l := [RModHeaders [(kA, v1)]; RNoOp; REarly 429 [120] [(kB, v2)];
            RGenRequest [(kA, v2)] [] [121]; REarly 503 [] []] in
  first_early l = Some (REarly 429 [120] [(kB, v2)]) /\
  fold_req l = REarly 429 [120] [(kB, v2)] /\
  decode_req (spoe_req l) = Some (REarly 429 [120] [(kB, v2)]).
Proof. vm_compute. auto. Qed.

(* conflicting edits of "a": the last one (v3) wins, "b" is kept *)
Example C07_union_example :
  let l := [RModHeaders [(kA, v1); (kB, v2)]; RNoOp;
            RModRequest [(kA, v2)] [104] [47; 112] [] []; RModHeaders [(kA, v3)]] in
  Forall (fun a => is_early a = false) l /\
  lookup kA (req_edits (fold_req l)) = Some v3 /\
  lookup kB (req_edits (fold_req l)) = Some v2 /\
  is_modification (fold_req l) = true /\
  fold_req [RNoOp; RNoOp] = RNoOp.
Proof. vm_compute. repeat split; try reflexivity; repeat constructor. Qed.

(* response side: no-ops around two modifications; the later edit of "a" wins,
   body and status are the first modification's; a retry in between resets *)
Example C07_resp_example :
  fold_resp [PNoOp; PModResp [(kA, v1); (kB, v1)] [120] 200; PNoOp;
             PModResp [(kA, v2)] [121] 500; PNoOp]
  = PModResp [(kB, v1); (kA, v2)] [120] 200 /\
  fold_resp [PModResp [(kA, v1)] [120] 200; PRetry [(kB, v1)]; PModResp [(kA, v2)] [121] 500]
  = PModResp [(kA, v2)] [121] 500 /\
  fold_resp [PRetry [(kA, v1)]; PNoOp] = PRetry [(kA, v1)].
Proof. vm_compute. auto. Qed.

(* the side condition of the dump is met by ordinary headers and is needed:
   ("a:b","c") and ("a","b:c") dump to the same bytes *)
Example C07_encoding_example :
  hdrs_wfb [(kA, v1); (kB, [104; 116; 116; 112; 58; 47; 47])] = true /\
  dump [] = [10] /\
  dump [(kA, v1); (kB, v2)] = [97; 58; 49; 10; 98; 58; 50; 10] /\
  dump [([97; 58; 98], [99])] = dump [([97], [98; 58; 99])].
Proof. vm_compute. auto. Qed.

(* a session over three producers: the auth producer (0) is combined with a
   per-request edit (1) in the first transaction and fires alone in the second:
   the second result carries the auth producer's own edits only *)
Example C07_session_example :
  let st := [RModRequest [(kA, v1); (kB, v1)] [] [] [] []; RModHeaders [(kB, v2)];
             RGenRequest [(kA, v3)] [kB] []] in
  session_req st [[0; 1]; [0]; [2; 0; 1]]%nat =
    ([RModRequest [(kA, v1); (kB, v2)] [] [] [] [];
      RModRequest [(kA, v1); (kB, v1)] [] [] [] [];
      RModRequest [(kA, v1); (kB, v2)] [] [] [] []], st) /\
  (* struct reuse: the side condition holds of [2;0;1] and [0], and the model
     of the code agrees with the value semantics there *)
  Forall (fun t => inplace_fires (resolve_req st t) = false) [[2; 0; 1]; [0]]%nat /\
  session_req_ip st [[2; 0; 1]; [0]]%nat = session_req st [[2; 0; 1]; [0]]%nat /\
  (* ... and it is needed: with the struct of producer 0 reused, [0;1] leaves
     its merged headers in that struct and the next transaction sends b=2 *)
  inplace_fires (resolve_req st [0; 1]%nat) = true /\
  session_req_ip st [[0; 1]; [0]]%nat =
    ([RModRequest [(kA, v1); (kB, v2)] [] [] [] [];
      RModRequest [(kA, v1); (kB, v2)] [] [] [] []],
     [RModRequest [(kA, v1); (kB, v2)] [] [] [] []; RModHeaders [(kB, v2)];
      RGenRequest [(kA, v3)] [kB] []]).
Proof. vm_compute. repeat split; try reflexivity; repeat constructor. Qed.

(* ================================================================== findings *)

Definition kXA : list Z := [88; 45; 65].     (* "X-A" *)
Definition kxa : list Z := [120; 45; 97].    (* "x-a" *)

(* ------------------------------------------------------------------ F-C07a
   "response modifications merge their header edits the same way": whenever
   the combined action is a response modification, its header edits are the
   later-wins union of the edits of ALL response modifications of the
   sequence.  The statement does not say which of modification / retry has
   priority, so nothing is demanded when the result is a retry. *)
Definition C07_resp_union_full : Prop :=
  forall l h b s, fold_resp l = PModResp h b s ->
  forall k, lookup k h = last_edit k (map mod_edits l).

(* The code violates it: ModifyResponse x Retry returns the retry and
   Retry x ModifyResponse returns the modification, nothing merged, so a
   modification before a retry is lost for a modification after it. *)
Theorem C07_resp_union_refuted :
  exists l h b s k,
    fold_resp l = PModResp h b s /\ retry_splits_mods l = true /\
    lookup k h <> last_edit k (map mod_edits l).
Proof.
  exists [PModResp [(kA, v1)] [120] 200; PRetry []; PModResp [(kB, v2)] [121] 500],
         [(kB, v2)], [121], 500, kA.
  vm_compute. repeat split; try reflexivity. discriminate.
Qed.
Print Assumptions C07_resp_union_refuted.

Theorem C07_resp_union_full_refuted : ~ C07_resp_union_full.
Proof.
  intro H. destruct C07_resp_union_refuted as [l [h [b [s [k [E [_ N]]]]]]].
  exact (N (H l h b s E k)).
Qed.
Print Assumptions C07_resp_union_full_refuted.

(* ... and holds for every sequence in which no response modification comes
   after a retry that comes after a response modification ([retry_splits_mods],
   decidable; the classifier of the monitor's signature
   resp-edits-dropped-at-retry:RespPrioritize).  Retries before the first
   modification or after the last one are inside. *)
Theorem C07_resp_union_holds_outside_F_C07a : forall l h b s,
  retry_splits_mods l = false -> fold_resp l = PModResp h b s ->
  (forall k, lookup k h = last_edit k (map mod_edits l)) /\
  (Forall (fun a => is_map (resp_edits a)) l -> is_map h).
Proof.
  intros l h b s S E. split; [exact (resp_union_outside l h b s S E)|].
  intro M. pose proof (fold_resp_is_map_from l PNoOp M) as P.
  unfold fold_resp in E. rewrite E in P. apply P. constructor.
Qed.
Print Assumptions C07_resp_union_holds_outside_F_C07a.

(* C07_resp_mods_merge with its premise "no retry at all" narrowed to the
   finding: outside F-C07a, a sequence whose last action that is not a no-op
   is a response modification yields a response modification carrying the
   later-wins union of all response modifications *)
Theorem C07_resp_mods_merge_outside_F_C07a : forall l,
  retry_splits_mods l = false -> last_kind l KNoOp = KMod ->
  exists h b s, fold_resp l = PModResp h b s /\
                (forall k, lookup k h = last_edit k (map mod_edits l)) /\
                (Forall (fun a => is_map (resp_edits a)) l -> is_map h).
Proof.
  intros l S K. destruct C07_resp as [_ [_ [_ [R _]]]]. specialize (R l). rewrite K in R.
  destruct (fold_resp l) as [|h b s|h] eqn:E; try discriminate.
  exists h, b, s. split; [reflexivity|]. exact (C07_resp_union_holds_outside_F_C07a l h b s S E).
Qed.
Print Assumptions C07_resp_mods_merge_outside_F_C07a.

(* what the code does inside the finding: after a retry only the
   modifications that follow it count, whatever was accumulated before *)
Theorem C07_resp_edits_dropped_at_retry : forall pre hr run b s,
  Forall (fun a => is_retry a = false) run -> first_mod run = Some (b, s) ->
  exists h', fold_resp (pre ++ PRetry hr :: run) = PModResp h' b s /\
             forall k, lookup k h' = last_edit k (map resp_edits run).
Proof.
  intros pre hr run b s H F.
  destruct C07_resp as [_ [_ [_ [_ [R _]]]]]. specialize (R (pre ++ [PRetry hr]) run H).
  rewrite <- app_assoc in R. simpl in R.
  assert (K : exists hx, fold_resp (pre ++ [PRetry hr]) = PRetry hx).
  { unfold fold_resp. rewrite fold_left_app. simpl.
    destruct (fold_left prio_resp pre PNoOp); simpl; eauto. }
  destruct K as [hx K]. rewrite K in R. exact (R b s F).
Qed.
Print Assumptions C07_resp_edits_dropped_at_retry.

(* ------------------------------------------------------------------ F-C07b
   HTTP header names are case-insensitive: an edit of "X-A" and an edit of
   "x-a" are edits of the same header and conflict.  Read per HEADER, the
   statement demands: when every action names a header at most once, so does
   the result, and per header the later edit wins. *)
Definition C07_headers_ci_full : Prop := forall l,
  Forall (fun a => is_early a = false) l ->
  Forall (fun a => ci_map (req_edits a)) l ->
  ci_map (req_edits (fold_req l)) /\
  forall k, lookup_ci k (req_edits (fold_req l)) = last_edit_ci k (map req_edits l).

(* The code (MergeHeaders over Go maps keyed by the exact spelling) keeps both
   spellings: both lines reach the proxy in map-iteration order and which one
   the proxy's case-insensitive set-header applies last is not determined. *)
Theorem C07_headers_ci_refuted :
  exists l, Forall (fun a => is_early a = false) l /\
            Forall (fun a => ci_map (req_edits a)) l /\
            case_clash (all_keys (map req_edits l)) = true /\
            lookup kXA (req_edits (fold_req l)) = Some v1 /\
            lookup kxa (req_edits (fold_req l)) = Some v2 /\
            ~ ci_map (req_edits (fold_req l)).
Proof.
  exists [RModHeaders [(kXA, v1)]; RModHeaders [(kxa, v2)]].
  split; [repeat constructor|]. split.
  { repeat constructor; simpl; tauto. }
  split; [reflexivity|]. split; [reflexivity|]. split; [reflexivity|].
  intro H. unfold ci_map in H. vm_compute in H.
  inversion H as [|x r Hn Hd]. apply Hn. left. reflexivity.
Qed.
Print Assumptions C07_headers_ci_refuted.

Theorem C07_headers_ci_full_refuted : ~ C07_headers_ci_full.
Proof.
  intro H. destruct C07_headers_ci_refuted as [l [E [M [_ [_ [_ N]]]]]].
  exact (N (proj1 (H l E M))).
Qed.
Print Assumptions C07_headers_ci_full_refuted.

(* ... and holds whenever no two names of the sequence differ only in case
   ([case_clash], decidable; the classifier of the monitor's signature
   case-variant-conflict:MergeHeaders): then the byte-exact union of
   C07_headers_union IS the union per header. *)
Theorem C07_headers_ci_holds_outside_F_C07b : forall l,
  Forall (fun a => is_early a = false) l ->
  case_clash (all_keys (map req_edits l)) = false ->
  (Forall (fun a => is_map (req_hdrs a)) l -> ci_map (req_edits (fold_req l))) /\
  forall k, lookup_ci k (req_edits (fold_req l)) = last_edit_ci k (map req_edits l).
Proof.
  intros l H C. destruct (C07_headers_union l H) as [_ [U M]].
  destruct (ci_from_exact _ _ U C) as [A B]. split; [|exact B].
  intro X. apply A. apply M. exact X.
Qed.
Print Assumptions C07_headers_ci_holds_outside_F_C07b.

(* the same on the response side (same MergeHeaders), outside both findings *)
Theorem C07_resp_ci_holds_outside_F_C07a_F_C07b : forall l h b s,
  retry_splits_mods l = false -> fold_resp l = PModResp h b s ->
  case_clash (all_keys (map mod_edits l)) = false ->
  (Forall (fun a => is_map (resp_edits a)) l -> ci_map h) /\
  forall k, lookup_ci k h = last_edit_ci k (map mod_edits l).
Proof.
  intros l h b s S E C.
  destruct (C07_resp_union_holds_outside_F_C07a l h b s S E) as [U M].
  destruct (ci_from_exact _ _ U C) as [A B]. split; [|exact B].
  intro X. apply A. apply M. exact X.
Qed.
Print Assumptions C07_resp_ci_holds_outside_F_C07a_F_C07b.

(* both side conditions are decidable properties of the names *)
Theorem C07_case_clash_decides : forall ks,
  case_clash ks = false <->
  (forall k k', In k ks -> In k' ks -> lower_str k = lower_str k' -> k = k').
Proof.
  intro ks. split; [exact (case_clash_false ks)|exact (noclash_case_clash ks)].
Qed.
Print Assumptions C07_case_clash_decides.

(* ------------------------------------------------------------------ F-C07c
   (repaired by patches/C07/fix-F-C07c.patch)  The unfixed code under struct
   reuse is NOT the value semantics: ModifyRequest x ModifyHeaders assigns the
   accumulated struct's HeadersToSet, and the accumulated struct is the first
   producer's own. *)
Theorem C07_struct_reuse_unfixed_refuted :
  ~ (forall st ts, session_req_ip st ts = session_req st ts).
Proof.
  intro H.
  specialize (H [RModRequest [(kA, v1); (kB, v1)] [] [] [] []; RModHeaders [(kB, v2)]]
                [[0; 1]; [0]]%nat).
  vm_compute in H. discriminate.
Qed.
Print Assumptions C07_struct_reuse_unfixed_refuted.

(* ------------------------------------------------------------------ side condition of C07_encoding *)

Theorem C07_hdrs_wf_decidable : forall h, hdrs_wfb h = true <-> hdrs_wf h.
Proof. intro h. split; [apply hdrs_wfb_ok|apply hdrs_wfb_complete]. Qed.
Print Assumptions C07_hdrs_wf_decidable.

(* ------------------------------------------------------------------ the proxy's reader
   (Consumer.v: hand model of lunar.lua parse_headers, not tied by execution;
   outside the property, which ends at the encoding handed to the proxy).
   Full statement: under the side condition of C07_encoding the proxy reads
   back the header map that was encoded. *)
Definition C07_lua_reader_full : Prop :=
  forall h, hdrs_wf h -> is_map h -> lua_parse_headers (dump h) = Some h.

(* false: the reader cuts a line at EVERY ':' and keeps the second piece (a
   URL, a time, "Bearer a:b" are truncated), and drops an empty value *)
Theorem C07_lua_reader_full_refuted : ~ C07_lua_reader_full.
Proof.
  intro H.
  specialize (H [(kA, [104; 116; 116; 112; 58; 47; 47; 104])]).   (* a: http://h *)
  assert (W : hdrs_wf [(kA, [104; 116; 116; 112; 58; 47; 47; 104])]).
  { apply hdrs_wfb_ok. reflexivity. }
  assert (M : is_map [(kA, [104; 116; 116; 112; 58; 47; 47; 104])]).
  { repeat constructor. simpl. tauto. }
  specialize (H W M). vm_compute in H. discriminate.
Qed.
Print Assumptions C07_lua_reader_full_refuted.

(* it reads back exactly the maps whose names and values are non-empty and
   contain neither ':' nor newline ([hdrs_lua_okb], decidable) *)
Theorem C07_lua_reader_holds_outside_colon_or_empty_value : forall h,
  hdrs_lua_okb h = true -> lua_parse_headers (dump h) = Some h.
Proof. intros h H. apply lua_reads_dump. apply hdrs_lua_okb_ok. exact H. Qed.
Print Assumptions C07_lua_reader_holds_outside_colon_or_empty_value.

(* ------------------------------------------------------------------ non-vacuity of the above *)

Example C07_findings_example :
  (* retries before the first and after the last modification are outside F-C07a *)
  retry_splits_mods [PRetry [(kA, v3)]; PModResp [(kA, v1)] [120] 200; PNoOp;
                     PModResp [(kB, v2)] [121] 500] = false /\
  fold_resp [PRetry [(kA, v3)]; PModResp [(kA, v1)] [120] 200; PNoOp;
             PModResp [(kB, v2)] [121] 500] = PModResp [(kA, v1); (kB, v2)] [120] 200 /\
  retry_splits_mods [PModResp [(kA, v1)] [120] 200; PRetry []] = false /\
  retry_splits_mods [PModResp [(kA, v1)] [120] 200; PNoOp; PRetry []; PRetry [];
                     PNoOp; PModResp [(kB, v2)] [121] 500] = true /\
  (* names in different spellings of DIFFERENT headers do not clash *)
  case_clash (all_keys [[(kXA, v1); (kB, v1)]; [(kXA, v2)]; [(kA, v3)]]) = false /\
  case_clash (all_keys [[(kXA, v1)]; [(kB, v1)]; [(kxa, v2)]]) = true /\
  lookup_ci kxa (req_edits (fold_req [RModHeaders [(kXA, v1); (kB, v1)];
                                      RModHeaders [(kXA, v2)]])) = Some v2 /\
  (* the proxy's reader: plain values are read back, a URL is cut, an empty
     value is dropped, a line of ':' only is a Lua error *)
  hdrs_lua_okb [(kA, v1); (kXA, [118; 32; 119])] = true /\
  lua_parse_headers (dump [(kA, [104; 116; 116; 112; 58; 47; 47; 104])])
    = Some [(kA, [104; 116; 116; 112])] /\
  lua_parse_headers (dump [(kA, []); (kB, v2)]) = Some [(kB, v2)] /\
  lua_parse_headers (dump [([], [])]) = None.
Proof. vm_compute. repeat split; reflexivity. Qed.

(* ------------------------------------------------------------------ held encodings, seeded variants *)

(* non-vacuity: a history of four transactions of both sides; the first early
   response is read back whatever follows; under the pooled variant it is not;
   the pinned variant differs from the code on content-type and agrees on "a" *)
Example C07_held_example :
  let e1 := REarly 200 [97; 97; 97; 97] [(kA, v1)] in
  let ts := [HReq [RModHeaders [(kB, v2)]; e1; REarly 503 [] []];
             HResp [PModResp [(kA, v1)] [120] 200];
             HReq [REarly 429 [98; 98] []];
             HReq [RModRequest [(kA, v2)] [] [47] [] [99; 99; 99]]] in
  nth_error (held_read ts) 0 = Some (encode_req e1) /\
  decode_req (nth 0 (held_read ts) []) = Some e1 /\
  nth_error (held_read_pooled ts) 0 = Some (encode_req (REarly 200 [98; 98; 97; 97] [(kA, v1)])) /\
  nth_error (held_read_pooled ts) 3 = nth_error (held_read ts) 3 /\
  fold_resp_pinned [PModResp [(n_content_type, v1); (kA, v1)] [120] 200;
                    PModResp [(n_content_type, v2); (kA, v2)] [] 500]
    = PModResp [(kA, v2); (n_content_type, v1)] [120] 200 /\
  fold_resp [PModResp [(n_content_type, v1); (kA, v1)] [120] 200;
             PModResp [(n_content_type, v2); (kA, v2)] [] 500]
    = PModResp [(n_content_type, v2); (kA, v2)] [120] 200 /\
  no_body_bound [(kA, v1); (kB, v2)] = true /\ no_body_bound [(n_content_type, v1)] = false.
Proof. vm_compute. repeat split; reflexivity. Qed.

(* ------------------------------------------------------------------ the bytes of a header dump *)

(* "The encoding carries exactly the headers", byte by byte and for EVERY header
   map (no side condition): the dump is the concatenation of
   name ':' value '\n'  over the entries ("\n" alone for the empty map), so it
   has exactly that many bytes and the text of every entry stands in it
   verbatim - whatever the bytes mean to a formatter ('%'), to the dump (':' in
   a value) or to nobody (tab, UTF-8 sequences).  Which maps can be READ BACK
   from it is C07_encoding's side condition (a newline in a value, a ':' or
   newline in a name are not representable). *)
Theorem C07_dump_bytes_exact : forall h,
  dump h = dump_lines h /\
  (h <> [] -> length (dump h) = total_len h) /\
  (forall kv, In kv h -> exists pre post, dump h = pre ++ (fst kv ++ 58 :: snd kv ++ [10]) ++ post).
Proof.
  intro h. split; [apply dump_is_lines|]. split; [apply dump_length|].
  exact (dump_contains_line h).
Qed.
Print Assumptions C07_dump_bytes_exact.

(* variant (seed C07-10): the header text handed to the formatter as its
   FORMAT.  On every header map without a '%' the variant IS the code (why
   pools of names / values without '%' cannot see it) ... *)
Theorem C07_dump_format_variant_same_without_percent : forall h,
  percent_freeb h = true -> dump_v DumpAsFormat h = dump_v DumpOperands h.
Proof. intros h H. apply dump_v_same. apply percent_freeb_spec. exact H. Qed.
Print Assumptions C07_dump_format_variant_same_without_percent.

(* ... and it violates the third conjunct of C07_encoding on a well-formed map:
   x-ratio: 100%  is not read back (the '%' swallows the line terminator),
   neither are  loc: /a%2Fb  and  p: 5%%  *)
Theorem C07_dump_format_variant_refuted :
  ~ (forall h, hdrs_wf h -> parse_dump (dump_v DumpAsFormat h) = h).
Proof.
  intro H. destruct dump_v_refuted as [W [_ [N _]]]. exact (N (H _ W)).
Qed.
Print Assumptions C07_dump_format_variant_refuted.

Example C07_dump_format_example :
  hdrs_wf w_ratio /\ hdrs_wf w_url /\
  percent_freeb w_ratio = false /\ percent_freeb [(kA, v1); (kB, [58; 9; 195; 169])] = true /\
  parse_dump (dump w_ratio) = w_ratio /\ parse_dump (dump w_url) = w_url /\
  (* x-ratio:100%!\n(MISSING) *)
  dump_v DumpAsFormat w_ratio
    = [120; 45; 114; 97; 116; 105; 111; 58; 49; 48; 48; 37; 33; 10; 40; 77; 73; 83; 83; 73; 78; 71; 41] /\
  (* loc:/a%!F(MISSING)b  and  p:5%  *)
  parse_dump (dump_v DumpAsFormat w_url)
    = [([108; 111; 99], [47; 97; 37; 33; 70; 40; 77; 73; 83; 83; 73; 78; 71; 41; 98]); ([112], [53; 37])].
Proof.
  destruct dump_v_refuted as [W1 [_ [_ [W2 _]]]].
  split; [exact W1|]. split; [exact W2|]. vm_compute. repeat split; reflexivity.
Qed.

(* ------------------------------------------------------------------ the log level *)

(* The level of the process logger is configuration (LOG_LEVEL; trace is
   legal).  On the encoding path (getSPOEReqActions / getSPOERespActions: fold,
   one trace line, encode) it is a field with NO effect: at every level and for
   every sequence the variables handed to the proxy are those of the fold's
   result, so everything C07_encoding says of them holds at every level. *)
Theorem C07_log_level_has_no_effect : forall lv,
  (forall l, spoe_req_at LogReadsOnly lv l = spoe_req l) /\
  (forall l, spoe_resp_at LogReadsOnly lv l = spoe_resp l) /\
  (forall l, Forall (fun a => hdrs_wf (req_hdrs a)) l ->
     decode_req (spoe_req_at LogReadsOnly lv l) = Some (erase_rm (fold_req l))) /\
  (forall l, Forall (fun a => hdrs_wf (resp_edits a)) l ->
     decode_resp (spoe_resp_at LogReadsOnly lv l) = Some (fold_resp l)) /\
  (forall k, run_req_lv (lv, k) = run_req k) /\
  (forall k, run_resp_lv (lv, k) = run_resp k).
Proof.
  intro lv. destruct C07_encoding as [Eq [Ep _]].
  split; [exact (spoe_req_at_head lv)|]. split; [exact (spoe_resp_at_head lv)|].
  split; [intros l H; rewrite spoe_req_at_head; exact (Eq l H)|].
  split; [intros l H; rewrite spoe_resp_at_head; exact (Ep l H)|].
  split; [exact (run_req_lv_is_run_req lv)|exact (run_resp_lv_is_run_resp lv)].
Qed.
Print Assumptions C07_log_level_has_no_effect.

(* variant (seed C07-12): rendering the trace line masks the credential headers
   in the prioritized action's own map.  Below trace the variant IS the code
   (why a harness run at one level - disabled, error - cannot see it) ... *)
Theorem C07_log_mask_variant_same_below_trace : forall lv,
  trace_enabled lv = false ->
  (forall l, spoe_req_at LogMasksInPlace lv l = spoe_req_at LogReadsOnly lv l) /\
  (forall l, spoe_resp_at LogMasksInPlace lv l = spoe_resp_at LogReadsOnly lv l).
Proof.
  intros lv H. split; intro l.
  - apply variant_same_below_trace_req; exact H.
  - apply variant_same_below_trace_resp; exact H.
Qed.
Print Assumptions C07_log_mask_variant_same_below_trace.

(* ... at EVERY level it is the code on every sequence none of whose actions
   names a header of the credential family (decidable cred_freeb; why pools
   without those names cannot see it at trace level either) ... *)
Theorem C07_log_mask_variant_same_without_credentials : forall lv,
  (forall l, forallb (fun a => cred_freeb (req_hdrs a)) l = true ->
     spoe_req_at LogMasksInPlace lv l = spoe_req_at LogReadsOnly lv l) /\
  (forall l, forallb (fun a => cred_freeb (resp_edits a)) l = true ->
     spoe_resp_at LogMasksInPlace lv l = spoe_resp_at LogReadsOnly lv l).
Proof.
  intro lv. split; intros l H.
  - apply variant_same_without_credentials_req. apply Forall_forall. intros a Ha.
    apply cred_freeb_spec. rewrite forallb_forall in H. exact (H a Ha).
  - apply variant_same_without_credentials_resp. apply Forall_forall. intros a Ha.
    apply cred_freeb_spec. rewrite forallb_forall in H. exact (H a Ha).
Qed.
Print Assumptions C07_log_mask_variant_same_without_credentials.

(* ... and at trace level it violates the first two conjuncts of C07_encoding
   (hence C07_log_level_has_no_effect) on well-formed inputs: merged request
   edits, the first early response, merged response edits. *)
Theorem C07_log_mask_variant_refuted :
  ~ (forall lv l, Forall (fun a => hdrs_wf (req_hdrs a)) l ->
       decode_req (spoe_req_at LogMasksInPlace lv l) = Some (erase_rm (fold_req l))) /\
  ~ (forall lv l, Forall (fun a => hdrs_wf (resp_edits a)) l ->
       decode_resp (spoe_resp_at LogMasksInPlace lv l) = Some (fold_resp l)).
Proof.
  destruct w_wf as [W1 [_ W3]]. destruct variant_refuted as [N1 [_ N3]].
  split; intro H; [exact (N1 (H LvTrace _ W1))|exact (N3 (H LvTrace _ W3))].
Qed.
Print Assumptions C07_log_mask_variant_refuted.

Example C07_log_level_example :
  (* HEAD: the witnesses are encoded the same at trace and at error level *)
  spoe_req_at LogReadsOnly LvTrace w_req = spoe_req_at LogReadsOnly LvError w_req /\
  decode_req (spoe_req_at LogReadsOnly LvTrace w_req)
    = Some (RModHeaders (w_auth ++ w_other)) /\
  (* the variant at trace level: Authorization:*****, at error level: the code *)
  decode_req (spoe_req_at LogMasksInPlace LvTrace w_req)
    = Some (RModHeaders ((fst (hd ([], []) w_auth), mask) :: w_other)) /\
  spoe_req_at LogMasksInPlace LvError w_req = spoe_req w_req /\
  (* the first early response is not sent unchanged *)
  decode_req (spoe_req_at LogMasksInPlace LvTrace w_early)
    = Some (REarly 200 [99] [(fst (hd ([], []) w_cookie), mask)]) /\
  fold_req w_early = REarly 200 [99] w_cookie /\
  (* names are compared case-insensitively; other names are untouched *)
  is_cred (fst (hd ([], []) w_Cookie)) = true /\ cred_freeb w_other = true /\ cred_freeb w_auth = false.
Proof. vm_compute. repeat split; reflexivity. Qed.
