(* C07 — held encodings, and the two variants of the code that were seeded into
   the tree and are kept here behind a variant switch (definitions only;
   lemmas are in HeldProofs.v, statements in Property.v).

   Held encodings.  What the combination hands back is not consumed at once:
   the SPOE worker runs the handler, later copies the actions into the ack
   frame and only then marshals it, one goroutine per frame.  A history is a
   list of transactions (request side or response side), each combined and
   encoded in turn; the worker keeps every encoding and reads it when its
   frame is written - here: after the whole history was encoded.

   Value semantics (what the property demands, and the code as it is): an
   encoding is a VALUE - the list of variables built for that transaction -
   so reading it later gives what was built.  [held_read] is therefore just a
   map; the statement C07_held_encodings_are_values is trivial in this model
   and is the specification of the suite "held", where it is not automatic for
   the implementation (variables built over recycled storage). *)
From Coq Require Import String Ascii.
From Coq Require Import List ZArith Bool.
From Verif Require Import C07.Model.
Import ListNotations.
Open Scope Z_scope.

Inductive held_in :=
| HReq (l : list req_action)
| HResp (l : list resp_action).

Definition encode_held (t : held_in) : list var :=
  match t with HReq l => spoe_req l | HResp l => spoe_resp l end.

(* the encodings of a history as the worker reads them once every
   transaction of the history has been encoded *)
Definition held_read (ts : list held_in) : list (list var) := map encode_held ts.

(* ------------------------------------------------------------------ correspondence
   A case: per transaction (inputs, variables read at once, variables read
   from the same object after all encodings of the case). *)
Definition case_held := list (held_in * list var * list var).

Definition held_ok (t : held_in * list var * list var) (m : list var) : bool :=
  vars_eqb m (snd (fst t)) && vars_eqb m (snd t).

Definition run_held (k : case_held) : option (list (list var)) :=
  let m := held_read (map (fun t => fst (fst t)) k) in
  if all2 held_ok k m then None else Some m.

(* ------------------------------------------------------------------ VARIANT (seed C07-8)
   EarlyResponseAction.ReqToSpoeActions takes the bytes of response_body from
   ONE recycled buffer (sync.Pool, put back when the function returns): the
   variable is a view (offset 0, its own length) of the buffer, and the next
   early response that is encoded overwrites the buffer from offset 0.
   [pool_after] = content of the buffer after a history; a held early response
   reads the first [length body] bytes of what the buffer holds THEN.
   (Capacity is not modelled: a body longer than the buffer makes the real
   pool allocate a new one; the variant is kept for the refutation only.) *)

Definition overwrite (new old : list Z) : list Z := new ++ skipn (length new) old.

Definition early_body (t : held_in) : option (list Z) :=
  match t with
  | HReq l => match fold_req l with REarly _ b _ => Some b | _ => None end
  | HResp _ => None
  end.

Definition pool_after (ts : list held_in) (buf : list Z) : list Z :=
  fold_left (fun b t => match early_body t with Some x => overwrite x b | None => b end) ts buf.

Definition encode_held_pooled (final : list Z) (t : held_in) : list var :=
  match t with
  | HReq l =>
      match fold_req l with
      | REarly s b h => encode_req (REarly s (firstn (length b) final) h)
      | a => encode_req a
      end
  | HResp l => spoe_resp l
  end.

Definition held_read_pooled (ts : list held_in) : list (list var) :=
  map (encode_held_pooled (pool_after ts [])) ts.

(* ------------------------------------------------------------------ VARIANT (seed C07-7)
   ModifyResponse x ModifyResponse: after the later-wins merge, the headers
   that describe a body (content-type, content-length, content-encoding, in
   lower case) are set back to the FIRST modification's values when it carries
   a body ("the merged action keeps the first body").  Every other cell as in
   [prio_resp]. *)

Definition n_content_type := Eval vm_compute in bytes_of "content-type".
Definition n_content_length := Eval vm_compute in bytes_of "content-length".
Definition n_content_encoding := Eval vm_compute in bytes_of "content-encoding".

Definition body_bound : list (list Z) := [n_content_type; n_content_length; n_content_encoding].

(* for name in bodyBoundHeaders: if first has it, merged[name] = first[name] *)
Definition pin (first merged : hdrs) : hdrs :=
  fold_left (fun m k => match lookup k first with Some v => merge m [(k, v)] | None => m end)
            body_bound merged.

Definition prio_resp_pinned (action other : resp_action) : resp_action :=
  match action, other with
  | PModResp h body status, PModResp h2 _ _ =>
      PModResp (if is_empty body then merge h h2 else pin h (merge h h2)) body status
  | _, _ => prio_resp action other
  end.

Definition fold_resp_pinned (l : list resp_action) : resp_action :=
  fold_left prio_resp_pinned l PNoOp.

(* no action of the sequence names a body-describing header (what a generator
   confined to abstract names produces) *)
Definition no_body_bound (h : hdrs) : bool :=
  forallb (fun k => negb (has_key k h)) body_bound.
