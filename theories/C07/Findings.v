(* C07 — lemmas for the statements about the findings F-C07a (response
   modifications separated by a retry), F-C07b (header names differing only in
   case) and for the decidability of the side conditions.  Final statements
   are in Property.v. *)
From Coq Require Import List ZArith Bool Lia.
From Verif Require Import C07.Model C07.Spec C07.Proofs.
Import ListNotations.
Open Scope Z_scope.

(* ------------------------------------------------------------------ F-C07a *)

(* what the scan state says about the accumulated action and about the
   modifications' edits seen so far ([hist], in order) *)
Definition rel (st : rstate) (acc : resp_action) (hist : list hdrs) : Prop :=
  match st with
  | SNone => is_mod_resp acc = false /\ forall k, last_edit k hist = None
  | SMod => exists h b s, acc = PModResp h b s /\ forall k, lookup k h = last_edit k hist
  | SLost => exists h, acc = PRetry h
  end.

Lemma last_edit_snoc : forall k hist h,
  last_edit k (hist ++ [h]) =
  match lookup k h with Some v => Some v | None => last_edit k hist end.
Proof.
  intros k hist h. rewrite last_edit_app. simpl. destruct (lookup k h); reflexivity.
Qed.

Lemma resp_union_from : forall l acc st hist,
  rel st acc hist -> retry_splits_from st l = false ->
  match fold_left prio_resp l acc with
  | PModResp h _ _ => forall k, lookup k h = last_edit k (hist ++ map mod_edits l)
  | _ => True
  end.
Proof.
  induction l as [|a l IH]; intros acc st hist R S.
  - simpl. rewrite app_nil_r. destruct acc as [|h b s|h]; auto.
    destruct st; unfold rel in R.
    + destruct R as [R _]. discriminate.
    + destruct R as [h' [b' [s' [E L]]]]. inversion E; subst. exact L.
    + destruct R as [h' E]. discriminate.
  - cbn [fold_left map].
    replace (hist ++ mod_edits a :: map mod_edits l)
      with ((hist ++ [mod_edits a]) ++ map mod_edits l)
      by (rewrite <- app_assoc; reflexivity).
    destruct a as [|h2 b2 s2|h2]; cbn [retry_splits_from] in S.
    + (* no-op *)
      rewrite prio_resp_noop_r. apply (IH acc st); [|exact S].
      destruct st; unfold rel in *.
      * destruct R as [R1 R2]. split; [exact R1|]. intro k.
        rewrite last_edit_snoc. simpl. apply R2.
      * destruct R as [h [b [s [E L]]]]. exists h, b, s. split; [exact E|]. intro k.
        rewrite last_edit_snoc. simpl. apply L.
      * exact R.
    + (* modification *)
      destruct st; unfold rel in R.
      * destruct R as [R1 R2].
        assert (E : prio_resp acc (PModResp h2 b2 s2) = PModResp h2 b2 s2)
          by (destruct acc; try discriminate; reflexivity).
        rewrite E. apply (IH _ SMod); [|exact S].
        unfold rel. exists h2, b2, s2. split; [reflexivity|]. intro k.
        rewrite last_edit_snoc. simpl. rewrite R2. destruct (lookup k h2); reflexivity.
      * destruct R as [h [b [s [E L]]]]. subst acc. apply (IH _ SMod); [|exact S].
        unfold rel. simpl. exists (merge h h2), b, s. split; [reflexivity|]. intro k.
        rewrite lookup_merge, last_edit_snoc. simpl. rewrite L. reflexivity.
      * discriminate.
    + (* retry *)
      destruct st; unfold rel in R.
      * destruct R as [R1 R2]. apply (IH _ SNone); [|exact S].
        unfold rel. split.
        -- destruct acc; try discriminate; reflexivity.
        -- intro k. rewrite last_edit_snoc. simpl. apply R2.
      * destruct R as [h [b [s [E L]]]]. subst acc. apply (IH _ SLost); [|exact S].
        unfold rel. simpl. exists h2. reflexivity.
      * destruct R as [h E]. subst acc. apply (IH _ SLost); [|exact S].
        unfold rel. simpl. exists (merge h h2). reflexivity.
Qed.

Lemma resp_union_outside : forall l h b s,
  retry_splits_mods l = false -> fold_resp l = PModResp h b s ->
  forall k, lookup k h = last_edit k (map mod_edits l).
Proof.
  intros l h b s S E k.
  assert (R : rel SNone PNoOp []) by (split; [reflexivity|intro; reflexivity]).
  pose proof (resp_union_from l PNoOp SNone [] R S) as P.
  unfold fold_resp in E. rewrite E in P. apply P.
Qed.

(* ------------------------------------------------------------------ F-C07b *)

Definition noclash (ks : list (list Z)) : Prop :=
  forall k k', In k ks -> In k' ks -> lower_str k = lower_str k' -> k = k'.

Lemma case_clash_false : forall ks, case_clash ks = false -> noclash ks.
Proof.
  intros ks H k k' Hk Hk' E. unfold case_clash in H.
  destruct (str_eqb k k') eqn:Ek; [apply str_eqb_eq; exact Ek|].
  exfalso.
  assert (T : existsb (fun k => existsb (fun k' => negb (str_eqb k k')
              && str_eqb (lower_str k) (lower_str k')) ks) ks = true).
  { apply existsb_exists. exists k. split; [exact Hk|].
    apply existsb_exists. exists k'. split; [exact Hk'|].
    rewrite Ek, E, str_eqb_refl. reflexivity. }
  congruence.
Qed.

Lemma case_clash_true : forall ks,
  case_clash ks = true ->
  exists k k', In k ks /\ In k' ks /\ k <> k' /\ lower_str k = lower_str k'.
Proof.
  intros ks H. unfold case_clash in H.
  apply existsb_exists in H. destruct H as [k [Hk H]].
  apply existsb_exists in H. destruct H as [k' [Hk' H]].
  apply andb_true_iff in H. destruct H as [H1 H2].
  apply negb_true_iff in H1. apply str_eqb_neq in H1. apply str_eqb_eq in H2.
  exists k, k'. auto.
Qed.

Lemma noclash_case_clash : forall ks, noclash ks -> case_clash ks = false.
Proof.
  intros ks N. destruct (case_clash ks) eqn:E; [|reflexivity].
  apply case_clash_true in E. destruct E as [k [k' [Hk [Hk' [D L]]]]].
  exfalso. apply D. apply N; assumption.
Qed.

Lemma lookup_canon_same : forall h k,
  (forall k', In k' (keys h) -> lower_str k' = lower_str k -> k' = k) ->
  lookup (lower_str k) (canon h) = lookup k h.
Proof.
  induction h as [|kv h IH]; intros k H; simpl; [reflexivity|].
  destruct (str_eqb k (fst kv)) eqn:E.
  - apply str_eqb_eq in E. subst k. rewrite str_eqb_refl. reflexivity.
  - destruct (str_eqb (lower_str k) (lower_str (fst kv))) eqn:E2.
    + apply str_eqb_eq in E2. apply str_eqb_neq in E. exfalso. apply E. symmetry.
      apply H; [left; reflexivity|auto].
    + apply IH. intros k' Hk'. apply H. right. exact Hk'.
Qed.

Lemma lookup_canon_none : forall h lk,
  (forall k', In k' (keys h) -> lower_str k' <> lk) -> lookup lk (canon h) = None.
Proof.
  induction h as [|kv h IH]; intros lk H; simpl; [reflexivity|].
  destruct (str_eqb lk (lower_str (fst kv))) eqn:E.
  - apply str_eqb_eq in E. exfalso. apply (H (fst kv)); [left; reflexivity|auto].
  - apply IH. intros k' Hk'. apply H. right. exact Hk'.
Qed.

Lemma in_all_keys : forall hs h k, In h hs -> In k (keys h) -> In k (all_keys hs).
Proof.
  intros hs h k H1 H2. unfold all_keys. apply in_flat_map. exists h. auto.
Qed.

Lemma last_edit_canon_same : forall hs k,
  (forall k', In k' (all_keys hs) -> lower_str k' = lower_str k -> k' = k) ->
  last_edit (lower_str k) (map canon hs) = last_edit k hs.
Proof.
  induction hs as [|h hs IH]; intros k H; simpl; [reflexivity|].
  rewrite IH.
  - rewrite lookup_canon_same; [reflexivity|].
    intros k' Hk'. apply H. unfold all_keys. simpl. apply in_or_app. left. exact Hk'.
  - intros k' Hk'. apply H. unfold all_keys. simpl. apply in_or_app. right. exact Hk'.
Qed.

Lemma last_edit_canon_none : forall hs lk,
  (forall k', In k' (all_keys hs) -> lower_str k' <> lk) ->
  last_edit lk (map canon hs) = None.
Proof.
  induction hs as [|h hs IH]; intros lk H; simpl; [reflexivity|].
  rewrite IH.
  - apply lookup_canon_none.
    intros k' Hk'. apply H. unfold all_keys. simpl. apply in_or_app. left. exact Hk'.
  - intros k' Hk'. apply H. unfold all_keys. simpl. apply in_or_app. right. exact Hk'.
Qed.

(* every name of a map that is the later-wins union of a sequence occurs in
   the sequence *)
Lemma keys_from_exact : forall h hs,
  (forall k, lookup k h = last_edit k hs) ->
  forall k, In k (keys h) -> In k (all_keys hs).
Proof.
  intros h hs X k Hk. apply lookup_in_keys in Hk. rewrite X in Hk.
  destruct (last_edit k hs) as [v|] eqn:E; [|congruence].
  apply last_edit_some in E. destruct E as [pre [h' [post [E1 [E2 _]]]]]. subst hs.
  apply (in_all_keys _ h'); [apply in_or_app; right; left; reflexivity|].
  apply lookup_in_keys. congruence.
Qed.

Lemma NoDup_map_inj_in : forall (A B : Type) (f : A -> B) (l : list A),
  (forall x y, In x l -> In y l -> f x = f y -> x = y) -> NoDup l -> NoDup (map f l).
Proof.
  intros A B f l. induction l as [|x l IH]; intros Inj N; simpl; [constructor|].
  inversion N as [|x' l' Hx Hl]; subst. constructor.
  - intro Hin. apply in_map_iff in Hin. destruct Hin as [y [E Hy]].
    assert (y = x) by (apply Inj; [right; exact Hy|left; reflexivity|exact E]).
    subst. contradiction.
  - apply IH; [|exact Hl]. intros a b Ha Hb. apply Inj; right; assumption.
Qed.

(* when no two names of the inputs differ only in case, the byte-exact
   later-wins union is the later-wins union per HEADER *)
Lemma ci_from_exact : forall h hs,
  (forall k, lookup k h = last_edit k hs) ->
  case_clash (all_keys hs) = false ->
  (is_map h -> ci_map h) /\ forall k, lookup_ci k h = last_edit_ci k hs.
Proof.
  intros h hs X C. apply case_clash_false in C.
  pose proof (keys_from_exact h hs X) as Sub.
  split.
  - intro M. unfold ci_map. apply NoDup_map_inj_in; [|exact M].
    intros x y Hx Hy. apply C; apply Sub; assumption.
  - intro k. unfold lookup_ci, last_edit_ci.
    destruct (find (fun k0 => str_eqb (lower_str k0) (lower_str k)) (all_keys hs))
      as [k0|] eqn:F.
    + apply find_some in F. destruct F as [F1 F2]. apply str_eqb_eq in F2.
      rewrite <- F2. rewrite lookup_canon_same.
      * rewrite last_edit_canon_same; [apply X|].
        intros k' Hk' E. apply C; assumption.
      * intros k' Hk' E. apply C; [apply Sub; exact Hk'|exact F1|exact E].
    + assert (N : forall k', In k' (all_keys hs) -> lower_str k' <> lower_str k).
      { intros k' Hk' E. pose proof (find_none _ _ F k' Hk') as Q. simpl in Q.
        rewrite E, str_eqb_refl in Q. discriminate. }
      rewrite lookup_canon_none by (intros k' Hk'; apply N; apply Sub; exact Hk').
      rewrite last_edit_canon_none by exact N. reflexivity.
Qed.

(* ------------------------------------------------------------------ side condition of the dump *)

Lemma hdrs_wfb_complete : forall h, hdrs_wf h -> hdrs_wfb h = true.
Proof.
  intros h H. unfold hdrs_wfb. apply forallb_forall. intros kv Hkv.
  unfold hdrs_wf in H. rewrite Forall_forall in H. destruct (H kv Hkv) as [A [B C]].
  assert (M : forall c s, ~ In c s -> negb (memZ c s) = true).
  { intros c s Hn. apply negb_true_iff. unfold memZ.
    destruct (existsb (Z.eqb c) s) eqn:E; [|reflexivity].
    apply existsb_exists in E. destruct E as [x [Hx Ex]]. apply Z.eqb_eq in Ex.
    subst. contradiction. }
  rewrite !M by assumption. reflexivity.
Qed.
