(* C07 — lemmas about the log level dimension and the seeded masking variant
   (Level.v).  Final statements are in Property.v. *)
From Coq Require Import String.
From Coq Require Import List ZArith Bool.
From Verif Require Import C07.Model C07.Spec C07.Proofs C07.Level.
Import ListNotations.
Open Scope Z_scope.

(* the names are the ones of the seeded list *)
Lemma cred_names_text :
  cred_names = List.map bytes_of
    ["authorization"%string; "proxy-authorization"%string; "x-api-key"%string;
     "cookie"%string; "set-cookie"%string].
Proof. vm_compute. reflexivity. Qed.

(* ------------------------------------------------------------------ HEAD: no effect *)

Lemma spoe_req_at_head : forall lv l, spoe_req_at LogReadsOnly lv l = spoe_req l.
Proof. reflexivity. Qed.

Lemma spoe_resp_at_head : forall lv l, spoe_resp_at LogReadsOnly lv l = spoe_resp l.
Proof. reflexivity. Qed.

Lemma run_req_lv_is_run_req : forall lv k, run_req_lv (lv, k) = run_req k.
Proof. intros lv [[l oa] ov]. reflexivity. Qed.

Lemma run_resp_lv_is_run_resp : forall lv k, run_resp_lv (lv, k) = run_resp k.
Proof. intros lv [[l oa] ov]. reflexivity. Qed.

(* ------------------------------------------------------------------ the variant *)

Lemma variant_same_below_trace_req : forall lv l,
  trace_enabled lv = false -> spoe_req_at LogMasksInPlace lv l = spoe_req l.
Proof. intros lv l H. unfold spoe_req_at, logged_req. rewrite H. reflexivity. Qed.

Lemma variant_same_below_trace_resp : forall lv l,
  trace_enabled lv = false -> spoe_resp_at LogMasksInPlace lv l = spoe_resp l.
Proof. intros lv l H. unfold spoe_resp_at, logged_resp. rewrite H. reflexivity. Qed.

Lemma cred_freeb_spec : forall h, cred_freeb h = true <-> cred_free h.
Proof.
  intro h. unfold cred_freeb, cred_free. rewrite forallb_forall, Forall_forall.
  split; intros H kv Hin; specialize (H kv Hin).
  - apply negb_true_iff in H. exact H.
  - apply negb_true_iff. exact H.
Qed.

Lemma mask_creds_free : forall h, cred_free h -> mask_creds h = h.
Proof.
  induction h as [|kv h IH]; intro H; [reflexivity|].
  inversion H as [|x y Hk Hr]; subst. cbn [mask_creds map].
  fold (mask_creds h). rewrite IH by exact Hr.
  unfold mask_entry. rewrite Hk. reflexivity.
Qed.

Lemma cred_free_merge : forall f s, cred_free f -> cred_free s -> cred_free (merge f s).
Proof.
  intros f s Hf Hs. unfold cred_free, merge in *. apply Forall_app. split; [|exact Hs].
  apply Forall_forall. intros kv Hkv. apply filter_In in Hkv.
  rewrite Forall_forall in Hf. apply Hf. tauto.
Qed.

Lemma fold_req_cred_free_from : forall l acc,
  Forall (fun a => cred_free (req_hdrs a)) l -> cred_free (req_hdrs acc) ->
  cred_free (req_hdrs (fold_left prio_req l acc)).
Proof.
  induction l as [|a l IH]; intros acc Hl Hacc; simpl; [exact Hacc|].
  inversion Hl as [|x y Ha Hl']; subst. apply IH; [exact Hl'|].
  destruct acc, a; simpl in *; try assumption; try (apply cred_free_merge; assumption).
Qed.

Lemma fold_resp_cred_free_from : forall l acc,
  Forall (fun a => cred_free (resp_edits a)) l -> cred_free (resp_edits acc) ->
  cred_free (resp_edits (fold_left prio_resp l acc)).
Proof.
  induction l as [|a l IH]; intros acc Hl Hacc; simpl; [exact Hacc|].
  inversion Hl as [|x y Ha Hl']; subst. apply IH; [exact Hl'|].
  destruct acc, a; simpl in *; try assumption; try (apply cred_free_merge; assumption).
Qed.

Lemma mask_req_free : forall a, cred_free (req_hdrs a) -> mask_req a = a.
Proof.
  intros a H. destruct a; simpl in *; try reflexivity; rewrite mask_creds_free by exact H; reflexivity.
Qed.

Lemma mask_resp_free : forall a, cred_free (resp_edits a) -> mask_resp a = a.
Proof.
  intros a H. destruct a; simpl in *; try reflexivity; rewrite mask_creds_free by exact H; reflexivity.
Qed.

Lemma variant_same_without_credentials_req : forall lv l,
  Forall (fun a => cred_free (req_hdrs a)) l -> spoe_req_at LogMasksInPlace lv l = spoe_req l.
Proof.
  intros lv l H. unfold spoe_req_at, logged_req, spoe_req.
  destruct (trace_enabled lv); [|reflexivity].
  rewrite mask_req_free; [reflexivity|].
  unfold fold_req. apply fold_req_cred_free_from; [exact H|constructor].
Qed.

Lemma variant_same_without_credentials_resp : forall lv l,
  Forall (fun a => cred_free (resp_edits a)) l -> spoe_resp_at LogMasksInPlace lv l = spoe_resp l.
Proof.
  intros lv l H. unfold spoe_resp_at, logged_resp, spoe_resp.
  destruct (trace_enabled lv); [|reflexivity].
  rewrite mask_resp_free; [reflexivity|].
  unfold fold_resp. apply fold_resp_cred_free_from; [exact H|constructor].
Qed.

(* witnesses: Authorization: Bearer t  merged with  x-lunar-a: 1 ;
   the first early response with  set-cookie: sid=1 ;  Set-Cookie on the
   response side *)
Definition w_auth : hdrs :=
  [([65; 117; 116; 104; 111; 114; 105; 122; 97; 116; 105; 111; 110], [66; 101; 97; 114; 101; 114; 32; 116])].
Definition w_other : hdrs := [([120; 45; 108; 117; 110; 97; 114; 45; 97], [49])].
Definition w_cookie : hdrs :=
  [([115; 101; 116; 45; 99; 111; 111; 107; 105; 101], [115; 105; 100; 61; 49])].
Definition w_Cookie : hdrs :=
  [([83; 101; 116; 45; 67; 111; 111; 107; 105; 101], [115; 105; 100; 61; 49])].

Definition w_req : list req_action := [RModHeaders w_auth; RNoOp; RModHeaders w_other].
Definition w_early : list req_action :=
  [RModHeaders w_other; REarly 200 [99] w_cookie; REarly 429 [108] []].
Definition w_resp : list resp_action :=
  [PModResp w_Cookie [98] 200; PNoOp; PModResp w_other [99] 201].

Lemma w_wf :
  Forall (fun a => hdrs_wf (req_hdrs a)) w_req /\
  Forall (fun a => hdrs_wf (req_hdrs a)) w_early /\
  Forall (fun a => hdrs_wf (resp_edits a)) w_resp.
Proof.
  assert (W : forall h, hdrs_wfb h = true -> hdrs_wf h) by exact hdrs_wfb_ok.
  unfold w_req, w_early, w_resp.
  repeat split; repeat (apply Forall_cons; [apply W; vm_compute; reflexivity|]); apply Forall_nil.
Qed.

Lemma variant_refuted :
  decode_req (spoe_req_at LogMasksInPlace LvTrace w_req) <> Some (erase_rm (fold_req w_req)) /\
  decode_req (spoe_req_at LogMasksInPlace LvTrace w_early) <> Some (erase_rm (fold_req w_early)) /\
  decode_resp (spoe_resp_at LogMasksInPlace LvTrace w_resp) <> Some (fold_resp w_resp).
Proof. repeat split; vm_compute; discriminate. Qed.
