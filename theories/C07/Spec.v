(* C07 — vocabulary of the statements (definitions only).
   These functions describe the demanded outcome directly from the input
   sequence, without going through the pairwise table or the fold. *)
From Coq Require Import String Ascii.
From Coq Require Import List ZArith Bool.
From Verif Require Import C07.Model.
Import ListNotations.
Open Scope Z_scope.

(* the first early response of a sequence, as it was produced *)
Fixpoint first_early (l : list req_action) : option req_action :=
  match l with
  | [] => None
  | a :: r => if is_early a then Some a else first_early r
  end.

(* later-wins union of a sequence of header-edit maps, per key: the value of
   [k] in the LAST map of the sequence that mentions [k] *)
Fixpoint last_edit (k : str) (hs : list hdrs) : option (list Z) :=
  match hs with
  | [] => None
  | h :: r => match last_edit k r with Some v => Some v | None => lookup k h end
  end.

(* ModifyHeaders / ModifyRequest / GenerateRequest *)
Definition is_modification (a : req_action) : bool :=
  match a with
  | RModHeaders _ | RModRequest _ _ _ _ _ | RGenRequest _ _ _ => true
  | _ => false
  end.

(* all headers an action carries (edits, or the early response's headers) *)
Definition req_hdrs (a : req_action) : hdrs :=
  match a with REarly _ _ h => h | _ => req_edits a end.

Definition keys (h : hdrs) : list (list Z) := map fst h.

(* a proper map: pairwise distinct keys (always true of a Go map) *)
Definition is_map (h : hdrs) : Prop := NoDup (keys h).

(* side condition of the dump: no ':' / '\n' in a name, no '\n' in a value *)
Definition hdrs_wf (h : hdrs) : Prop :=
  Forall (fun kv => ~ In 58 (fst kv) /\ ~ In 10 (fst kv) /\ ~ In 10 (snd kv)) h.

Definition memZ (c : Z) (s : str) : bool := existsb (Z.eqb c) s.
Definition hdrs_wfb (h : hdrs) : bool :=
  forallb (fun kv => negb (memZ 58 (fst kv)) && negb (memZ 10 (fst kv))
                     && negb (memZ 10 (snd kv))) h.

(* response side *)
Inductive rkind := KNoOp | KMod | KRetry.

Definition resp_kind (a : resp_action) : rkind :=
  match a with PNoOp => KNoOp | PModResp _ _ _ => KMod | PRetry _ => KRetry end.

(* kind of the last action that is not a no-op ([d] when there is none) *)
Fixpoint last_kind (l : list resp_action) (d : rkind) : rkind :=
  match l with
  | [] => d
  | a :: r => last_kind r (if is_resp_noop a then d else resp_kind a)
  end.

(* body and status of the first response modification *)
Fixpoint first_mod (l : list resp_action) : option (list Z * Z) :=
  match l with
  | [] => None
  | PModResp _ b s :: _ => Some (b, s)
  | _ :: r => first_mod r
  end.

Definition has_retry (l : list resp_action) : bool := existsb is_retry l.
Definition has_mod (l : list resp_action) : bool := existsb is_mod_resp l.

(* ------------------------------------------------------------------ findings
   Vocabulary of the statements about the two open findings (Property.v,
   section "findings"); lemmas are in Findings.v. *)

(* F-C07a.  The header edits a RESPONSE MODIFICATION asks for (a retry's
   headers are headers of the retried request, not edits of the response). *)
Definition mod_edits (a : resp_action) : hdrs :=
  match a with PModResp h _ _ => h | _ => [] end.

(* scan of a response sequence: no modification so far | a modification is
   accumulated | an accumulated modification was displaced by a retry *)
Inductive rstate := SNone | SMod | SLost.

(* some response modification comes after a retry that comes after a response
   modification (no-ops anywhere).  Exactly the classifier of the monitor
   (monitor.go retrySplitsMods). *)
Fixpoint retry_splits_from (st : rstate) (l : list resp_action) : bool :=
  match l with
  | [] => false
  | PNoOp :: r => retry_splits_from st r
  | PModResp _ _ _ :: r =>
      match st with SLost => true | _ => retry_splits_from SMod r end
  | PRetry _ :: r =>
      retry_splits_from (match st with SNone => SNone | _ => SLost end) r
  end.
Definition retry_splits_mods (l : list resp_action) : bool := retry_splits_from SNone l.

(* F-C07b.  HTTP header names are case-insensitive: "X-A" and "x-a" name the
   same header.  ASCII case folding of a name (header names are ASCII tokens). *)
Definition lower_byte (c : Z) : Z := if (65 <=? c) && (c <=? 90) then c + 32 else c.
Definition lower_str (s : str) : str := map lower_byte s.

(* a header map with every name folded *)
Definition canon (h : hdrs) : hdrs := map (fun kv => (lower_str (fst kv), snd kv)) h.

(* look-up by header (case-insensitive name) *)
Definition lookup_ci (k : str) (h : hdrs) : option (list Z) := lookup (lower_str k) (canon h).
Definition last_edit_ci (k : str) (hs : list hdrs) : option (list Z) :=
  last_edit (lower_str k) (map canon hs).

(* at most one entry per header (per case-folded name) *)
Definition ci_map (h : hdrs) : Prop := NoDup (map lower_str (keys h)).

(* every name occurring in a sequence of header maps *)
Definition all_keys (hs : list hdrs) : list (list Z) := flat_map keys hs.

(* two names of the list differ only in case.  Exactly the classifier of the
   monitor (monitor.go caseClash). *)
Definition case_clash (ks : list (list Z)) : bool :=
  existsb (fun k => existsb (fun k' => negb (str_eqb k k')
                                       && str_eqb (lower_str k) (lower_str k')) ks) ks.
