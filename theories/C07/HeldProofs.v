(* C07 — lemmas about held encodings and the seeded variants (Held.v).
   Final statements are in Property.v. *)
From Coq Require Import List ZArith Bool Lia.
From Verif Require Import C07.Model C07.Spec C07.Proofs C07.Held.
Import ListNotations.
Open Scope Z_scope.

(* ------------------------------------------------------------------ value semantics *)

Lemma held_read_nth : forall pre t post,
  nth_error (held_read (pre ++ t :: post)) (length pre) = Some (encode_held t).
Proof.
  intros pre t post. unfold held_read. rewrite map_app. simpl.
  rewrite nth_error_app2 by (rewrite map_length; apply le_n).
  rewrite map_length, Nat.sub_diag. reflexivity.
Qed.

Lemma held_read_length : forall ts, length (held_read ts) = length ts.
Proof. intro ts. unfold held_read. apply map_length. Qed.

(* ------------------------------------------------------------------ pooled variant *)

(* one transaction: the view still shows what was written *)
Lemma held_pooled_single : forall t, held_read_pooled [t] = held_read [t].
Proof.
  intros [l|l]; unfold held_read_pooled, held_read; simpl; [|reflexivity].
  unfold spoe_req. destruct (fold_req l) eqn:E; try reflexivity.
  unfold overwrite. rewrite skipn_nil, app_nil_r, firstn_all. reflexivity.
Qed.

(* ------------------------------------------------------------------ pinned variant *)

Lemma no_body_bound_spec : forall h,
  no_body_bound h = true <-> (forall k, In k body_bound -> lookup k h = None).
Proof.
  intro h. unfold no_body_bound. rewrite forallb_forall. split; intros H k I; specialize (H k I).
  - unfold has_key in H. destruct (lookup k h); [discriminate|reflexivity].
  - unfold has_key. rewrite H. reflexivity.
Qed.

Lemma pin_none : forall h m, no_body_bound h = true -> pin h m = m.
Proof.
  intros h m H0. pose proof (proj1 (no_body_bound_spec h) H0) as H. unfold pin.
  assert (G : forall ks m0, (forall k, In k ks -> lookup k h = None) ->
     fold_left (fun m1 k => match lookup k h with Some v => merge m1 [(k, v)] | None => m1 end)
               ks m0 = m0).
  { induction ks as [|k ks IH]; intros m0 F; simpl; [reflexivity|].
    rewrite (F k) by (left; reflexivity). apply IH. intros k' I. apply F. right. exact I. }
  apply G. exact H.
Qed.

Lemma no_body_bound_merge : forall f s,
  no_body_bound f = true -> no_body_bound s = true -> no_body_bound (merge f s) = true.
Proof.
  intros f s F S. apply no_body_bound_spec. intros k I.
  pose proof (proj1 (no_body_bound_spec f) F k I) as Hf.
  pose proof (proj1 (no_body_bound_spec s) S k I) as Hs.
  rewrite lookup_merge, Hs. exact Hf.
Qed.

Lemma prio_resp_pinned_same : forall a b,
  no_body_bound (resp_edits a) = true ->
  prio_resp_pinned a b = prio_resp a b.
Proof.
  intros a b H. destruct a as [|h body status|h], b as [|h2 body2 status2|h2]; simpl in *;
    try reflexivity.
  rewrite (pin_none h _ H). destruct (is_empty body); reflexivity.
Qed.

Lemma prio_resp_no_body_bound : forall a b,
  no_body_bound (resp_edits a) = true -> no_body_bound (resp_edits b) = true ->
  no_body_bound (resp_edits (prio_resp a b)) = true.
Proof.
  intros a b Ha Hb. destruct a as [|h body status|h], b as [|h2 body2 status2|h2]; simpl in *;
    try assumption; try reflexivity; apply no_body_bound_merge; assumption.
Qed.

Lemma fold_resp_pinned_same_from : forall l acc,
  no_body_bound (resp_edits acc) = true ->
  Forall (fun a => no_body_bound (resp_edits a) = true) l ->
  fold_left prio_resp_pinned l acc = fold_left prio_resp l acc.
Proof.
  induction l as [|a l IH]; intros acc Ha F; simpl; [reflexivity|].
  inversion F as [|x r Hx Hr]; subst.
  rewrite (prio_resp_pinned_same acc a Ha). apply IH; [|exact Hr].
  apply prio_resp_no_body_bound; assumption.
Qed.
