#!/bin/sh
# regenerates _CoqProject from the files present (cases are not part of it)
cd "$(dirname "$0")"
{ echo "-Q . Verif"; echo "-arg -w -arg -notation-overridden,-deprecated-hint-rewrite-without-locality,-deprecated-hint-without-locality,-deprecated-instance-without-locality"; find . -name '*.v' | sed 's|^\./||' | sort; } > _CoqProject
coq_makefile -f _CoqProject -o Makefile.coq >/dev/null
